import GtirbVerif.Lemmas.IRCfg
import GtirbVerif.Lemmas.IRSyms

/-!
# `join_blocks` leaves no edge on the absorbed block

After `join_blocks(block1, block2)` (code blocks) no edge of the CFG starts or ends at `block2`:
its in-edges are retargeted to `block1` (empty `block1`) or dropped (the fallthrough from
`block1`; everything else is refused by `are_joinable`), its out-edges leave from `block1` or,
for a dead empty `block2`, are dropped.
-/
namespace GtirbVerif.IR
open GtirbVerif.Adt (CfgNode Label Edge)

/-- dropping a list of edges one by one -/
theorem mem_foldl_discard (l : List Edge) (ir : IR) (e' : Edge) :
    e' ∈ (l.foldl (fun (ir : IR) e => { ir with cfg := cfgDiscard ir.cfg e }) ir).cfg ↔ e' ∈ ir.cfg ∧ e' ∉ l := by
  induction l generalizing ir with
  | nil => simp
  | cons e l ih =>
    simp only [List.foldl_cons]
    rw [ih]
    simp only [mem_cfgDiscard, List.mem_cons, not_or]
    constructor
    · rintro ⟨⟨h1, h2⟩, h3⟩; exact ⟨h1, h2, h3⟩
    · rintro ⟨h1, h2, h3⟩; exact ⟨⟨h1, h2⟩, h3⟩

theorem mem_inEdges (ir : IR) (b : Nat) (e : Edge) : e ∈ ir.inEdges b ↔ e ∈ ir.cfg ∧ e.dst = .block b := by
  unfold IR.inEdges; simp [List.mem_filter]

theorem mem_outEdges (ir : IR) (b : Nat) (e : Edge) : e ∈ ir.outEdges b ↔ e ∈ ir.cfg ∧ e.src = .block b := by
  unfold IR.outEdges; simp [List.mem_filter]

/-- **no edge is left on the absorbed block** -/
theorem joinCode_no_edge_on_block2 (ir : IR) (b1 : Block) (id2 s2 : Nat) (hne : b1.id ≠ id2) :
    ∀ e ∈ (ir.joinCode b1 id2 s2).cfg, e.src ≠ .block id2 ∧ e.dst ≠ .block id2 := by
  unfold IR.joinCode
  rw [removeFunctionBlock_cfg]
  -- the state after the fallthrough from block1 is gone
  generalize hi1 : ((ir.inEdges id2).foldl (fun (ir : IR) e =>
    if Edge.isFall e && e.src == .block b1.id then { ir with cfg := cfgDiscard ir.cfg e } else ir) ir) = i1
  -- after the in-edges: nothing ends at block2
  have h2 : ∀ e ∈ (if b1.size == 0 then
        (i1.inEdges id2).foldl (fun ir e => ir.updateEdge e (updDst e (.block b1.id))) i1
      else (i1.inEdges id2).foldl (fun (ir : IR) e => { ir with cfg := cfgDiscard ir.cfg e }) i1).cfg,
      e.dst ≠ .block id2 := by
    intro e he
    split at he
    · rw [foldl_updateEdge_cfg, mem_moveEdges] at he
      · rcases he with ⟨h1, h2⟩ | ⟨x, hx, rfl⟩
        · intro hd; exact h2 ((mem_inEdges i1 id2 e).mpr ⟨h1, hd⟩)
        · show (CfgNode.block b1.id) ≠ _
          intro hd; injection hd with hd; exact hne hd
      · intro x hx hfx
        have := ((mem_inEdges i1 id2 _).mp hfx).2
        have hd : (updDst x (.block b1.id)).dst = .block b1.id := rfl
        rw [hd] at this; injection this with this; exact hne this
    · rw [mem_foldl_discard] at he
      intro hd; exact he.2 ((mem_inEdges i1 id2 e).mpr ⟨he.1, hd⟩)
  generalize hi2 : (if b1.size == 0 then
        (i1.inEdges id2).foldl (fun ir e => ir.updateEdge e (updDst e (.block b1.id))) i1
      else (i1.inEdges id2).foldl (fun (ir : IR) e => { ir with cfg := cfgDiscard ir.cfg e }) i1) = i2 at h2
  intro e he
  split at he
  · rw [mem_foldl_discard] at he
    exact ⟨fun hs => he.2 ((mem_outEdges i2 id2 e).mpr ⟨he.1, hs⟩), h2 e he.1⟩
  · rw [foldl_updateEdge_cfg, mem_moveEdges] at he
    · rcases he with ⟨h1, h3⟩ | ⟨x, hx, rfl⟩
      · exact ⟨fun hs => h3 ((mem_outEdges i2 id2 e).mpr ⟨h1, hs⟩), h2 e h1⟩
      · refine ⟨?_, ?_⟩
        · show (CfgNode.block b1.id) ≠ _
          intro hd; injection hd with hd; exact hne hd
        · show x.dst ≠ _
          exact h2 x ((mem_outEdges i2 id2 x).mp hx).1
    · intro x hx hfx
      have := ((mem_outEdges i2 id2 _).mp hfx).2
      have hd : (updSrc x (.block b1.id)).src = .block b1.id := rfl
      rw [hd] at this; injection this with this; exact hne this

/-- `join_blocks` of two code blocks: afterwards no edge starts or ends at the absorbed block -/
theorem joinBlocks_no_edge_on_block2 {ir ir' : IR} {id1 id2 : Nat} {b1 b2 : Block}
    (h : ir.joinBlocks id1 id2 = .ok ir') (h1 : ir.block? id1 = some b1) (h2 : ir.block? id2 = some b2)
    (hne : id1 ≠ id2) (hcode : b2.isCode = true) :
    ∀ e ∈ ir'.cfg, e.src ≠ .block id2 ∧ e.dst ≠ .block id2 := by
  have e1 : b1.id = id1 := findB_id h1
  unfold IR.joinBlocks at h
  rw [h1, h2] at h
  simp only [] at h
  split at h
  · cases h
  · split at h
    · cases h
    · injection h with h
      subst h
      rw [hcode]
      simp only [if_true]
      show ∀ e ∈ ((ir.joinSyms b1 id2).joinCode b1 id2 b2.size).cfg, _
      exact joinCode_no_edge_on_block2 _ b1 id2 b2.size (by rw [e1]; exact hne)

/-! ### `remove_block` leaves no edge that ends at the removed block -/

/-- a property of all edges that every step of a fold preserves -/
theorem foldl_edges {α} (P : Edge → Prop) (f : IR → α → IR) (hf : ∀ ir a, (∀ e ∈ ir.cfg, P e) → ∀ e ∈ (f ir a).cfg, P e)
    (l : List α) (ir : IR) (h : ∀ e ∈ ir.cfg, P e) : ∀ e ∈ (l.foldl f ir).cfg, P e := by
  induction l generalizing ir with
  | nil => exact h
  | cons a l ih => simp only [List.foldl_cons]; exact ih (f ir a) (hf ir a h)

theorem foldl_pair_edges {α β} (P : Edge → Prop) (f : IR × β → α → IR × β)
    (hf : ∀ acc a, (∀ e ∈ acc.1.cfg, P e) → ∀ e ∈ (f acc a).1.cfg, P e)
    (l : List α) (acc : IR × β) (h : ∀ e ∈ acc.1.cfg, P e) : ∀ e ∈ (l.foldl f acc).1.cfg, P e := by
  induction l generalizing acc with
  | nil => exact h
  | cons a l ih => simp only [List.foldl_cons]; exact ih (f acc a) (hf acc a h)

/-- `remove_return_edges_from_callee` drops edges and adds edges to fresh proxies only -/
theorem removeReturnEdgesFromCallee_edges (P : Edge → Prop) (hP : ∀ e : Edge, (∃ p, e.dst = .proxy p) → P e)
    (ir : IR) (ce : Edge) (ft : List Nat) (h : ∀ e ∈ ir.cfg, P e) :
    ∀ e ∈ (ir.removeReturnEdgesFromCallee ce ft).cfg, P e := by
  unfold IR.removeReturnEdgesFromCallee
  split
  · exact h
  · split
    · exact h
    · apply foldl_edges P _ _ _ _ h
      intro x b hx
      simp only []
      split
      · exact hx
      · have hfold : ∀ (rets : List Edge) (acc : IR × Bool), (∀ e ∈ acc.1.cfg, P e) →
            ∀ e ∈ (rets.foldl (fun (acc : IR × Bool) e =>
              match e.dst with
              | .block t => if ft.contains t then ({ acc.1 with cfg := cfgDiscard acc.1.cfg e }, acc.2)
                            else (acc.1, true)
              | .proxy _ => (acc.1, true)) acc).1.cfg, P e := by
          intro rets acc hacc
          apply foldl_pair_edges P _ _ _ _ hacc
          intro acc e hacc' e' he'
          split at he'
          · split at he'
            · exact hacc' e' ((mem_cfgDiscard _ _ _).mp he').1
            · exact hacc' e' he'
          · exact hacc' e' he'
        split
        · exact hfold _ _ hx
        · intro e he
          rcases (mem_cfgAdd _ _ _).mp he with he | he
          · exact hfold _ _ hx e he
          · rw [he]; exact hP _ ⟨_, rfl⟩

theorem removeOutEdges_edges (P : Edge → Prop) (hP : ∀ e : Edge, (∃ p, e.dst = .proxy p) → P e)
    (ir : IR) (blk : Block) (h : ∀ e ∈ ir.cfg, P e) : ∀ e ∈ (ir.removeOutEdges blk).cfg, P e := by
  unfold IR.removeOutEdges
  split
  · exact h
  · apply foldl_edges P _ _ _ _ h
    intro x e hx e' he'
    simp only [] at he'
    have := (mem_cfgDiscard _ _ _).mp he'
    split at this
    · exact removeReturnEdgesFromCallee_edges P hP x e _ hx e' this.1
    · exact hx e' this.1

/-- after `_retarget_incoming_edges` no edge ends at the block (a code block), provided the next
block it may choose is another block -/
theorem removeInEdges_no_in_edge (ir : IR) (blk : Block) (proxy next : Option Nat) (nc : Bool)
    (hcode : blk.isCode = true) (hnext : proxy = none → nc = true → next.getD 0 ≠ blk.id) :
    ∀ e ∈ (ir.removeInEdges blk proxy next nc).cfg, e.dst ≠ .block blk.id := by
  unfold IR.removeInEdges
  split
  · rename_i hcond
    simp only [hcode, Bool.not_true, Bool.false_or] at hcond
    intro e he hd
    have hm : e ∈ ir.inEdges blk.id := (mem_inEdges ir blk.id e).mpr ⟨he, hd⟩
    have : ir.inEdges blk.id = [] := by simpa using hcond
    rw [this] at hm; cases hm
  · have hmove : ∀ (x : IR) (t : CfgNode), t ≠ .block blk.id → x.inEdges blk.id = x.inEdges blk.id →
        ∀ e ∈ ((x.inEdges blk.id).foldl (fun i e => i.updateEdge e (updDst e t)) x).cfg, e.dst ≠ .block blk.id := by
      intro x t ht _ e he
      rw [foldl_updateEdge_cfg, mem_moveEdges] at he
      · rcases he with ⟨h1, h2⟩ | ⟨y, hy, rfl⟩
        · intro hd; exact h2 ((mem_inEdges x blk.id e).mpr ⟨h1, hd⟩)
        · exact ht
      · intro y hy hfy
        have := ((mem_inEdges x blk.id _).mp hfy).2
        exact ht this
    split
    · rename_i p
      exact hmove ir (.proxy p) (by intro hh; cases hh) rfl
    · split
      · rename_i hnc
        exact hmove ir (.block (next.getD 0)) (by intro hh; injection hh with hh; exact hnext rfl hnc hh) rfl
      · simp only []
        have : ({ ir with next := ir.next + 1, proxies := ir.proxies ++ [ir.next] } : IR).inEdges blk.id = ir.inEdges blk.id := rfl
        exact hmove { ir with next := ir.next + 1, proxies := ir.proxies ++ [ir.next] } (.proxy ir.next) (by intro hh; cases hh) rfl

theorem removeFunctions_cfg (x : IR) (blk : Block) (n : Option Nat) (nc : Bool) : (x.removeFunctions blk n nc).cfg = x.cfg := by
  unfold IR.removeFunctions
  split
  · rfl
  · split
    · rfl
    · simp only []
      rw [removeFunctionBlock_cfg]
      split <;> rfl

theorem removeEntrypoints_cfg (x : IR) (blk : Block) (n : Option Nat) (nc : Bool) : (x.removeEntrypoints blk n nc).cfg = x.cfg := by
  unfold IR.removeEntrypoints
  simp only []
  split <;> split <;> split <;> split <;> rfl

theorem withProxy_cfg (x : IR) (t : Bool) : (x.withProxy t).cfg = x.cfg := by
  unfold IR.withProxy; split <;> rfl

/-- **`remove_block`, block removed: no edge ends at it any more** (`hnext`: the next block the
ordering names is another block - `Lemmas/IRSymClosed.lean` derives this from the ordering
invariant) -/
theorem removeBlock_no_in_edge {ir ir' : IR} {b : Nat} {px : Bool} {blk : Block}
    (h : ir.removeBlock b px = .ok (ir', true)) (hb : ir.block? b = some blk) (hcode : blk.isCode = true)
    (hnext : px = false → (ir.adjacent blk).2.getD 0 ≠ b) :
    ∀ e ∈ ir'.cfg, e.dst ≠ .block b := by
  have hid : blk.id = b := findB_id hb
  unfold IR.removeBlock at h
  rw [hb] at h
  simp only [] at h
  split at h
  · cases h
  · split at h
    · rename_i hcan
      injection h with h; injection h with h1 h2; subst h1
      show ∀ e ∈ (IR.removeStages _ _ _ _ _ _ _).cfg, _
      unfold IR.removeStages
      rw [hcan]
      simp only [if_true]
      show ∀ e ∈ (IR.removeOutEdges _ blk).cfg, _
      apply removeOutEdges_edges (fun e => e.dst ≠ .block b)
      · intro e ⟨p, hp⟩ hd; rw [hp] at hd; cases hd
      · rw [removeEntrypoints_cfg, removeFunctions_cfg]
        have := removeInEdges_no_in_edge ((ir.withProxy px).removeSyms blk.id
            (removeTarget (if px then some ir.next else none) (ir.adjacent blk).2 (ir.adjacent blk).1)) blk
          (if px then some ir.next else none) (ir.adjacent blk).2 ((ir.withProxy px).isCodeBlockId (ir.adjacent blk).2) hcode
          (by
            intro hp _
            have hpx : px = false := by
              cases px with
              | false => rfl
              | true => simp at hp
            rw [hid]; exact hnext hpx)
        intro e he
        have := this e he
        rw [hid] at this
        exact this
    · injection h with h; injection h with h1 h2; cases h2

/-! ### … and none that starts at it, for a block that does not both call and return -/

/-- no return edge leaves block `b` -/
def NoRet (cfg : List Edge) (b : Nat) : Prop := ∀ e ∈ cfg, e.src = .block b → Edge.isRet e = false

theorem mem_returnEdgesOf (ir : IR) (b : Nat) (e : Edge) :
    e ∈ ir.returnEdgesOf b ↔ e ∈ ir.cfg ∧ Edge.isRet e = true ∧ e.src = .block b := by
  unfold IR.returnEdgesOf; simp [List.mem_filter]

/-- `remove_return_edges_from_callee` gives a block that has no return edge no new out-edge -/
theorem removeReturnEdgesFromCallee_src (ir : IR) (ce : Edge) (ft : List Nat) (b : Nat) (hnr : NoRet ir.cfg b) :
    ∀ e ∈ (ir.removeReturnEdgesFromCallee ce ft).cfg, e.src = .block b → e ∈ ir.cfg := by
  unfold IR.removeReturnEdgesFromCallee
  split
  · exact fun e he _ => he
  · split
    · exact fun e he _ => he
    · -- the fold over the callee's blocks keeps: every out-edge of `b` is an old one
      have key : ∀ (l : List Nat) (x : IR), (∀ e ∈ x.cfg, e.src = .block b → e ∈ ir.cfg) →
          ∀ e ∈ (l.foldl (fun ir fb =>
            let rets := ir.returnEdgesOf fb
            if rets.isEmpty then ir
            else
              let (ir', remaining) := rets.foldl (fun (acc : IR × Bool) e =>
                match e.dst with
                | .block t => if ft.contains t then ({ acc.1 with cfg := cfgDiscard acc.1.cfg e }, acc.2)
                              else (acc.1, true)
                | .proxy _ => (acc.1, true)) (ir, false)
              if remaining then ir'
              else
                let p := ir'.next
                { ir' with next := p + 1, proxies := ir'.proxies ++ [p],
                           cfg := cfgAdd ir'.cfg { src := .block fb, dst := .proxy p, label := retLabel } }) x).cfg,
            e.src = .block b → e ∈ ir.cfg := by
        intro l
        induction l with
        | nil => intro x hx; exact hx
        | cons fb l ih =>
          intro x hx
          simp only [List.foldl_cons]
          apply ih
          split
          · exact hx
          · rename_i hne
            have hfold : ∀ (rets : List Edge) (acc : IR × Bool), (∀ e ∈ acc.1.cfg, e.src = .block b → e ∈ ir.cfg) →
                ∀ e ∈ (rets.foldl (fun (acc : IR × Bool) e =>
                  match e.dst with
                  | .block t => if ft.contains t then ({ acc.1 with cfg := cfgDiscard acc.1.cfg e }, acc.2)
                                else (acc.1, true)
                  | .proxy _ => (acc.1, true)) acc).1.cfg, e.src = .block b → e ∈ ir.cfg := by
              intro rets acc hacc
              apply foldl_pair_edges (fun e => e.src = .block b → e ∈ ir.cfg) _ _ _ _ hacc
              intro acc e hacc' e' he'
              split at he'
              · split at he'
                · exact hacc' e' ((mem_cfgDiscard _ _ _).mp he').1
                · exact hacc' e' he'
              · exact hacc' e' he'
            split
            · exact hfold _ _ hx
            · intro e he hs
              rcases (mem_cfgAdd _ _ _).mp he with he | he
              · exact hfold _ _ hx e he hs
              · -- the new edge leaves a block that has return edges: not `b`
                exfalso
                rw [he] at hs
                simp only [CfgNode.block.injEq] at hs
                subst hs
                have : x.returnEdgesOf fb ≠ [] := by
                  intro hh; apply hne; rw [hh]; rfl
                obtain ⟨e0, he0⟩ := List.exists_mem_of_ne_nil _ this
                obtain ⟨h1, h2, h3⟩ := (mem_returnEdgesOf x fb e0).mp he0
                have := hnr e0 (hx e0 h1 h3) h3
                rw [this] at h2; cases h2
      exact key _ ir (fun e he _ => he)

/-- **after `_remove_outgoing_edges` no edge starts at the block**, when no return edge left it -/
theorem removeOutEdges_no_out_edge (ir : IR) (blk : Block) (hcode : blk.isCode = true) (hnr : NoRet ir.cfg blk.id) :
    ∀ e ∈ (ir.removeOutEdges blk).cfg, e.src ≠ .block blk.id := by
  unfold IR.removeOutEdges
  rw [hcode]
  simp only [Bool.not_true, Bool.false_eq_true, if_false]
  have key : ∀ (ft : List Nat) (l : List Edge) (x : IR), (∀ e ∈ x.cfg, e.src = .block blk.id → e ∈ l ∧ e ∈ ir.cfg) →
      ∀ e ∈ (l.foldl (fun ir e =>
        let i := if Edge.isCall e then ir.removeReturnEdgesFromCallee e ft else ir
        { i with cfg := cfgDiscard i.cfg e }) x).cfg, e.src ≠ .block blk.id := by
    intro ft l
    induction l with
    | nil => intro x hx e he hs; exact absurd (hx e he hs).1 (by simp)
    | cons a l ih =>
      intro x hx
      simp only [List.foldl_cons]
      apply ih
      intro e he hs
      have he' := (mem_cfgDiscard _ _ _).mp he
      have hex : e ∈ x.cfg := by
        split at he'
        · have hnrx : NoRet x.cfg blk.id := fun e0 h0 hs0 => hnr e0 (hx e0 h0 hs0).2 hs0
          exact removeReturnEdgesFromCallee_src x a _ blk.id hnrx e he'.1 hs
        · exact he'.1
      obtain ⟨h1, h2⟩ := hx e hex hs
      refine ⟨?_, h2⟩
      rcases List.mem_cons.mp h1 with h1 | h1
      · exact absurd h1 he'.2
      · exact h1
  apply key (ir.fallTargets blk.id)
  intro e he hs
  exact ⟨(mem_outEdges ir blk.id e).mpr ⟨he, hs⟩, he⟩

/-- `_retarget_incoming_edges` changes targets only: every edge afterwards is an old edge or an old
edge with another target -/
theorem removeInEdges_edges (ir : IR) (blk : Block) (proxy next : Option Nat) (nc : Bool) :
    ∀ e' ∈ (ir.removeInEdges blk proxy next nc).cfg, e' ∈ ir.cfg ∨ ∃ e ∈ ir.cfg, ∃ t, e' = updDst e t := by
  unfold IR.removeInEdges
  split
  · exact fun e' h => Or.inl h
  · have hmove : ∀ (x : IR) (t : CfgNode) (l : List Edge), (∀ e ∈ l, e ∈ x.cfg) →
        ∀ e' ∈ (l.foldl (fun i e => i.updateEdge e (updDst e t)) x).cfg, e' ∈ x.cfg ∨ ∃ e ∈ x.cfg, ∃ t, e' = updDst e t := by
      intro x t l
      induction l generalizing x with
      | nil => intro _ e' h; exact Or.inl h
      | cons a l ih =>
        intro hl e' he'
        simp only [List.foldl_cons] at he'
        -- one step: an edge of `x.updateEdge a (updDst a t)` is an edge of `x` or the retargeted `a`
        have hstep : ∀ e ∈ (x.updateEdge a (updDst a t)).cfg, e ∈ x.cfg ∨ e = updDst a t := by
          intro e he
          rcases (mem_cfgAdd _ _ _).mp he with h | h
          · exact Or.inl ((mem_cfgDiscard _ _ _).mp h).1
          · exact Or.inr h
        have hl' : ∀ e ∈ l, e ∈ (x.updateEdge a (updDst a t)).cfg ∨ e ∈ x.cfg := fun e he => Or.inr (hl e (List.mem_cons_of_mem _ he))
        -- generalise the induction a little: the snapshot stays a list of old edges
        have gen : ∀ (l : List Edge) (y : IR), (∀ e ∈ y.cfg, e ∈ x.cfg ∨ ∃ e0 ∈ x.cfg, ∃ t, e = updDst e0 t) →
            (∀ e ∈ l, e ∈ x.cfg) →
            ∀ e' ∈ (l.foldl (fun i e => i.updateEdge e (updDst e t)) y).cfg, e' ∈ x.cfg ∨ ∃ e0 ∈ x.cfg, ∃ t, e' = updDst e0 t := by
          intro l
          induction l with
          | nil => intro y hy _ e' h; exact hy e' h
          | cons c l ih2 =>
            intro y hy hlc e' he'
            simp only [List.foldl_cons] at he'
            apply ih2 _ _ (fun e he => hlc e (List.mem_cons_of_mem _ he)) e' he'
            intro e he
            rcases (mem_cfgAdd _ _ _).mp he with h | h
            · exact hy e ((mem_cfgDiscard _ _ _).mp h).1
            · exact Or.inr ⟨c, hlc c List.mem_cons_self, t, h⟩
        apply gen l _ _ (fun e he => hl e (List.mem_cons_of_mem _ he)) e' he'
        intro e he
        rcases hstep e he with h | h
        · exact Or.inl h
        · exact Or.inr ⟨a, hl a List.mem_cons_self, t, h⟩
    split
    · exact hmove ir _ _ (fun e he => ((mem_inEdges ir blk.id e).mp he).1)
    · split
      · exact hmove ir _ _ (fun e he => ((mem_inEdges ir blk.id e).mp he).1)
      · simp only []
        exact hmove { ir with next := ir.next + 1, proxies := ir.proxies ++ [ir.next] } _ _
          (fun e he => ((mem_inEdges _ blk.id e).mp he).1)

/-- **`remove_block`, block removed: no edge starts at it any more**, for a code block that no return
edge leaves (a block that both calls and returns for the callee's function is the one case in which
the code, like the model, adds a return edge behind its own back) -/
theorem removeBlock_no_out_edge {ir ir' : IR} {b : Nat} {px : Bool} {blk : Block}
    (h : ir.removeBlock b px = .ok (ir', true)) (hb : ir.block? b = some blk) (hcode : blk.isCode = true)
    (hnr : NoRet ir.cfg b) : ∀ e ∈ ir'.cfg, e.src ≠ .block b := by
  have hid : blk.id = b := findB_id hb
  unfold IR.removeBlock at h
  rw [hb] at h
  simp only [] at h
  split at h
  · cases h
  · split at h
    · rename_i hcan
      injection h with h; injection h with h1 h2; subst h1
      show ∀ e ∈ (IR.removeStages _ _ _ _ _ _ _).cfg, _
      unfold IR.removeStages
      rw [hcan]
      simp only [if_true]
      show ∀ e ∈ (IR.removeOutEdges _ blk).cfg, _
      rw [← hid]
      apply removeOutEdges_no_out_edge _ blk hcode
      intro e he hs
      rw [removeEntrypoints_cfg, removeFunctions_cfg] at he
      rcases removeInEdges_edges _ blk _ _ _ e he with h0 | ⟨e0, h0, t, rfl⟩
      · exact hnr e (by rw [← withProxy_cfg ir px]; exact h0) (by rw [← hid]; exact hs)
      · exact hnr e0 (by rw [← withProxy_cfg ir px]; exact h0) (by rw [← hid]; exact hs)
    · injection h with h; injection h with h1 h2; cases h2

end GtirbVerif.IR
