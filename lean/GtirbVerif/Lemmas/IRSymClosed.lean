import GtirbVerif.Lemmas.IRMirror

/-!
# No symbol is left on a block that left the module — over whole rewrites

`SInv`: every symbol that refers to a block refers to a block that is attached to a byte interval
of the module, and the block ordering (the cache `adjacent_blocks` answers from) lists only
attached blocks of the right section, each once.  The second half is what makes the first one
an invariant: `remove_block` hands the symbols of a removed block to the neighbour the
ordering names.

The invariant is shown for `split_block`, `join_blocks`, `remove_block`,
`_cleanup_modified_blocks`, `delete`, `insert` (patches with any number of extra sections), the
loop of `_apply_modifications` and `apply()`'s loop over all blocks.
-/
namespace GtirbVerif.IR
open GtirbVerif.Adt (CfgNode Label Edge)

/-! ### which steps touch the block ordering -/

/-- folding steps that each preserve the block ordering preserves them -/
theorem foldl_order {α} (f : IR → α → IR) (h : ∀ ir a, (f ir a).order = ir.order)
    (l : List α) (ir : IR) : (l.foldl f ir).order = ir.order := by
  induction l generalizing ir with
  | nil => rfl
  | cons a l ih => simp only [List.foldl_cons]; rw [ih, h]

theorem ite_order {c : Prop} [Decidable c] {a b : IR} {x : List (Nat × List (List Nat))}
    (ha : a.order = x) (hb : b.order = x) : (if c then a else b).order = x := by
  split <;> assumption

@[simp] theorem setBlock_order (ir : IR) (b : Block) : (ir.setBlock b).order = ir.order := rfl
@[simp] theorem updateEdge_order (ir : IR) (e e' : Edge) : (ir.updateEdge e e').order = ir.order := rfl
@[simp] theorem addFunctionBlock_order (ir : IR) (b f : Nat) : (ir.addFunctionBlock b f).order = ir.order := rfl
@[simp] theorem removeFunctionBlock_order (ir : IR) (b : Nat) :
    (ir.removeFunctionBlock b).order = ir.order := by
  unfold IR.removeFunctionBlock
  split
  · rfl
  · exact ite_order rfl rfl

@[simp] theorem moveReturnEdges_order (ir : IR) (ce : Edge) (ft : List Nat) (nf : Nat) :
    (ir.moveReturnEdges ce ft nf).order = ir.order := by
  unfold IR.moveReturnEdges
  split
  · rfl
  · split
    · rfl
    · apply foldl_order
      intro ir tb
      apply foldl_order
      intro ir e
      split
      · split <;> simp
      · rfl

@[simp] theorem updateFallthrough_order (ir : IR) (s t : Nat) :
    (ir.updateFallthrough s t).order = ir.order := by
  unfold IR.updateFallthrough
  simp only []
  apply foldl_order
  intro ir e
  split
  · simp
  · split <;> rfl

/-- pair-valued fold whose IR component keeps the block ordering -/
theorem foldl_pair_order {α β} (f : IR × β → α → IR × β)
    (h : ∀ acc a, (f acc a).1.order = acc.1.order)
    (l : List α) (acc : IR × β) : (l.foldl f acc).1.order = acc.1.order := by
  induction l generalizing acc with
  | nil => rfl
  | cons a l ih => simp only [List.foldl_cons]; rw [ih, h]

@[simp] theorem removeReturnEdgesFromCallee_order (ir : IR) (ce : Edge) (ft : List Nat) :
    (ir.removeReturnEdgesFromCallee ce ft).order = ir.order := by
  unfold IR.removeReturnEdgesFromCallee
  split
  · rfl
  · split
    · rfl
    · apply foldl_order
      intro ir b
      simp only []
      split
      · rfl
      · have hfold : ∀ (rets : List Edge) (acc : IR × Bool),
            (rets.foldl (fun (acc : IR × Bool) e =>
              match e.dst with
              | .block t => if ft.contains t then ({ acc.1 with cfg := cfgDiscard acc.1.cfg e }, acc.2)
                            else (acc.1, true)
              | .proxy _ => (acc.1, true)) acc).1.order = acc.1.order := by
          intro rets acc
          apply foldl_pair_order
          intro acc e
          split
          · split <;> rfl
          · rfl
        split
        · exact hfold _ _
        · exact hfold _ _

@[simp] theorem addReturnEdgesToCallee_order (ir : IR) (pcfg : List Edge) (f : Nat) (rt : CfgNode) :
    (ir.addReturnEdgesToCallee pcfg f rt).1.order = ir.order := by
  unfold IR.addReturnEdgesToCallee
  apply foldl_pair_order
  intro acc b
  simp only []
  split
  · rfl
  · simp only []
    apply foldl_order
    intro ir e
    rfl

/-! ### split_block -/

@[simp] theorem splitSyms_order (ir : IR) (b nb : Nat) : (ir.splitSyms b nb).order = ir.order := rfl
@[simp] theorem splitBlocks_order (ir : IR) (blk : Block) (nb off : Nat) :
    (ir.splitBlocks blk nb off).order = ir.order := rfl
@[simp] theorem splitTables_order (ir : IR) (b nb off : Nat) :
    (ir.splitTables b nb off).order = ir.order := rfl
@[simp] theorem addFall_order (ir : IR) (a b : Nat) : (ir.addFall a b).order = ir.order := rfl
@[simp] theorem inheritFunction_order (ir : IR) (a b : Nat) :
    (ir.inheritFunction a b).order = ir.order := by
  unfold IR.inheritFunction; split <;> rfl

@[simp] theorem splitEdgesMid_order (ir : IR) (b nb : Nat) :
    (ir.splitEdgesMid b nb).order = ir.order := by
  unfold IR.splitEdgesMid
  apply foldl_order; intro i e; rfl

@[simp] theorem splitEdgesEnd_order (ir : IR) (b nb : Nat) :
    (ir.splitEdgesEnd b nb).order = ir.order := by
  unfold IR.splitEdgesEnd
  apply foldl_order; intro i e
  split
  · simp
  · split <;> rfl

@[simp] theorem splitCode_order (ir : IR) (b nb : Nat) (e : Bool) :
    (ir.splitCode b nb e).1.order = ir.order := by
  unfold IR.splitCode
  split
  · simp
  · simp only [inheritFunction_order]
    split <;> simp

/-! ### join_blocks -/

@[simp] theorem joinSyms_order (ir : IR) (b1 : Block) (id2 : Nat) :
    (ir.joinSyms b1 id2).order = ir.order := rfl
@[simp] theorem joinTables_order (ir : IR) (b1 : Block) (id2 : Nat) (c : Bool) :
    (ir.joinTables b1 id2 c).order = ir.order := rfl

@[simp] theorem joinCode_order (ir : IR) (b1 : Block) (id2 s2 : Nat) :
    (ir.joinCode b1 id2 s2).order = ir.order := by
  unfold IR.joinCode
  simp only [removeFunctionBlock_order]
  have h1 : ∀ (x : IR), ((x.inEdges id2).foldl (fun ir e =>
      if Edge.isFall e && e.src == .block b1.id then { ir with cfg := cfgDiscard ir.cfg e } else ir) x).order
      = x.order := by
    intro x; apply foldl_order; intro i e; split <;> rfl
  have h2 : ∀ (x : IR), (if b1.size == 0 then
      (x.inEdges id2).foldl (fun ir e => ir.updateEdge e (updDst e (.block b1.id))) x
    else (x.inEdges id2).foldl (fun ir e => { ir with cfg := cfgDiscard ir.cfg e }) x).order = x.order := by
    intro x; split <;> (apply foldl_order; intro i e; rfl)
  split
  · rw [foldl_order _ (by intro i e; rfl), h2, h1]
  · rw [foldl_order _ (by intro i e; rfl), h2, h1]

/-! ### remove_block -/

@[simp] theorem removeSyms_order (ir : IR) (b : Nat) (t : Referent × Bool) :
    (ir.removeSyms b t).order = ir.order := rfl
@[simp] theorem removeAuxEntries_order (ir : IR) (blk : Block) :
    (ir.removeAuxEntries blk).order = ir.order := rfl
@[simp] theorem removeCfi_order (ir : IR) (b : Nat) (c : List CfiDir) (p n : Option Nat) (pc nc : Bool) :
    (ir.removeCfi b c p n pc nc).order = ir.order := rfl

@[simp] theorem removeInEdges_order (ir : IR) (blk : Block) (p n : Option Nat) (nc : Bool) :
    (ir.removeInEdges blk p n nc).order = ir.order := by
  unfold IR.removeInEdges
  split
  · rfl
  · split
    · apply foldl_order; intro i e; rfl
    · split
      · apply foldl_order; intro i e; rfl
      · simp only []
        rw [foldl_order _ (by intro i e; rfl)]

@[simp] theorem removeFunctions_order (ir : IR) (blk : Block) (n : Option Nat) (nc : Bool) :
    (ir.removeFunctions blk n nc).order = ir.order := by
  unfold IR.removeFunctions
  split
  · rfl
  · split
    · rfl
    · simp only [removeFunctionBlock_order]
      split <;> rfl

@[simp] theorem removeEntrypoints_order (ir : IR) (blk : Block) (n : Option Nat) (nc : Bool) :
    (ir.removeEntrypoints blk n nc).order = ir.order := by
  unfold IR.removeEntrypoints
  simp only []
  apply ite_order
  · exact ite_order (ite_order (ite_order rfl rfl) (ite_order rfl rfl))
      (ite_order (ite_order rfl rfl) (ite_order rfl rfl))
  · exact ite_order (ite_order (ite_order rfl rfl) (ite_order rfl rfl))
      (ite_order (ite_order rfl rfl) (ite_order rfl rfl))

@[simp] theorem removeOutEdges_order (ir : IR) (blk : Block) :
    (ir.removeOutEdges blk).order = ir.order := by
  unfold IR.removeOutEdges
  split
  · rfl
  · apply foldl_order; intro i e
    simp only []
    split <;> simp

@[simp] theorem keepEmpty_order (ir : IR) (blk : Block) : (ir.keepEmpty blk).order = ir.order := by
  unfold IR.keepEmpty; simp only []; split <;> rfl

@[simp] theorem withProxy_order (ir : IR) (t : Bool) : (ir.withProxy t).order = ir.order := by
  unfold IR.withProxy; split <;> rfl

@[simp] theorem removeStages_order (ir : IR) (blk : Block) (t c : Bool) (px p n : Option Nat) :
    (ir.removeStages blk t c px p n).order = ir.order := by
  unfold IR.removeStages
  simp only [removeCfi_order, removeAuxEntries_order, removeOutEdges_order]
  split
  · simp
  · rfl

@[simp] theorem connectEmptyTail_order (ir : IR) (t : Nat) : (ir.connectEmptyTail t).order = ir.order := by
  unfold IR.connectEmptyTail
  split
  · rfl
  · split
    · split
      · split <;> rfl
      · rfl
    · rfl


/-! ### the ordering after split / join / remove -/

theorem splitBlock_order {ir ir' : IR} {b off nb : Nat} {added : Bool} {blk : Block}
    (h : ir.splitBlock b off = .ok (ir', nb, added)) (hb : ir.block? b = some blk) :
    ∃ sect, ir.sectionOf blk = some sect ∧
      ir'.order = aset sect (((alookup sect ir.order).getD []).map (insAfter b [nb])) ir.order := by
  unfold IR.splitBlock at h
  rw [hb] at h
  simp only [] at h
  split at h
  · cases h
  · split at h
    · cases h
    · rename_i sect hsect
      injection h with h
      injection h with h1 h2
      injection h2 with h2 h3
      subst h2
      refine ⟨sect, hsect, ?_⟩
      rw [← h1]
      unfold IR.orderInsertAfter
      simp only [splitTables_order]
      have : (if blk.isCode then ((ir.splitBlocks blk ir.next off).splitSyms b ir.next).splitCode b ir.next (off == blk.size)
          else ((ir.splitBlocks blk ir.next off).splitSyms b ir.next, false)).1.order = ir.order := by
        split
        · simp
        · rfl
      rw [this]

theorem joinBlocks_order {ir ir' : IR} {id1 id2 : Nat} {b1 b2 : Block}
    (h : ir.joinBlocks id1 id2 = .ok ir') (h1 : ir.block? id1 = some b1) (h2 : ir.block? id2 = some b2) :
    ∃ sect, ir.sectionOf b2 = some sect ∧
      ir'.order = aset sect ((((alookup sect ir.order).getD []).map (·.filter (· != id2))).filter (!·.isEmpty)) ir.order := by
  unfold IR.joinBlocks at h
  rw [h1, h2] at h
  simp only [] at h
  split at h
  · cases h
  · split at h
    · cases h
    · rename_i sect hsect
      injection h with h
      subst h
      refine ⟨sect, hsect, ?_⟩
      simp only [setBlock_order]
      unfold IR.orderRemove
      simp only [setBlock_order, joinTables_order]
      have : (if b2.isCode then (ir.joinSyms b1 id2).joinCode b1 id2 b2.size else ir.joinSyms b1 id2).order = ir.order := by
        split <;> simp
      rw [this]

theorem removeBlock_order {ir ir' : IR} {b : Nat} {px r : Bool} {blk : Block}
    (h : ir.removeBlock b px = .ok (ir', r)) (hb : ir.block? b = some blk) :
    ∃ sect, ir.sectionOf blk = some sect ∧
      ir'.order = if r then
        aset sect ((((alookup sect ir.order).getD []).map (·.filter (· != b))).filter (!·.isEmpty)) ir.order
      else ir.order := by
  have hid : blk.id = b := findB_id hb
  unfold IR.removeBlock at h
  rw [hb] at h
  simp only [] at h
  split at h
  · cases h
  · rename_i sect hsect
    refine ⟨sect, hsect, ?_⟩
    split at h
    · injection h with h; injection h with h1 h2; subst h1; subst h2
      simp only [setBlock_order, if_true]
      unfold IR.orderRemove
      simp only [removeStages_order, withProxy_order, hid]
    · injection h with h; injection h with h1 h2; subst h1; subst h2
      simp

/-! ### attached blocks, the invariant -/

/-- block `c` is attached to a byte interval of section `s` -/
def Sec (ir : IR) (c s : Nat) : Prop := ∃ blk, ir.block? c = some blk ∧ ir.sectionOf blk = some s

/-- block `c` is part of the module -/
def Att (ir : IR) (c : Nat) : Prop := ∃ s, Sec ir c s

/-- every symbol that refers to a block refers to one that is part of the module (or to one of
`pend`: blocks of a patch that is being spliced in and whose turn has not come yet) -/
def SymsOk (ir : IR) (pend : List Nat) : Prop :=
  ∀ y ∈ ir.syms, ∀ b, y.ref = .block b → Att ir b ∨ b ∈ pend

/-- the block ordering of a section lists attached blocks of that section, each once per chain -/
def OrdOk (ir : IR) : Prop :=
  ∀ s ch, ch ∈ (alookup s ir.order).getD [] → ch.Nodup ∧ ∀ b ∈ ch, Sec ir b s

def SInv (ir : IR) : Prop := SymsOk ir [] ∧ OrdOk ir

/-- what is attached stays attached, in its section -/
def SecLe (a b : IR) : Prop := ∀ c s, Sec a c s → Sec b c s

/-- … except block `d` -/
def SecLeX (d : Nat) (a b : IR) : Prop := ∀ c s, c ≠ d → Sec a c s → Sec b c s

theorem SecLe.refl (a : IR) : SecLe a a := fun _ _ h => h
theorem SecLe.trans {a b c : IR} (h1 : SecLe a b) (h2 : SecLe b c) : SecLe a c := fun k s h => h2 k s (h1 k s h)
theorem SecLe.x {a b : IR} (d : Nat) (h : SecLe a b) : SecLeX d a b := fun c s _ hc => h c s hc

theorem Sec.unique {ir : IR} {c s t : Nat} (h1 : Sec ir c s) (h2 : Sec ir c t) : s = t := by
  obtain ⟨b1, hb1, hs1⟩ := h1
  obtain ⟨b2, hb2, hs2⟩ := h2
  rw [hb1] at hb2; injection hb2 with hb2; subst hb2
  rw [hs1] at hs2; injection hs2

theorem Sec.block {ir : IR} {c s : Nat} (h : Sec ir c s) : ir.block? c ≠ none := by
  obtain ⟨b, hb, _⟩ := h; rw [hb]; simp

theorem sectionOf_congr {a b : IR} (hi : b.intervals = a.intervals) (blk : Block) : b.sectionOf blk = a.sectionOf blk := by
  unfold IR.sectionOf IR.interval?; rw [hi]

theorem sectionOf_bi {ir : IR} {x y : Block} (h : x.bi = y.bi) : ir.sectionOf x = ir.sectionOf y := by
  unfold IR.sectionOf; rw [h]

theorem sectionOf_some_bi {ir : IR} {x : Block} {s : Nat} (h : ir.sectionOf x = some s) : x.bi ≠ none := by
  intro hn; unfold IR.sectionOf at h; rw [hn] at h; cases h

theorem SecLe.of_same {a b : IR} (hb : b.blocks = a.blocks) (hi : b.intervals = a.intervals) : SecLe a b := by
  intro c s ⟨blk, hblk, hs⟩
  refine ⟨blk, ?_, ?_⟩
  · unfold IR.block? at hblk ⊢; rw [hb]; exact hblk
  · rw [sectionOf_congr hi]; exact hs

theorem SymsOk.mono {a b : IR} {pend : List Nat} (hs : b.syms = a.syms) (hle : SecLe a b) (h : SymsOk a pend) :
    SymsOk b pend := by
  intro y hy c hc
  rw [hs] at hy
  rcases h y hy c hc with ⟨s, hsec⟩ | hp
  · exact Or.inl ⟨s, hle c s hsec⟩
  · exact Or.inr hp

theorem OrdOk.mono {a b : IR} (ho : b.order = a.order) (hle : SecLe a b) (h : OrdOk a) : OrdOk b := by
  intro s ch hch
  rw [ho] at hch
  obtain ⟨hnd, hm⟩ := h s ch hch
  exact ⟨hnd, fun c hc => hle c s (hm c hc)⟩

theorem SInv.mono {a b : IR} (hs : b.syms = a.syms) (ho : b.order = a.order) (hle : SecLe a b) (h : SInv a) : SInv b :=
  ⟨h.1.mono hs hle, h.2.mono ho hle⟩

/-- replacing a block by one in the same byte interval -/
theorem setBlock_secLe (ir : IR) (nb old : Block) (h : ir.block? nb.id = some old) (hbi : nb.bi = old.bi) :
    SecLe ir (ir.setBlock nb) := by
  intro c s ⟨blk, hblk, hs⟩
  rw [Sec, block?_setBlock ir nb old h c]
  by_cases hc : c = nb.id
  · subst hc
    rw [h] at hblk; injection hblk with hblk; subst hblk
    refine ⟨nb, by simp, ?_⟩
    rw [sectionOf_congr (setBlock_intervals ir nb), sectionOf_bi hbi]; exact hs
  · refine ⟨blk, by simp [hc]; exact hblk, ?_⟩
    rw [sectionOf_congr (setBlock_intervals ir nb)]; exact hs

/-- detaching a block -/
theorem setBlock_secLeX (ir : IR) (nb old : Block) (h : ir.block? nb.id = some old) :
    SecLeX nb.id ir (ir.setBlock nb) := by
  intro c s hc ⟨blk, hblk, hs⟩
  rw [Sec, block?_setBlock ir nb old h c]
  refine ⟨blk, by simp [hc]; exact hblk, ?_⟩
  rw [sectionOf_congr (setBlock_intervals ir nb)]; exact hs

/-! ### lists: `insAfter`, filters -/

theorem mem_insAfter (a : Nat) (bs : List Nat) : ∀ (l : List Nat) (x : Nat), x ∈ insAfter a bs l → x ∈ l ∨ x ∈ bs := by
  intro l
  induction l with
  | nil => intro x hx; simp [insAfter] at hx
  | cons y ys ih =>
    intro x hx
    unfold insAfter at hx
    split at hx
    · rcases List.mem_cons.mp hx with rfl | hx
      · exact Or.inl List.mem_cons_self
      · rcases List.mem_append.mp hx with hx | hx
        · exact Or.inr hx
        · exact Or.inl (List.mem_cons_of_mem _ hx)
    · rcases List.mem_cons.mp hx with rfl | hx
      · exact Or.inl List.mem_cons_self
      · rcases ih x hx with h | h
        · exact Or.inl (List.mem_cons_of_mem _ h)
        · exact Or.inr h

theorem nodup_insAfter (a : Nat) (bs : List Nat) (hbs : bs.Nodup) :
    ∀ (l : List Nat), l.Nodup → (∀ x ∈ bs, x ∉ l) → (insAfter a bs l).Nodup := by
  intro l
  induction l with
  | nil => intro _ _; simp [insAfter]
  | cons y ys ih =>
    intro hnd hdis
    have hy := List.nodup_cons.mp hnd
    unfold insAfter
    split
    · refine List.nodup_cons.mpr ⟨?_, ?_⟩
      · intro hm
        rcases List.mem_append.mp hm with hm | hm
        · exact hdis y hm List.mem_cons_self
        · exact hy.1 hm
      · refine List.nodup_append.mpr ⟨hbs, hy.2, ?_⟩
        intro x hx z hz hxz
        subst hxz
        exact hdis x hx (List.mem_cons_of_mem _ hz)
    · refine List.nodup_cons.mpr ⟨?_, ih hy.2 (fun x hx hm => hdis x hx (List.mem_cons_of_mem _ hm))⟩
      intro hm
      rcases mem_insAfter a bs ys y hm with h | h
      · exact hy.1 h
      · exact hdis y h List.mem_cons_self

/-! ### what `adjacent_blocks` answers -/

theorem neighbours_go_spec (b : Nat) : ∀ (l : List Nat) (prev p n : Option Nat),
    neighbours.go b prev l = some (p, n) →
      (p = prev ∨ ∃ x, p = some x ∧ x ∈ l ∧ x ≠ b) ∧ (∀ y, n = some y → y ∈ l ∧ (l.Nodup → y ≠ b)) := by
  intro l
  induction l with
  | nil => intro prev p n h; simp [neighbours.go] at h
  | cons x r ih =>
    intro prev p n h
    unfold neighbours.go at h
    split at h
    · rename_i hx
      injection h with h; injection h with h1 h2
      subst h1; subst h2
      refine ⟨Or.inl rfl, ?_⟩
      intro y hy
      have hyr : y ∈ r := List.mem_of_mem_head? hy
      refine ⟨List.mem_cons_of_mem _ hyr, ?_⟩
      intro hnd hyb
      have := (List.nodup_cons.mp hnd).1
      rw [hx, ← hyb] at this
      exact this hyr
    · rename_i hx
      obtain ⟨hp, hn⟩ := ih (some x) p n h
      refine ⟨?_, ?_⟩
      · rcases hp with hp | ⟨z, hz, hzr, hzb⟩
        · exact Or.inr ⟨x, hp, List.mem_cons_self, hx⟩
        · exact Or.inr ⟨z, hz, List.mem_cons_of_mem _ hzr, hzb⟩
      · intro y hy
        obtain ⟨hyr, hyn⟩ := hn y hy
        exact ⟨List.mem_cons_of_mem _ hyr, fun hnd => hyn (List.nodup_cons.mp hnd).2⟩

/-- the neighbours `adjacent_blocks` names are entries of one chain of the block's section,
different from the block itself (the next one: when the chain lists every block once) -/
theorem adjacent_spec (ir : IR) (blk : Block) (s : Nat) (hs : ir.sectionOf blk = some s) :
    (∀ x, (ir.adjacent blk).1 = some x → ∃ ch, ch ∈ (alookup s ir.order).getD [] ∧ x ∈ ch ∧ x ≠ blk.id) ∧
    (∀ y, (ir.adjacent blk).2 = some y → ∃ ch, ch ∈ (alookup s ir.order).getD [] ∧ y ∈ ch ∧ (ch.Nodup → y ≠ blk.id)) := by
  unfold IR.adjacent
  rw [hs]
  simp only []
  cases hf : ((alookup s ir.order).getD []).findSome? (fun ch => neighbours ch blk.id) with
  | none => simp
  | some pn =>
    obtain ⟨p, n⟩ := pn
    obtain ⟨ch, hch, hnb⟩ := List.exists_of_findSome?_eq_some hf
    unfold neighbours at hnb
    obtain ⟨hp, hn⟩ := neighbours_go_spec blk.id ch none p n hnb
    simp only [Option.getD_some]
    refine ⟨?_, ?_⟩
    · intro x hx
      rcases hp with hp | ⟨z, hz, hzc, hzb⟩
      · rw [hp] at hx; cases hx
      · rw [hz] at hx; injection hx with hx; subst hx
        exact ⟨ch, hch, hzc, hzb⟩
    · intro y hy
      obtain ⟨hyc, hyn⟩ := hn y hy
      exact ⟨ch, hch, hyc, hyn⟩

/-! ### lookups in the ordering after an update of one section -/

theorem getD_alookup_aset (sect s : Nat) (v : List (List Nat)) (o : List (Nat × List (List Nat))) :
    (alookup s (aset sect v o)).getD [] = if s = sect then v else (alookup s o).getD [] := by
  by_cases h : s = sect
  · subst h; simp [alookup_aset_same]
  · simp [h, alookup_aset_other _ _ _ _ h]

/-! ### split_block -/

theorem block?_of_blocks {a b : IR} (h : b.blocks = a.blocks) (c : Nat) : b.block? c = a.block? c := by
  unfold IR.block?; rw [h]

theorem splitBlock_sinv {ir ir' : IR} {b off nb : Nat} {added : Bool} {pend : List Nat}
    (h : ir.splitBlock b off = .ok (ir', nb, added)) (hs : SymsOk ir pend) (ho : OrdOk ir) (hI : IdsBelow ir) :
    SymsOk ir' pend ∧ OrdOk ir' ∧ SecLe ir ir' ∧ (∀ s, Sec ir b s → Sec ir' nb s) := by
  cases hb : ir.block? b with
  | none => unfold IR.splitBlock at h; rw [hb] at h; cases h
  | some blk =>
    obtain ⟨hnb, _, hsy, hbl⟩ := splitBlock_core h hb
    have hiv := splitBlock_intervals h
    obtain ⟨sect, hsect, hord⟩ := splitBlock_order h hb
    have hfresh : ir.block? nb = none := by rw [hnb]; exact hI.fresh (Nat.le_refl _)
    have hne : nb ≠ b := by intro he; rw [he] at hfresh; rw [hfresh] at hb; cases hb
    have hlk : ∀ c, ir'.block? c = if c = b then some { blk with size := off }
        else if c = nb then some { id := nb, isCode := blk.isCode, bi := blk.bi, off := blk.off + off, size := blk.size - off }
        else ir.block? c := fun c => by
      rw [block?_of_blocks hbl c]; exact splitBlocks_block? ir blk b nb off hb hfresh c
    have hle : SecLe ir ir' := by
      intro c s ⟨x, hx, hsx⟩
      by_cases hc : c = b
      · subst hc
        rw [hb] at hx; injection hx with hx; subst hx
        refine ⟨{ blk with size := off }, by rw [hlk]; simp, ?_⟩
        rw [sectionOf_congr hiv]
        exact (sectionOf_bi (ir := ir) (x := { blk with size := off }) (y := blk) rfl).trans hsx
      · have hcn : c ≠ nb := by intro he; rw [he, hfresh] at hx; cases hx
        exact ⟨x, by rw [hlk]; simp [hc, hcn]; exact hx, by rw [sectionOf_congr hiv]; exact hsx⟩
    have hnew : ∀ s, Sec ir b s → Sec ir' nb s := by
      intro s ⟨x, hx, hsx⟩
      rw [hb] at hx; injection hx with hx; subst hx
      refine ⟨{ id := nb, isCode := blk.isCode, bi := blk.bi, off := blk.off + off, size := blk.size - off },
        by rw [hlk]; simp [hne], ?_⟩
      rw [sectionOf_congr hiv]
      exact (sectionOf_bi (ir := ir) (y := blk) rfl).trans hsx
    have hbsec : Sec ir b sect := ⟨blk, hb, hsect⟩
    refine ⟨?_, ?_, hle, hnew⟩
    · intro y' hy' c hc
      rw [hsy] at hy'
      obtain ⟨y, hy, rfl⟩ := List.mem_map.mp hy'
      unfold splitSym at hc
      split at hc
      · simp only [Referent.block.injEq] at hc
        subst hc
        exact Or.inl ⟨sect, hnew sect hbsec⟩
      · rcases hs y hy c hc with ⟨s, hsec⟩ | hp
        · exact Or.inl ⟨s, hle c s hsec⟩
        · exact Or.inr hp
    · intro s ch hch
      rw [hord, getD_alookup_aset] at hch
      split at hch
      · rename_i hss
        subst hss
        obtain ⟨ch0, hch0, rfl⟩ := List.mem_map.mp hch
        obtain ⟨hnd0, hm0⟩ := ho s ch0 hch0
        have hnot : nb ∉ ch0 := fun hm => (hm0 nb hm).block hfresh
        refine ⟨nodup_insAfter b [nb] (by simp) ch0 hnd0 (by intro x hx; simp at hx; subst hx; exact hnot), ?_⟩
        intro x hx
        rcases mem_insAfter b [nb] ch0 x hx with hx | hx
        · exact hle x s (hm0 x hx)
        · simp at hx; subst hx; exact hnew s hbsec
      · obtain ⟨hnd0, hm0⟩ := ho s ch hch
        exact ⟨hnd0, fun x hx => hle x s (hm0 x hx)⟩

/-! ### join_blocks -/

theorem joinBlocks_sinv {ir ir' : IR} {id1 id2 : Nat} {pend : List Nat}
    (h : ir.joinBlocks id1 id2 = .ok ir') (hne : id1 ≠ id2) (hs : SymsOk ir pend) (ho : OrdOk ir) :
    SymsOk ir' pend ∧ OrdOk ir' ∧ SecLeX id2 ir ir' := by
  cases h1 : ir.block? id1 with
  | none => unfold IR.joinBlocks at h; rw [h1] at h; cases h
  | some b1 =>
  cases h2 : ir.block? id2 with
  | none => unfold IR.joinBlocks at h; rw [h1, h2] at h; cases h
  | some b2 =>
    obtain ⟨hj, hsy, hbl⟩ := joinBlocks_core h h1 h2
    have hiv := joinBlocks_intervals h
    obtain ⟨sect, hsect, hord⟩ := joinBlocks_order h h1 h2
    obtain ⟨hbi, _, _, _⟩ := notJoinable_none hj
    have e1 : b1.id = id1 := findB_id h1
    have e2 : b2.id = id2 := findB_id h2
    have hsec1 : Sec ir id1 sect := ⟨b1, h1, (sectionOf_bi hbi).trans hsect⟩
    have hsec2 : Sec ir id2 sect := ⟨b2, h2, hsect⟩
    -- lookups after the two replacements
    have hA : (ir.setBlock { b1 with size := b1.size + b2.size }).block? id2 = some b2 := by
      rw [block?_setBlock ir { b1 with size := b1.size + b2.size } b1 (by simpa [e1] using h1) id2]
      simp [e1, Ne.symm hne]; exact h2
    have hlk : ∀ c, ir'.block? c = if c = id2 then some { b2 with bi := none }
        else if c = id1 then some { b1 with size := b1.size + b2.size } else ir.block? c := fun c => by
      rw [block?_of_blocks hbl c,
        block?_setBlock _ { b2 with bi := none } b2 (by simpa [e2] using hA) c,
        block?_setBlock ir { b1 with size := b1.size + b2.size } b1 (by simpa [e1] using h1) c]
      simp [e1, e2]
    have hle : SecLeX id2 ir ir' := by
      intro c s hc ⟨x, hx, hsx⟩
      by_cases hc1 : c = id1
      · subst hc1
        rw [h1] at hx; injection hx with hx; subst hx
        refine ⟨{ b1 with size := b1.size + b2.size }, by rw [hlk]; simp [hc], ?_⟩
        rw [sectionOf_congr hiv]
        exact (sectionOf_bi (ir := ir) (y := b1) rfl).trans hsx
      · exact ⟨x, by rw [hlk]; simp [hc, hc1]; exact hx, by rw [sectionOf_congr hiv]; exact hsx⟩
    refine ⟨?_, ?_, hle⟩
    · intro y' hy' c hc
      rw [hsy] at hy'
      obtain ⟨y, hy, rfl⟩ := List.mem_map.mp hy'
      unfold joinSym at hc
      split at hc
      · simp only [Referent.block.injEq] at hc
        subst hc
        exact Or.inl ⟨sect, hle _ sect (by rw [e1]; exact hne) (by rw [e1]; exact hsec1)⟩
      · rename_i hr
        have hc2 : c ≠ id2 := by intro he; subst he; apply hr; rw [hc]; simp
        rcases hs y hy c hc with ⟨s, hsec⟩ | hp
        · exact Or.inl ⟨s, hle c s hc2 hsec⟩
        · exact Or.inr hp
    · intro s ch hch
      rw [hord, getD_alookup_aset] at hch
      split at hch
      · rename_i hss
        subst hss
        have hch1 := (List.mem_filter.mp hch).1
        obtain ⟨ch0, hch0, rfl⟩ := List.mem_map.mp hch1
        obtain ⟨hnd0, hm0⟩ := ho s ch0 hch0
        refine ⟨hnd0.filter _, ?_⟩
        intro x hx
        obtain ⟨hx0, hxne⟩ := List.mem_filter.mp hx
        exact hle x s (by simpa using hxne) (hm0 x hx0)
      · rename_i hss
        obtain ⟨hnd0, hm0⟩ := ho s ch hch
        refine ⟨hnd0, fun x hx => hle x s ?_ (hm0 x hx)⟩
        intro he; subst he
        exact hss ((hm0 _ hx).unique hsec2)

/-! ### remove_block -/

theorem setBlock_blocks_congr {x ir : IR} (h : x.blocks = ir.blocks) (nb : Block) :
    (x.setBlock nb).blocks = (ir.setBlock nb).blocks := by
  unfold IR.setBlock; simp only [h]

theorem removeBlock_blocks {ir ir' : IR} {b : Nat} {px r : Bool} {blk : Block}
    (h : ir.removeBlock b px = .ok (ir', r)) (hb : ir.block? b = some blk) :
    ir'.blocks = (ir.setBlock (if r then { blk with bi := none } else { blk with size := 0 })).blocks := by
  unfold IR.removeBlock at h
  rw [hb] at h
  simp only [] at h
  split at h
  · cases h
  · split at h
    · injection h with h; injection h with h1 h2; subst h1; subst h2
      simp only [if_true]
      apply setBlock_blocks_congr
      show (IR.removeStages _ _ _ _ _ _ _).blocks = _
      rw [removeStages_blocks]; exact core_blocks (withProxy_core _ _)
    · injection h with h; injection h with h1 h2; subst h1; subst h2
      simp only [Bool.false_eq_true, if_false]
      have : ∀ x : IR, (x.keepEmpty blk).blocks = (x.setBlock { blk with size := 0 }).blocks := by
        intro x; unfold IR.keepEmpty; simp only []; split <;> rfl
      rw [this]
      apply setBlock_blocks_congr
      rw [removeStages_blocks]; exact core_blocks (withProxy_core _ _)

theorem removeBlock_sinv {ir ir' : IR} {b : Nat} {px r : Bool} {pend : List Nat}
    (h : ir.removeBlock b px = .ok (ir', r)) (hs : SymsOk ir pend) (ho : OrdOk ir) :
    SymsOk ir' pend ∧ OrdOk ir' ∧ SecLeX b ir ir' ∧ (r = false → SecLe ir ir') := by
  cases hb : ir.block? b with
  | none => unfold IR.removeBlock at h; rw [hb] at h; cases h
  | some blk =>
    have hid : blk.id = b := findB_id hb
    have hbl := removeBlock_blocks h hb
    have hiv := removeBlock_intervals h
    have hsy := removeBlock_syms h hb
    obtain ⟨sect, hsect, hord⟩ := removeBlock_order h hb
    have hbsec : Sec ir b sect := ⟨blk, hb, hsect⟩
    have hlk : ∀ c, ir'.block? c = if c = b then some (if r then { blk with bi := none } else { blk with size := 0 })
        else ir.block? c := fun c => by
      rw [block?_of_blocks hbl c,
        block?_setBlock ir (if r then { blk with bi := none } else { blk with size := 0 }) blk
          (by split <;> simpa [hid] using hb) c]
      split <;> simp [hid]
    have hle : SecLeX b ir ir' := by
      intro c s hc ⟨x, hx, hsx⟩
      exact ⟨x, by rw [hlk]; simp [hc]; exact hx, by rw [sectionOf_congr hiv]; exact hsx⟩
    have hle0 : r = false → SecLe ir ir' := by
      intro hr c s ⟨x, hx, hsx⟩
      by_cases hc : c = b
      · subst hc
        rw [hb] at hx; injection hx with hx; subst hx
        refine ⟨{ blk with size := 0 }, by rw [hlk]; simp [hr], ?_⟩
        rw [sectionOf_congr hiv]
        exact (sectionOf_bi (ir := ir) (y := blk) rfl).trans hsx
      · exact hle c s hc ⟨x, hx, hsx⟩
    obtain ⟨hprev, hnext⟩ := adjacent_spec ir blk sect hsect
    refine ⟨?_, ?_, hle, hle0⟩
    · -- symbols
      cases r with
      | false =>
        simp only [Bool.false_eq_true, if_false] at hsy
        exact hs.mono hsy (hle0 rfl)
      | true =>
        simp only [if_true] at hsy
        intro y' hy' c hc
        rw [hsy] at hy'
        obtain ⟨y, hy, rfl⟩ := List.mem_map.mp hy'
        unfold removeSym at hc
        split at hc
        · -- the symbol stood on the removed block: it goes where `removeTarget` says
          simp only [] at hc
          unfold removeTarget at hc
          split at hc
          · cases hc
          · rename_i n hn1 hn2
            simp only [Referent.block.injEq] at hc
            subst hc
            obtain ⟨ch, hch, hnc, hne⟩ := hnext _ (by assumption)
            obtain ⟨hnd, hm⟩ := ho sect ch hch
            exact Or.inl ⟨sect, hle _ sect (by rw [← hid]; exact hne hnd) (hm _ hnc)⟩
          · rename_i p hp1 hp2 hp3
            simp only [Referent.block.injEq] at hc
            subst hc
            obtain ⟨ch, hch, hpc, hne⟩ := hprev _ (by assumption)
            obtain ⟨_, hm⟩ := ho sect ch hch
            exact Or.inl ⟨sect, hle _ sect (by rw [← hid]; exact hne) (hm _ hpc)⟩
          · cases hc
        · rename_i hr
          have hcb : c ≠ b := by intro he; subst he; apply hr; rw [hc]; simp
          rcases hs y hy c hc with ⟨s, hsec⟩ | hp
          · exact Or.inl ⟨s, hle c s hcb hsec⟩
          · exact Or.inr hp
    · -- ordering
      cases r with
      | false =>
        simp only [Bool.false_eq_true, if_false] at hord
        exact ho.mono hord (hle0 rfl)
      | true =>
        simp only [if_true] at hord
        intro s ch hch
        rw [hord, getD_alookup_aset] at hch
        split at hch
        · rename_i hss
          subst hss
          have hch1 := (List.mem_filter.mp hch).1
          obtain ⟨ch0, hch0, rfl⟩ := List.mem_map.mp hch1
          obtain ⟨hnd0, hm0⟩ := ho s ch0 hch0
          refine ⟨hnd0.filter _, ?_⟩
          intro x hx
          obtain ⟨hx0, hxne⟩ := List.mem_filter.mp hx
          exact hle x s (by simpa using hxne) (hm0 x hx0)
        · rename_i hss
          obtain ⟨hnd0, hm0⟩ := ho s ch hch
          refine ⟨hnd0, fun x hx => hle x s ?_ (hm0 x hx)⟩
          intro he; subst he
          exact hss ((hm0 _ hx).unique hbsec)

/-! ### edit_byte_interval, _connect_empty_tail -/

theorem sect_setInterval (ir : IR) (iv nv : Interval) (h : ir.interval? nv.id = some iv) (hs : nv.sect = iv.sect) (j : Nat) :
    ((ir.setInterval nv).interval? j).map (·.sect) = (ir.interval? j).map (·.sect) := by
  by_cases hj : j = nv.id
  · subst hj; rw [interval?_setInterval_same ir nv.id iv nv h rfl, h]; simp [hs]
  · rw [interval?_setInterval_other ir nv.id j nv rfl hj]

theorem sectionOf_of_sects {a b : IR} (h : ∀ j, (b.interval? j).map (·.sect) = (a.interval? j).map (·.sect)) (blk : Block) :
    b.sectionOf blk = a.sectionOf blk := by
  unfold IR.sectionOf
  split
  · rfl
  · exact h _

/-- mapping the block table with a function that keeps ids and intervals, with the sections of the
intervals unchanged, keeps every block where it is -/
theorem secLe_of_map {a b : IR} (f : Block → Block) (hid : ∀ x, (f x).id = x.id) (hbi : ∀ x, (f x).bi = x.bi)
    (hb : b.blocks = a.blocks.map f) (hi : ∀ j, (b.interval? j).map (·.sect) = (a.interval? j).map (·.sect)) :
    SecLe a b := by
  intro c s ⟨x, hx, hsx⟩
  refine ⟨f x, ?_, ?_⟩
  · unfold IR.block? at hx ⊢
    rw [hb, find_map_id f hid, hx]; rfl
  · rw [sectionOf_of_sects hi, sectionOf_bi (hbi x)]; exact hsx

theorem editInterval_syms (ir : IR) (i off len : Nat) (c st : List Nat) : (ir.editInterval i off len c st).syms = ir.syms := by
  unfold IR.editInterval; split <;> rfl

theorem editInterval_order (ir : IR) (i off len : Nat) (c st : List Nat) : (ir.editInterval i off len c st).order = ir.order := by
  unfold IR.editInterval; split <;> rfl

theorem editInterval_secLe (ir : IR) (i off len : Nat) (c st : List Nat) : SecLe ir (ir.editInterval i off len c st) := by
  unfold IR.editInterval
  split
  · exact SecLe.refl _
  · rename_i bi hbi
    let f : Block → Block := fun b =>
      if b.bi == some i && decide (b.off ≥ off) && !st.contains b.id
      then { b with off := b.off + c.length - len } else b
    have hid : ∀ x, (f x).id = x.id := by intro x; simp only [f]; split <;> rfl
    have hbi' : ∀ x, (f x).bi = x.bi := by intro x; simp only [f]; split <;> rfl
    have hbid : bi.id = i := by
      unfold IR.interval? at hbi
      have := List.find?_some hbi
      simpa using this
    apply secLe_of_map f hid hbi' rfl
    intro j
    let nv : Interval :=
      { id := bi.id, sect := bi.sect, addr := bi.addr, size := bi.size + c.length - len,
        bytes := spliceBytes bi.bytes off len c, symExprs := shiftKeys off len c.length bi.symExprs }
    show ((ir.setInterval nv).interval? j).map (·.sect) = _
    exact sect_setInterval ir bi nv (by show ir.interval? bi.id = some bi; rw [hbid]; exact hbi) rfl j

theorem editInterval_sinv {ir : IR} {pend : List Nat} (i off len : Nat) (c st : List Nat) (hs : SymsOk ir pend) (ho : OrdOk ir) :
    SymsOk (ir.editInterval i off len c st) pend ∧ OrdOk (ir.editInterval i off len c st) :=
  ⟨hs.mono (editInterval_syms _ _ _ _ _ _) (editInterval_secLe _ _ _ _ _ _),
   ho.mono (editInterval_order _ _ _ _ _ _) (editInterval_secLe _ _ _ _ _ _)⟩

theorem connectEmptyTail_secLe (ir : IR) (t : Nat) : SecLe ir (ir.connectEmptyTail t) :=
  SecLe.of_same (core_blocks (connectEmptyTail_core _ _)) (core_intervals (connectEmptyTail_core _ _))

theorem connectEmptyTail_sinv {ir : IR} {pend : List Nat} (t : Nat) (hs : SymsOk ir pend) (ho : OrdOk ir) :
    SymsOk (ir.connectEmptyTail t) pend ∧ OrdOk (ir.connectEmptyTail t) :=
  ⟨hs.mono (core_syms (connectEmptyTail_core _ _)) (connectEmptyTail_secLe _ _),
   ho.mono (connectEmptyTail_order _ _) (connectEmptyTail_secLe _ _)⟩

/-! ### _cleanup_modified_blocks -/

theorem cleanupPass_sinv {pend : List Nat} : ∀ (rest : List Nat) (ir ir' : IR) (pred : Nat) (done : List Nat) (r : Option (List Nat)),
    ir.cleanupPass pred rest done = .ok (ir', r) → (done ++ pred :: rest).Nodup → SymsOk ir pend → OrdOk ir →
    SymsOk ir' pend ∧ OrdOk ir' ∧ ∀ bl', r = some bl' → bl'.Nodup := by
  intro rest
  induction rest with
  | nil =>
    intro ir ir' pred done r h _ hs ho
    unfold IR.cleanupPass at h
    injection h with h; injection h with h1 h2; subst h1; subst h2
    exact ⟨hs, ho, fun _ hh => by cases hh⟩
  | cons b rest ih =>
    intro ir ir' pred done r h hnd hs ho
    have hsub : (done ++ [pred] ++ rest).Nodup := by
      refine List.Nodup.sublist ?_ hnd
      simp only [List.append_assoc, List.singleton_append]
      exact List.Sublist.append_left (List.Sublist.cons_cons _ (List.sublist_cons_self _ _)) _
    have hpb : pred ≠ b := by
      have := (List.nodup_append.mp hnd).2.1
      exact (List.nodup_cons.mp this).1 ∘ (fun he => he ▸ List.mem_cons_self)
    unfold IR.cleanupPass at h
    split at h
    · rename_i i2 hj
      injection h with h; injection h with h1 h2; subst h1; subst h2
      obtain ⟨a, b', _⟩ := joinBlocks_sinv hj hpb hs ho
      exact ⟨a, b', fun _ hh => by injection hh with hh; subst hh; exact hsub⟩
    · split at h
      · split at h
        · cases h
        · rename_i i2 hr
          injection h with h; injection h with h1 h2; subst h1; subst h2
          obtain ⟨a, b', _, _⟩ := removeBlock_sinv hr hs ho
          exact ⟨a, b', fun _ hh => by injection hh with hh; subst hh; exact hsub⟩
        · rename_i i2 hr
          obtain ⟨a, b', _, _⟩ := removeBlock_sinv hr hs ho
          exact ih _ _ _ _ _ h (by simpa [List.append_assoc] using hnd) a b'
      · exact ih _ _ _ _ _ h (by simpa [List.append_assoc] using hnd) hs ho
    · cases h

theorem cleanupLoop_sinv {pend : List Nat} : ∀ (fuel : Nat) (ir ir' : IR) (bl bl' : List Nat),
    ir.cleanupLoop fuel bl = .ok (ir', bl') → bl.Nodup → SymsOk ir pend → OrdOk ir → SymsOk ir' pend ∧ OrdOk ir' := by
  intro fuel
  induction fuel with
  | zero =>
    intro ir ir' bl bl' h _ hs ho
    unfold IR.cleanupLoop at h
    injection h with h; injection h with h1 h2; subst h1; exact ⟨hs, ho⟩
  | succ n ih =>
    intro ir ir' bl bl' h hnd hs ho
    unfold IR.cleanupLoop at h
    split at h
    · injection h with h; injection h with h1 h2; subst h1; exact ⟨hs, ho⟩
    · split at h
      · cases h
      · rename_i i2 hp
        injection h with h; injection h with h1 h2; subst h1
        obtain ⟨a, b, _⟩ := cleanupPass_sinv _ _ _ _ _ _ hp (by simpa using hnd) hs ho
        exact ⟨a, b⟩
      · rename_i i2 bl2 hp
        obtain ⟨a, b, c⟩ := cleanupPass_sinv _ _ _ _ _ _ hp (by simpa using hnd) hs ho
        exact ih _ _ _ _ h (c bl2 rfl) a b

theorem cleanupFirst_sinv {ir ir' : IR} {bl bl' : List Nat} {pend : List Nat}
    (h : ir.cleanupFirst bl = .ok (ir', bl')) (hs : SymsOk ir pend) (ho : OrdOk ir) : SymsOk ir' pend ∧ OrdOk ir' := by
  unfold IR.cleanupFirst at h
  split at h
  · injection h with h; injection h with h1 h2; subst h1; exact ⟨hs, ho⟩
  · split at h
    · split at h
      · cases h
      · rename_i hr
        injection h with h; injection h with h1 h2; subst h1
        obtain ⟨a, b, _, _⟩ := removeBlock_sinv hr hs ho
        exact ⟨a, b⟩
      · rename_i hr
        injection h with h; injection h with h1 h2; subst h1
        obtain ⟨a, b, _, _⟩ := removeBlock_sinv hr hs ho
        exact ⟨a, b⟩
    · injection h with h; injection h with h1 h2; subst h1; exact ⟨hs, ho⟩

theorem cleanup_sinv {ir ir' : IR} {bl : List Nat} {last : Nat} {pend : List Nat}
    (h : ir.cleanup bl = .ok (ir', last)) (hnd : bl.Nodup) (hs : SymsOk ir pend) (ho : OrdOk ir) :
    SymsOk ir' pend ∧ OrdOk ir' := by
  unfold IR.cleanup at h
  split at h
  · cases h
  · split at h
    · cases h
    · rename_i ir1 bl1 hl
      split at h
      · cases h
      · rename_i ir2 bl2 hf
        split at h
        · split at h
          · injection h with h; injection h with h1 h2; subst h1
            obtain ⟨a, b⟩ := cleanupLoop_sinv _ _ _ _ _ hl hnd hs ho
            exact cleanupFirst_sinv hf a b
          · cases h
        · cases h

/-! ### delete -/

/-- the block a split creates is none of the blocks there were -/
theorem splitBlock_new_ne {ir ir' : IR} {b off nb : Nat} {added : Bool}
    (h : ir.splitBlock b off = .ok (ir', nb, added)) (hI : IdsBelow ir) (c : Nat) (hc : ir.block? c ≠ none) : c ≠ nb := by
  cases hb : ir.block? b with
  | none => unfold IR.splitBlock at h; rw [hb] at h; cases h
  | some blk =>
    obtain ⟨hnb, _⟩ := splitBlock_core h hb
    intro he
    apply hc
    rw [he, hnb]
    exact hI.fresh (Nat.le_refl _)

theorem Keeps.block {a b : IR} (hk : Keeps a b) {c : Nat} (hc : a.block? c ≠ none) : b.block? c ≠ none := by
  cases ha : a.block? c with
  | none => exact absurd ha hc
  | some blk =>
    obtain ⟨blk', hb', _⟩ := hk c blk ha
    rw [hb']; simp

theorem delete_sinv {ir ir' : IR} {b off len : Nat} {px : Bool} {r : Option Nat} {pend : List Nat}
    (h : ir.delete b off len px = .ok (ir', r)) (hs : SymsOk ir pend) (ho : OrdOk ir) (hI : IdsBelow ir) :
    SymsOk ir' pend ∧ OrdOk ir' := by
  unfold IR.delete at h
  split at h
  · cases h
  · rename_i blk hb
    split at h
    · cases h
    · split at h
      · cases h
      · rename_i biId hbi
        split at h
        · injection h with h; injection h with h1 h2; subst h1; exact ⟨hs, ho⟩
        · split at h
          · split at h
            · cases h
            · rename_i ir1 e1 a1 hs1
              split at h
              · cases h
              · rename_i ir2 e2 a2 hs2
                simp only [] at h
                split at h
                · cases h
                · rename_i ir3 d3 hr3
                  split at h
                  · cases h
                  · rename_i ir5 last hc
                    injection h with h; injection h with h1 h2; subst h1
                    obtain ⟨s1, o1, _, _⟩ := splitBlock_sinv hs1 hs ho hI
                    have hI1 := splitBlock_idsBelow hs1 hI
                    obtain ⟨s2, o2, _, _⟩ := splitBlock_sinv hs2 s1 o1 hI1
                    obtain ⟨s2', o2'⟩ := connectEmptyTail_sinv e2 s2 o2
                    obtain ⟨s3, o3, _, _⟩ := removeBlock_sinv hr3 s2' o2'
                    obtain ⟨s4, o4⟩ := editInterval_sinv biId (blk.off + off) len [] [b] s3 o3
                    have hb1 : ir1.block? b ≠ none := (splitBlock_keeps hs1).block (by rw [hb]; simp)
                    have hne : b ≠ e2 := splitBlock_new_ne hs2 hI1 b hb1
                    exact cleanup_sinv hc (by simp [hne]) s4 o4
          · split at h
            · cases h
            · rename_i ir1 deleted hr1
              obtain ⟨s1, o1, _, _⟩ := removeBlock_sinv hr1 hs ho
              obtain ⟨s2, o2⟩ := editInterval_sinv biId (blk.off + off) len [] [b] s1 o1
              simp only [] at h
              split at h
              · split at h
                · cases h
                · rename_i ir3 d3 hr3
                  injection h with h; injection h with h1 h2; subst h1
                  obtain ⟨s3, o3, _, _⟩ := removeBlock_sinv hr3 s2 o2
                  exact ⟨s3, o3⟩
              · injection h with h; injection h with h1 h2; subst h1
                exact ⟨s2, o2⟩

/-! ### insert -/

theorem insertSplit_sinv {ir ir' : IR} {b off repl endB : Nat} {added : Bool} {pend : List Nat}
    (h : ir.insertSplit b off repl = .ok (ir', endB, added)) (hs : SymsOk ir pend) (ho : OrdOk ir) (hI : IdsBelow ir) :
    SymsOk ir' pend ∧ OrdOk ir' ∧ (∀ s, Sec ir b s → Sec ir' b s ∧ Sec ir' endB s) := by
  unfold IR.insertSplit at h
  split at h
  · cases h
  · rename_i ir1 e0 a0 hs1
    obtain ⟨s1, o1, le1, new1⟩ := splitBlock_sinv hs1 hs ho hI
    have hI1 := splitBlock_idsBelow hs1 hI
    split at h
    · split at h
      · cases h
      · rename_i i2 e2 a2 hs2
        split at h
        · cases h
        · rename_i i3 d3 hr
          injection h with h; injection h with h1 h2; injection h2 with h2 h3; subst h1; subst h2
          obtain ⟨s2, o2, le2, new2⟩ := splitBlock_sinv hs2 s1 o1 hI1
          obtain ⟨s2', o2'⟩ := connectEmptyTail_sinv e2 s2 o2
          obtain ⟨s3, o3, lex, _⟩ := removeBlock_sinv hr s2' o2'
          refine ⟨s3, o3, ?_⟩
          intro s hsec
          have hb0 : ir.block? b ≠ none := hsec.block
          have hbe0 : b ≠ e0 := splitBlock_new_ne hs1 hI b hb0
          have he0 : ir1.block? e0 ≠ none := (new1 s hsec).block
          have hee : e0 ≠ e2 := splitBlock_new_ne hs2 hI1 e0 he0
          exact ⟨lex b s hbe0 (connectEmptyTail_secLe _ _ b s (le2 b s (le1 b s hsec))),
            lex e2 s (Ne.symm hee) (connectEmptyTail_secLe _ _ e2 s (new2 s (new1 s hsec)))⟩
    · injection h with h; injection h with h1 h2; injection h2 with h2 h3; subst h1; subst h2
      obtain ⟨s2, o2⟩ := connectEmptyTail_sinv e0 s1 o1
      exact ⟨s2, o2, fun s hsec => ⟨connectEmptyTail_secLe _ _ b s (le1 b s hsec), connectEmptyTail_secLe _ _ _ s (new1 s hsec)⟩⟩

/-! ### the stages of `insert`: which touch symbols and the ordering -/

/-- folding steps that each preserve the syms preserves them -/
theorem foldl_syms {α} (f : IR → α → IR) (h : ∀ ir a, (f ir a).syms = ir.syms)
    (l : List α) (ir : IR) : (l.foldl f ir).syms = ir.syms := by
  induction l generalizing ir with
  | nil => rfl
  | cons a l ih => simp only [List.foldl_cons]; rw [ih, h]

theorem ite_syms {c : Prop} [Decidable c] {a b : IR} {x : List Sym}
    (ha : a.syms = x) (hb : b.syms = x) : (if c then a else b).syms = x := by
  split <;> assumption

/-- pair-valued fold whose IR component keeps the syms -/
theorem foldl_pair_syms {α β} (f : IR × β → α → IR × β)
    (h : ∀ acc a, (f acc a).1.syms = acc.1.syms)
    (l : List α) (acc : IR × β) : (l.foldl f acc).1.syms = acc.1.syms := by
  induction l generalizing acc with
  | nil => rfl
  | cons a l ih => simp only [List.foldl_cons]; rw [ih, h]

@[simp] theorem updateFallthrough_syms (ir : IR) (s t : Nat) : (ir.updateFallthrough s t).syms = ir.syms :=
  core_syms (updateFallthrough_core _ _ _)
@[simp] theorem addFunctionBlock_syms (ir : IR) (b f : Nat) : (ir.addFunctionBlock b f).syms = ir.syms := rfl

@[simp] theorem addReturnEdgesToCallee_syms (ir : IR) (pcfg : List Edge) (f : Nat) (rt : CfgNode) :
    (ir.addReturnEdgesToCallee pcfg f rt).1.syms = ir.syms := by
  unfold IR.addReturnEdgesToCallee
  apply foldl_pair_syms
  intro acc b
  simp only []
  split
  · rfl
  · simp only []
    apply foldl_syms
    intro ir e
    rfl

@[simp] theorem insertStitch_syms (ir : IR) (tb : List Block) (b e : Nat) (a : Bool) :
    (ir.insertStitch tb b e a).syms = ir.syms := by
  unfold IR.insertStitch
  apply ite_syms
  · simp only [updateFallthrough_syms]; split <;> simp
  · split <;> simp

@[simp] theorem placePatchBlocks_syms (ir : IR) (tb : List Block) (i base : Nat) :
    (ir.placePatchBlocks tb i base).syms = ir.syms := rfl
@[simp] theorem addPatchAux_syms (ir : IR) (p : Patch) (i base : Nat) :
    (ir.addPatchAux p i base).syms = ir.syms := rfl
@[simp] theorem bumpNext_syms (ir : IR) (p : Patch) : (ir.bumpNext p).syms = ir.syms := rfl

@[simp] theorem addPatchFunctions_syms (ir : IR) (blk : Block) (tb : List Block) :
    (ir.addPatchFunctions blk tb).syms = ir.syms := by
  unfold IR.addPatchFunctions
  split
  · split
    · apply foldl_syms; intro i b; split <;> rfl
    · rfl
  · rfl

@[simp] theorem addReturnEdgesForPatchCalls_syms (ir : IR) (pcfg : List Edge) :
    (ir.addReturnEdgesForPatchCalls pcfg).1.syms = ir.syms := by
  unfold IR.addReturnEdgesForPatchCalls
  apply foldl_pair_syms
  intro acc ce
  split
  · rfl
  · split
    · rfl
    · split
      · rfl
      · split
        · rfl
        · simp


theorem addPatchExprs_syms (ir : IR) (i base : Nat) (ex : List (Nat × SymExpr)) : (ir.addPatchExprs i base ex).syms = ir.syms := by
  unfold IR.addPatchExprs; split <;> rfl

@[simp] theorem insertStitch_order (ir : IR) (tb : List Block) (b e : Nat) (a : Bool) :
    (ir.insertStitch tb b e a).order = ir.order := by
  unfold IR.insertStitch
  apply ite_order
  · simp only [updateFallthrough_order]; split <;> simp
  · split <;> simp

@[simp] theorem placePatchBlocks_order (ir : IR) (tb : List Block) (i base : Nat) :
    (ir.placePatchBlocks tb i base).order = ir.order := rfl
@[simp] theorem addPatchNodes_order (ir : IR) (p : Patch) (c : List Edge) (px : List Nat) :
    (ir.addPatchNodes p c px).order = ir.order := rfl
@[simp] theorem addPatchAux_order (ir : IR) (p : Patch) (i base : Nat) :
    (ir.addPatchAux p i base).order = ir.order := rfl
@[simp] theorem bumpNext_order (ir : IR) (p : Patch) : (ir.bumpNext p).order = ir.order := rfl

@[simp] theorem addPatchFunctions_order (ir : IR) (blk : Block) (tb : List Block) :
    (ir.addPatchFunctions blk tb).order = ir.order := by
  unfold IR.addPatchFunctions
  split
  · split
    · apply foldl_order; intro i b; split <;> rfl
    · rfl
  · rfl

@[simp] theorem addReturnEdgesForPatchCalls_order (ir : IR) (pcfg : List Edge) :
    (ir.addReturnEdgesForPatchCalls pcfg).1.order = ir.order := by
  unfold IR.addReturnEdgesForPatchCalls
  apply foldl_pair_order
  intro acc ce
  split
  · rfl
  · split
    · rfl
    · split
      · rfl
      · split
        · rfl
        · simp


theorem addPatchExprs_order (ir : IR) (i base : Nat) (ex : List (Nat × SymExpr)) : (ir.addPatchExprs i base ex).order = ir.order := by
  unfold IR.addPatchExprs; split <;> rfl

/-! ### helpers for `insert` -/

theorem block?_none_iff (ir : IR) (c : Nat) : ir.block? c = none ↔ c ∉ ir.ids := by
  unfold IR.block? IR.ids
  constructor
  · intro h hm
    obtain ⟨x, hx, hxc⟩ := List.mem_map.mp hm
    have := List.find?_eq_none.mp h x hx
    simp [hxc] at this
  · intro h
    apply List.find?_eq_none.mpr
    intro x hx hxc
    apply h
    have : x.id = c := by simpa using hxc
    rw [← this]; exact List.mem_map_of_mem hx

/-- the ids after the split of `insert`: the old ones and ids taken from the counter -/
theorem insertSplit_ids_sub {ir ir' : IR} {b off repl endB : Nat} {added : Bool}
    (h : ir.insertSplit b off repl = .ok (ir', endB, added)) : ∀ c ∈ ir'.ids, c ∈ ir.ids ∨ ir.next ≤ c := by
  unfold IR.insertSplit at h
  split at h
  · cases h
  · rename_i ir1 e0 a0 hs1
    have h1 := splitBlock_ids hs1
    split at h
    · split at h
      · cases h
      · rename_i i2 e2 a2 hs2
        split at h
        · cases h
        · rename_i i3 d3 hr
          injection h with h; injection h with hh1 hh2; subst hh1
          have h2 := splitBlock_ids hs2
          have hn := splitBlock_next hs1
          have t := (connectEmptyTail_touches i2 e2).trans (removeBlock_touches hr)
          intro c hc
          rw [t.2.2.1, h2, h1] at hc
          simp only [List.mem_append, List.mem_singleton] at hc
          rcases hc with (hc | hc) | hc
          · exact Or.inl hc
          · right; omega
          · right; omega
    · injection h with h; injection h with hh1 hh2; subst hh1
      have t := connectEmptyTail_touches ir1 e0
      intro c hc
      rw [t.2.2.1, h1] at hc
      simp only [List.mem_append, List.mem_singleton] at hc
      rcases hc with hc | hc
      · exact Or.inl hc
      · right; omega

theorem secLe_of_append {a b : IR} (extra : List Block) (hb : b.blocks = a.blocks ++ extra) (hi : b.intervals = a.intervals) :
    SecLe a b := by
  intro c s ⟨x, hx, hsx⟩
  refine ⟨x, ?_, by rw [sectionOf_congr hi]; exact hsx⟩
  unfold IR.block? at hx ⊢
  rw [hb, find_append, hx]

/-- the section of a byte interval -/
def ISec (ir : IR) (i s : Nat) : Prop := (ir.interval? i).map (·.sect) = some s

theorem ISec.of_intervals {a b : IR} {i s : Nat} (h : b.intervals = a.intervals) (hs : ISec a i s) : ISec b i s := by
  unfold ISec IR.interval? at *; rw [h]; exact hs

theorem Sec.of_isec {ir : IR} {c i s : Nat} {x : Block} (hb : ir.block? c = some x) (hbi : x.bi = some i) (hi : ISec ir i s) :
    Sec ir c s := by
  refine ⟨x, hb, ?_⟩
  unfold IR.sectionOf; rw [hbi]; exact hi

theorem editInterval_isec (ir : IR) (i off len : Nat) (c st : List Nat) (j s : Nat) (h : ISec ir j s) :
    ISec (ir.editInterval i off len c st) j s := by
  unfold IR.editInterval
  split
  · exact h
  · rename_i bi hbi
    have hbid : bi.id = i := by
      unfold IR.interval? at hbi
      have := List.find?_some hbi
      simpa using this
    let nv : Interval :=
      { id := bi.id, sect := bi.sect, addr := bi.addr, size := bi.size + c.length - len,
        bytes := spliceBytes bi.bytes off len c, symExprs := shiftKeys off len c.length bi.symExprs }
    show ((ir.setInterval nv).interval? j).map (·.sect) = _
    rw [sect_setInterval ir bi nv (by show ir.interval? bi.id = some bi; rw [hbid]; exact hbi) rfl j]
    exact h

theorem addPatchExprs_sects (ir : IR) (i base : Nat) (ex : List (Nat × SymExpr)) (j : Nat) :
    ((ir.addPatchExprs i base ex).interval? j).map (·.sect) = (ir.interval? j).map (·.sect) := by
  unfold IR.addPatchExprs
  split
  · rfl
  · rename_i bi hbi
    have hbid : bi.id = i := by
      unfold IR.interval? at hbi
      have := List.find?_some hbi
      simpa using this
    let nv : Interval := { bi with symExprs := ex.foldl (fun m (k, v) => aset (base + k) v m) bi.symExprs }
    show ((ir.setInterval nv).interval? j).map (·.sect) = _
    exact sect_setInterval ir bi nv (by show ir.interval? bi.id = some bi; rw [hbid]; exact hbi) rfl j

theorem addPatchExprs_secLe (ir : IR) (i base : Nat) (ex : List (Nat × SymExpr)) : SecLe ir (ir.addPatchExprs i base ex) := by
  intro c s ⟨x, hx, hsx⟩
  refine ⟨x, ?_, ?_⟩
  · rw [block?_of_blocks (addPatchExprs_blocks ir i base ex)]; exact hx
  · rw [sectionOf_of_sects (addPatchExprs_sects ir i base ex)]; exact hsx

/-- placing the patch's blocks: a block that is none of them stays as it is -/
theorem placePatchBlocks_other (ir : IR) (tb : List Block) (i base c : Nat) (hc : c ∉ tb.map (·.id)) :
    (ir.placePatchBlocks tb i base).block? c = ir.block? c := by
  let placed := tb.map (fun b => ({ b with bi := some i, off := base + b.off } : Block))
  let f : Block → Block := fun b => match placed.find? (·.id == b.id) with | some pb => pb | none => b
  have hid : ∀ x, (f x).id = x.id := by
    intro x; simp only [f]; split
    · rename_i pb hp; exact findB_id hp
    · rfl
  unfold IR.block?
  show List.find? _ (ir.blocks.map f) = _
  rw [find_map_id f hid]
  cases hf : ir.blocks.find? (·.id == c) with
  | none => rfl
  | some x =>
    have hxc : x.id = c := findB_id hf
    simp only [Option.map_some, f]
    have : placed.find? (·.id == x.id) = none := by
      apply List.find?_eq_none.mpr
      intro y hy hyx
      obtain ⟨z, hz, hzy⟩ := List.mem_map.mp hy
      apply hc
      have : y.id = x.id := by simpa using hyx
      rw [← hxc, ← this, ← hzy]
      exact List.mem_map.mpr ⟨z, hz, rfl⟩
    rw [this]

/-- … and one of them is attached to the byte interval -/
theorem placePatchBlocks_patch (ir : IR) (tb : List Block) (i base c : Nat) (hc : c ∈ tb.map (·.id))
    (hx : ir.block? c ≠ none) : ∃ pb, (ir.placePatchBlocks tb i base).block? c = some pb ∧ pb.bi = some i := by
  let placed := tb.map (fun b => ({ b with bi := some i, off := base + b.off } : Block))
  let f : Block → Block := fun b => match placed.find? (·.id == b.id) with | some pb => pb | none => b
  have hid : ∀ x, (f x).id = x.id := by
    intro x; simp only [f]; split
    · rename_i pb hp; exact findB_id hp
    · rfl
  cases hf : ir.block? c with
  | none => exact absurd hf hx
  | some x =>
    have hxc : x.id = c := findB_id hf
    obtain ⟨z, hz, hzc⟩ := List.mem_map.mp hc
    cases hp : placed.find? (·.id == x.id) with
    | none =>
      have := List.find?_eq_none.mp hp { z with bi := some i, off := base + z.off }
        (List.mem_map.mpr ⟨z, hz, rfl⟩)
      simp [hzc, hxc] at this
    | some pb =>
      refine ⟨pb, ?_, ?_⟩
      · unfold IR.block? at hf ⊢
        show List.find? _ (ir.blocks.map f) = _
        rw [find_map_id f hid, hf]
        simp only [Option.map_some, f, hp]
      · obtain ⟨w, _, hw⟩ := List.mem_map.mp (List.mem_of_find?_eq_some hp)
        rw [← hw]

/-! ### `_add_other_section_contents` -/

def osLastEmpty (s : PatchSect) : Bool := (s.blocks.getLast?.map (·.size == 0)).getD false
def osKept (s : PatchSect) : List Block := if osLastEmpty s then s.blocks.dropLast else s.blocks
def osLastId (s : PatchSect) : Nat := (s.blocks.getLast?.map (·.id)).getD 0
def osPrevId (s : PatchSect) : Nat := ((s.blocks.dropLast).getLast?.map (·.id)).getD 0
def osRewrite (s : PatchSect) (y : Sym) : Sym :=
  if y.ref == .block (osLastId s) then { y with ref := .block (osPrevId s), atEnd := true } else y

theorem orderAppend_syms (x : IR) (s : Nat) (bs : List Nat) : (x.orderAppend s bs).syms = x.syms := by
  unfold IR.orderAppend; split <;> rfl

theorem orderAppend_order_congr {x y : IR} (h : x.order = y.order) (s : Nat) (bs : List Nat) :
    (x.orderAppend s bs).order = (y.orderAppend s bs).order := by
  unfold IR.orderAppend; split <;> simp [h]

/-- what one extra section of a patch adds to the module -/
theorem addOtherSection_shape {ir ir' : IR} {p : Patch} {s : PatchSect} {sid bid : Nat} {ns : List Sym}
    (h : ir.addOtherSection p s sid bid = .ok (ir', ns)) :
    ir'.blocks = ir.blocks ++ (osKept s).map (fun b => ({ b with bi := some bid } : Block)) ∧
    (∃ bi : Interval, bi.id = bid ∧ bi.sect = sid ∧ ir'.intervals = ir.intervals ++ [bi]) ∧
    ir'.syms = ir.syms ∧
    ir'.order = (ir.orderAppend sid ((osKept s).map (·.id))).order ∧
    ns = (if osLastEmpty s then p.syms.map (osRewrite s) else p.syms) ∧
    (osLastEmpty s = true → s.blocks.length = 1 → p.syms.any (fun y => y.ref == .block (osLastId s)) = false) := by
  unfold IR.addOtherSection at h
  simp only [] at h
  split at h
  · cases h
  · split at h
    · cases h
    · rename_i h1 h2
      injection h with h; injection h with h1' h2'; subst h1'; subst h2'
      refine ⟨?_, ⟨{ id := bid, sect := sid, addr := none, size := s.data.length, bytes := s.data, symExprs := s.symExprs },
        rfl, rfl, ?_⟩, ?_, ?_, ?_, ?_⟩
      · rw [orderAppend_blocks]
        unfold osKept osLastEmpty
        rfl
      · rw [orderAppend_intervals]
      · rw [orderAppend_syms]
      · have hL : ((if (s.blocks.getLast?.map (·.size == 0)).getD false then s.blocks.dropLast else s.blocks).map
            (fun b => ({ b with bi := some bid } : Block))).map (·.id) = (osKept s).map (·.id) := by
          unfold osKept osLastEmpty
          rw [List.map_map]
          rfl
        rw [hL]
        apply orderAppend_order_congr
        rfl
      · unfold osLastEmpty osRewrite osLastId osPrevId
        rfl
      · intro hle hlen
        have : ¬ ((osLastEmpty s && s.blocks.length == 1 && p.syms.any (fun y => y.ref == .block (osLastId s))) = true) := by
          simpa [osLastEmpty, osLastId] using h2
        simp only [hle, hlen, Bool.true_and, beq_self_eq_true] at this
        simpa using this

theorem find_append_iv (l extra : List Interval) (k : Nat) :
    (l ++ extra).find? (·.id == k) =
      match l.find? (·.id == k) with
      | some b => some b
      | none => extra.find? (·.id == k) := by
  rw [List.find?_append]
  cases l.find? (·.id == k) <;> rfl

/-- the blocks of a section the patch brings: the last one, when it is empty, is dropped -/
theorem osKept_cases (s : PatchSect) :
    (osLastEmpty s = false ∧ osKept s = s.blocks) ∨
    (osLastEmpty s = true ∧ ∃ last, s.blocks.getLast? = some last ∧ osLastId s = last.id ∧
      osKept s = s.blocks.dropLast ∧ s.blocks = s.blocks.dropLast ++ [last]) := by
  cases hle : osLastEmpty s with
  | false => left; exact ⟨rfl, by unfold osKept; rw [hle]; rfl⟩
  | true =>
    right
    refine ⟨rfl, ?_⟩
    cases hl : s.blocks.getLast? with
    | none => unfold osLastEmpty at hle; rw [hl] at hle; simp at hle
    | some last =>
      refine ⟨last, rfl, by unfold osLastId; rw [hl]; rfl, by unfold osKept; rw [hle]; rfl, ?_⟩
      have hne : s.blocks ≠ [] := by intro he; rw [he] at hl; cases hl
      have hgl : s.blocks.getLast hne = last := by
        have := List.getLast?_eq_some_getLast hne
        rw [hl] at this; injection this with this; exact this.symm
      rw [← hgl]
      exact (List.dropLast_concat_getLast hne).symm

/-- **one extra section**: its blocks are attached, the symbols that stood on its dropped empty
last block move to the block in front, and the ordering of its section gains one chain -/
theorem otherStep_sinv {i i2 : IR} {p : Patch} {s : PatchSect} {sid bid : Nat} {ns : List Sym} {rest : List Nat}
    (hao : i.addOtherSection { p with syms := i.syms.filter (fun y => p.syms.any (·.id == y.id)) } s sid bid = .ok (i2, ns))
    (hs : SymsOk i (s.blocks.map (·.id) ++ rest)) (ho : OrdOk i)
    (hfr : ∀ c ∈ s.blocks.map (·.id), i.block? c = none) (hnd : (s.blocks.map (·.id)).Nodup)
    (hdis : ∀ c ∈ s.blocks.map (·.id), c ∉ rest)
    (hiv : i.interval? bid = none)
    (hown : ∀ y ∈ i.syms, ∀ c ∈ s.blocks.map (·.id) ++ rest, y.ref = .block c → p.syms.any (·.id == y.id) = true)
    (j : IR) (hj : j = { i2 with syms := i2.syms.map (fun y => match ns.find? (·.id == y.id) with | some ny => ny | none => y) }) :
    SymsOk j rest ∧ OrdOk j ∧ SecLe i j ∧
    (∀ c, c ∉ s.blocks.map (·.id) → j.block? c = i.block? c) ∧
    (∀ b', b' ≠ bid → j.interval? b' = i.interval? b') ∧
    (∀ y ∈ j.syms, ∀ c ∈ rest, y.ref = .block c → p.syms.any (·.id == y.id) = true) := by
  obtain ⟨hbl, ⟨bi, hbid, hbsect, hivs⟩, hsy, hord, hns, hsingle⟩ := addOtherSection_shape hao
  have jb : j.blocks = i.blocks ++ (osKept s).map (fun b => ({ b with bi := some bid } : Block)) := by rw [hj]; exact hbl
  have ji : j.intervals = i.intervals ++ [bi] := by rw [hj]; exact hivs
  have jo : j.order = (i.orderAppend sid ((osKept s).map (·.id))).order := by rw [hj]; exact hord
  have js : j.syms = i.syms.map (fun y => match ns.find? (·.id == y.id) with | some ny => ny | none => y) := by
    rw [hj]; simp only [hsy]
  -- kept blocks are blocks of the section
  have hkeptsub : ∀ z ∈ osKept s, z ∈ s.blocks := by
    intro z hz
    rcases osKept_cases s with ⟨_, hk⟩ | ⟨_, last, _, _, hk, _⟩
    · rw [hk] at hz; exact hz
    · rw [hk] at hz; exact List.dropLast_subset _ hz
  -- (A) old lookups
  have hA : ∀ c x, i.block? c = some x → j.block? c = some x := by
    intro c x hx
    unfold IR.block? at hx ⊢
    rw [jb, find_append, hx]
  have hA' : ∀ c, c ∉ s.blocks.map (·.id) → j.block? c = i.block? c := by
    intro c hc
    unfold IR.block?
    rw [jb, find_append]
    cases hf : i.blocks.find? (·.id == c) with
    | some x => rfl
    | none =>
      simp only []
      apply List.find?_eq_none.mpr
      intro y hy hyc
      obtain ⟨z, hz, hzy⟩ := List.mem_map.mp hy
      apply hc
      have : y.id = c := by simpa using hyc
      rw [← this, ← hzy]
      exact List.mem_map.mpr ⟨z, hkeptsub z hz, rfl⟩
  -- (C) intervals
  have hC : ∀ k, k ≠ bid → j.interval? k = i.interval? k := by
    intro k hk
    unfold IR.interval?
    rw [ji, find_append_iv]
    cases i.intervals.find? (·.id == k) with
    | some v => rfl
    | none =>
      simp only [List.find?_cons, List.find?_nil]
      have : (bi.id == k) = false := by simp [hbid]; exact fun h => hk h.symm
      rw [this]
  have hD : ISec j bid sid := by
    unfold ISec IR.interval?
    rw [ji, find_append_iv]
    unfold IR.interval? at hiv
    rw [hiv]
    simp [hbid, hbsect]
  have hE : SecLe i j := by
    intro c t ⟨x, hx, hsx⟩
    refine ⟨x, hA c x hx, ?_⟩
    unfold IR.sectionOf at hsx ⊢
    split at hsx
    · cases hsx
    · rename_i k hk
      have hkb : k ≠ bid := by
        intro he; subst he; rw [hiv] at hsx; cases hsx
      rw [hC k hkb]; exact hsx
  -- (B)/(F) new blocks are attached
  have hF : ∀ c ∈ (osKept s).map (·.id), Sec j c sid := by
    intro c hc
    obtain ⟨z, hz, hzc⟩ := List.mem_map.mp hc
    have hnone : i.blocks.find? (·.id == c) = none := by
      have := hfr c (List.mem_map.mpr ⟨z, hkeptsub z hz, hzc⟩)
      unfold IR.block? at this; exact this
    cases hg : ((osKept s).map (fun b => ({ b with bi := some bid } : Block))).find? (·.id == c) with
    | none =>
      have := List.find?_eq_none.mp hg { z with bi := some bid } (List.mem_map.mpr ⟨z, hz, rfl⟩)
      simp [hzc] at this
    | some nb =>
      have hnb : j.block? c = some nb := by
        unfold IR.block?
        rw [jb, find_append, hnone]
        exact hg
      obtain ⟨w, _, hw⟩ := List.mem_map.mp (List.mem_of_find?_eq_some hg)
      exact Sec.of_isec hnb (by rw [← hw]) hD
  -- the symbols handed to the section
  let F := i.syms.filter (fun y => p.syms.any (·.id == y.id))
  have hnsF : ∀ ny ∈ ns, ∃ z ∈ F, ny.id = z.id ∧
      ((ny = z ∧ (osLastEmpty s = true → z.ref ≠ .block (osLastId s))) ∨
       (osLastEmpty s = true ∧ z.ref = .block (osLastId s) ∧ ny.ref = .block (osPrevId s))) := by
    intro ny hny
    rw [hns] at hny
    split at hny
    · rename_i hle
      obtain ⟨z, hz, hzn⟩ := List.mem_map.mp hny
      refine ⟨z, hz, ?_, ?_⟩
      · rw [← hzn]; unfold osRewrite; split <;> rfl
      · unfold osRewrite at hzn
        split at hzn
        · rename_i hr
          right
          exact ⟨hle, by simpa using hr, by rw [← hzn]⟩
        · rename_i hr
          left
          exact ⟨hzn.symm, fun _ hc => hr (by rw [hc]; simp)⟩
    · rename_i hle
      exact ⟨ny, hny, rfl, Or.inl ⟨rfl, fun h => absurd h hle⟩⟩
  refine ⟨?_, ?_, hE, hA', hC, ?_⟩
  · -- symbols
    intro y' hy' c hc
    rw [js] at hy'
    obtain ⟨y, hy, rfl⟩ := List.mem_map.mp hy'
    split at hc
    · -- replaced by the copy the section returned
      rename_i ny hfind
      obtain ⟨z, hzF, _, hcase⟩ := hnsF ny (List.mem_of_find?_eq_some hfind)
      have hzi : z ∈ i.syms := (List.mem_filter.mp hzF).1
      rcases hcase with ⟨hsame, hnotlast⟩ | ⟨hle, hzref, hnyref⟩
      · subst hsame
        rcases hs ny hzi c hc with ⟨t, hsec⟩ | hp
        · exact Or.inl ⟨t, hE c t hsec⟩
        · rcases List.mem_append.mp hp with hp | hp
          · -- a block of this section: attached now, unless it is the dropped last one
            rcases osKept_cases s with ⟨hle0, hk⟩ | ⟨hle1, last, hlast, hlid, hk, hsplit⟩
            · exact Or.inl ⟨sid, hF c (by rw [hk]; exact hp)⟩
            · rw [hsplit, List.map_append] at hp
              rcases List.mem_append.mp hp with hp | hp
              · exact Or.inl ⟨sid, hF c (by rw [hk]; exact hp)⟩
              · simp only [List.map_cons, List.map_nil, List.mem_singleton] at hp
                -- the last block: a symbol on it would have been rewritten
                exfalso
                apply hnotlast hle1
                rw [hc, hp, hlid]
          · exact Or.inr hp
      · -- rewritten: it now stands at the end of the block in front of the dropped one
        rw [hnyref] at hc
        simp only [Referent.block.injEq] at hc
        subst hc
        rcases osKept_cases s with ⟨hle0, _⟩ | ⟨_, last, hlast, hlid, hk, hsplit⟩
        · rw [hle0] at hle; cases hle
        · cases hd : s.blocks.dropLast.getLast? with
          | none =>
            exfalso
            have hprev : s.blocks.dropLast = [] := List.getLast?_eq_none_iff.mp hd
            have hlen : s.blocks.length = 1 := by rw [hsplit, hprev]; rfl
            have := hsingle hle hlen
            simp only [List.any_eq_false] at this
            exact this z hzF (by rw [hzref]; simp)
          | some q =>
            left
            refine ⟨sid, hF _ ?_⟩
            rw [hk]
            unfold osPrevId; rw [hd]
            exact List.mem_map.mpr ⟨q, List.mem_of_getLast? hd, rfl⟩
    · -- not one of the patch's symbols
      rename_i hfind
      have hnotF : y ∉ F := by
        intro hyF
        have hex : ∃ ny ∈ ns, ny.id = y.id := by
          rw [hns]
          split
          · exact ⟨osRewrite s y, List.mem_map.mpr ⟨y, hyF, rfl⟩, by unfold osRewrite; split <;> rfl⟩
          · exact ⟨y, hyF, rfl⟩
        obtain ⟨ny, hny, hid⟩ := hex
        have := List.find?_eq_none.mp hfind ny hny
        simp [hid] at this
      have hnown : p.syms.any (·.id == y.id) = false := by
        cases ha : p.syms.any (·.id == y.id) with
        | false => rfl
        | true => exact absurd (List.mem_filter.mpr ⟨hy, ha⟩) hnotF
      rcases hs y hy c hc with ⟨t, hsec⟩ | hp
      · exact Or.inl ⟨t, hE c t hsec⟩
      · have := hown y hy c hp hc
        rw [hnown] at this; cases this
  · -- ordering
    intro t ch hch
    rw [jo] at hch
    unfold IR.orderAppend at hch
    split at hch
    · obtain ⟨hnd0, hm0⟩ := ho t ch hch
      exact ⟨hnd0, fun x hx => hE x t (hm0 x hx)⟩
    · simp only [] at hch
      rw [getD_alookup_aset] at hch
      split at hch
      · rename_i htt
        subst htt
        rcases List.mem_append.mp hch with hch | hch
        · obtain ⟨hnd0, hm0⟩ := ho t ch hch
          exact ⟨hnd0, fun x hx => hE x t (hm0 x hx)⟩
        · simp only [List.mem_singleton] at hch
          subst hch
          refine ⟨?_, fun x hx => hF x hx⟩
          rcases osKept_cases s with ⟨_, hk⟩ | ⟨_, last, _, _, hk, hsplit⟩
          · rw [hk]; exact hnd
          · rw [hk]
            rw [hsplit, List.map_append] at hnd
            exact (List.nodup_append.mp hnd).1
      · obtain ⟨hnd0, hm0⟩ := ho t ch hch
        exact ⟨hnd0, fun x hx => hE x t (hm0 x hx)⟩
  · -- the remaining pending blocks are still referred to by the patch's symbols only
    intro y' hy' c hc hr
    rw [js] at hy'
    obtain ⟨y, hy, rfl⟩ := List.mem_map.mp hy'
    split at hr
    · rename_i ny hfind
      obtain ⟨z, hzF, hid, _⟩ := hnsF ny (List.mem_of_find?_eq_some hfind)
      rw [hid]
      exact (List.mem_filter.mp hzF).2
    · exact hown y hy c (List.mem_append_right _ hc) hr

/-- ids of the blocks in the extra sections still to be added -/
def pendOf (l : List (PatchSect × Nat × Nat)) : List Nat := (l.map (fun s => s.1.blocks.map (·.id))).flatten

theorem pendOf_cons (x : PatchSect × Nat × Nat) (xs : List (PatchSect × Nat × Nat)) :
    pendOf (x :: xs) = x.1.blocks.map (·.id) ++ pendOf xs := by
  unfold pendOf; simp

/-- what has to hold before the extra sections `l` are added -/
structure OthersReady (p : Patch) (a : IR) (l : List (PatchSect × Nat × Nat)) : Prop where
  syms : SymsOk a (pendOf l)
  ord : OrdOk a
  fresh : ∀ c ∈ pendOf l, a.block? c = none
  nodup : (pendOf l).Nodup
  ivs : ∀ x ∈ l, a.interval? x.2.2 = none
  ivnd : (l.map (·.2.2)).Nodup
  own : ∀ y ∈ a.syms, ∀ c ∈ pendOf l, y.ref = .block c → p.syms.any (·.id == y.id) = true

theorem addOthers_sinv_aux : ∀ (l : List (PatchSect × Nat × Nat)) (p : Patch) (acc : Except Err IR) (ir' : IR),
    (∀ a, acc = .ok a → OthersReady p a l) →
    l.foldl (fun (acc : Except Err IR) (x : PatchSect × Nat × Nat) =>
      match acc with
      | .error e => .error e
      | .ok i =>
        match i.addOtherSection { p with syms := i.syms.filter (fun y => p.syms.any (·.id == y.id)) } x.1 x.2.1 x.2.2 with
        | .error e => .error e
        | .ok (i', newSyms) =>
          .ok { i' with syms := i'.syms.map (fun y =>
            match newSyms.find? (·.id == y.id) with
            | some ny => ny
            | none => y) }) acc = .ok ir' → SymsOk ir' [] ∧ OrdOk ir' := by
  intro l
  induction l with
  | nil =>
    intro p acc ir' hacc h
    have r := hacc ir' h
    exact ⟨by simpa [pendOf] using r.syms, r.ord⟩
  | cons x xs ih =>
    intro p acc ir' hacc h
    simp only [List.foldl_cons] at h
    refine ih p _ ir' ?_ h
    intro a' ha'
    split at ha'
    · cases ha'
    · rename_i i
      split at ha'
      · cases ha'
      · rename_i i2 ns hao
        injection ha' with ha'
        have r := hacc i rfl
        have hnd := r.nodup
        rw [pendOf_cons] at hnd
        obtain ⟨hnd1, hnd2, hdis⟩ := List.nodup_append.mp hnd
        have hivnd := r.ivnd
        simp only [List.map_cons] at hivnd
        obtain ⟨hbnot, hivnd2⟩ := List.nodup_cons.mp hivnd
        obtain ⟨s1, o1, _, hblk, hivk, hown⟩ := otherStep_sinv (rest := pendOf xs) hao
          (by rw [← pendOf_cons]; exact r.syms) r.ord
          (fun c hc => r.fresh c (by rw [pendOf_cons]; exact List.mem_append_left _ hc)) hnd1
          (fun c hc hr => hdis c hc c hr rfl)
          (r.ivs x List.mem_cons_self)
          (by rw [← pendOf_cons]; exact r.own) a' ha'.symm
        refine ⟨s1, o1, ?_, hnd2, ?_, hivnd2, hown⟩
        · intro c hc
          rw [hblk c (fun hm => hdis c hm c hc rfl)]
          exact r.fresh c (by rw [pendOf_cons]; exact List.mem_append_right _ hc)
        · intro y hy
          rw [hivk y.2.2 (fun he => hbnot (by rw [← he]; exact List.mem_map_of_mem hy))]
          exact r.ivs y (List.mem_cons_of_mem _ hy)

theorem addOthers_sinv {ir ir' : IR} {p : Patch} (h : ir.addOthers p = .ok ir') (hr : OthersReady p ir p.others) :
    SymsOk ir' [] ∧ OrdOk ir' := by
  unfold IR.addOthers at h
  exact addOthers_sinv_aux p.others p (.ok ir) ir' (fun a ha => by injection ha with ha; subst ha; exact hr) h

/-! ### insert -/

/-- the block behind the insertion point is not the block inserted into -/
theorem insertSplit_ne {ir ir' : IR} {b off repl endB : Nat} {added : Bool}
    (h : ir.insertSplit b off repl = .ok (ir', endB, added)) (hI : IdsBelow ir) (hb : ir.block? b ≠ none) : b ≠ endB := by
  unfold IR.insertSplit at h
  split at h
  · cases h
  · rename_i ir1 e0 a0 hs1
    split at h
    · split at h
      · cases h
      · rename_i i2 e2 a2 hs2
        split at h
        · cases h
        · injection h with h; injection h with h1 h2; injection h2 with h2 h3; subst h2
          exact splitBlock_new_ne hs2 (splitBlock_idsBelow hs1 hI) b ((splitBlock_keeps hs1).block hb)
    · injection h with h; injection h with h1 h2; injection h2 with h2 h3; subst h2
      exact splitBlock_new_ne hs1 hI b hb

theorem editInterval_interval?_other (ir : IR) (i off len : Nat) (c st : List Nat) (k : Nat) (hk : k ≠ i) :
    (ir.editInterval i off len c st).interval? k = ir.interval? k := by
  unfold IR.editInterval
  split
  · rfl
  · rename_i bi hbi
    have hbid : bi.id = i := by
      unfold IR.interval? at hbi
      have := List.find?_some hbi
      simpa using this
    let nv : Interval :=
      { id := bi.id, sect := bi.sect, addr := bi.addr, size := bi.size + c.length - len,
        bytes := spliceBytes bi.bytes off len c, symExprs := shiftKeys off len c.length bi.symExprs }
    show (ir.setInterval nv).interval? k = _
    exact interval?_setInterval_other ir i k nv hbid hk

theorem addPatchExprs_interval?_other (ir : IR) (i base : Nat) (ex : List (Nat × SymExpr)) (k : Nat) (hk : k ≠ i) :
    (ir.addPatchExprs i base ex).interval? k = ir.interval? k := by
  unfold IR.addPatchExprs
  split
  · rfl
  · rename_i bi hbi
    have hbid : bi.id = i := by
      unfold IR.interval? at hbi
      have := List.find?_some hbi
      simpa using this
    let nv : Interval := { bi with symExprs := ex.foldl (fun m (k, v) => aset (base + k) v m) bi.symExprs }
    show (ir.setInterval nv).interval? k = _
    exact interval?_setInterval_other ir i k nv hbid hk

theorem interval?_of_intervals {a b : IR} (h : b.intervals = a.intervals) (k : Nat) : b.interval? k = a.interval? k := by
  unfold IR.interval?; rw [h]

/-- **the objects of a patch are new**: the blocks of all its sections are pairwise different
objects that are no blocks of the module yet (ids below the model's counter), the byte intervals
of its extra sections are new, and the symbols it defines stand on its own blocks -/
structure PatchOk (ir : IR) (p : Patch) : Prop where
  fresh : ∀ c ∈ p.text.blocks.map (·.id) ++ pendOf p.others, ir.block? c = none ∧ c < ir.next
  nodup : (p.text.blocks.map (·.id) ++ pendOf p.others).Nodup
  ivs : ∀ x ∈ p.others, ir.interval? x.2.2 = none
  ivnd : (p.others.map (·.2.2)).Nodup
  syms : ∀ y ∈ p.syms, ∀ b, y.ref = .block b → b ∈ p.text.blocks.map (·.id) ++ pendOf p.others

/-- **`insert` keeps every symbol on a block of the module** -/
theorem insert_sinv {ir ir' : IR} {b off repl last : Nat} {p : Patch}
    (h : ir.insert b off repl p = .ok (ir', last)) (hs : SymsOk ir []) (ho : OrdOk ir) (hI : IdsBelow ir)
    (hp : PatchOk ir p) : SymsOk ir' [] ∧ OrdOk ir' := by
  cases hb : ir.block? b with
  | none => unfold IR.insert at h; rw [hb] at h; cases h
  | some blk =>
  unfold IR.insert at h
  rw [hb] at h
  simp only [] at h
  split at h
  · cases h
  · split at h
    · cases h
    · split at h
      · rename_i biId sect hbi hsect
        split at h
        · cases h
        · split at h
          · cases h
          · split at h
            · cases h
            · split at h
              · cases h
              · split at h
                · cases h
                · rename_i ir2 endB added hsp
                  split at h
                  · cases h
                  · split at h
                    · cases h
                    · rename_i ir12 hoth
                      -- names
                      have hTO := hp.nodup
                      obtain ⟨hTnd, hOnd, hTOdis⟩ := List.nodup_append.mp hTO
                      have hsecb : Sec ir b sect := ⟨blk, hb, hsect⟩
                      have hisec : ISec ir biId sect := by
                        unfold IR.sectionOf at hsect; rw [hbi] at hsect; exact hsect
                      have hin : In biId ir b := ⟨blk, hb, Or.inl hbi⟩
                      -- after the split
                      obtain ⟨s2, o2, hsec2⟩ := insertSplit_sinv hsp hs ho hI
                      obtain ⟨hsb2, hse2⟩ := hsec2 sect hsecb
                      obtain ⟨hI2, _, _, _⟩ := insertSplit_facts hsp hin hI
                      have hbe : b ≠ endB := insertSplit_ne hsp hI (by rw [hb]; simp)
                      have hiv2 := insertSplit_intervals hsp
                      have hfresh2 : ∀ c ∈ p.text.blocks.map (·.id) ++ pendOf p.others, ir2.block? c = none := by
                        intro c hc
                        rw [block?_none_iff]
                        intro hm
                        obtain ⟨hn, hlt⟩ := hp.fresh c hc
                        rcases insertSplit_ids_sub hsp c hm with h1 | h1
                        · exact (block?_none_iff ir c).mp hn h1
                        · omega
                      generalize hpc : (if blk.isCode then ir.matchPatchReturnEdges b p.cfg p.proxies else (p.cfg, p.proxies))
                        = pcX at hoth h
                      -- the return edges of calls in the patch: CFG only
                      have hRb : (ir2.addReturnEdgesForPatchCalls pcX.1).1.blocks = ir2.blocks :=
                        addReturnEdgesForPatchCalls_blocks _ _
                      have hRi : (ir2.addReturnEdgesForPatchCalls pcX.1).1.intervals = ir2.intervals :=
                        addReturnEdgesForPatchCalls_intervals _ _
                      have hRs : (ir2.addReturnEdgesForPatchCalls pcX.1).1.syms = ir2.syms :=
                        addReturnEdgesForPatchCalls_syms _ _
                      have hRo : (ir2.addReturnEdgesForPatchCalls pcX.1).1.order = ir2.order :=
                        addReturnEdgesForPatchCalls_order _ _
                      generalize hR : (ir2.addReturnEdgesForPatchCalls pcX.1) = R at hoth h hRb hRi hRs hRo
                      -- the stitch appends the patch's blocks, detached
                      have hSb := insertStitch_blocks R.1 p.text.blocks b endB added
                      have hSi : (R.1.insertStitch p.text.blocks b endB added).intervals = R.1.intervals :=
                        insertStitch_intervals _ _ _ _ _
                      have hSs : (R.1.insertStitch p.text.blocks b endB added).syms = R.1.syms := insertStitch_syms _ _ _ _ _
                      have hSo : (R.1.insertStitch p.text.blocks b endB added).order = R.1.order := insertStitch_order _ _ _ _ _
                      have hinS : ∀ c ∈ p.text.blocks.map (·.id), In biId (R.1.insertStitch p.text.blocks b endB added) c := by
                        intro c hc
                        apply insertStitch_in _ _ _ _ _ _ hc
                        intro x hx
                        rw [block?_of_blocks hRb c, hfresh2 c (List.mem_append_left _ hc)] at hx
                        cases hx
                      generalize hS : R.1.insertStitch p.text.blocks b endB added = S at hoth h hSb hSi hSs hSo hinS
                      -- the byte edit
                      have tE := editInterval_touches S biId (blk.off + off) repl p.text.data [b]
                      have hEle := editInterval_secLe S biId (blk.off + off) repl p.text.data [b]
                      have hEs := editInterval_syms S biId (blk.off + off) repl p.text.data [b]
                      have hEo := editInterval_order S biId (blk.off + off) repl p.text.data [b]
                      have hEisec : ISec (S.editInterval biId (blk.off + off) repl p.text.data [b]) biId sect :=
                        editInterval_isec S _ _ _ _ _ _ _
                          (ISec.of_intervals hSi (ISec.of_intervals hRi (ISec.of_intervals hiv2 hisec)))
                      have hEiv : ∀ k, k ≠ biId → (S.editInterval biId (blk.off + off) repl p.text.data [b]).interval? k = ir.interval? k := by
                        intro k hk
                        rw [editInterval_interval?_other _ _ _ _ _ _ k hk, interval?_of_intervals hSi,
                          interval?_of_intervals hRi, interval?_of_intervals hiv2]
                      generalize hE : S.editInterval biId (blk.off + off) repl p.text.data [b] = E at hoth h tE hEle hEs hEo hEisec hEiv
                      -- old blocks from the split state to E
                      have hle2E : SecLe ir2 E :=
                        ((SecLe.of_same hRb hRi).trans (secLe_of_append _ hSb hSi)).trans hEle
                      -- placing the patch's blocks
                      have hPother : ∀ c s, Sec ir2 c s → Sec (E.placePatchBlocks p.text.blocks biId (blk.off + off)) c s := by
                        intro c s hsec
                        obtain ⟨x, hx, hsx⟩ := hle2E c s hsec
                        have hcT : c ∉ p.text.blocks.map (·.id) := by
                          intro hm
                          exact hsec.block (hfresh2 c (List.mem_append_left _ hm))
                        refine ⟨x, by rw [placePatchBlocks_other _ _ _ _ _ hcT]; exact hx, ?_⟩
                        rw [sectionOf_congr (placePatchBlocks_intervals _ _ _ _)]; exact hsx
                      have hPnew : ∀ c ∈ p.text.blocks.map (·.id), Sec (E.placePatchBlocks p.text.blocks biId (blk.off + off)) c sect := by
                        intro c hc
                        obtain ⟨eb, heb, _⟩ := tE.1.in (hinS c hc)
                        obtain ⟨pb, hpb, hpbi⟩ := placePatchBlocks_patch E p.text.blocks biId (blk.off + off) c hc (by rw [heb]; simp)
                        exact Sec.of_isec hpb hpbi (ISec.of_intervals (placePatchBlocks_intervals _ _ _ _) hEisec)
                      have hPids : (E.placePatchBlocks p.text.blocks biId (blk.off + off)).ids = ir2.ids ++ p.text.blocks.map (·.id) := by
                        rw [placePatchBlocks_ids, tE.2.2.1]
                        unfold IR.ids
                        rw [hSb, List.map_append, hRb, List.map_map]
                        rfl
                      have hPs : (E.placePatchBlocks p.text.blocks biId (blk.off + off)).syms = ir2.syms := by
                        rw [placePatchBlocks_syms, hEs, hSs, hRs]
                      have hPo : (E.placePatchBlocks p.text.blocks biId (blk.off + off)).order = ir2.order := by
                        rw [placePatchBlocks_order, hEo, hSo, hRo]
                      have hPiv : ∀ k, k ≠ biId → (E.placePatchBlocks p.text.blocks biId (blk.off + off)).interval? k = ir.interval? k := by
                        intro k hk
                        rw [interval?_of_intervals (placePatchBlocks_intervals _ _ _ _)]; exact hEiv k hk
                      generalize hP : E.placePatchBlocks p.text.blocks biId (blk.off + off) = P at hoth h hPother hPnew hPids hPs hPo hPiv
                      -- expressions, ordering, nodes, aux data, functions: up to the other sections
                      have hQle := addPatchExprs_secLe P biId (blk.off + off) p.text.symExprs
                      let T := p.text.blocks.map (·.id)
                      let O := pendOf p.others
                      have hXb : ∀ (c : List Edge) (px : List Nat), (((((P.addPatchExprs biId (blk.off + off)
                          p.text.symExprs).orderInsertAfter sect b T).addPatchNodes p c px).addPatchAux p biId (blk.off + off)).addPatchFunctions
                          blk p.text.blocks).blocks = P.blocks := by
                        intro c px
                        rw [addPatchFunctions_blocks]
                        show (IR.addPatchExprs _ _ _ _).blocks = _
                        rw [addPatchExprs_blocks]
                      have hXsec : ∀ (c : List Edge) (px : List Nat) k t, Sec P k t → Sec (((((P.addPatchExprs biId (blk.off + off)
                          p.text.symExprs).orderInsertAfter sect b T).addPatchNodes p c px).addPatchAux p biId (blk.off + off)).addPatchFunctions
                          blk p.text.blocks) k t := by
                        intro c px k t hsec
                        obtain ⟨x, hx, hsx⟩ := hQle k t hsec
                        refine ⟨x, ?_, ?_⟩
                        · rw [block?_of_blocks (hXb c px) k, ← block?_of_blocks (addPatchExprs_blocks P biId (blk.off + off) p.text.symExprs) k]
                          exact hx
                        · have : ((((P.addPatchExprs biId (blk.off + off) p.text.symExprs).orderInsertAfter sect b T).addPatchNodes p c px).addPatchAux
                              p biId (blk.off + off) |>.addPatchFunctions blk p.text.blocks).intervals =
                              (P.addPatchExprs biId (blk.off + off) p.text.symExprs).intervals := by
                            rw [addPatchFunctions_intervals]; rfl
                          rw [sectionOf_congr this]; exact hsx
                      have hXs : ∀ (c : List Edge) (px : List Nat), (((((P.addPatchExprs biId (blk.off + off)
                          p.text.symExprs).orderInsertAfter sect b T).addPatchNodes p c px).addPatchAux p biId (blk.off + off)).addPatchFunctions
                          blk p.text.blocks).syms = ir2.syms ++ p.syms := by
                        intro c px
                        rw [addPatchFunctions_syms, addPatchAux_syms]
                        show (IR.addPatchExprs _ _ _ _).syms ++ p.syms = _
                        rw [addPatchExprs_syms, hPs]
                      have hXo : ∀ (c : List Edge) (px : List Nat), (((((P.addPatchExprs biId (blk.off + off)
                          p.text.symExprs).orderInsertAfter sect b T).addPatchNodes p c px).addPatchAux p biId (blk.off + off)).addPatchFunctions
                          blk p.text.blocks).order = aset sect (((alookup sect ir2.order).getD []).map (insAfter b T)) ir2.order := by
                        intro c px
                        rw [addPatchFunctions_order, addPatchAux_order, addPatchNodes_order]
                        unfold IR.orderInsertAfter
                        simp only [addPatchExprs_order, hPo]
                      have hXiv : ∀ (c : List Edge) (px : List Nat) k, k ≠ biId → (((((P.addPatchExprs biId (blk.off + off)
                          p.text.symExprs).orderInsertAfter sect b T).addPatchNodes p c px).addPatchAux p biId (blk.off + off)).addPatchFunctions
                          blk p.text.blocks).interval? k = ir.interval? k := by
                        intro c px k hk
                        have : ((((P.addPatchExprs biId (blk.off + off) p.text.symExprs).orderInsertAfter sect b T).addPatchNodes p c px).addPatchAux
                              p biId (blk.off + off) |>.addPatchFunctions blk p.text.blocks).intervals =
                              (P.addPatchExprs biId (blk.off + off) p.text.symExprs).intervals := by
                            rw [addPatchFunctions_intervals]; rfl
                        rw [interval?_of_intervals this, addPatchExprs_interval?_other _ _ _ _ k hk]
                        exact hPiv k hk
                      have hXb' := hXb R.2 pcX.2
                      have hXsec' := hXsec R.2 pcX.2
                      have hXs' := hXs R.2 pcX.2
                      have hXo' := hXo R.2 pcX.2
                      have hXiv' := hXiv R.2 pcX.2
                      generalize hX : ((((P.addPatchExprs biId (blk.off + off) p.text.symExprs).orderInsertAfter sect b
                          (p.text.blocks.map (·.id))).addPatchNodes p R.2 pcX.2).addPatchAux p biId (blk.off + off)).addPatchFunctions
                          blk p.text.blocks = X at hoth h hXb' hXsec' hXs' hXo' hXiv'
                      -- everything attached so far
                      have hle2X : ∀ c t, Sec ir2 c t → Sec X c t := fun c t hc => hXsec' c t (hPother c t hc)
                      have hTX : ∀ c ∈ T, Sec X c sect := fun c hc => hXsec' c sect (hPnew c hc)
                      have hready : OthersReady p X p.others := by
                        refine ⟨?_, ?_, ?_, hOnd, ?_, hp.ivnd, ?_⟩
                        · intro y hy c hc
                          rw [hXs'] at hy
                          rcases List.mem_append.mp hy with hy | hy
                          · rcases s2 y hy c hc with ⟨t, hsec⟩ | hpe
                            · exact Or.inl ⟨t, hle2X c t hsec⟩
                            · cases hpe
                          · rcases List.mem_append.mp (hp.syms y hy c hc) with hm | hm
                            · exact Or.inl ⟨sect, hTX c hm⟩
                            · exact Or.inr hm
                        · intro t ch hch
                          rw [hXo', getD_alookup_aset] at hch
                          split at hch
                          · rename_i htt
                            subst htt
                            obtain ⟨ch0, hch0, rfl⟩ := List.mem_map.mp hch
                            obtain ⟨hnd0, hm0⟩ := o2 t ch0 hch0
                            refine ⟨nodup_insAfter b T hTnd ch0 hnd0 ?_, ?_⟩
                            · intro x hx hm
                              exact (hm0 x hm).block (hfresh2 x (List.mem_append_left _ hx))
                            · intro x hx
                              rcases mem_insAfter b T ch0 x hx with hx | hx
                              · exact hle2X x t (hm0 x hx)
                              · exact hTX x hx
                          · obtain ⟨hnd0, hm0⟩ := o2 t ch hch
                            exact ⟨hnd0, fun x hx => hle2X x t (hm0 x hx)⟩
                        · intro c hc
                          rw [block?_of_blocks hXb' c, block?_none_iff, hPids]
                          intro hm
                          rcases List.mem_append.mp hm with hm | hm
                          · exact (block?_none_iff ir2 c).mp (hfresh2 c (List.mem_append_right _ hc)) hm
                          · exact hTOdis c hm c hc rfl
                        · intro x hx
                          have hk : x.2.2 ≠ biId := by
                            intro he
                            have := hp.ivs x hx
                            rw [he] at this
                            unfold ISec at hisec
                            rw [this] at hisec; cases hisec
                          rw [hXiv' x.2.2 hk]; exact hp.ivs x hx
                        · intro y hy c hc hr
                          rw [hXs'] at hy
                          rcases List.mem_append.mp hy with hy | hy
                          · exfalso
                            rcases s2 y hy c hr with ⟨t, hsec⟩ | hpe
                            · exact hsec.block (hfresh2 c (List.mem_append_right _ hc))
                            · cases hpe
                          · exact List.any_eq_true.mpr ⟨y, hy, by simp⟩
                      obtain ⟨s12, o12⟩ := addOthers_sinv hoth hready
                      -- the counter, then the clean-up
                      have s13 : SymsOk (ir12.bumpNext p) [] := s12.mono rfl (SecLe.of_same rfl rfl)
                      have o13 : OrdOk (ir12.bumpNext p) := o12.mono rfl (SecLe.of_same rfl rfl)
                      refine cleanup_sinv h ?_ s13 o13
                      -- the blocks handed to the clean-up are pairwise different
                      have hbT : b ∉ T := fun hm => by
                        have := (hp.fresh b (List.mem_append_left _ hm)).1
                        rw [hb] at this; cases this
                      have heT : endB ∉ T := fun hm => hse2.block (hfresh2 endB (List.mem_append_left _ hm))
                      rw [List.append_assoc]
                      refine List.nodup_append.mpr ⟨by simp, ?_, ?_⟩
                      · refine List.nodup_append.mpr ⟨hTnd, by simp, ?_⟩
                        intro x hx y hy hxy
                        simp only [List.mem_singleton] at hy
                        subst hy; subst hxy
                        exact heT hx
                      · intro x hx y hy hxy
                        simp only [List.mem_singleton] at hx
                        subst hx; subst hxy
                        rcases List.mem_append.mp hy with hy | hy
                        · exact hbT hy
                        · simp only [List.mem_singleton] at hy
                          exact hbe hy
      · cases h

/-! ### the loops -/

theorem adoptPatchBlocks_syms (ir : IR) (p : Patch) (f : Nat) : (ir.adoptPatchBlocks p f).syms = ir.syms := by
  unfold IR.adoptPatchBlocks
  apply foldl_syms
  intro i b
  split
  · split <;> rfl
  · rfl

theorem adoptPatchBlocks_order (ir : IR) (p : Patch) (f : Nat) : (ir.adoptPatchBlocks p f).order = ir.order := by
  unfold IR.adoptPatchBlocks
  apply foldl_order
  intro i b
  split
  · split <;> rfl
  · rfl

theorem loopInsert_sinv {ir ir' : IR} {func : Option Nat} {ab : Block} {a ao repl last : Nat} {p : Patch}
    (h : ir.loopInsert func ab a ao repl p = .ok (ir', last)) (hs : SymsOk ir []) (ho : OrdOk ir) (hI : IdsBelow ir)
    (hp : PatchOk ir p) : SymsOk ir' [] ∧ OrdOk ir' := by
  unfold IR.loopInsert at h
  split at h
  · cases h
  · rename_i ir1 l1 hins
    obtain ⟨s1, o1⟩ := insert_sinv hins hs ho hI hp
    split at h
    · split at h
      · injection h with h; injection h with h1 h2; subst h1
        obtain ⟨hb, hi, _⟩ := adoptPatchBlocks_touches ir1 p _
        exact ⟨s1.mono (adoptPatchBlocks_syms _ _ _) (SecLe.of_same hb hi),
          o1.mono (adoptPatchBlocks_order _ _ _) (SecLe.of_same hb hi)⟩
      · injection h with h; injection h with h1 h2; subst h1; exact ⟨s1, o1⟩
    · injection h with h; injection h with h1 h2; subst h1; exact ⟨s1, o1⟩

/-- **the objects of every patch are new when the patch is inserted** (see `PatchOk`), along the
loop over the requests of a block -/
def NewPatches (origOff : Nat) (func : Option Nat) : IR → Option Nat → Int → List Mod → Prop
  | _, _, _, [] => True
  | _, none, _, _ :: _ => True
  | ir, some a, total, m :: ms =>
    match ir.block? a with
    | none => True
    | some ab =>
      match m with
      | .ins o repl p =>
        PatchOk ir p ∧
        ∀ ir' last, ir.loopInsert func ab a (actualOffset origOff ab total o).toNat repl p = .ok (ir', last) →
          NewPatches origOff func ir' (some last) (total + (p.text.data.length : Int) - (repl : Int)) ms
      | .del o len px =>
        ∀ ir' r, ir.delete a (actualOffset origOff ab total o).toNat len px = .ok (ir', r) →
          NewPatches origOff func ir' r (total - (len : Int)) ms

theorem NewPatches.newBlocks (origOff : Nat) (func : Option Nat) : ∀ (ms : List Mod) (ir : IR) (actual : Option Nat) (total : Int),
    NewPatches origOff func ir actual total ms → NewBlocks origOff func ir actual total ms := by
  intro ms
  induction ms with
  | nil => intro ir actual total _; unfold NewBlocks; trivial
  | cons m ms ih =>
    intro ir actual total h
    cases actual with
    | none => unfold NewBlocks; trivial
    | some a =>
      unfold NewPatches at h
      unfold NewBlocks
      cases hab : ir.block? a with
      | none => simp only []
      | some ab =>
        rw [hab] at h
        simp only [] at h ⊢
        cases m with
        | ins o repl p =>
          simp only [] at h ⊢
          obtain ⟨hp, hnext⟩ := h
          refine ⟨fun c hc => hp.fresh c (List.mem_append_left _ hc), (List.nodup_append.mp hp.nodup).1, ?_⟩
          intro ir' last hl
          exact ih ir' (some last) _ (hnext ir' last hl)
        | del o len px =>
          simp only [] at h ⊢
          intro ir' r hd
          exact ih ir' r _ (h ir' r hd)

/-- **no symbol is left on a block that left the module, through the whole loop over the requests
of a block** -/
theorem applyMods_sinv (origOff i : Nat) (func : Option Nat) : ∀ (ms : List Mod) (ir ir' : IR) (actual : Option Nat)
    (total : Int),
    IR.applyMods origOff func ir actual total ms = .ok ir' →
    (∀ a, actual = some a → In i ir a) → IdsBelow ir → NewPatches origOff func ir actual total ms →
    SymsOk ir [] → OrdOk ir → SymsOk ir' [] ∧ OrdOk ir' := by
  intro ms
  induction ms with
  | nil =>
    intro ir ir' actual total h _ _ _ hs ho
    unfold IR.applyMods at h
    injection h with h; subst h
    exact ⟨hs, ho⟩
  | cons m ms ih =>
    intro ir ir' actual total h hact hI hnew hs ho
    cases actual with
    | none => unfold IR.applyMods at h; cases h
    | some a =>
      obtain ⟨ab, hab, habi⟩ := hact a rfl
      have hin : In i ir a := ⟨ab, hab, habi⟩
      unfold IR.applyMods at h
      rw [hab] at h
      simp only [] at h
      unfold NewPatches at hnew
      rw [hab] at hnew
      simp only [] at hnew
      split at h
      · cases h
      · cases m with
        | ins o repl p =>
          simp only [Mod.off] at h
          split at h
          · cases h
          · rename_i ir1 last hloop
            obtain ⟨hp, hnext⟩ := hnew
            obtain ⟨ir0, hins, hlb, hli, hln⟩ := loopInsert_ok hloop
            have hst : ∀ c ∈ p.text.blocks.map (·.id), Stays i ir c :=
              fun c hc blk hblk => by rw [(hp.fresh c (List.mem_append_left _ hc)).1] at hblk; cases hblk
            obtain ⟨hI0, hin0⟩ := insert_facts hins hin hI hst
            have hI1 : IdsBelow ir1 := hI0.mono (ids_of_blocks hlb) (by rw [hln]; exact Nat.le_refl _)
            have hin1 : In i ir1 last := (Keeps.of_blocks hlb).in hin0
            obtain ⟨s1, o1⟩ := loopInsert_sinv hloop hs ho hI hp
            exact ih ir1 ir' (some last) _ h (fun a' ha' => by injection ha' with ha'; subst ha'; exact hin1)
              hI1 (hnext ir1 last hloop) s1 o1
        | del o len px =>
          simp only [Mod.off] at h
          split at h
          · cases h
          · rename_i ir1 r hdel
            obtain ⟨hI1, hin1⟩ := delete_facts hdel hin hI
            obtain ⟨s1, o1⟩ := delete_sinv hdel hs ho hI
            exact ih ir1 ir' r _ h hin1 hI1 (hnew ir1 r hdel) s1 o1

/-- the patches of all request lists consist of new objects when they are inserted -/
def NewPatchesAll : IR → List BlockMods → Prop
  | _, [] => True
  | ir, r :: rest =>
    match ir.block? r.block with
    | none => True
    | some blk =>
      NewPatches blk.off r.func ir (some r.block) 0 r.mods ∧
      ∀ ir', ir.applyMods blk.off r.func (some r.block) 0 r.mods = .ok ir' → NewPatchesAll ir' rest

/-- **no symbol is left on a block that left the module, through `apply()`'s whole loop over the
blocks** -/
theorem applyAll_sinv : ∀ (rs : List BlockMods) (ir ir' : IR),
    ir.applyAll rs = .ok ir' → IdsBelow ir → (∀ r ∈ rs, ReqOk ir r) → (rs.map (ivOf ir)).Nodup → NewPatchesAll ir rs →
    SymsOk ir [] → OrdOk ir → SymsOk ir' [] ∧ OrdOk ir' := by
  intro rs
  induction rs with
  | nil =>
    intro ir ir' h _ _ _ _ hs ho
    unfold IR.applyAll at h
    injection h with h; subst h; exact ⟨hs, ho⟩
  | cons r rest ih =>
    intro ir ir' h hI hok hnd hnew hs ho
    obtain ⟨blk, i, bytes, hb, hbi, hsz, hby, hfit, hd⟩ := hok r List.mem_cons_self
    unfold IR.applyAll at h
    rw [hb] at h
    simp only [] at h
    unfold NewPatchesAll at hnew
    rw [hb] at hnew
    simp only [] at hnew
    split at h
    · cases h
    · rename_i ir1 hmod
      obtain ⟨hn1, hn2⟩ := hnew
      obtain ⟨hI1, hok1, hnd1⟩ := applyAll_step hb hmod hI hok hnd (NewPatches.newBlocks _ _ _ _ _ _ hn1)
      obtain ⟨s1, o1⟩ := applyMods_sinv blk.off i r.func r.mods ir ir1 (some r.block) 0 hmod
        (fun a ha => by injection ha with ha; subst ha; exact ⟨blk, hb, Or.inl hbi⟩) hI hn1 hs ho
      exact ih ir1 ir' h hI1 hok1 hnd1 (hn2 ir1 hmod) s1 o1

/-! ### the executable forms of the premises are sound -/

theorem attSect_some {ir : IR} {c s : Nat} (h : ir.attSect c = some s) : Sec ir c s := by
  unfold IR.attSect at h
  cases hb : ir.block? c with
  | none => rw [hb] at h; cases h
  | some blk => rw [hb] at h; exact ⟨blk, hb, h⟩

theorem symsOkB_sound {ir : IR} (h : ir.symsOkB = true) : SymsOk ir [] := by
  intro y hy b hb
  unfold IR.symsOkB at h
  have := List.all_eq_true.mp h y hy
  rw [hb] at this
  simp only [] at this
  cases hs : ir.attSect b with
  | none => rw [hs] at this; cases this
  | some s => exact Or.inl ⟨s, attSect_some hs⟩

theorem alookup_mem {β} (k : Nat) (v : β) : ∀ (l : List (Nat × β)), alookup k l = some v → (k, v) ∈ l := by
  intro l
  induction l with
  | nil => intro h; cases h
  | cons x xs ih =>
    intro h
    obtain ⟨k', v'⟩ := x
    unfold alookup at h
    split at h
    · rename_i hk
      injection h with h; subst h; subst hk
      exact List.mem_cons_self
    · exact List.mem_cons_of_mem _ (ih h)

theorem ordOkB_sound {ir : IR} (h : ir.ordOkB = true) : OrdOk ir := by
  intro s ch hch
  cases hl : alookup s ir.order with
  | none => rw [hl] at hch; cases hch
  | some chains =>
    rw [hl] at hch
    simp only [Option.getD_some] at hch
    unfold IR.ordOkB at h
    have h1 := List.all_eq_true.mp h (s, chains) (alookup_mem s chains ir.order hl)
    simp only [] at h1
    have h2 := List.all_eq_true.mp h1 ch hch
    simp only [Bool.and_eq_true, decide_eq_true_eq] at h2
    refine ⟨h2.1, ?_⟩
    intro b hb
    have := List.all_eq_true.mp h2.2 b hb
    exact attSect_some (by simpa using this)

theorem sinvB_sound {ir : IR} (h1 : ir.symsOkB = true) (h2 : ir.ordOkB = true) : SInv ir :=
  ⟨symsOkB_sound h1, ordOkB_sound h2⟩

theorem otherIds_eq (p : Patch) : p.otherIds = pendOf p.others := rfl

theorem patchOkB_sound {ir : IR} {p : Patch} (h : ir.patchOkB p = true) : PatchOk ir p := by
  unfold IR.patchOkB at h
  simp only [Bool.and_eq_true, otherIds_eq] at h
  obtain ⟨⟨⟨⟨h1, h2⟩, h3⟩, h4⟩, h5⟩ := h
  refine ⟨?_, of_decide_eq_true h2, ?_, of_decide_eq_true h4, ?_⟩
  · intro c hc
    have := List.all_eq_true.mp h1 c hc
    simp only [Bool.and_eq_true, decide_eq_true_eq, Option.isNone_iff_eq_none] at this
    exact this
  · intro x hx
    have := List.all_eq_true.mp h3 x hx
    simpa using this
  · intro y hy b hb
    have := List.all_eq_true.mp h5 y hy
    rw [hb] at this
    simpa using this

end GtirbVerif.IR
