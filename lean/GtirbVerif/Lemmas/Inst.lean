import GtirbVerif.Lemmas.Encodable

/-! Round trip of CFI instructions (operands may be DWARF expressions) and of
`parse_cfi_instructions`. -/
namespace GtirbVerif.Dwarf

/-- every operation inside every expression operand belongs to the table -/
def ArgsIn (et : Table) (args : List Arg) : Prop :=
  ∀ a ∈ args, ∀ ops, a = Arg.expr ops → ∀ o ∈ ops, o.cls ∈ et

def Enc.notFused : Enc → Bool
  | .addOp _ => false
  | _ => true

theorem decArg_encArg {et : Table} (hT : TableOK et = true) (hF : ExprFree et = true)
    {e : Enc} {bo : ByteOrder} {ptr : Nat} {a : Arg} {b : List Nat} (rest : List Nat)
    (hs : e.notFused = true) (hok : e.ok = true)
    (hin : ∀ ops, a = Arg.expr ops → ∀ o ∈ ops, o.cls ∈ et)
    (hv : validateArg e (some ptr) a = .ok ()) (h : encArg bo ptr e a = .ok b) :
    decArg et bo ptr e (b ++ rest) = .ok (a, b.length, rest) := by
  cases a with
  | int v =>
    simp only [validateArg] at hv
    split at hv
    · cases hv
    · rename_i hne
      split at hv
      · rename_i hve
        simp only [encArg] at h
        split at h
        · cases h
        · rename_i b1 hb1
          simp only [Except.ok.injEq] at h; subst h
          have hst : e.standalone = true := by cases e <;> simp_all [Enc.standalone, Enc.notFused]
          simp only [decArg, hne, ↓reduceIte, decInt_encInt rest hst hok hve hb1, bind, Except.bind]
      · cases hv
  | expr ops =>
    simp only [validateArg] at hv
    split at hv
    · rename_i he
      subst he
      simp only [encArg, ↓reduceIte] at h
      simp only [decArg, ↓reduceIte,
        decodeExpr_encodeExpr hT hF bo ptr ops (hin ops rfl) b rest h, bind, Except.bind]
    · cases hv

theorem decInstFields_encInstFields {et : Table} (hT : TableOK et = true) (hF : ExprFree et = true)
    {bo : ByteOrder} {ptr : Nat} :
    ∀ (es : List Enc) (as : List Arg) (b rest : List Nat),
      (∀ e ∈ es, e.notFused = true ∧ e.ok = true) → ArgsIn et as →
      validateInstArgs (some ptr) es as = .ok () →
      encInstFields bo ptr es as = .ok b →
      decInstFields et bo ptr es (b ++ rest) = .ok (as, b.length, rest)
  | [], [], b, rest, _, _, _, h => by
    simp only [encInstFields, Except.ok.injEq] at h; subst h; rfl
  | [], _ :: _, _, _, _, _, hv, _ => by simp [validateInstArgs] at hv
  | _ :: _, [], _, _, _, _, hv, _ => by simp [validateInstArgs] at hv
  | e :: es, a :: as, b, rest, hall, hin, hv, h => by
    simp only [validateInstArgs, bind, Except.bind] at hv
    cases hva : validateArg e (some ptr) a with
    | error _ => simp [hva] at hv
    | ok _ =>
      simp only [hva] at hv
      simp only [encInstFields, bind, Except.bind] at h
      cases hb1 : encArg bo ptr e a with
      | error _ => simp [hb1] at h
      | ok b1 =>
        cases hr : encInstFields bo ptr es as with
        | error _ => simp [hb1, hr] at h
        | ok r =>
          simp only [hb1, hr, Except.ok.injEq] at h
          subst h
          have he := hall e List.mem_cons_self
          have ih := decInstFields_encInstFields hT hF es as r rest
            (fun e' he' => hall e' (List.mem_cons_of_mem _ he'))
            (fun a' ha' => hin a' (List.mem_cons_of_mem _ ha')) hv hr
          have hd := decArg_encArg hT hF (r ++ rest) he.1 he.2
            (hin a List.mem_cons_self) hva hb1
          simp only [decInstFields, List.append_assoc, hd, ih, bind, Except.bind,
            List.length_append]

theorem tail_notFused {c : ClassDesc} (hok : c.ok = true) :
    ∀ e ∈ c.encs.drop 1, e.notFused = true ∧ e.ok = true := by
  intro e he
  simp only [ClassDesc.ok, Bool.and_eq_true, List.all_eq_true, decide_eq_true_eq] at hok
  have hmem : e ∈ c.encs := List.mem_of_mem_drop he
  refine ⟨?_, hok.1.2 e hmem⟩
  have h1 := hok.2 e he
  cases e <;> simp_all [Enc.notFused]

/-- **Round trip of one CFI instruction**, for any pair of tables satisfying
`TableOK` (expression table also `ExprFree`). -/
theorem decodeInst_encodeInst {et ct : Table} (hTe : TableOK et = true) (hF : ExprFree et = true)
    (hTc : TableOK ct = true) (bo : ByteOrder) (ptr : Nat) (i : InstObj) (hi : i.cls ∈ ct)
    (hin : ArgsIn et i.args) (bs rest : List Nat) (h : encodeInst bo ptr i = .ok bs) :
    decodeInst et ct bo ptr (bs ++ rest) = .ok (i, bs.length, rest) := by
  simp only [TableOK, Bool.and_eq_true, List.all_eq_true] at hTc
  have hok := hTc.1 _ hi
  obtain ⟨c, args⟩ := i
  simp only at hi hok hin
  unfold encodeInst at h
  simp only [bind, Except.bind] at h
  cases hv : validateInstArgs (some ptr) c.encs args with
  | error _ => simp [hv] at h
  | ok _ =>
    cases hr : encInstFields bo ptr c.encs args with
    | error _ => simp [hv, hr] at h
    | ok r =>
      simp only [hv, hr, Except.ok.injEq] at h
      subst h
      have htail := tail_notFused hok
      simp only [ClassDesc.ok, Bool.and_eq_true, List.all_eq_true, decide_eq_true_eq] at hok
      unfold decodeInst
      simp only [List.cons_append, readOpcode]
      cases hencs : c.encs with
      | nil =>
        rw [hencs] at hv hr
        cases args with
        | cons _ _ => simp [validateInstArgs] at hv
        | nil =>
          simp only [encInstFields, Except.ok.injEq] at hr; subst hr
          have hfb : c.fusedBound = none := by simp [ClassDesc.fusedBound, hencs]
          have hcov : c.covers (firstByte c (([] : List Arg).head?.bind Arg.int?)) = true := by
            simp [ClassDesc.covers, firstByte, hfb, ClassDesc.width]
          simp only [lookup_of_mem hTc.2 hi hcov, hfb, hencs, decInstFields, bind, Except.bind,
            List.nil_append, List.length_cons, List.length_nil]
      | cons e es =>
        rw [hencs] at hv hr htail
        cases args with
        | nil => simp [validateInstArgs] at hv
        | cons a as =>
          simp only [List.drop_succ_cons, List.drop_zero] at htail
          simp only [validateInstArgs, bind, Except.bind] at hv
          cases hva : validateArg e (some ptr) a with
          | error _ => simp [hva] at hv
          | ok _ =>
            simp only [hva] at hv
            simp only [encInstFields, bind, Except.bind] at hr
            cases hb1 : encArg bo ptr e a with
            | error _ => simp [hb1] at hr
            | ok b1 =>
              cases hr2 : encInstFields bo ptr es as with
              | error _ => simp [hb1, hr2] at hr
              | ok r2 =>
                simp only [hb1, hr2, Except.ok.injEq] at hr
                subst hr
                have ihf := decInstFields_encInstFields hTe hF es as r2 rest htail
                  (fun a' ha' => hin a' (List.mem_cons_of_mem _ ha')) hv hr2
                by_cases hfused : ∃ k, e = .addOp k
                · obtain ⟨k, rfl⟩ := hfused
                  cases a with
                  | expr ops => simp [validateArg] at hva
                  | int v =>
                    simp only [validateArg, reduceCtorEq, ↓reduceIte] at hva
                    split at hva
                    · rename_i hve
                      simp only [encArg, encInt, Except.ok.injEq] at hb1
                      subst hb1
                      simp only [validateInt, decide_eq_true_eq] at hve
                      have hfb : c.fusedBound = some k := by simp [ClassDesc.fusedBound, hencs]
                      have hw : c.width = k := by simp [ClassDesc.width, hfb]
                      have hcov : c.covers
                          (firstByte c ((Arg.int v :: as).head?.bind Arg.int?)) = true := by
                        simp only [ClassDesc.covers, firstByte, hfb, List.head?_cons,
                          Option.bind_some, Arg.int?, hw, decide_eq_true_eq]
                        omega
                      simp only [lookup_of_mem hTc.2 hi hcov, hfb, hencs, List.drop_succ_cons,
                        List.drop_zero, List.nil_append, ihf, bind, Except.bind, List.length_cons]
                      have : ((firstByte c ((Arg.int v :: as).head?.bind Arg.int?) : Nat) : Int)
                          - (c.opcode : Int) = v := by
                        simp only [firstByte, hfb, List.head?_cons, Option.bind_some, Arg.int?]
                        omega
                      rw [this, Nat.add_comm]
                    · cases hva
                · have hfb : c.fusedBound = none := by
                    simp only [ClassDesc.fusedBound, hencs]
                    cases e <;> simp_all
                  have hcov : c.covers
                      (firstByte c ((a :: as).head?.bind Arg.int?)) = true := by
                    simp [ClassDesc.covers, firstByte, hfb, ClassDesc.width]
                  have hes : e.notFused = true ∧ e.ok = true := by
                    refine ⟨?_, hok.1.2 e (by simp [hencs])⟩
                    cases e <;> simp_all [Enc.notFused]
                  have hd := decArg_encArg hTe hF (r2 ++ rest) hes.1 hes.2
                    (hin a List.mem_cons_self) hva hb1
                  simp only [lookup_of_mem hTc.2 hi hcov, hfb, hencs, decInstFields,
                    List.append_assoc, hd, ihf, bind, Except.bind, List.length_cons,
                    List.length_append]
                  rw [Nat.add_comm]

theorem encodeInst_length_pos {bo ptr i bs} (h : encodeInst bo ptr i = .ok bs) :
    0 < bs.length := by
  unfold encodeInst at h
  simp only [bind, Except.bind] at h
  split at h
  · cases h
  · split at h
    · cases h
    · simp only [Except.ok.injEq] at h; subst h; simp

/-- concatenation of the encodings of a list of instructions -/
def encodeInsts (bo : ByteOrder) (ptr : Nat) : List InstObj → Except Err (List Nat)
  | [] => .ok []
  | i :: is => do
    let b ← encodeInst bo ptr i
    let r ← encodeInsts bo ptr is
    .ok (b ++ r)

theorem encodeInsts_length {bo ptr} : ∀ (is : List InstObj) (e : List Nat),
    encodeInsts bo ptr is = .ok e → is.length ≤ e.length
  | [], e, h => by simp
  | i :: is, e, h => by
    simp only [encodeInsts, bind, Except.bind] at h
    cases hb : encodeInst bo ptr i with
    | error _ => simp [hb] at h
    | ok b =>
      cases hr : encodeInsts bo ptr is with
      | error _ => simp [hb, hr] at h
      | ok r =>
        simp only [hb, hr, Except.ok.injEq] at h
        subst h
        have := encodeInst_length_pos hb
        have := encodeInsts_length is r hr
        simp only [List.length_cons, List.length_append]; omega

theorem parseInstsLoop_encodeInsts {et ct : Table} (hTe : TableOK et = true)
    (hF : ExprFree et = true) (hTc : TableOK ct = true) (bo : ByteOrder) (ptr : Nat) :
    ∀ (is : List InstObj) (e : List Nat) (f off len : Nat),
      (∀ i ∈ is, i.cls ∈ ct ∧ ArgsIn et i.args) → encodeInsts bo ptr is = .ok e →
      is.length ≤ f → off + e.length = len →
      parseInstsLoop et ct bo ptr f off len e = .ok is
  | [], e, f, off, len, _, h, _, hlen => by
    simp only [encodeInsts, Except.ok.injEq] at h; subst h
    simp only [List.length_nil, Nat.add_zero] at hlen; subst hlen
    cases f <;> simp [parseInstsLoop]
  | i :: is, e, f, off, len, hin, h, hf, hlen => by
    simp only [encodeInsts, bind, Except.bind] at h
    cases hb : encodeInst bo ptr i with
    | error _ => simp [hb] at h
    | ok b =>
      cases hr : encodeInsts bo ptr is with
      | error _ => simp [hb, hr] at h
      | ok r =>
        simp only [hb, hr, Except.ok.injEq] at h
        subst h
        have hpos := encodeInst_length_pos hb
        simp only [List.length_append] at hlen
        cases f with
        | zero => simp at hf
        | succ f =>
          have hlt : off < len := by omega
          have hi := hin i List.mem_cons_self
          have hdec := decodeInst_encodeInst hTe hF hTc bo ptr i hi.1 hi.2 b r hb
          have ih := parseInstsLoop_encodeInsts hTe hF hTc bo ptr is r f (off + b.length) len
            (fun i' hi' => hin i' (List.mem_cons_of_mem _ hi')) hr
            (by simp only [List.length_cons] at hf; omega) (by omega)
          simp only [parseInstsLoop, hlt, ↓reduceIte, hdec, ih, bind, Except.bind]

/-- **`parse_cfi_instructions` inverts concatenation.** -/
theorem parseInsts_encodeInsts {et ct : Table} (hTe : TableOK et = true)
    (hF : ExprFree et = true) (hTc : TableOK ct = true) (bo : ByteOrder) (ptr : Nat)
    (is : List InstObj) (hin : ∀ i ∈ is, i.cls ∈ ct ∧ ArgsIn et i.args) (e : List Nat)
    (h : encodeInsts bo ptr is = .ok e) :
    parseInsts et ct bo ptr e = .ok is := by
  unfold parseInsts
  exact parseInstsLoop_encodeInsts hTe hF hTc bo ptr is e e.length 0 e.length hin h
    (encodeInsts_length is e h) (by omega)

end GtirbVerif.Dwarf
