import GtirbVerif.Lemmas.IRBatch

/-!
# All blocks of a module: the requests of one block leave the others alone

During a rewrite every block has a byte interval of its own (`prepare_for_rewriting`).
`Lemmas/IRBatch.lean` shows that the loop over the requests of one block is the listing splice
of that block's interval.  Here: the whole loop touches, in the block table, only blocks of
that interval (`Frame`) - so the block another request list was registered for is still where
it was, with the bytes it had - and keeps the ids below the counter.  `apply()`'s outer loop
over the blocks (`IR.applyAll`) is therefore the listing splice of every edited block.
-/
namespace GtirbVerif.IR
open GtirbVerif.Adt (CfgNode Label Edge)
open GtirbVerif.Listing GtirbVerif.Batch

/-- the block lies in a byte interval other than `i` -/
def Other (i : Nat) (blk : Block) : Prop := ∃ j, blk.bi = some j ∧ j ≠ i

/-- non-empty blocks of other intervals keep their entry in the block table, unchanged.  (An
*empty* block in front of a wholly deleted block may be removed along with it - `delete` looks
at the previous block of the section, which during a rewrite lies in another interval.) -/
def Frame (i : Nat) (a b : IR) : Prop :=
  ∀ c blk, a.block? c = some blk → Other i blk → blk.size ≠ 0 → b.block? c = some blk

theorem Frame.refl (i : Nat) (a : IR) : Frame i a a := fun _ _ h _ _ => h

theorem Frame.trans {i : Nat} {a b c : IR} (h1 : Frame i a b) (h2 : Frame i b c) : Frame i a c :=
  fun k blk hk ho hs => h2 k blk (h1 k blk hk ho hs) ho hs

theorem Frame.of_blocks {i : Nat} {a b : IR} (h : b.blocks = a.blocks) : Frame i a b := by
  intro c blk hc _ _
  unfold IR.block? at *; rw [h]; exact hc

theorem not_other_of_in {i : Nat} {blk : Block} (h : blk.bi = some i ∨ blk.bi = none) : ¬ Other i blk := by
  rintro ⟨j, hj, hne⟩
  rcases h with h | h
  · rw [h] at hj; injection hj with hj; exact hne hj.symm
  · rw [h] at hj; cases hj

theorem setBlock_frame (i : Nat) (ir : IR) (nb old : Block) (h : ir.block? nb.id = some old)
    (ho : old.bi = some i ∨ old.bi = none) : Frame i ir (ir.setBlock nb) := by
  intro c blk hc hoth _
  rw [block?_setBlock ir nb old h c]
  by_cases hcn : c = nb.id
  · subst hcn
    rw [h] at hc; injection hc with hc; subst hc
    exact absurd hoth (not_other_of_in ho)
  · simp only [hcn, if_false]; exact hc

theorem frame_setBlock {i : Nat} {ir x : IR} {blk nb : Block} (hx : x.blocks = ir.blocks)
    (hb : ir.block? nb.id = some blk) (ho : blk.bi = some i ∨ blk.bi = none) : Frame i ir (x.setBlock nb) := by
  refine (Frame.of_blocks hx).trans (setBlock_frame i x nb blk ?_ ho)
  unfold IR.block? at hb ⊢
  rw [hx]; exact hb

theorem append_frame (i : Nat) (ir ir' : IR) (extra : List Block) (h : ir'.blocks = ir.blocks ++ extra) :
    Frame i ir ir' := by
  intro c blk hc _ _
  unfold IR.block? at *
  rw [h, find_append, hc]

/-! ### the operations -/

theorem splitBlock_frame {i : Nat} {ir ir' : IR} {b off nb : Nat} {added : Bool}
    (h : ir.splitBlock b off = .ok (ir', nb, added)) (hin : In i ir b) : Frame i ir ir' := by
  obtain ⟨blk, hb, hi⟩ := hin
  have hid : blk.id = b := findB_id hb
  obtain ⟨_, hbl⟩ := splitBlock_blocks h hb
  have hsb : ir.block? ({ blk with size := off } : Block).id = some blk := by simpa [hid] using hb
  exact (setBlock_frame i ir { blk with size := off } blk hsb hi).trans (append_frame i _ _ _ hbl)

theorem joinBlocks_frame {i : Nat} {ir ir' : IR} {id1 id2 : Nat} (h : ir.joinBlocks id1 id2 = .ok ir')
    (hin1 : In i ir id1) (hin2 : In i ir id2) : Frame i ir ir' := by
  obtain ⟨b1, h1, hi1⟩ := hin1
  obtain ⟨b2, h2, hi2⟩ := hin2
  obtain ⟨_, _, hbl⟩ := joinBlocks_core h h1 h2
  have hid1 : b1.id = id1 := findB_id h1
  have hid2 : b2.id = id2 := findB_id h2
  have hb1' : ir.block? ({ b1 with size := b1.size + b2.size } : Block).id = some b1 := by simpa [hid1] using h1
  have f1 := setBlock_frame i ir { b1 with size := b1.size + b2.size } b1 hb1' hi1
  have hex : ∃ old, (ir.setBlock { b1 with size := b1.size + b2.size }).block? ({ b2 with bi := none } : Block).id = some old ∧
      (old.bi = some i ∨ old.bi = none) := by
    rw [block?_setBlock ir { b1 with size := b1.size + b2.size } b1 hb1']
    by_cases he : ({ b2 with bi := none } : Block).id = ({ b1 with size := b1.size + b2.size } : Block).id
    · exact ⟨_, if_pos he, hi1⟩
    · exact ⟨b2, by rw [if_neg he]; simpa [hid2] using h2, hi2⟩
  obtain ⟨old, hold, hoi⟩ := hex
  have f2 := setBlock_frame i (ir.setBlock { b1 with size := b1.size + b2.size }) { b2 with bi := none } old hold hoi
  exact (f1.trans f2).trans (Frame.of_blocks hbl)

theorem removeBlock_frame {i : Nat} {ir ir' : IR} {b : Nat} {px r : Bool}
    (h : ir.removeBlock b px = .ok (ir', r)) (hin : In i ir b) : Frame i ir ir' := by
  obtain ⟨blk, hb, hi⟩ := hin
  have hid : blk.id = b := findB_id hb
  have hst : ∀ (c : Bool) (sect : Nat), (((ir.withProxy px).removeStages blk px c (if px then some ir.next else none)
      (ir.adjacent blk).1 (ir.adjacent blk).2).orderRemove sect blk.id).blocks = ir.blocks := by
    intro c sect
    show (IR.removeStages _ _ _ _ _ _ _).blocks = _
    rw [removeStages_blocks]; exact core_blocks (withProxy_core _ _)
  unfold IR.removeBlock at h
  rw [hb] at h
  simp only [] at h
  split at h
  · cases h
  · rename_i sect hsect
    split at h
    · injection h with h; injection h with h1 h2; subst h1
      exact frame_setBlock (blk := blk) (nb := { blk with bi := none }) (hst _ sect) (by simpa [hid] using hb) hi
    · injection h with h; injection h with h1 h2; subst h1
      have hst2 : ((ir.withProxy px).removeStages blk px
          ((ir.withProxy px).canRemove blk px (ir.adjacent blk).1 (ir.adjacent blk).2 ((ir.withProxy px).requiredCfi blk))
          (if px then some ir.next else none) (ir.adjacent blk).1 (ir.adjacent blk).2).blocks = ir.blocks := by
        rw [removeStages_blocks]; exact core_blocks (withProxy_core _ _)
      have f1 := frame_setBlock (i := i) (blk := blk) (nb := { blk with size := 0 }) hst2 (by simpa [hid] using hb) hi
      refine f1.trans (Frame.of_blocks ?_)
      unfold IR.keepEmpty; simp only []; split <;> rfl

theorem editInterval_frame (ir : IR) (i off len : Nat) (c st : List Nat) : Frame i ir (ir.editInterval i off len c st) := by
  unfold IR.editInterval
  split
  · exact Frame.refl _ _
  · intro k blk hk hoth _
    let f : Block → Block := fun b =>
      if b.bi == some i && decide (b.off ≥ off) && !st.contains b.id
      then { b with off := b.off + c.length - len } else b
    have hid : ∀ x, (f x).id = x.id := by intro x; simp only [f]; split <;> rfl
    unfold IR.block? at hk ⊢
    show List.find? _ (ir.blocks.map f) = _
    rw [find_map_id f hid, hk]
    simp only [Option.map_some, f]
    obtain ⟨j, hj, hne⟩ := hoth
    have : (blk.bi == some i) = false := by
      rw [hj]; simp; exact hne
    simp [this]

/-! ### _cleanup_modified_blocks -/

theorem cleanupPass_frame {i : Nat} : ∀ (rest : List Nat) (ir ir' : IR) (pred : Nat) (done : List Nat) (r : Option (List Nat)),
    ir.cleanupPass pred rest done = .ok (ir', r) → In i ir pred → (∀ c ∈ rest, In i ir c) → Frame i ir ir' := by
  intro rest
  induction rest with
  | nil =>
    intro ir ir' pred done r h _ _
    unfold IR.cleanupPass at h
    injection h with h; injection h with h1 h2; subst h1
    exact Frame.refl _ _
  | cons b rest ih =>
    intro ir ir' pred done r h hp hr
    have hb : In i ir b := hr b List.mem_cons_self
    unfold IR.cleanupPass at h
    split at h
    · rename_i i2 hj
      injection h with h; injection h with h1 h2; subst h1
      exact joinBlocks_frame hj hp hb
    · split at h
      · split at h
        · cases h
        · rename_i i2 hr'
          injection h with h; injection h with h1 h2; subst h1
          exact removeBlock_frame hr' hb
        · rename_i i2 hr'
          have t := removeBlock_touches hr'
          exact (removeBlock_frame hr' hb).trans
            (ih _ _ _ _ _ h (t.1.in hb) (fun c hc => t.1.in (hr c (List.mem_cons_of_mem _ hc))))
      · exact ih _ _ _ _ _ h hb (fun c hc => hr c (List.mem_cons_of_mem _ hc))
    · cases h

theorem cleanupLoop_frame {i : Nat} : ∀ (fuel : Nat) (ir ir' : IR) (bl bl' : List Nat),
    ir.cleanupLoop fuel bl = .ok (ir', bl') → (∀ c ∈ bl, In i ir c) → Frame i ir ir' := by
  intro fuel
  induction fuel with
  | zero =>
    intro ir ir' bl bl' h _
    unfold IR.cleanupLoop at h
    injection h with h; injection h with h1 h2; subst h1
    exact Frame.refl _ _
  | succ n ih =>
    intro ir ir' bl bl' h hin
    unfold IR.cleanupLoop at h
    split at h
    · injection h with h; injection h with h1 h2; subst h1
      exact Frame.refl _ _
    · rename_i b0 rest
      have h0 : In i ir b0 := hin b0 List.mem_cons_self
      have hr : ∀ c ∈ rest, In i ir c := fun c hc => hin c (List.mem_cons_of_mem _ hc)
      split at h
      · cases h
      · rename_i i2 hp
        injection h with h; injection h with h1 h2; subst h1
        exact cleanupPass_frame _ _ _ _ _ _ hp h0 hr
      · rename_i i2 bl2 hp
        obtain ⟨t1, hsub1⟩ := cleanupPass_facts _ _ _ _ _ _ hp
        refine (cleanupPass_frame _ _ _ _ _ _ hp h0 hr).trans (ih _ _ _ _ h ?_)
        intro c hc
        have := hsub1 bl2 rfl c hc
        exact t1.1.in (hin c (by simpa using this))

theorem cleanupFirst_frame {i : Nat} {ir ir' : IR} {bl bl' : List Nat}
    (h : ir.cleanupFirst bl = .ok (ir', bl')) (hin : ∀ c ∈ bl, In i ir c) : Frame i ir ir' := by
  unfold IR.cleanupFirst at h
  split at h
  · injection h with h; injection h with h1 h2; subst h1
    exact Frame.refl _ _
  · rename_i first tl
    have h0 : In i ir first := hin first List.mem_cons_self
    split at h
    · split at h
      · cases h
      · rename_i hr
        injection h with h; injection h with h1 h2; subst h1
        exact removeBlock_frame hr h0
      · rename_i hr
        injection h with h; injection h with h1 h2; subst h1
        exact removeBlock_frame hr h0
    · injection h with h; injection h with h1 h2; subst h1
      exact Frame.refl _ _

theorem cleanup_frame {i : Nat} {ir ir' : IR} {bl : List Nat} {last : Nat}
    (h : ir.cleanup bl = .ok (ir', last)) (hin : ∀ c ∈ bl, In i ir c) : Frame i ir ir' := by
  unfold IR.cleanup at h
  split at h
  · cases h
  · split at h
    · cases h
    · rename_i ir1 bl1 hl
      split at h
      · cases h
      · rename_i ir2 bl2 hf
        split at h
        · split at h
          · injection h with h; injection h with h1 h2; subst h1
            obtain ⟨t1, s1⟩ := cleanupLoop_facts _ _ _ _ _ hl
            exact (cleanupLoop_frame _ _ _ _ _ hl hin).trans
              (cleanupFirst_frame hf (fun c hc => t1.1.in (hin c (s1 c hc))))
          · cases h
        · cases h

/-! ### delete -/

theorem lookup_setBlock_other {ir x : IR} {nb : Block} {b c : Nat} (hx : x.blocks = ir.blocks) (hid : nb.id = b)
    (hc : c ≠ b) : (x.setBlock nb).block? c = ir.block? c := by
  rw [block?_setBlock_other x b c nb hid hc]
  unfold IR.block?; rw [hx]

/-- `remove_block` rewrites the table entry of the removed block only -/
theorem removeBlock_other {ir ir' : IR} {b : Nat} {px r : Bool}
    (h : ir.removeBlock b px = .ok (ir', r)) {c : Nat} (hc : c ≠ b) : ir'.block? c = ir.block? c := by
  cases hb : ir.block? b with
  | none => unfold IR.removeBlock at h; rw [hb] at h; cases h
  | some blk =>
    have hid : blk.id = b := findB_id hb
    unfold IR.removeBlock at h
    rw [hb] at h
    simp only [] at h
    split at h
    · cases h
    · rename_i sect hsect
      split at h
      · injection h with h; injection h with h1 h2; subst h1
        apply lookup_setBlock_other (nb := { blk with bi := none }) _ hid hc
        show (IR.removeStages _ _ _ _ _ _ _).blocks = _
        rw [removeStages_blocks]; exact core_blocks (withProxy_core _ _)
      · injection h with h; injection h with h1 h2; subst h1
        have hst2 : ((ir.withProxy px).removeStages blk px
            ((ir.withProxy px).canRemove blk px (ir.adjacent blk).1 (ir.adjacent blk).2 ((ir.withProxy px).requiredCfi blk))
            (if px then some ir.next else none) (ir.adjacent blk).1 (ir.adjacent blk).2).blocks = ir.blocks := by
          rw [removeStages_blocks]; exact core_blocks (withProxy_core _ _)
        have hk : ∀ (x : IR), (x.keepEmpty blk).blocks = (x.setBlock { blk with size := 0 }).blocks := by
          intro x; unfold IR.keepEmpty; simp only []; split <;> rfl
        have := lookup_setBlock_other (c := c) (nb := ({ blk with size := 0 } : Block)) hst2 hid hc
        unfold IR.block? at this ⊢
        rw [hk]; exact this

theorem delete_frame {i : Nat} {ir ir' : IR} {b off len : Nat} {px : Bool} {r : Option Nat}
    (h : ir.delete b off len px = .ok (ir', r)) (hin : In i ir b) (hI : IdsBelow ir) : Frame i ir ir' := by
  unfold IR.delete at h
  split at h
  · cases h
  · rename_i blk hb
    split at h
    · cases h
    · split at h
      · cases h
      · rename_i biId hbi
        have hbiI : biId = i := by
          obtain ⟨blk', hb', hi'⟩ := hin
          rw [hb] at hb'; injection hb' with hb'; subst hb'
          rcases hi' with hi' | hi'
          · rw [hbi] at hi'; injection hi'
          · rw [hbi] at hi'; cases hi'
        subst hbiI
        split at h
        · injection h with h; injection h with h1 h2; subst h1
          exact Frame.refl _ _
        · split at h
          · split at h
            · cases h
            · rename_i ir1 e1 a1 hs1
              split at h
              · cases h
              · rename_i ir2 e2 a2 hs2
                simp only [] at h
                split at h
                · cases h
                · rename_i ir3 d3 hr3
                  split at h
                  · cases h
                  · rename_i ir5 last hc
                    injection h with h; injection h with h1 h2; subst h1
                    have hI1 := splitBlock_idsBelow hs1 hI
                    have hin1b : In biId ir1 b := (splitBlock_keeps hs1).in hin
                    have hin1e : In biId ir1 e1 := splitBlock_new_in hs1 hin hI
                    have hin2b : In biId ir2 b := (splitBlock_keeps hs2).in hin1b
                    have hin2e1 : In biId ir2 e1 := (splitBlock_keeps hs2).in hin1e
                    have hin2e : In biId ir2 e2 := splitBlock_new_in hs2 hin1e hI1
                    have tce := connectEmptyTail_touches ir2 e2
                    have t : Touches ir2 (ir3.editInterval biId (blk.off + off) len [] [b]) :=
                      (tce.trans (removeBlock_touches hr3)).trans (editInterval_touches _ _ _ _ _ _)
                    have f : Frame biId ir2 (ir3.editInterval biId (blk.off + off) len [] [b]) :=
                      ((Frame.of_blocks (core_blocks (connectEmptyTail_core ir2 e2))).trans
                        (removeBlock_frame hr3 (tce.1.in hin2e1))).trans (editInterval_frame _ _ _ _ _ _)
                    refine (((splitBlock_frame hs1 hin).trans (splitBlock_frame hs2 hin1e)).trans f).trans
                      (cleanup_frame hc ?_)
                    intro c hcm
                    simp only [List.mem_cons, List.not_mem_nil, or_false] at hcm
                    rcases hcm with hcm | hcm
                    · subst hcm; exact t.1.in hin2b
                    · subst hcm; exact t.1.in hin2e
          · split at h
            · cases h
            · rename_i ir1 deleted hr1
              have f1 : Frame biId ir (ir1.editInterval biId (blk.off + off) len [] [b]) :=
                (removeBlock_frame hr1 hin).trans (editInterval_frame _ _ _ _ _ _)
              simp only [] at h
              split at h
              · rename_i hcond
                split at h
                · cases h
                · rename_i ir3 d3 hr3
                  injection h with h; injection h with h1 h2; subst h1
                  -- an *empty* previous block (of another interval) may go too; non-empty ones are not looked at
                  intro c blk' hc' ho hs
                  have h2 := f1 c blk' hc' ho hs
                  by_cases hcp : c = (ir.adjacent blk).1.getD 0
                  · exfalso
                    have hz : (ir1.editInterval biId (blk.off + off) len [] [b]).sizeOr1 ((ir.adjacent blk).1.getD 0) = 0 := by
                      simp only [Bool.and_eq_true, beq_iff_eq] at hcond
                      exact hcond.1.2
                    unfold IR.sizeOr1 at hz
                    rw [← hcp, h2] at hz
                    exact hs hz
                  · rw [removeBlock_other hr3 hcp]; exact h2
              · injection h with h; injection h with h1 h2; subst h1
                exact f1

/-! ### insert -/

theorem insertSplit_frame {i : Nat} {ir ir' : IR} {b off repl endB : Nat} {added : Bool}
    (h : ir.insertSplit b off repl = .ok (ir', endB, added)) (hin : In i ir b) (hI : IdsBelow ir) : Frame i ir ir' := by
  unfold IR.insertSplit at h
  split at h
  · cases h
  · rename_i ir1 e0 a0 hs1
    have hI1 := splitBlock_idsBelow hs1 hI
    have hin1e : In i ir1 e0 := splitBlock_new_in hs1 hin hI
    split at h
    · split at h
      · cases h
      · rename_i i2 e2 a2 hs2
        split at h
        · cases h
        · rename_i i3 d3 hr
          injection h with h; injection h with h1 h2; injection h2 with h2 h3; subst h1; subst h2
          have tce := connectEmptyTail_touches i2 e2
          exact ((splitBlock_frame hs1 hin).trans (splitBlock_frame hs2 hin1e)).trans
            ((Frame.of_blocks (core_blocks (connectEmptyTail_core i2 e2))).trans
              (removeBlock_frame hr (tce.1.in ((splitBlock_keeps hs2).in hin1e))))
    · injection h with h; injection h with h1 h2; injection h2 with h2 h3; subst h1; subst h2
      exact (splitBlock_frame hs1 hin).trans (Frame.of_blocks (core_blocks (connectEmptyTail_core ir1 e0)))

/-- placing the patch's blocks rewrites the entries under the patch's ids only - and those name
blocks of interval `i` (or detached ones) -/
theorem placePatchBlocks_frame {i : Nat} (ir : IR) (tb : List Block) (base : Nat)
    (hin : ∀ c ∈ tb.map (·.id), In i ir c) : Frame i ir (ir.placePatchBlocks tb i base) := by
  intro c blk hc hoth _
  let placed := tb.map (fun b => ({ b with bi := some i, off := base + b.off } : Block))
  let f : Block → Block := fun b => match placed.find? (·.id == b.id) with | some pb => pb | none => b
  have hid : ∀ x, (f x).id = x.id := by
    intro x
    simp only [f]
    split
    · rename_i pb hp; exact findB_id hp
    · rfl
  have hcid : blk.id = c := findB_id hc
  unfold IR.block? at hc ⊢
  show List.find? _ (ir.blocks.map f) = _
  rw [find_map_id f hid, hc]
  simp only [Option.map_some, f]
  split
  · rename_i pb hp
    exfalso
    obtain ⟨z, hz, hzp⟩ := List.mem_map.mp (List.mem_of_find?_eq_some hp)
    have hpid : pb.id = blk.id := findB_id hp
    have hcz : c = z.id := by rw [← hcid, ← hpid, ← hzp]
    have hcm : c ∈ tb.map (·.id) := by
      rw [hcz]; exact List.mem_map_of_mem hz
    obtain ⟨blk2, hb2, hi2⟩ := hin c hcm
    unfold IR.block? at hb2
    rw [hc] at hb2; injection hb2 with hb2; subst hb2
    exact not_other_of_in hi2 hoth
  · rfl

theorem Ext.frame {ids : List Nat} {a b : IR} (i : Nat) (h : Ext ids a b) : Frame i a b := by
  obtain ⟨extra, hb, _, _⟩ := h
  exact append_frame i a b extra hb

theorem insert_frame {i : Nat} {ir ir' : IR} {b off repl last : Nat} {p : Patch}
    (h : ir.insert b off repl p = .ok (ir', last)) (hin : In i ir b) (hI : IdsBelow ir)
    (hnew : ∀ c ∈ p.text.blocks.map (·.id), Stays i ir c) : Frame i ir ir' := by
  have hin0 := hin
  obtain ⟨blk, hb, hi⟩ := hin
  unfold IR.insert at h
  rw [hb] at h
  simp only [] at h
  split at h
  · cases h
  · split at h
    · cases h
    · rcases hi with hbi | hbi
      · rw [hbi] at h
        split at h
        · rename_i biId sect hbi' hsect
          injection hbi' with hbi'; subst hbi'
          split at h
          · cases h
          · split at h
            · cases h
            · split at h
              · cases h
              · split at h
                · cases h
                · split at h
                  · cases h
                  · rename_i ir2 endB added hs
                    split at h
                    · cases h
                    · split at h
                      · cases h
                      · rename_i ir12 ho
                        have hin := hin0
                        obtain ⟨hI2, hinb2, hine2, hg2⟩ := insertSplit_facts hs hin hI
                        have fS := insertSplit_frame hs hin hI
                        generalize hpc : (if blk.isCode then ir.matchPatchReturnEdges b p.cfg p.proxies else (p.cfg, p.proxies))
                          = pcX at ho h
                        have hRb : (ir2.addReturnEdgesForPatchCalls pcX.1).1.blocks = ir2.blocks :=
                          addReturnEdgesForPatchCalls_blocks _ _
                        generalize hR : (ir2.addReturnEdgesForPatchCalls pcX.1) = R at ho h hRb
                        have kR : Keeps ir2 R.1 := Keeps.of_blocks hRb
                        have hSb := insertStitch_blocks R.1 p.text.blocks b endB added
                        have kS : Keeps R.1 (R.1.insertStitch p.text.blocks b endB added) := append_keeps _ _ _ hSb
                        have fSt : Frame i R.1 (R.1.insertStitch p.text.blocks b endB added) := append_frame _ _ _ _ hSb
                        have hinS : ∀ c ∈ [b] ++ p.text.blocks.map (·.id) ++ [endB],
                            In i (R.1.insertStitch p.text.blocks b endB added) c := by
                          intro c hc
                          simp only [List.mem_append, List.mem_singleton] at hc
                          rcases hc with (hc | hc) | hc
                          · subst hc; exact kS.in (kR.in hinb2)
                          · apply insertStitch_in _ _ _ _ _ _ hc
                            exact (Grows.of_blocks hRb).stays (hg2.stays (hnew c hc))
                          · subst hc; exact kS.in (kR.in hine2)
                        generalize hS : R.1.insertStitch p.text.blocks b endB added = S at ho h hSb kS hinS fSt
                        have tE := editInterval_touches S i (blk.off + off) repl p.text.data [b]
                        have fE := editInterval_frame S i (blk.off + off) repl p.text.data [b]
                        generalize hE : S.editInterval i (blk.off + off) repl p.text.data [b] = E at ho h tE fE
                        have hinE : ∀ c ∈ [b] ++ p.text.blocks.map (·.id) ++ [endB], In i E c :=
                          fun c hc => tE.1.in (hinS c hc)
                        have fP := placePatchBlocks_frame E p.text.blocks (blk.off + off)
                          (fun c hc => hinE c (by simp only [List.mem_append, List.mem_singleton]; exact Or.inl (Or.inr hc)))
                        have hmidb : ∀ (x : IR) (c : List Edge) (px : List Nat), ((((x.placePatchBlocks p.text.blocks i
                            (blk.off + off)).addPatchExprs i (blk.off + off)
                            p.text.symExprs).orderInsertAfter sect b (p.text.blocks.map (·.id))).addPatchNodes p c px
                            |>.addPatchAux p i (blk.off + off) |>.addPatchFunctions blk p.text.blocks).blocks
                            = (x.placePatchBlocks p.text.blocks i (blk.off + off)).blocks := by
                          intro x c px
                          rw [addPatchFunctions_blocks]
                          show (IR.addPatchExprs _ _ _ _).blocks = _
                          rw [addPatchExprs_blocks]
                        have hXb := hmidb E R.2 pcX.2
                        generalize hX : ((((E.placePatchBlocks p.text.blocks i
                            (blk.off + off)).addPatchExprs i (blk.off + off)
                            p.text.symExprs).orderInsertAfter sect b (p.text.blocks.map (·.id))).addPatchNodes p R.2 pcX.2
                            |>.addPatchAux p i (blk.off + off) |>.addPatchFunctions blk p.text.blocks) = X at ho h hXb
                        have eO := addOthers_ext ho
                        obtain ⟨hBb, _, _⟩ := bumpNext_facts ir12 p
                        have fC := cleanup_frame (i := i) h (by
                          intro c hc
                          have h1 : In i E c := hinE c hc
                          have h2 : In i (E.placePatchBlocks p.text.blocks i (blk.off + off)) c := placePatchBlocks_in _ _ _ _ h1
                          have h3 : In i X c := (Keeps.of_blocks hXb).in h2
                          have h4 : In i ir12 c := eO.keeps.in h3
                          exact (Keeps.of_blocks hBb).in h4)
                        exact ((((((fS.trans (Frame.of_blocks hRb)).trans fSt).trans fE).trans fP).trans
                          (Frame.of_blocks hXb)).trans (eO.frame i)).trans ((Frame.of_blocks hBb).trans fC)
        · cases h
      · rw [hbi] at h
        cases h

/-! ### the loop over the requests of one block -/

/-- the whole loop keeps the ids below the counter and leaves the non-empty blocks of every
other interval alone -/
theorem applyMods_frame (origOff i : Nat) (func : Option Nat) : ∀ (ms : List Mod) (ir ir' : IR) (actual : Option Nat)
    (total : Int),
    IR.applyMods origOff func ir actual total ms = .ok ir' →
    (∀ a, actual = some a → In i ir a) → IdsBelow ir → NewBlocks origOff func ir actual total ms →
    IdsBelow ir' ∧ Frame i ir ir' := by
  intro ms
  induction ms with
  | nil =>
    intro ir ir' actual total h _ hI _
    unfold IR.applyMods at h
    injection h with h; subst h
    exact ⟨hI, Frame.refl _ _⟩
  | cons m ms ih =>
    intro ir ir' actual total h hact hI hnew
    cases actual with
    | none => unfold IR.applyMods at h; cases h
    | some a =>
      obtain ⟨ab, hab, habi⟩ := hact a rfl
      have hin : In i ir a := ⟨ab, hab, habi⟩
      unfold IR.applyMods at h
      rw [hab] at h
      simp only [] at h
      unfold NewBlocks at hnew
      rw [hab] at hnew
      simp only [] at hnew
      split at h
      · cases h
      · cases m with
        | ins o repl p =>
          simp only [Mod.off] at h
          split at h
          · cases h
          · rename_i ir1 last hloop
            obtain ⟨hfresh, _, hnext⟩ := hnew
            obtain ⟨ir0, hins, hlb, hli, hln⟩ := loopInsert_ok hloop
            have hst : ∀ c ∈ p.text.blocks.map (·.id), Stays i ir c :=
              fun c hc blk hblk => by rw [(hfresh c hc).1] at hblk; cases hblk
            obtain ⟨hI0, hin0⟩ := insert_facts hins hin hI hst
            have f0 := insert_frame hins hin hI hst
            have hI1 : IdsBelow ir1 := hI0.mono (ids_of_blocks hlb) (by rw [hln]; exact Nat.le_refl _)
            have hin1 : In i ir1 last := (Keeps.of_blocks hlb).in hin0
            obtain ⟨r1, r2⟩ := ih ir1 ir' (some last) _ h (fun a' ha' => by injection ha' with ha'; subst ha'; exact hin1)
              hI1 (hnext ir1 last hloop)
            exact ⟨r1, (f0.trans (Frame.of_blocks hlb)).trans r2⟩
        | del o len px =>
          simp only [Mod.off] at h
          split at h
          · cases h
          · rename_i ir1 r hdel
            obtain ⟨hI1, hin1⟩ := delete_facts hdel hin hI
            have f0 := delete_frame hdel hin hI
            obtain ⟨r1, r2⟩ := ih ir1 ir' r _ h hin1 hI1 (hnew ir1 r hdel)
            exact ⟨r1, f0.trans r2⟩

/-! ### all blocks -/

/-- the loop over the requests of one block, stated with the listing splice (`spliceSpec`) -/
theorem applyMods_listing {ir ir' : IR} {b i : Nat} {blk : Block} {bytes : List Nat} {ms : List Mod} {func : Option Nat}
    (h : ir.applyMods blk.off func (some b) 0 ms = .ok ir')
    (hb : ir.block? b = some blk) (hbi : blk.bi = some i) (hby : ir.bytesOf i = some bytes)
    (hfit : blk.off + blk.size ≤ bytes.length)
    (hI : IdsBelow ir) (hnew : NewBlocks blk.off func ir (some b) 0 ms)
    (hd : Disjoint blk.size 0 (ms.map Mod.toLEdit)) :
    ir'.bytesOf i = some (bytes.take blk.off ++
        spliceSpec ((bytes.drop blk.off).take blk.size) 0 (ms.map Mod.toLEdit) ++
        bytes.drop (blk.off + blk.size)) ∧
    (∀ j, j ≠ i → ir.bytesOf j ≠ none → ir'.bytesOf j = ir.bytesOf j) ∧ IdsBelow ir' ∧ Frame i ir ir' := by
  have hact : ∀ a, some b = some a → In i ir a :=
    fun a ha => by injection ha with ha; subst ha; exact ⟨blk, hb, Or.inl hbi⟩
  obtain ⟨r1, r2⟩ := applyMods_bytes blk.off i func ms ir ir' (some b) 0 bytes h hact hI hnew hby
  obtain ⟨r3, r4⟩ := applyMods_frame blk.off i func ms ir ir' (some b) 0 h hact hI hnew
  refine ⟨?_, r2, r3, r4⟩
  rw [r1]
  have hsplit : bytes = bytes.take blk.off ++ (bytes.drop blk.off).take blk.size ++ bytes.drop (blk.off + blk.size) := by
    rw [List.append_assoc, ← List.drop_drop, List.take_append_drop, List.take_append_drop]
  have hl1 : (bytes.take blk.off).length = blk.off := by rw [List.length_take]; omega
  have hl2 : ((bytes.drop blk.off).take blk.size).length = blk.size := by
    rw [List.length_take, List.length_drop]; omega
  have := seqSplice_block_in_interval ((bytes.drop blk.off).take blk.size) (bytes.take blk.off)
    (bytes.drop (blk.off + blk.size)) (ms.map Mod.toLEdit) (by rw [hl2]; exact hd)
  rw [hl1, ← hsplit] at this
  rw [this]

/-- the byte interval of the block of `r` -/
def ivOf (ir : IR) (r : BlockMods) : Option Nat := (ir.block? r.block).bind (·.bi)

/-- what the listing says the interval of `r`'s block holds after `r`'s requests -/
def expected (ir : IR) (r : BlockMods) : Option (List Nat) :=
  match ir.block? r.block with
  | none => none
  | some blk =>
    match blk.bi with
    | none => none
    | some i =>
      match ir.bytesOf i with
      | none => none
      | some bytes => some (bytes.take blk.off ++
          spliceSpec ((bytes.drop blk.off).take blk.size) 0 (r.mods.map Mod.toLEdit) ++
          bytes.drop (blk.off + blk.size))

/-- the requests of `r` are well placed: a non-empty block inside the initialized bytes of its
interval, requests sorted and disjoint (what `resolve_offsets` establishes) -/
def ReqOk (ir : IR) (r : BlockMods) : Prop :=
  ∃ blk i bytes, ir.block? r.block = some blk ∧ blk.bi = some i ∧ blk.size ≠ 0 ∧ ir.bytesOf i = some bytes ∧
    blk.off + blk.size ≤ bytes.length ∧ Disjoint blk.size 0 (r.mods.map Mod.toLEdit)

/-- the patches of all request lists consist of new block objects when they are inserted -/
def NewBlocksAll : IR → List BlockMods → Prop
  | _, [] => True
  | ir, r :: rest =>
    match ir.block? r.block with
    | none => True
    | some blk =>
      NewBlocks blk.off r.func ir (some r.block) 0 r.mods ∧
      ∀ ir', ir.applyMods blk.off r.func (some r.block) 0 r.mods = .ok ir' → NewBlocksAll ir' rest

/-- **`apply()`'s loop over all blocks with requests is the listing edit of each of them.**  Every
block has a byte interval of its own (`prepare_for_rewriting`); after the loop the interval of
each edited block holds the listing splice of that block's bytes, and every other interval the
module had is untouched. -/
theorem applyAll_listing : ∀ (rs : List BlockMods) (ir ir' : IR),
    ir.applyAll rs = .ok ir' → IdsBelow ir → (∀ r ∈ rs, ReqOk ir r) → (rs.map (ivOf ir)).Nodup → NewBlocksAll ir rs →
    (∀ r ∈ rs, ∀ i, ivOf ir r = some i → ir'.bytesOf i = expected ir r) ∧
    (∀ j, (∀ r ∈ rs, ivOf ir r ≠ some j) → ir.bytesOf j ≠ none → ir'.bytesOf j = ir.bytesOf j) := by
  intro rs
  induction rs with
  | nil =>
    intro ir ir' h _ _ _ _
    unfold IR.applyAll at h
    injection h with h; subst h
    exact ⟨fun _ hr => (by cases hr), fun _ _ _ => rfl⟩
  | cons r rest ih =>
    intro ir ir' h hI hok hnd hnew
    obtain ⟨blk, i, bytes, hb, hbi, hsz, hby, hfit, hd⟩ := hok r List.mem_cons_self
    unfold IR.applyAll at h
    rw [hb] at h
    simp only [] at h
    unfold NewBlocksAll at hnew
    rw [hb] at hnew
    simp only [] at hnew
    split at h
    · cases h
    · rename_i ir1 hm
      obtain ⟨hn1, hn2⟩ := hnew
      obtain ⟨s1, s2, s3, s4⟩ := applyMods_listing hm hb hbi hby hfit hI hn1 hd
      have hivr : ivOf ir r = some i := by unfold ivOf; rw [hb]; exact hbi
      have hnd' := List.nodup_cons.mp (by simpa using hnd : (ivOf ir r :: rest.map (ivOf ir)).Nodup)
      -- the other requests see their block and their interval as before
      have hsame : ∀ r' ∈ rest, ir1.block? r'.block = ir.block? r'.block ∧
          (∀ i', ivOf ir r' = some i' → ir1.bytesOf i' = ir.bytesOf i' ∧ i' ≠ i) := by
        intro r' hr'
        obtain ⟨blk', i', bytes', hb', hbi', hsz', hby', _, _⟩ := hok r' (List.mem_cons_of_mem _ hr')
        have hiv' : ivOf ir r' = some i' := by unfold ivOf; rw [hb']; exact hbi'
        have hne : i' ≠ i := by
          intro he
          apply hnd'.1
          rw [hivr, ← he, ← hiv']
          exact List.mem_map_of_mem hr'
        refine ⟨by rw [s4 r'.block blk' hb' ⟨i', hbi', hne⟩ hsz', hb'], ?_⟩
        intro i'' hi''
        rw [hiv'] at hi''; injection hi'' with hi''; subst hi''
        exact ⟨s2 i' hne (by rw [hby']; simp), hne⟩
      have hexp : ∀ r' ∈ rest, expected ir1 r' = expected ir r' ∧ ivOf ir1 r' = ivOf ir r' := by
        intro r' hr'
        obtain ⟨hbe, hbb⟩ := hsame r' hr'
        obtain ⟨blk', i', bytes', hb', hbi', _, _, _, _⟩ := hok r' (List.mem_cons_of_mem _ hr')
        have hiv' : ivOf ir r' = some i' := by unfold ivOf; rw [hb']; exact hbi'
        constructor
        · unfold expected
          rw [hbe, hb']
          simp only [hbi']
          rw [(hbb i' hiv').1]
        · unfold ivOf; rw [hbe]
      have hok1 : ∀ r' ∈ rest, ReqOk ir1 r' := by
        intro r' hr'
        obtain ⟨blk', i', bytes', hb', hbi', hsz', hby', hfit', hd'⟩ := hok r' (List.mem_cons_of_mem _ hr')
        have hiv' : ivOf ir r' = some i' := by unfold ivOf; rw [hb']; exact hbi'
        obtain ⟨hbe, hbb⟩ := hsame r' hr'
        exact ⟨blk', i', bytes', by rw [hbe]; exact hb', hbi', hsz', by rw [(hbb i' hiv').1]; exact hby', hfit', hd'⟩
      have hnd1 : (rest.map (ivOf ir1)).Nodup := by
        have : rest.map (ivOf ir1) = rest.map (ivOf ir) :=
          List.map_congr_left (fun r' hr' => (hexp r' hr').2)
        rw [this]; exact hnd'.2
      obtain ⟨t1, t2⟩ := ih ir1 ir' h s3 hok1 hnd1 (hn2 ir1 hm)
      constructor
      · intro r' hr' i' hi'
        rcases List.mem_cons.mp hr' with he | hr''
        · subst he
          rw [hivr] at hi'; injection hi' with hi'; subst hi'
          -- no later request list touches interval `i`
          have : ir'.bytesOf i = ir1.bytesOf i := by
            apply t2 i
            · intro r2 hr2 hc
              apply hnd'.1
              rw [hivr, ← hc, (hexp r2 hr2).2]
              exact List.mem_map_of_mem hr2
            · rw [s1]; simp
          rw [this, s1]
          unfold expected
          rw [hb]; simp only [hbi, hby]
        · rw [← (hexp r' hr'').1]
          exact t1 r' hr'' i' (by rw [(hexp r' hr'').2]; exact hi')
      · intro j hj hne
        have hji : j ≠ i := by
          intro he; exact hj r List.mem_cons_self (by rw [hivr, he])
        have h1 : ir1.bytesOf j = ir.bytesOf j := s2 j hji hne
        rw [← h1]
        apply t2 j
        · intro r2 hr2 hc
          exact hj r2 (List.mem_cons_of_mem _ hr2) (by rw [← (hexp r2 hr2).2]; exact hc)
        · rw [h1]; exact hne

end GtirbVerif.IR
