import GtirbVerif.Lemmas.Store
import GtirbVerif.Spec.Scopes

/-!
# The store model's offsets are the scope specification's offsets

`Spec/Scopes.lean` (what the oracle evaluates on the module before the rewrite) computes the EXIT offset
from all instruction sizes and the block's out-edges; the model of `scopes.py` takes the sizes of the
instructions `utils._nonterminator_instructions` keeps as a parameter.  When that parameter is what the
helper's definition says - every instruction if all out-edges are fallthroughs, all but the last
otherwise - the two agree for every position.
-/
namespace GtirbVerif.Store
open GtirbVerif GtirbVerif.IR

/-- `utils._nonterminator_instructions`, on instruction sizes -/
def nontermSizes (ir : IR) (b : Block) (sizes : List Nat) : List Nat :=
  if (ir.outEdges b.id).all Edge.isFall then sizes else sizes.dropLast

def specPos : Pos → Scopes.Pos
  | .entry => .entry
  | .exit => .exit
  | .anywhere => .anywhere

theorem firstInBlock_eq_spec (ir : IR) (b : Block) (sizes : List Nat) (env : BlockEnv) (p : Pos)
    (hp : env.partialDis = false) (hn : env.nonterm = nontermSizes ir b sizes) :
    firstInBlock env true p = .ok (Scopes.offsetOf ir b sizes (.single b.id (specPos p))) := by
  cases p with
  | entry => rfl
  | anywhere => rfl
  | exit =>
    simp only [firstInBlock, hp, hn, nontermSizes, Scopes.offsetOf, specPos, Scopes.beforeTerminator,
      Bool.not_true, Bool.false_eq_true, if_false]
    by_cases h : (ir.outEdges b.id).all Edge.isFall = true
    · simp only [h, if_true]
    · simp only [h, if_false, Bool.false_eq_true]

end GtirbVerif.Store
