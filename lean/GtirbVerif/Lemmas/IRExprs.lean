import GtirbVerif.Lemmas.IRSymClosed
import GtirbVerif.Lemmas.IRAnn

/-!
# The symbols of symbolic expressions are symbols of the module — over whole rewrites

`ExprOk pend ir`: every symbolic expression of every byte interval names symbols of the module
(or, while a patch is being spliced in, symbols the patch brings: `pend`).  No step of a rewrite
removes a symbol; `edit_byte_interval` only drops or moves expressions, a patch adds expressions
that name module symbols or its own.
-/
namespace GtirbVerif.IR
open GtirbVerif.Adt (CfgNode Label Edge)

def symIds (ir : IR) : List Nat := ir.syms.map (·.id)

/-- the symbols an expression names are among `ids` -/
def exprIn (ids : List Nat) (e : SymExpr) : Prop := e.sym1 ∈ ids ∧ (e.kind = 1 → e.sym2 ∈ ids)

def ExprOk (pend : List Nat) (ir : IR) : Prop :=
  ∀ iv ∈ ir.intervals, ∀ ke ∈ iv.symExprs, exprIn (symIds ir ++ pend) ke.2

theorem exprIn.mono {a b : List Nat} {e : SymExpr} (h : ∀ k ∈ a, k ∈ b) (he : exprIn a e) : exprIn b e :=
  ⟨h _ he.1, fun hk => h _ (he.2 hk)⟩

theorem ExprOk.of_same {a b : IR} {pend : List Nat} (hi : b.intervals = a.intervals) (hs : symIds b = symIds a)
    (h : ExprOk pend a) : ExprOk pend b := by
  intro iv hiv ke hke
  rw [hi] at hiv
  rw [hs]; exact h iv hiv ke hke

theorem symIds_of_syms {a b : IR} (h : b.syms = a.syms) : symIds b = symIds a := by unfold symIds; rw [h]

theorem symIds_map (l : List Sym) (f : Sym → Sym) (hf : ∀ y, (f y).id = y.id) : (l.map f).map (·.id) = l.map (·.id) := by
  rw [List.map_map]
  apply List.map_congr_left
  intro y _
  exact hf y

/-! ### split / join / remove: intervals untouched, symbols keep their ids -/

theorem splitBlock_symIds {ir ir' : IR} {b off nb : Nat} {added : Bool}
    (h : ir.splitBlock b off = .ok (ir', nb, added)) : symIds ir' = symIds ir := by
  cases hb : ir.block? b with
  | none => unfold IR.splitBlock at h; rw [hb] at h; cases h
  | some blk =>
    obtain ⟨_, _, hsy, _⟩ := splitBlock_core h hb
    unfold symIds
    rw [hsy]
    apply symIds_map
    intro y; unfold splitSym; split <;> rfl

theorem joinBlocks_symIds {ir ir' : IR} {id1 id2 : Nat} (h : ir.joinBlocks id1 id2 = .ok ir') : symIds ir' = symIds ir := by
  cases h1 : ir.block? id1 with
  | none => unfold IR.joinBlocks at h; rw [h1] at h; cases h
  | some b1 =>
  cases h2 : ir.block? id2 with
  | none => unfold IR.joinBlocks at h; rw [h1, h2] at h; cases h
  | some b2 =>
    obtain ⟨_, hsy, _⟩ := joinBlocks_core h h1 h2
    unfold symIds
    rw [hsy]
    apply symIds_map
    intro y; unfold joinSym; split <;> rfl

theorem removeBlock_symIds {ir ir' : IR} {b : Nat} {px r : Bool} (h : ir.removeBlock b px = .ok (ir', r)) :
    symIds ir' = symIds ir := by
  cases hb : ir.block? b with
  | none => unfold IR.removeBlock at h; rw [hb] at h; cases h
  | some blk =>
    have hsy := removeBlock_syms h hb
    unfold symIds
    rw [hsy]
    split
    · apply symIds_map
      intro y; unfold removeSym; split <;> rfl
    · rfl

theorem splitBlock_exprok {ir ir' : IR} {b off nb : Nat} {added : Bool} {pend : List Nat}
    (h : ir.splitBlock b off = .ok (ir', nb, added)) (he : ExprOk pend ir) : ExprOk pend ir' :=
  he.of_same (splitBlock_intervals h) (splitBlock_symIds h)

theorem joinBlocks_exprok {ir ir' : IR} {id1 id2 : Nat} {pend : List Nat}
    (h : ir.joinBlocks id1 id2 = .ok ir') (he : ExprOk pend ir) : ExprOk pend ir' :=
  he.of_same (joinBlocks_intervals h) (joinBlocks_symIds h)

theorem removeBlock_exprok {ir ir' : IR} {b : Nat} {px r : Bool} {pend : List Nat}
    (h : ir.removeBlock b px = .ok (ir', r)) (he : ExprOk pend ir) : ExprOk pend ir' :=
  he.of_same (removeBlock_intervals h) (removeBlock_symIds h)

theorem connectEmptyTail_exprok {ir : IR} {pend : List Nat} (t : Nat) (he : ExprOk pend ir) : ExprOk pend (ir.connectEmptyTail t) :=
  he.of_same (connectEmptyTail_intervals _ _) (symIds_of_syms (core_syms (connectEmptyTail_core _ _)))

/-! ### edit_byte_interval drops or moves expressions -/

theorem editInterval_exprok {ir : IR} {pend : List Nat} (i off len : Nat) (c st : List Nat) (he : ExprOk pend ir) :
    ExprOk pend (ir.editInterval i off len c st) := by
  unfold IR.editInterval
  split
  · exact he
  · rename_i bi hbi
    have hmem : bi ∈ ir.intervals := by
      unfold IR.interval? at hbi
      exact List.mem_of_find?_eq_some hbi
    intro iv hiv ke hke
    show exprIn (symIds ir ++ pend) ke.2
    let nv : Interval :=
      { id := bi.id, sect := bi.sect, addr := bi.addr, size := bi.size + c.length - len,
        bytes := spliceBytes bi.bytes off len c, symExprs := shiftKeys off len c.length bi.symExprs }
    have hiv' : iv ∈ (ir.setInterval nv).intervals := hiv
    unfold IR.setInterval at hiv'
    simp only [List.mem_map] at hiv'
    obtain ⟨x, hx, hxi⟩ := hiv'
    split at hxi
    · subst hxi
      obtain ⟨k, v⟩ := ke
      have hke : (k, v) ∈ shiftKeys off len c.length bi.symExprs := hke
      obtain ⟨k0, hk0, _⟩ := (mem_shiftKeys off len c.length bi.symExprs k v).mp hke
      exact he bi hmem (k0, v) hk0
    · subst hxi
      exact he x hx ke hke

/-! ### _cleanup_modified_blocks -/

theorem cleanupPass_exprok {pend : List Nat} : ∀ (rest : List Nat) (ir ir' : IR) (pred : Nat) (done : List Nat) (r : Option (List Nat)),
    ir.cleanupPass pred rest done = .ok (ir', r) → ExprOk pend ir → ExprOk pend ir' := by
  intro rest
  induction rest with
  | nil =>
    intro ir ir' pred done r h hm
    unfold IR.cleanupPass at h
    injection h with h; injection h with h1 h2; subst h1; exact hm
  | cons b rest ih =>
    intro ir ir' pred done r h hm
    unfold IR.cleanupPass at h
    split at h
    · rename_i i2 hj
      injection h with h; injection h with h1 h2; subst h1
      exact joinBlocks_exprok hj hm
    · split at h
      · split at h
        · cases h
        · rename_i i2 hr
          injection h with h; injection h with h1 h2; subst h1
          exact removeBlock_exprok hr hm
        · rename_i i2 hr
          exact ih _ _ _ _ _ h (removeBlock_exprok hr hm)
      · exact ih _ _ _ _ _ h hm
    · cases h

theorem cleanupLoop_exprok {pend : List Nat} : ∀ (fuel : Nat) (ir ir' : IR) (bl bl' : List Nat),
    ir.cleanupLoop fuel bl = .ok (ir', bl') → ExprOk pend ir → ExprOk pend ir' := by
  intro fuel
  induction fuel with
  | zero =>
    intro ir ir' bl bl' h hm
    unfold IR.cleanupLoop at h
    injection h with h; injection h with h1 h2; subst h1; exact hm
  | succ n ih =>
    intro ir ir' bl bl' h hm
    unfold IR.cleanupLoop at h
    split at h
    · injection h with h; injection h with h1 h2; subst h1; exact hm
    · split at h
      · cases h
      · rename_i i2 hp
        injection h with h; injection h with h1 h2; subst h1
        exact cleanupPass_exprok _ _ _ _ _ _ hp hm
      · rename_i i2 bl2 hp
        exact ih _ _ _ _ h (cleanupPass_exprok _ _ _ _ _ _ hp hm)

theorem cleanupFirst_exprok {ir ir' : IR} {bl bl' : List Nat} {pend : List Nat}
    (h : ir.cleanupFirst bl = .ok (ir', bl')) (hm : ExprOk pend ir) : ExprOk pend ir' := by
  unfold IR.cleanupFirst at h
  split at h
  · injection h with h; injection h with h1 h2; subst h1; exact hm
  · split at h
    · split at h
      · cases h
      · rename_i hr
        injection h with h; injection h with h1 h2; subst h1
        exact removeBlock_exprok hr hm
      · rename_i hr
        injection h with h; injection h with h1 h2; subst h1
        exact removeBlock_exprok hr hm
    · injection h with h; injection h with h1 h2; subst h1; exact hm

theorem cleanup_exprok {ir ir' : IR} {bl : List Nat} {last : Nat} {pend : List Nat}
    (h : ir.cleanup bl = .ok (ir', last)) (hm : ExprOk pend ir) : ExprOk pend ir' := by
  unfold IR.cleanup at h
  split at h
  · cases h
  · split at h
    · cases h
    · rename_i ir1 bl1 hl
      split at h
      · cases h
      · rename_i ir2 bl2 hf
        split at h
        · split at h
          · injection h with h; injection h with h1 h2; subst h1
            exact cleanupFirst_exprok hf (cleanupLoop_exprok _ _ _ _ _ hl hm)
          · cases h
        · cases h

/-! ### delete -/

theorem delete_exprok {ir ir' : IR} {b off len : Nat} {px : Bool} {r : Option Nat} {pend : List Nat}
    (h : ir.delete b off len px = .ok (ir', r)) (he : ExprOk pend ir) : ExprOk pend ir' := by
  unfold IR.delete at h
  split at h
  · cases h
  · rename_i blk hb
    split at h
    · cases h
    · split at h
      · cases h
      · rename_i biId hbi
        split at h
        · injection h with h; injection h with h1 h2; subst h1; exact he
        · split at h
          · split at h
            · cases h
            · rename_i ir1 e1 a1 hs1
              split at h
              · cases h
              · rename_i ir2 e2 a2 hs2
                simp only [] at h
                split at h
                · cases h
                · rename_i ir3 d3 hr3
                  split at h
                  · cases h
                  · rename_i ir5 last hc
                    injection h with h; injection h with h1 h2; subst h1
                    have m2 := splitBlock_exprok hs2 (splitBlock_exprok hs1 he)
                    have m3 := removeBlock_exprok hr3 (connectEmptyTail_exprok e2 m2)
                    exact cleanup_exprok hc (editInterval_exprok _ _ _ _ _ m3)
          · split at h
            · cases h
            · rename_i ir1 deleted hr1
              have m1 := editInterval_exprok biId (blk.off + off) len [] [b] (removeBlock_exprok hr1 he)
              simp only [] at h
              split at h
              · split at h
                · cases h
                · rename_i ir3 d3 hr3
                  injection h with h; injection h with h1 h2; subst h1
                  exact removeBlock_exprok hr3 m1
              · injection h with h; injection h with h1 h2; subst h1
                exact m1

theorem insertSplit_exprok {ir ir' : IR} {b off repl endB : Nat} {added : Bool} {pend : List Nat}
    (h : ir.insertSplit b off repl = .ok (ir', endB, added)) (he : ExprOk pend ir) : ExprOk pend ir' := by
  unfold IR.insertSplit at h
  split at h
  · cases h
  · rename_i ir1 e0 a0 hs1
    have m1 := splitBlock_exprok hs1 he
    split at h
    · split at h
      · cases h
      · rename_i i2 e2 a2 hs2
        split at h
        · cases h
        · rename_i i3 d3 hr
          injection h with h; injection h with h1 h2; injection h2 with h2 h3; subst h1; subst h2
          exact removeBlock_exprok hr (connectEmptyTail_exprok e2 (splitBlock_exprok hs2 m1))
    · injection h with h; injection h with h1 h2; injection h2 with h2 h3; subst h1; subst h2
      exact connectEmptyTail_exprok e0 m1

/-! ### insert -/

theorem insertSplit_symIds {ir ir' : IR} {b off repl endB : Nat} {added : Bool}
    (h : ir.insertSplit b off repl = .ok (ir', endB, added)) : symIds ir' = symIds ir := by
  unfold IR.insertSplit at h
  split at h
  · cases h
  · rename_i ir1 e0 a0 hs1
    split at h
    · split at h
      · cases h
      · rename_i i2 e2 a2 hs2
        split at h
        · cases h
        · rename_i i3 d3 hr
          injection h with h; injection h with h1 h2; injection h2 with h2 h3; subst h1
          rw [removeBlock_symIds hr, symIds_of_syms (core_syms (connectEmptyTail_core _ _)), splitBlock_symIds hs2,
            splitBlock_symIds hs1]
    · injection h with h; injection h with h1 h2; injection h2 with h2 h3; subst h1
      rw [symIds_of_syms (core_syms (connectEmptyTail_core _ _)), splitBlock_symIds hs1]

theorem mem_foldl_aset (base : Nat) : ∀ (ex : List (Nat × SymExpr)) (m : List (Nat × SymExpr)) (ke : Nat × SymExpr),
    ke ∈ ex.foldl (fun m (x : Nat × SymExpr) => aset (base + x.1) x.2 m) m → ke ∈ m ∨ ∃ k0, (k0, ke.2) ∈ ex := by
  intro ex
  induction ex with
  | nil => intro m ke h; exact Or.inl h
  | cons x xs ih =>
    intro m ke h
    simp only [List.foldl_cons] at h
    rcases ih _ ke h with h1 | ⟨k0, h1⟩
    · -- in `aset k v m`: an old entry or the new one
      have : ∀ (l : List (Nat × SymExpr)), ke ∈ aset (base + x.1) x.2 l → ke ∈ l ∨ ke.2 = x.2 := by
        intro l
        induction l with
        | nil => intro hh; unfold aset at hh; simp at hh; right; rw [hh]
        | cons y ys ihl =>
          intro hh
          unfold aset at hh
          split at hh
          · rcases List.mem_cons.mp hh with hh | hh
            · right; rw [hh]
            · left; exact List.mem_cons_of_mem _ hh
          · rcases List.mem_cons.mp hh with hh | hh
            · left; rw [hh]; exact List.mem_cons_self
            · rcases ihl hh with h2 | h2
              · left; exact List.mem_cons_of_mem _ h2
              · right; exact h2
      rcases this m h1 with h2 | h2
      · exact Or.inl h2
      · exact Or.inr ⟨x.1, by rw [h2]; exact List.mem_cons_self⟩
    · exact Or.inr ⟨k0, List.mem_cons_of_mem _ h1⟩

/-- the patch's expressions join the interval's: old ones stay, new ones are the patch's -/
theorem addPatchExprs_exprok {ir : IR} {pend : List Nat} (i base : Nat) (ex : List (Nat × SymExpr))
    (he : ExprOk pend ir) (hex : ∀ ke ∈ ex, exprIn (symIds ir ++ pend) ke.2) : ExprOk pend (ir.addPatchExprs i base ex) := by
  unfold IR.addPatchExprs
  split
  · exact he
  · rename_i bi hbi
    have hmem : bi ∈ ir.intervals := by
      unfold IR.interval? at hbi
      exact List.mem_of_find?_eq_some hbi
    intro iv hiv ke hke
    show exprIn (symIds ir ++ pend) ke.2
    let nv : Interval := { bi with symExprs := ex.foldl (fun m (x : Nat × SymExpr) => aset (base + x.1) x.2 m) bi.symExprs }
    have hiv' : iv ∈ (ir.setInterval nv).intervals := hiv
    unfold IR.setInterval at hiv'
    simp only [List.mem_map] at hiv'
    obtain ⟨x, hx, hxi⟩ := hiv'
    split at hxi
    · subst hxi
      have hke' : ke ∈ ex.foldl (fun m (x : Nat × SymExpr) => aset (base + x.1) x.2 m) bi.symExprs := hke
      rcases mem_foldl_aset base ex bi.symExprs ke hke' with h1 | ⟨k0, h1⟩
      · exact he bi hmem ke h1
      · exact hex (k0, ke.2) h1
    · subst hxi
      exact he x hx ke hke

/-- **the expressions a patch brings name symbols of the module or its own** -/
structure PatchExprOk (ir : IR) (p : Patch) : Prop where
  text : ∀ ke ∈ p.text.symExprs, exprIn (symIds ir ++ p.syms.map (·.id)) ke.2
  others : ∀ x ∈ p.others, ∀ ke ∈ x.1.symExprs, exprIn (symIds ir ++ p.syms.map (·.id)) ke.2

theorem addOtherSection_intervals {ir ir' : IR} {p : Patch} {s : PatchSect} {sid bid : Nat} {ns : List Sym}
    (h : ir.addOtherSection p s sid bid = .ok (ir', ns)) :
    ∃ bi : Interval, bi.symExprs = s.symExprs ∧ ir'.intervals = ir.intervals ++ [bi] := by
  unfold IR.addOtherSection at h
  simp only [] at h
  split at h
  · cases h
  · split at h
    · cases h
    · injection h with h; injection h with h1 h2; subst h1
      exact ⟨{ id := bid, sect := sid, addr := none, size := s.data.length, bytes := s.data, symExprs := s.symExprs },
        rfl, by rw [orderAppend_intervals]⟩

theorem addOthers_exprok_aux (K : List Nat) : ∀ (l : List (PatchSect × Nat × Nat)) (p : Patch) (acc : Except Err IR) (ir' : IR),
    (∀ x ∈ l, ∀ ke ∈ x.1.symExprs, exprIn K ke.2) →
    (∀ a, acc = .ok a → ExprOk [] a ∧ ∀ k ∈ K, k ∈ symIds a) →
    l.foldl (fun (acc : Except Err IR) (x : PatchSect × Nat × Nat) =>
      match acc with
      | .error e => .error e
      | .ok i =>
        match i.addOtherSection { p with syms := i.syms.filter (fun y => p.syms.any (·.id == y.id)) } x.1 x.2.1 x.2.2 with
        | .error e => .error e
        | .ok (i', newSyms) =>
          .ok { i' with syms := i'.syms.map (fun y =>
            match newSyms.find? (·.id == y.id) with
            | some ny => ny
            | none => y) }) acc = .ok ir' → ExprOk [] ir' := by
  intro l
  induction l with
  | nil => intro p acc ir' _ hacc h; exact (hacc ir' h).1
  | cons x xs ih =>
    intro p acc ir' hl hacc h
    simp only [List.foldl_cons] at h
    refine ih p _ ir' (fun y hy => hl y (List.mem_cons_of_mem _ hy)) ?_ h
    intro a' ha'
    split at ha'
    · cases ha'
    · rename_i i
      split at ha'
      · cases ha'
      · rename_i i2 ns hao
        injection ha' with ha'
        obtain ⟨hE, hK⟩ := hacc i rfl
        obtain ⟨bi, hbe, hiv⟩ := addOtherSection_intervals hao
        obtain ⟨_, _, hsy, _⟩ := addOtherSection_shape hao
        -- the symbols keep their ids
        have hids : symIds a' = symIds i := by
          rw [← ha']
          unfold symIds
          simp only [hsy]
          apply symIds_map
          intro y
          split
          · rename_i ny hf
            have := List.find?_some hf
            simpa using this
          · rfl
        refine ⟨?_, fun k hk => by rw [hids]; exact hK k hk⟩
        intro iv hivm ke hke
        rw [hids]
        have hivm' : iv ∈ i.intervals ++ [bi] := by rw [← ha'] at hivm; simpa [hiv] using hivm
        rcases List.mem_append.mp hivm' with hm | hm
        · exact hE iv hm ke hke
        · simp only [List.mem_singleton] at hm
          subst hm
          rw [hbe] at hke
          exact (hl x List.mem_cons_self ke hke).mono (fun k hk => List.mem_append_left _ (hK k hk))

theorem addOthers_exprok {ir ir' : IR} {p : Patch} (K : List Nat) (h : ir.addOthers p = .ok ir')
    (hp : ∀ x ∈ p.others, ∀ ke ∈ x.1.symExprs, exprIn K ke.2) (he : ExprOk [] ir) (hK : ∀ k ∈ K, k ∈ symIds ir) :
    ExprOk [] ir' := by
  unfold IR.addOthers at h
  exact addOthers_exprok_aux K p.others p (.ok ir) ir' hp
    (fun a ha => by injection ha with ha; subst ha; exact ⟨he, hK⟩) h

theorem insert_exprok {ir ir' : IR} {b off repl last : Nat} {p : Patch}
    (h : ir.insert b off repl p = .ok (ir', last)) (he : ExprOk [] ir) (hp : PatchExprOk ir p) : ExprOk [] ir' := by
  cases hb : ir.block? b with
  | none => unfold IR.insert at h; rw [hb] at h; cases h
  | some blk =>
  unfold IR.insert at h
  rw [hb] at h
  simp only [] at h
  split at h
  · cases h
  · split at h
    · cases h
    · split at h
      · rename_i biId sect hbi hsect
        split at h
        · cases h
        · split at h
          · cases h
          · split at h
            · cases h
            · split at h
              · cases h
              · split at h
                · cases h
                · rename_i ir2 endB added hsp
                  split at h
                  · cases h
                  · split at h
                    · cases h
                    · rename_i ir12 hoth
                      have e2 := insertSplit_exprok hsp he
                      have hids2 := insertSplit_symIds hsp
                      generalize hpc : (if blk.isCode then ir.matchPatchReturnEdges b p.cfg p.proxies else (p.cfg, p.proxies))
                        = pcX at hoth h
                      let P := p.syms.map (·.id)
                      -- up to the byte edit
                      have eE : ExprOk [] (((ir2.addReturnEdgesForPatchCalls pcX.1).1.insertStitch p.text.blocks b endB added).editInterval
                          biId (blk.off + off) repl p.text.data [b]) := by
                        apply editInterval_exprok
                        exact e2.of_same (by rw [insertStitch_intervals, addReturnEdgesForPatchCalls_intervals])
                          (symIds_of_syms (by rw [insertStitch_syms, addReturnEdgesForPatchCalls_syms]))
                      have hidsE : symIds (((ir2.addReturnEdgesForPatchCalls pcX.1).1.insertStitch p.text.blocks b endB added).editInterval
                          biId (blk.off + off) repl p.text.data [b]) = symIds ir := by
                        rw [symIds_of_syms (editInterval_syms _ _ _ _ _ _), symIds_of_syms (insertStitch_syms _ _ _ _ _),
                          symIds_of_syms (addReturnEdgesForPatchCalls_syms _ _), hids2]
                      generalize hE : ((ir2.addReturnEdgesForPatchCalls pcX.1).1.insertStitch p.text.blocks b endB added).editInterval
                          biId (blk.off + off) repl p.text.data [b] = E at hoth h eE hidsE
                      -- the patch's blocks and expressions
                      have ePl : ExprOk P (E.placePatchBlocks p.text.blocks biId (blk.off + off)) := by
                        intro iv hiv ke hke
                        have := eE iv hiv ke hke
                        exact this.mono (fun k hk => by
                          rcases List.mem_append.mp hk with hk | hk
                          · exact List.mem_append_left _ hk
                          · cases hk)
                      have hidsPl : symIds (E.placePatchBlocks p.text.blocks biId (blk.off + off)) = symIds ir := hidsE
                      have eQ := addPatchExprs_exprok (pend := P) biId (blk.off + off) p.text.symExprs ePl
                        (by rw [hidsPl]; exact hp.text)
                      have hidsQ : symIds ((E.placePatchBlocks p.text.blocks biId (blk.off + off)).addPatchExprs biId (blk.off + off)
                          p.text.symExprs) = symIds ir := by
                        rw [symIds_of_syms (addPatchExprs_syms _ _ _ _)]; exact hidsPl
                      generalize hQ : (E.placePatchBlocks p.text.blocks biId (blk.off + off)).addPatchExprs biId (blk.off + off)
                          p.text.symExprs = Q at hoth h eQ hidsQ
                      -- the patch's symbols join the module's
                      have hX : ∀ (c : List Edge) (px : List Nat),
                          ExprOk [] ((((Q.orderInsertAfter sect b (p.text.blocks.map (·.id))).addPatchNodes p c px).addPatchAux
                            p biId (blk.off + off)).addPatchFunctions blk p.text.blocks) ∧
                          symIds ((((Q.orderInsertAfter sect b (p.text.blocks.map (·.id))).addPatchNodes p c px).addPatchAux
                            p biId (blk.off + off)).addPatchFunctions blk p.text.blocks) = symIds ir ++ P := by
                        intro c px
                        have hs : symIds ((((Q.orderInsertAfter sect b (p.text.blocks.map (·.id))).addPatchNodes p c px).addPatchAux
                            p biId (blk.off + off)).addPatchFunctions blk p.text.blocks) = symIds ir ++ P := by
                          unfold symIds
                          rw [addPatchFunctions_syms, addPatchAux_syms]
                          show (Q.syms ++ p.syms).map (·.id) = _
                          rw [List.map_append]
                          show symIds Q ++ P = _
                          rw [hidsQ]
                          rfl
                        refine ⟨?_, hs⟩
                        intro iv hiv ke hke
                        rw [hs]
                        have hiv' : iv ∈ Q.intervals := by
                          rw [addPatchFunctions_intervals] at hiv
                          exact hiv
                        have := eQ iv hiv' ke hke
                        rw [hidsQ] at this
                        exact this.mono (fun k hk => List.mem_append_left _ hk)
                      obtain ⟨eX, hidsX⟩ := hX (ir2.addReturnEdgesForPatchCalls pcX.1).2 pcX.2
                      generalize hXX : (((Q.orderInsertAfter sect b (p.text.blocks.map (·.id))).addPatchNodes p
                          (ir2.addReturnEdgesForPatchCalls pcX.1).2 pcX.2).addPatchAux
                          p biId (blk.off + off)).addPatchFunctions blk p.text.blocks = X at hoth h eX hidsX
                      have e12 : ExprOk [] ir12 := addOthers_exprok (symIds ir ++ P) hoth hp.others eX
                        (fun k hk => by rw [hidsX]; exact hk)
                      exact cleanup_exprok h (e12.of_same rfl rfl)
      · cases h

/-! ### the loops -/

theorem loopInsert_exprok {ir ir' : IR} {func : Option Nat} {ab : Block} {a ao repl last : Nat} {p : Patch}
    (h : ir.loopInsert func ab a ao repl p = .ok (ir', last)) (he : ExprOk [] ir) (hp : PatchExprOk ir p) : ExprOk [] ir' := by
  unfold IR.loopInsert at h
  split at h
  · cases h
  · rename_i ir1 l1 hins
    have e1 := insert_exprok hins he hp
    split at h
    · split at h
      · injection h with h; injection h with h1 h2; subst h1
        obtain ⟨_, hi, _⟩ := adoptPatchBlocks_touches ir1 p _
        exact e1.of_same hi (symIds_of_syms (adoptPatchBlocks_syms _ _ _))
      · injection h with h; injection h with h1 h2; subst h1; exact e1
    · injection h with h; injection h with h1 h2; subst h1; exact e1

/-- the expressions of every patch name module symbols or its own, along the loop -/
def PatchExprs (origOff : Nat) (func : Option Nat) : IR → Option Nat → Int → List Mod → Prop
  | _, _, _, [] => True
  | _, none, _, _ :: _ => True
  | ir, some a, total, m :: ms =>
    match ir.block? a with
    | none => True
    | some ab =>
      match m with
      | .ins o repl p =>
        PatchExprOk ir p ∧
        ∀ ir' last, ir.loopInsert func ab a (actualOffset origOff ab total o).toNat repl p = .ok (ir', last) →
          PatchExprs origOff func ir' (some last) (total + (p.text.data.length : Int) - (repl : Int)) ms
      | .del o len px =>
        ∀ ir' r, ir.delete a (actualOffset origOff ab total o).toNat len px = .ok (ir', r) →
          PatchExprs origOff func ir' r (total - (len : Int)) ms

/-- **every symbolic expression names symbols of the module, through the whole loop over the
requests of a block** -/
theorem applyMods_exprok (origOff : Nat) (func : Option Nat) : ∀ (ms : List Mod) (ir ir' : IR) (actual : Option Nat)
    (total : Int),
    IR.applyMods origOff func ir actual total ms = .ok ir' → PatchExprs origOff func ir actual total ms →
    ExprOk [] ir → ExprOk [] ir' := by
  intro ms
  induction ms with
  | nil =>
    intro ir ir' actual total h _ he
    unfold IR.applyMods at h
    injection h with h; subst h
    exact he
  | cons m ms ih =>
    intro ir ir' actual total h hnew he
    cases actual with
    | none => unfold IR.applyMods at h; cases h
    | some a =>
      unfold IR.applyMods at h
      cases hab : ir.block? a with
      | none => rw [hab] at h; cases h
      | some ab =>
        rw [hab] at h
        simp only [] at h
        unfold PatchExprs at hnew
        rw [hab] at hnew
        simp only [] at hnew
        split at h
        · cases h
        · cases m with
          | ins o repl p =>
            simp only [Mod.off] at h
            split at h
            · cases h
            · rename_i ir1 last hloop
              obtain ⟨hp, hnext⟩ := hnew
              exact ih ir1 ir' (some last) _ h (hnext ir1 last hloop) (loopInsert_exprok hloop he hp)
          | del o len px =>
            simp only [Mod.off] at h
            split at h
            · cases h
            · rename_i ir1 r hdel
              exact ih ir1 ir' r _ h (hnew ir1 r hdel) (delete_exprok hdel he)

def PatchExprsAll : IR → List BlockMods → Prop
  | _, [] => True
  | ir, r :: rest =>
    match ir.block? r.block with
    | none => True
    | some blk =>
      PatchExprs blk.off r.func ir (some r.block) 0 r.mods ∧
      ∀ ir', ir.applyMods blk.off r.func (some r.block) 0 r.mods = .ok ir' → PatchExprsAll ir' rest

/-- **… and through `apply()`'s whole loop over the blocks** -/
theorem applyAll_exprok : ∀ (rs : List BlockMods) (ir ir' : IR),
    ir.applyAll rs = .ok ir' → PatchExprsAll ir rs → ExprOk [] ir → ExprOk [] ir' := by
  intro rs
  induction rs with
  | nil =>
    intro ir ir' h _ he
    unfold IR.applyAll at h
    injection h with h; subst h; exact he
  | cons r rest ih =>
    intro ir ir' h hnew he
    unfold IR.applyAll at h
    cases hb : ir.block? r.block with
    | none => rw [hb] at h; cases h
    | some blk =>
      rw [hb] at h
      simp only [] at h
      unfold PatchExprsAll at hnew
      rw [hb] at hnew
      simp only [] at hnew
      split at h
      · cases h
      · rename_i ir1 hmod
        exact ih ir1 ir' h (hnew.2 ir1 hmod) (applyMods_exprok blk.off r.func r.mods ir ir1 (some r.block) 0 hmod hnew.1 he)

/-! ### the executable forms of the premises are sound -/

theorem exprInB_sound {ids : List Nat} {e : SymExpr} (h : exprInB ids e = true) : exprIn ids e := by
  unfold exprInB at h
  simp only [Bool.and_eq_true, Bool.or_eq_true, List.contains_iff_mem, bne_iff_ne, ne_eq] at h
  refine ⟨by simpa using h.1, fun hk => ?_⟩
  rcases h.2 with h2 | h2
  · exact absurd hk h2
  · simpa using h2

theorem exprOkB_sound {ir : IR} (h : ir.exprOkB = true) : ExprOk [] ir := by
  intro iv hiv ke hke
  unfold IR.exprOkB at h
  have h1 := List.all_eq_true.mp h iv hiv
  have h2 := List.all_eq_true.mp h1 ke hke
  have := exprInB_sound h2
  exact this.mono (fun k hk => List.mem_append_left _ hk)

theorem patchExprOkB_sound {ir : IR} {p : Patch} (h : ir.patchExprOkB p = true) : PatchExprOk ir p := by
  unfold IR.patchExprOkB at h
  simp only [Bool.and_eq_true] at h
  refine ⟨?_, ?_⟩
  · intro ke hke
    exact exprInB_sound (List.all_eq_true.mp h.1 ke hke)
  · intro x hx ke hke
    exact exprInB_sound (List.all_eq_true.mp (List.all_eq_true.mp h.2 x hx) ke hke)

/-! ### a whole `delete`: the expressions stay on their bytes -/

def IR.exprsOf (ir : IR) (i : Nat) : Option (List (Nat × SymExpr)) := (ir.interval? i).map (·.symExprs)

theorem exprsOf_congr {a b : IR} (h : b.intervals = a.intervals) (j : Nat) : b.exprsOf j = a.exprsOf j := by
  unfold IR.exprsOf IR.interval?; rw [h]

/-- expressions after an operation that keeps the intervals, then an edit, then another frame step -/
theorem exprs_after_edit {ir0 ir1 ir2 : IR} {i off len : Nat} {content st : List Nat} {iv : Interval}
    (h0 : ir1.intervals = ir0.intervals) (hiv : ir0.interval? i = some iv)
    (h2 : ir2.intervals = (ir1.editInterval i off len content st).intervals) :
    ir2.exprsOf i = some (shiftKeys off len content.length iv.symExprs) ∧ ∀ j, j ≠ i → ir2.exprsOf j = ir0.exprsOf j := by
  have hiv1 : ir1.interval? i = some iv := by unfold IR.interval? at *; rw [h0]; exact hiv
  constructor
  · rw [exprsOf_congr h2]
    exact editInterval_symExprs ir1 i off len content st iv hiv1
  · intro j hj
    rw [exprsOf_congr h2]
    unfold IR.exprsOf
    rw [editInterval_interval?_other _ _ _ _ _ _ j hj]
    exact exprsOf_congr h0 j

theorem shiftKeys_nothing {β} (off : Nat) (m : List (Nat × β)) : shiftKeys off 0 0 m = m := by
  unfold shiftKeys
  have hf : (fun (x : Nat × β) => match x with
      | (k, v) => if k < off then some (k, v) else if k ≥ off + 0 then some (k + 0 - 0, v) else none) = some := by
    funext x
    obtain ⟨k, v⟩ := x
    simp only []
    by_cases hk : k < off
    · simp [hk]
    · have : k ≥ off + 0 := by omega
      simp [hk, this]
  rw [hf]
  exact List.filterMap_some

/-- **a whole `delete` keeps every symbolic expression on its byte**: in the block's byte interval
the expressions in front of the deleted range keep their offset, those behind it move down by the
deleted length, those inside it are gone; no other interval changes -/
theorem delete_symExprs {ir ir' : IR} {b off len : Nat} {px : Bool} {r : Option Nat} {blk : Block} {i : Nat}
    {iv : Interval}
    (h : ir.delete b off len px = .ok (ir', r))
    (hb : ir.block? b = some blk) (hbi : blk.bi = some i) (hiv : ir.interval? i = some iv) :
    ir'.exprsOf i = some (shiftKeys (blk.off + off) len 0 iv.symExprs) ∧
    ∀ j, j ≠ i → ir'.exprsOf j = ir.exprsOf j := by
  unfold IR.delete at h
  rw [hb] at h
  simp only [] at h
  split at h
  · cases h
  · rw [hbi] at h
    simp only [] at h
    split at h
    · -- nothing to delete
      rename_i hz
      injection h with h; injection h with h1 h2; subst h1
      have : len = 0 := by simp at hz; exact hz.1
      subst this
      refine ⟨?_, fun j _ => rfl⟩
      unfold IR.exprsOf; rw [hiv, shiftKeys_nothing]; rfl
    · split at h
      · split at h
        · cases h
        · rename_i ir1 e1 a1 hs1
          split at h
          · cases h
          · rename_i ir2 e2 a2 hs2
            split at h
            · cases h
            · rename_i ir3 d3 hr3
              split at h
              · cases h
              · rename_i ir5 last hc
                injection h with h; injection h with h1 h2; subst h1
                apply exprs_after_edit (ir1 := ir3) (content := []) _ hiv (cleanup_intervals hc)
                rw [removeBlock_intervals hr3, connectEmptyTail_intervals, splitBlock_intervals hs2,
                  splitBlock_intervals hs1]
      · split at h
        · cases h
        · rename_i ir1 deleted hr1
          split at h
          · split at h
            · cases h
            · rename_i ir3 d3 hr3
              injection h with h; injection h with h1 h2; subst h1
              exact exprs_after_edit (content := []) (removeBlock_intervals hr1) hiv (removeBlock_intervals hr3)
          · injection h with h; injection h with h1 h2; subst h1
            exact exprs_after_edit (content := []) (removeBlock_intervals hr1) hiv rfl

/-! ### a whole `insert`: old expressions stay on their bytes, the patch's arrive at its position -/

/-- `b` has every interval of `a`, with the same expressions (it may have more) -/
def ExprsKept (a b : IR) : Prop := ∀ j, a.exprsOf j ≠ none → b.exprsOf j = a.exprsOf j

theorem ExprsKept.refl (a : IR) : ExprsKept a a := fun _ _ => rfl

theorem ExprsKept.trans {a b c : IR} (h1 : ExprsKept a b) (h2 : ExprsKept b c) : ExprsKept a c := by
  intro j hj
  have hb := h1 j hj
  rw [h2 j (by rw [hb]; exact hj), hb]

theorem addOtherSection_exprsKept {ir ir' : IR} {p : Patch} {s : PatchSect} {sid bid : Nat} {ns : List Sym}
    (h : ir.addOtherSection p s sid bid = .ok (ir', ns)) : ExprsKept ir ir' := by
  obtain ⟨bi, _, hiv⟩ := addOtherSection_intervals h
  intro j hj
  unfold IR.exprsOf IR.interval? at *
  rw [hiv, find_append_some]
  intro hn; rw [hn] at hj; exact hj rfl

theorem addOthers_exprsKept_aux : ∀ (l : List (PatchSect × Nat × Nat)) (p : Patch) (acc : Except Err IR) (ir0 ir' : IR),
    (∀ a, acc = .ok a → ExprsKept ir0 a) →
    l.foldl (fun (acc : Except Err IR) (x : PatchSect × Nat × Nat) =>
      match acc with
      | .error e => .error e
      | .ok i =>
        match i.addOtherSection { p with syms := i.syms.filter (fun y => p.syms.any (·.id == y.id)) } x.1 x.2.1 x.2.2 with
        | .error e => .error e
        | .ok (i', newSyms) =>
          .ok { i' with syms := i'.syms.map (fun y =>
            match newSyms.find? (·.id == y.id) with
            | some ny => ny
            | none => y) }) acc = .ok ir' → ExprsKept ir0 ir' := by
  intro l
  induction l with
  | nil => intro p acc ir0 ir' hacc h; exact hacc _ h
  | cons x xs ih =>
    intro p acc ir0 ir' hacc h
    simp only [List.foldl_cons] at h
    refine ih p _ ir0 ir' ?_ h
    intro a ha
    split at ha
    · cases ha
    · rename_i i
      split at ha
      · cases ha
      · rename_i i2 ns hao
        injection ha with ha; subst ha
        have h2 : ExprsKept i2 { i2 with syms := i2.syms.map (fun y =>
            match ns.find? (·.id == y.id) with
            | some ny => ny
            | none => y) } := fun j _ => rfl
        exact ((hacc i rfl).trans (addOtherSection_exprsKept hao)).trans h2

theorem addOthers_exprsKept {ir ir' : IR} {p : Patch} (h : ir.addOthers p = .ok ir') : ExprsKept ir ir' := by
  unfold IR.addOthers at h
  exact addOthers_exprsKept_aux p.others p (.ok ir) ir ir' (fun a ha => by injection ha with ha; subst ha; exact ExprsKept.refl _) h

/-- the patch's expressions are put at `base + k` on top of what the interval holds -/
theorem addPatchExprs_exprsOf (ir : IR) (i base : Nat) (ex : List (Nat × SymExpr)) (j : Nat) :
    (ir.addPatchExprs i base ex).exprsOf j =
      if j = i then (ir.exprsOf i).map (fun m => ex.foldl (fun m (x : Nat × SymExpr) => aset (base + x.1) x.2 m) m)
      else ir.exprsOf j := by
  by_cases hj : j = i
  · subst hj
    simp only [if_true]
    unfold IR.addPatchExprs IR.exprsOf
    cases hbi : ir.interval? j with
    | none => simp [hbi]
    | some bi =>
      simp only [Option.map_some]
      have hid : bi.id = j := by
        unfold IR.interval? at hbi
        have := List.find?_some hbi
        simpa using this
      let nv : Interval := { bi with symExprs := ex.foldl (fun m (x : Nat × SymExpr) => aset (base + x.1) x.2 m) bi.symExprs }
      show ((ir.setInterval nv).interval? j).map (·.symExprs) = _
      rw [interval?_setInterval_same ir j bi nv hbi hid]
      rfl
  · simp only [hj, if_false]
    unfold IR.exprsOf
    rw [addPatchExprs_interval?_other _ _ _ _ j hj]

/-- **a whole `insert` keeps every old expression on its byte and puts the patch's expressions at
the patch position plus their offset inside the patch**; no other interval the module had changes -/
theorem insert_symExprs {ir ir' : IR} {b off repl last : Nat} {p : Patch} {blk : Block} {i : Nat} {iv : Interval}
    (h : ir.insert b off repl p = .ok (ir', last))
    (hb : ir.block? b = some blk) (hbi : blk.bi = some i) (hiv : ir.interval? i = some iv) :
    ir'.exprsOf i = some (p.text.symExprs.foldl (fun m (x : Nat × SymExpr) => aset (blk.off + off + x.1) x.2 m)
      (shiftKeys (blk.off + off) repl p.text.data.length iv.symExprs)) ∧
    ∀ j, j ≠ i → ir.exprsOf j ≠ none → ir'.exprsOf j = ir.exprsOf j := by
  unfold IR.insert at h
  rw [hb] at h
  simp only [] at h
  split at h
  · cases h
  · split at h
    · cases h
    · rw [hbi] at h
      split at h
      · rename_i biId sect hbi' hsect
        injection hbi' with hbi'; subst hbi'
        split at h
        · cases h
        · split at h
          · cases h
          · split at h
            · cases h
            · split at h
              · cases h
              · split at h
                · cases h
                · rename_i ir2 endB added hs
                  split at h
                  · cases h
                  · split at h
                    · cases h
                    · rename_i ir12 ho
                      have hc := cleanup_intervals h
                      simp only [bumpNext_intervals] at hc
                      generalize hpc : (if blk.isCode then ir.matchPatchReturnEdges b p.cfg p.proxies else (p.cfg, p.proxies)).1
                        = pcfgX at ho hc
                      have h0 : ((ir2.addReturnEdgesForPatchCalls pcfgX).1.insertStitch p.text.blocks b endB added).intervals
                          = ir.intervals := by
                        rw [insertStitch_intervals, addReturnEdgesForPatchCalls_intervals, insertSplit_intervals hs]
                      have hE := exprs_after_edit (ir2 := ((ir2.addReturnEdgesForPatchCalls pcfgX).1.insertStitch p.text.blocks b
                        endB added).editInterval i (blk.off + off) repl p.text.data [b]) h0 hiv rfl
                      have hK := addOthers_exprsKept ho
                      have hmid : ∀ (x : IR) (c : List Edge) (px : List Nat) j, ((((x.placePatchBlocks p.text.blocks i
                          (blk.off + off)).addPatchExprs i (blk.off + off)
                          p.text.symExprs).orderInsertAfter sect b (p.text.blocks.map (·.id))).addPatchNodes p c px
                          |>.addPatchAux p i (blk.off + off) |>.addPatchFunctions blk p.text.blocks).exprsOf j =
                          if j = i then (x.exprsOf i).map (fun m => p.text.symExprs.foldl
                            (fun m (y : Nat × SymExpr) => aset (blk.off + off + y.1) y.2 m) m)
                          else x.exprsOf j := by
                        intro x c px j
                        rw [exprsOf_congr (by simp : _ = ((x.placePatchBlocks p.text.blocks i (blk.off + off)).addPatchExprs
                          i (blk.off + off) p.text.symExprs).intervals)]
                        rw [addPatchExprs_exprsOf]
                        have hp : ∀ k, (x.placePatchBlocks p.text.blocks i (blk.off + off)).exprsOf k = x.exprsOf k :=
                          fun k => exprsOf_congr (by simp) k
                        split
                        · rw [hp]
                        · rw [hp]
                      constructor
                      · rw [exprsOf_congr hc, hK i (by rw [hmid]; simp [hE.1]), hmid]
                        simp only [if_true, hE.1, Option.map_some]
                      · intro j hj hne
                        rw [exprsOf_congr hc, hK j (by rw [hmid]; simp only [hj, if_false]; rw [hE.2 j hj]; exact hne), hmid]
                        simp only [hj, if_false]
                        exact hE.2 j hj
      · cases h

end GtirbVerif.IR
