import GtirbVerif.Spec.AdtSpec

namespace GtirbVerif.Adt

theorem dictGet_dictSet {β} (k k' : Nat) (v : β) (l : List (Nat × β)) :
    dictGet k' (dictSet k v l) = if k' = k then some v else dictGet k' l := by
  induction l with
  | nil =>
    simp only [dictSet, dictGet]
    by_cases h : k = k'
    · subst h; simp
    · simp [h, Ne.symm h]
  | cons p r ih =>
    obtain ⟨a, b⟩ := p
    simp only [dictSet]
    by_cases h : a = k
    · subst h
      simp only [↓reduceIte, dictGet]
      by_cases h2 : a = k'
      · subst h2; simp
      · simp [h2, Ne.symm h2]
    · simp only [h, ↓reduceIte, dictGet, ih]
      by_cases h2 : a = k'
      · subst h2; simp [h]
      · simp only [h2, ↓reduceIte]

theorem dictGet_dictDel {β} (k k' : Nat) (l : List (Nat × β)) :
    dictGet k' (dictDel k l) = if k' = k then none else dictGet k' l := by
  induction l with
  | nil => simp [dictDel, dictGet]
  | cons p r ih =>
    obtain ⟨a, b⟩ := p
    simp only [dictDel]
    by_cases h : a = k
    · subst h
      simp only [↓reduceIte, ih, dictGet]
      by_cases h2 : k' = a
      · simp [h2]
      · simp [h2, Ne.symm h2]
    · simp only [h, ↓reduceIte, dictGet, ih]
      by_cases h2 : a = k'
      · subst h2; simp [h]
      · simp [h2]

/-- reading an Offset = reading the flat dictionary -/
theorem omap_getO (m : OMap) (e d : Nat) :
    m.getO e d = match (absOMap m).val e d with
      | some v => .ok v
      | none => .error .keyError := by
  simp only [OMap.getO, absOMap]
  cases dictGet e m.data with
  | none => rfl
  | some sub => simp only []; cases h : dictGet d sub <;> simp [h]

theorem omap_getE (m : OMap) (e : Nat) :
    (m.getE e).toOption.isSome = (absOMap m).elem e ∧
    ∀ sub, m.getE e = .ok sub → ∀ d, dictGet d sub = (absOMap m).val e d := by
  simp only [OMap.getE, absOMap]
  cases h : dictGet e m.data with
  | none => simp [Except.toOption]
  | some sub => simp [Except.toOption]

theorem omap_containsO (m : OMap) (e d : Nat) :
    m.containsO e d = ((absOMap m).val e d).isSome := by
  simp only [OMap.containsO, absOMap]
  cases dictGet e m.data <;> rfl

theorem omap_containsE (m : OMap) (e : Nat) : m.containsE e = (absOMap m).elem e := rfl

/-- writing an Offset = writing the flat dictionary (and the element key exists) -/
theorem omap_setO (m : OMap) (e d v : Nat) :
    (absOMap (m.setO e d v)).val = (fun e' d' => if e' = e ∧ d' = d then some v else (absOMap m).val e' d') ∧
    (absOMap (m.setO e d v)).elem = (fun e' => if e' = e then true else (absOMap m).elem e') := by
  simp only [OMap.setO, absOMap]
  cases h : dictGet e m.data with
  | none =>
    constructor
    · funext e' d'
      simp only [dictGet_dictSet]
      by_cases he : e' = e
      · subst he; simp [dictGet, h, eq_comm]
      · simp [he]
    · funext e'
      simp only [dictGet_dictSet]
      by_cases he : e' = e <;> simp [he]
  | some sub =>
    constructor
    · funext e' d'
      simp only [dictGet_dictSet]
      by_cases he : e' = e
      · subst he; simp [h, dictGet_dictSet]
      · simp [he]
    · funext e'
      simp only [dictGet_dictSet]
      by_cases he : e' = e <;> simp [he]

/-- assigning by element replaces all of that element's offsets -/
theorem omap_setE (m : OMap) (e : Nat) (sub : SubDict) :
    (absOMap (m.setE e sub)).val = (fun e' d' => if e' = e then dictGet d' sub else (absOMap m).val e' d') ∧
    (absOMap (m.setE e sub)).elem = (fun e' => if e' = e then true else (absOMap m).elem e') := by
  simp only [OMap.setE, absOMap]
  constructor
  · funext e' d'
    simp only [dictGet_dictSet]
    by_cases he : e' = e <;> simp [he]
  · funext e'
    simp only [dictGet_dictSet]
    by_cases he : e' = e <;> simp [he]

/-- deleting an Offset: KeyError iff absent, otherwise exactly that entry goes -/
theorem omap_delO (m : OMap) (e d : Nat) :
    match m.delO e d with
    | .error err => err = .keyError ∧ (absOMap m).val e d = none
    | .ok m' => (absOMap m).val e d ≠ none ∧
        (absOMap m').val = (fun e' d' => if e' = e ∧ d' = d then none else (absOMap m).val e' d') ∧
        (absOMap m').elem = (absOMap m).elem := by
  simp only [OMap.delO, absOMap]
  cases h : dictGet e m.data with
  | none => simp
  | some sub =>
    cases h2 : dictGet d sub with
    | none => simp [h2]
    | some v =>
      simp only [h2, ne_eq, reduceCtorEq, not_false_eq_true, true_and]
      constructor
      · funext e' d'
        simp only [dictGet_dictSet]
        by_cases he : e' = e
        · subst he; simp [h, dictGet_dictDel]
        · simp [he]
      · funext e'
        simp only [dictGet_dictSet]
        by_cases he : e' = e
        · subst he; simp [h]
        · simp [he]

theorem omap_delE (m : OMap) (e : Nat) :
    match m.delE e with
    | .error err => err = .keyError ∧ (absOMap m).elem e = false
    | .ok m' => (absOMap m).elem e = true ∧
        (absOMap m').val = (fun e' d' => if e' = e then none else (absOMap m).val e' d') ∧
        (absOMap m').elem = (fun e' => if e' = e then false else (absOMap m).elem e') := by
  simp only [OMap.delE, absOMap]
  cases h : dictGet e m.data with
  | none => simp
  | some sub =>
    simp only [Option.isSome_some, true_and]
    constructor
    · funext e' d'
      simp only [dictGet_dictDel]
      by_cases he : e' = e <;> simp [he]
    · funext e'
      simp only [dictGet_dictDel]
      by_cases he : e' = e <;> simp [he]

end GtirbVerif.Adt
