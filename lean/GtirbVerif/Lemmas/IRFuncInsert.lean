import GtirbVerif.Lemmas.IREntries
import GtirbVerif.Lemmas.IRSymClosed

/-!
# Code inserted into a block of function F belongs to F

The patch's code blocks are entered into the function of the block they are inserted into
(`addPatchFunctions`); the clean-up that follows only takes a block out of the function tables
when it takes the block out of the module (`join_blocks`, `remove_block`).
-/
namespace GtirbVerif.IR
open GtirbVerif.Adt (CfgNode Label Edge)

/-- block `c` is in the table but detached from every byte interval -/
def Det (ir : IR) (c : Nat) : Prop := ∃ blk, ir.block? c = some blk ∧ blk.bi = none

/-- cache entries persist unless their block left the module; what left stays out -/
def FbbLe (a b : IR) : Prop :=
  (∀ c f, alookup c a.fbb = some f → alookup c b.fbb = some f ∨ Det b c) ∧ (∀ c, Det a c → Det b c)

theorem FbbLe.refl (a : IR) : FbbLe a a := ⟨fun _ _ h => Or.inl h, fun _ h => h⟩

theorem FbbLe.trans {a b c : IR} (h1 : FbbLe a b) (h2 : FbbLe b c) : FbbLe a c := by
  refine ⟨?_, fun k hk => h2.2 k (h1.2 k hk)⟩
  intro k f hk
  rcases h1.1 k f hk with h | h
  · exact h2.1 k f h
  · exact Or.inr (h2.2 k h)

theorem FbbLe.of_same {a b : IR} (hf : b.fbb = a.fbb) (hb : b.blocks = a.blocks) : FbbLe a b := by
  refine ⟨fun c f h => Or.inl (by rw [hf]; exact h), ?_⟩
  intro c ⟨blk, hblk, hbi⟩
  exact ⟨blk, by rw [block?_of_blocks hb]; exact hblk, hbi⟩

theorem removeFunctionBlock_fbb (x : IR) (b : Nat) :
    (x.removeFunctionBlock b).fbb = match alookup b x.fbb with | none => x.fbb | some _ => adel b x.fbb := by
  unfold IR.removeFunctionBlock
  split
  · rename_i h; rw [h]
  · rename_i f h; rw [h]; simp only []; split <;> rfl

theorem removeFunctionBlock_fbb_other (x : IR) (b c : Nat) (hc : c ≠ b) :
    alookup c (x.removeFunctionBlock b).fbb = alookup c x.fbb := by
  rw [removeFunctionBlock_fbb]
  split
  · rfl
  · exact alookup_adel_other _ _ _ hc

/-! ### join_blocks -/

theorem joinBlocks_fbb_other {ir ir' : IR} {id1 id2 : Nat} (h : ir.joinBlocks id1 id2 = .ok ir') (c : Nat) (hc : c ≠ id2) :
    alookup c ir'.fbb = alookup c ir.fbb := by
  unfold IR.joinBlocks at h
  split at h
  · rename_i b1 b2 h1 h2
    split at h
    · cases h
    · split at h
      · cases h
      · injection h with h
        subst h
        show alookup c (if b2.isCode then (ir.joinSyms b1 id2).joinCode b1 id2 b2.size else ir.joinSyms b1 id2).fbb = _
        split
        · obtain ⟨i3, he, hf, _⟩ := joinCode_split' (ir.joinSyms b1 id2) b1 id2 b2.size
          rw [he, removeFunctionBlock_fbb_other _ _ _ hc, hf]
          rfl
        · rfl
  · cases h

theorem joinBlocks_fbble {ir ir' : IR} {id1 id2 : Nat} (h : ir.joinBlocks id1 id2 = .ok ir') (hne : id1 ≠ id2) : FbbLe ir ir' := by
  cases h1 : ir.block? id1 with
  | none => unfold IR.joinBlocks at h; rw [h1] at h; cases h
  | some b1 =>
  cases h2 : ir.block? id2 with
  | none => unfold IR.joinBlocks at h; rw [h1, h2] at h; cases h
  | some b2 =>
    obtain ⟨_, _, hbl⟩ := joinBlocks_core h h1 h2
    have e1 : b1.id = id1 := findB_id h1
    have e2 : b2.id = id2 := findB_id h2
    have hA : (ir.setBlock { b1 with size := b1.size + b2.size }).block? id2 = some b2 := by
      rw [block?_setBlock ir { b1 with size := b1.size + b2.size } b1 (by simpa [e1] using h1) id2]
      simp [e1, Ne.symm hne]; exact h2
    have hlk : ∀ c, ir'.block? c = if c = id2 then some { b2 with bi := none }
        else if c = id1 then some { b1 with size := b1.size + b2.size } else ir.block? c := fun c => by
      rw [block?_of_blocks hbl c,
        block?_setBlock _ { b2 with bi := none } b2 (by simpa [e2] using hA) c,
        block?_setBlock ir { b1 with size := b1.size + b2.size } b1 (by simpa [e1] using h1) c]
      simp [e1, e2]
    have hdet2 : Det ir' id2 := ⟨{ b2 with bi := none }, by rw [hlk]; simp, rfl⟩
    refine ⟨?_, ?_⟩
    · intro c f hc
      by_cases hc2 : c = id2
      · subst hc2; exact Or.inr hdet2
      · left; rw [joinBlocks_fbb_other h c hc2]; exact hc
    · intro c ⟨blk, hblk, hbi⟩
      by_cases hc2 : c = id2
      · subst hc2; exact hdet2
      · by_cases hc1 : c = id1
        · subst hc1
          rw [h1] at hblk; injection hblk with hblk; subst hblk
          exact ⟨{ b1 with size := b1.size + b2.size }, by rw [hlk]; simp [hc2], hbi⟩
        · exact ⟨blk, by rw [hlk]; simp [hc2, hc1]; exact hblk, hbi⟩

/-! ### remove_block -/

theorem removeFunctions_fbb_other (x : IR) (blk : Block) (n : Option Nat) (nc : Bool) (c : Nat) (hc : c ≠ blk.id) :
    alookup c (x.removeFunctions blk n nc).fbb = alookup c x.fbb := by
  unfold IR.removeFunctions
  split
  · rfl
  · split
    · rfl
    · simp only []
      rw [removeFunctionBlock_fbb_other _ _ _ hc]
      split <;> rfl

theorem removeStages_fbb_other (x : IR) (blk : Block) (t c : Bool) (px p n : Option Nat) (k : Nat) (hk : k ≠ blk.id) :
    alookup k (x.removeStages blk t c px p n).fbb = alookup k x.fbb := by
  unfold IR.removeStages
  simp only []
  show alookup k (IR.removeOutEdges _ blk).fbb = _
  rw [removeOutEdges_fbb]
  split
  · rw [removeEntrypoints_fbb, removeFunctions_fbb_other _ _ _ _ _ hk, removeInEdges_fbb]
    rfl
  · rfl

theorem removeBlock_fbble {ir ir' : IR} {b : Nat} {px r : Bool} (h : ir.removeBlock b px = .ok (ir', r)) : FbbLe ir ir' := by
  cases hb : ir.block? b with
  | none => unfold IR.removeBlock at h; rw [hb] at h; cases h
  | some blk =>
    have hid : blk.id = b := findB_id hb
    have hbl := removeBlock_blocks h hb
    have hlk : ∀ c, ir'.block? c = if c = b then some (if r then { blk with bi := none } else { blk with size := 0 })
        else ir.block? c := fun c => by
      rw [block?_of_blocks hbl c,
        block?_setBlock ir (if r then { blk with bi := none } else { blk with size := 0 }) blk
          (by split <;> simpa [hid] using hb) c]
      split <;> simp [hid]
    have hfo : ∀ c, c ≠ b → alookup c ir'.fbb = alookup c ir.fbb := by
      intro c hc
      unfold IR.removeBlock at h
      rw [hb] at h
      simp only [] at h
      split at h
      · cases h
      · split at h
        · injection h with h; injection h with h1 h2; subst h1
          show alookup c (IR.removeStages _ _ _ _ _ _ _).fbb = _
          rw [removeStages_fbb_other _ _ _ _ _ _ _ _ (by rw [hid]; exact hc), withProxy_fbb]
        · injection h with h; injection h with h1 h2; subst h1
          rw [keepEmpty_fbb, removeStages_fbb_other _ _ _ _ _ _ _ _ (by rw [hid]; exact hc), withProxy_fbb]
    -- the block itself: either it left the module, or nothing of the tables changed
    have hself : ∀ f, alookup b ir.fbb = some f → alookup b ir'.fbb = some f ∨ Det ir' b := by
      intro f hf
      cases r with
      | true => exact Or.inr ⟨{ blk with bi := none }, by rw [hlk]; simp, rfl⟩
      | false =>
        left
        unfold IR.removeBlock at h
        rw [hb] at h
        simp only [] at h
        split at h
        · cases h
        · split at h
          · injection h with h; injection h with h1 h2; cases h2
          · rename_i hcan
            injection h with h; injection h with h1 h2; subst h1
            rw [keepEmpty_fbb]
            unfold IR.removeStages
            have : (ir.withProxy px).canRemove blk px (ir.adjacent blk).1 (ir.adjacent blk).2
                ((ir.withProxy px).requiredCfi blk) = false := by simpa using hcan
            rw [this]
            simp only [Bool.false_eq_true, if_false]
            show alookup b (IR.removeOutEdges _ blk).fbb = _
            rw [removeOutEdges_fbb, withProxy_fbb]; exact hf
    refine ⟨?_, ?_⟩
    · intro c f hc
      by_cases hcb : c = b
      · subst hcb; exact hself f hc
      · left; rw [hfo c hcb]; exact hc
    · intro c ⟨x, hx, hbi⟩
      by_cases hcb : c = b
      · subst hcb
        rw [hb] at hx; injection hx with hx; subst hx
        refine ⟨if r then { blk with bi := none } else { blk with size := 0 }, by rw [hlk]; simp, ?_⟩
        split
        · rfl
        · exact hbi
      · exact ⟨x, by rw [hlk]; simp [hcb]; exact hx, hbi⟩

/-! ### _cleanup_modified_blocks -/

theorem cleanupPass_fbble : ∀ (rest : List Nat) (ir ir' : IR) (pred : Nat) (done : List Nat) (r : Option (List Nat)),
    ir.cleanupPass pred rest done = .ok (ir', r) → (done ++ pred :: rest).Nodup →
    FbbLe ir ir' ∧ ∀ bl', r = some bl' → bl'.Nodup := by
  intro rest
  induction rest with
  | nil =>
    intro ir ir' pred done r h _
    unfold IR.cleanupPass at h
    injection h with h; injection h with h1 h2; subst h1; subst h2
    exact ⟨FbbLe.refl _, fun _ hh => by cases hh⟩
  | cons b rest ih =>
    intro ir ir' pred done r h hnd
    have hsub : (done ++ [pred] ++ rest).Nodup := by
      refine List.Nodup.sublist ?_ hnd
      simp only [List.append_assoc, List.singleton_append]
      exact List.Sublist.append_left (List.Sublist.cons_cons _ (List.sublist_cons_self _ _)) _
    have hpb : pred ≠ b := by
      have := (List.nodup_append.mp hnd).2.1
      exact (List.nodup_cons.mp this).1 ∘ (fun he => he ▸ List.mem_cons_self)
    unfold IR.cleanupPass at h
    split at h
    · rename_i i2 hj
      injection h with h; injection h with h1 h2; subst h1; subst h2
      exact ⟨joinBlocks_fbble hj hpb, fun _ hh => by injection hh with hh; subst hh; exact hsub⟩
    · split at h
      · split at h
        · cases h
        · rename_i i2 hr
          injection h with h; injection h with h1 h2; subst h1; subst h2
          exact ⟨removeBlock_fbble hr, fun _ hh => by injection hh with hh; subst hh; exact hsub⟩
        · rename_i i2 hr
          obtain ⟨a, b'⟩ := ih _ _ _ _ _ h (by simpa [List.append_assoc] using hnd)
          exact ⟨(removeBlock_fbble hr).trans a, b'⟩
      · exact ih _ _ _ _ _ h (by simpa [List.append_assoc] using hnd)
    · cases h

theorem cleanupLoop_fbble : ∀ (fuel : Nat) (ir ir' : IR) (bl bl' : List Nat),
    ir.cleanupLoop fuel bl = .ok (ir', bl') → bl.Nodup → FbbLe ir ir' := by
  intro fuel
  induction fuel with
  | zero =>
    intro ir ir' bl bl' h _
    unfold IR.cleanupLoop at h
    injection h with h; injection h with h1 h2; subst h1; exact FbbLe.refl _
  | succ n ih =>
    intro ir ir' bl bl' h hnd
    unfold IR.cleanupLoop at h
    split at h
    · injection h with h; injection h with h1 h2; subst h1; exact FbbLe.refl _
    · split at h
      · cases h
      · rename_i i2 hp
        injection h with h; injection h with h1 h2; subst h1
        exact (cleanupPass_fbble _ _ _ _ _ _ hp (by simpa using hnd)).1
      · rename_i i2 bl2 hp
        obtain ⟨a, c⟩ := cleanupPass_fbble _ _ _ _ _ _ hp (by simpa using hnd)
        exact a.trans (ih _ _ _ _ h (c bl2 rfl))

theorem cleanupFirst_fbble {ir ir' : IR} {bl bl' : List Nat}
    (h : ir.cleanupFirst bl = .ok (ir', bl')) : FbbLe ir ir' := by
  unfold IR.cleanupFirst at h
  split at h
  · injection h with h; injection h with h1 h2; subst h1; exact FbbLe.refl _
  · split at h
    · split at h
      · cases h
      · rename_i hr
        injection h with h; injection h with h1 h2; subst h1
        exact removeBlock_fbble hr
      · rename_i hr
        injection h with h; injection h with h1 h2; subst h1
        exact removeBlock_fbble hr
    · injection h with h; injection h with h1 h2; subst h1; exact FbbLe.refl _

theorem cleanup_fbble {ir ir' : IR} {bl : List Nat} {last : Nat}
    (h : ir.cleanup bl = .ok (ir', last)) (hnd : bl.Nodup) : FbbLe ir ir' := by
  unfold IR.cleanup at h
  split at h
  · cases h
  · split at h
    · cases h
    · rename_i ir1 bl1 hl
      split at h
      · cases h
      · rename_i ir2 bl2 hf
        split at h
        · split at h
          · injection h with h; injection h with h1 h2; subst h1
            exact (cleanupLoop_fbble _ _ _ _ _ hl hnd).trans (cleanupFirst_fbble hf)
          · cases h
        · cases h

/-! ### the patch's code joins the function -/

theorem addPatchFunctions_fold_fbb (f : Nat) : ∀ (tb : List Block) (x : IR) (c : Nat),
    (∃ blk ∈ tb, blk.id = c ∧ blk.isCode = true) ∨ alookup c x.fbb = some f →
    (∀ blk ∈ tb, blk.id = c → blk.isCode = true) →
    alookup c (tb.foldl (fun ir b => if b.isCode then ir.addFunctionBlock b.id f else ir) x).fbb = some f := by
  intro tb
  induction tb with
  | nil =>
    intro x c h _
    rcases h with ⟨blk, hm, _⟩ | h
    · cases hm
    · exact h
  | cons b tb ih =>
    intro x c h hcode
    simp only [List.foldl_cons]
    apply ih
    · by_cases hbc : b.id = c
      · right
        have hb := hcode b List.mem_cons_self hbc
        rw [hb]; simp only [if_true]
        show alookup c (aset b.id f x.fbb) = some f
        rw [hbc, alookup_aset_same]
      · rcases h with ⟨blk, hm, hid, hc⟩ | h
        · rcases List.mem_cons.mp hm with rfl | hm
          · exact absurd hid hbc
          · exact Or.inl ⟨blk, hm, hid, hc⟩
        · right
          split
          · show alookup c (aset b.id f x.fbb) = some f
            rw [alookup_aset_other _ _ _ _ (Ne.symm hbc)]; exact h
          · exact h
    · intro blk hm hid
      exact hcode blk (List.mem_cons_of_mem _ hm) hid

theorem inheritFunction_fbb_other (x : IR) (b nb c : Nat) (hc : c ≠ nb) :
    alookup c (x.inheritFunction b nb).fbb = alookup c x.fbb := by
  unfold IR.inheritFunction
  split
  · show alookup c (aset nb _ x.fbb) = _
    exact alookup_aset_other _ _ _ _ hc
  · rfl

theorem splitCode_fbb_other (x : IR) (b nb : Nat) (e : Bool) (c : Nat) (hc : c ≠ nb) :
    alookup c (x.splitCode b nb e).1.fbb = alookup c x.fbb := by
  unfold IR.splitCode
  split
  · rw [inheritFunction_fbb_other _ _ _ _ hc, addFall_fbb, splitEdgesMid_fbb]
  · simp only []
    split
    · rw [inheritFunction_fbb_other _ _ _ _ hc, addFall_fbb, splitEdgesEnd_fbb]
    · rw [inheritFunction_fbb_other _ _ _ _ hc, splitEdgesEnd_fbb]

theorem splitBlock_fbb_other {ir ir' : IR} {b off nb : Nat} {added : Bool}
    (h : ir.splitBlock b off = .ok (ir', nb, added)) (c : Nat) (hc : c ≠ nb) : alookup c ir'.fbb = alookup c ir.fbb := by
  unfold IR.splitBlock at h
  split at h
  · cases h
  · rename_i blk hb
    split at h
    · cases h
    · split at h
      · cases h
      · injection h with h
        injection h with h1 h2
        injection h2 with h2 h3
        subst h2
        rw [← h1]
        show alookup c (if blk.isCode then ((ir.splitBlocks blk ir.next off).splitSyms b ir.next).splitCode b ir.next (off == blk.size)
            else (((ir.splitBlocks blk ir.next off).splitSyms b ir.next), false)).1.fbb = _
        split
        · rw [splitCode_fbb_other _ _ _ _ _ hc]; rfl
        · rfl

theorem removeBlock_fbb_other {ir ir' : IR} {b : Nat} {px r : Bool} (h : ir.removeBlock b px = .ok (ir', r)) (c : Nat) (hc : c ≠ b) :
    alookup c ir'.fbb = alookup c ir.fbb := by
  cases hb : ir.block? b with
  | none => unfold IR.removeBlock at h; rw [hb] at h; cases h
  | some blk =>
    have hid : blk.id = b := findB_id hb
    unfold IR.removeBlock at h
    rw [hb] at h
    simp only [] at h
    split at h
    · cases h
    · split at h
      · injection h with h; injection h with h1 h2; subst h1
        show alookup c (IR.removeStages _ _ _ _ _ _ _).fbb = _
        rw [removeStages_fbb_other _ _ _ _ _ _ _ _ (by rw [hid]; exact hc), withProxy_fbb]
      · injection h with h; injection h with h1 h2; subst h1
        rw [keepEmpty_fbb, removeStages_fbb_other _ _ _ _ _ _ _ _ (by rw [hid]; exact hc), withProxy_fbb]

/-- the split of `insert` leaves the function of the block inserted into as it was -/
theorem insertSplit_fbb_b {ir ir' : IR} {b off repl endB : Nat} {added : Bool}
    (h : ir.insertSplit b off repl = .ok (ir', endB, added)) (hI : IdsBelow ir) (hb : ir.block? b ≠ none) :
    alookup b ir'.fbb = alookup b ir.fbb := by
  unfold IR.insertSplit at h
  split at h
  · cases h
  · rename_i ir1 e0 a0 hs1
    have hbe0 : b ≠ e0 := splitBlock_new_ne hs1 hI b hb
    split at h
    · split at h
      · cases h
      · rename_i i2 e2 a2 hs2
        split at h
        · cases h
        · rename_i i3 d3 hr
          injection h with h; injection h with h1 h2; subst h1
          have hbe2 : b ≠ e2 := splitBlock_new_ne hs2 (splitBlock_idsBelow hs1 hI) b ((splitBlock_keeps hs1).block hb)
          rw [removeBlock_fbb_other hr b hbe0, connectEmptyTail_fbb, splitBlock_fbb_other hs2 b hbe2,
            splitBlock_fbb_other hs1 b hbe0]
    · injection h with h; injection h with h1 h2; subst h1
      rw [connectEmptyTail_fbb, splitBlock_fbb_other hs1 b hbe0]

theorem eq_of_nodup_map_id : ∀ (l : List Block), (l.map (·.id)).Nodup → ∀ x ∈ l, ∀ y ∈ l, x.id = y.id → x = y := by
  intro l
  induction l with
  | nil => intro _ x hx; cases hx
  | cons a l ih =>
    intro hnd x hx y hy hxy
    have hnd' := List.nodup_cons.mp (by simpa using hnd : (a.id :: l.map (·.id)).Nodup)
    rcases List.mem_cons.mp hx with hxa | hxl
    · rcases List.mem_cons.mp hy with hya | hyl
      · rw [hxa, hya]
      · exfalso
        have hm : y.id ∈ l.map (·.id) := List.mem_map.mpr ⟨y, hyl, rfl⟩
        rw [← hxy, hxa] at hm
        exact hnd'.1 hm
    · rcases List.mem_cons.mp hy with hya | hyl
      · exfalso
        have hm : x.id ∈ l.map (·.id) := List.mem_map.mpr ⟨x, hxl, rfl⟩
        rw [hxy, hya] at hm
        exact hnd'.1 hm
      · exact ih hnd'.2 x hxl y hyl hxy

/-- **code inserted into a block of function F belongs to F**: every code block of the patch that
is still part of the module when `insert` returns is, by the cache (which mirrors
`functionBlocks`), a block of the function of the block it was inserted into -/
theorem insert_code_joins_function {i : Nat} {ir ir' : IR} {b off repl last f : Nat} {p : Patch} {blk : Block}
    (h : ir.insert b off repl p = .ok (ir', last)) (hb : ir.block? b = some blk) (hbi : blk.bi = some i)
    (hcode : blk.isCode = true) (hf : alookup b ir.fbb = some f) (hI : IdsBelow ir)
    (hnew : ∀ c ∈ p.text.blocks.map (·.id), ir.block? c = none) (hlt : ∀ c ∈ p.text.blocks.map (·.id), c < ir.next)
    (hnd : (p.text.blocks.map (·.id)).Nodup) :
    ∀ tbk ∈ p.text.blocks, tbk.isCode = true → alookup tbk.id ir'.fbb = some f ∨ Det ir' tbk.id := by
  have hid : blk.id = b := findB_id hb
  have hin : In i ir b := ⟨blk, hb, Or.inl hbi⟩
  unfold IR.insert at h
  rw [hb] at h
  simp only [] at h
  split at h
  · cases h
  · split at h
    · cases h
    · split at h
      · rename_i biId sect hbi' hsect
        split at h
        · cases h
        · split at h
          · cases h
          · split at h
            · cases h
            · split at h
              · cases h
              · split at h
                · cases h
                · rename_i ir2 endB added hs
                  split at h
                  · cases h
                  · split at h
                    · cases h
                    · rename_i ir12 ho
                      obtain ⟨hI2, _, hine2, _⟩ := insertSplit_facts hs hin hI
                      have hbe : b ≠ endB := insertSplit_ne hs hI (by rw [hb]; simp)
                      have hf2 : alookup b ir2.fbb = some f := by
                        rw [insertSplit_fbb_b hs hI (by rw [hb]; simp)]; exact hf
                      have hfresh2 : ∀ c ∈ p.text.blocks.map (·.id), ir2.block? c = none := by
                        intro c hc
                        rw [block?_none_iff]
                        intro hm
                        rcases insertSplit_ids_sub hs c hm with h1 | h1
                        · exact (block?_none_iff ir c).mp (hnew c hc) h1
                        · have := hlt c hc; omega
                      generalize hpc : ir.matchPatchReturnEdges b p.cfg p.proxies = pcX at ho h
                      -- the cache up to the function tables of the patch's code
                      have hAf : ((((((((ir2.addReturnEdgesForPatchCalls pcX.1).1.insertStitch p.text.blocks b endB added).editInterval biId
                            (blk.off + off) repl p.text.data [b]).placePatchBlocks
                            p.text.blocks biId (blk.off + off)).addPatchExprs biId (blk.off + off) p.text.symExprs).orderInsertAfter sect b
                            (p.text.blocks.map (·.id))).addPatchNodes p (ir2.addReturnEdgesForPatchCalls pcX.1).2 pcX.2).addPatchAux
                            p biId (blk.off + off)).fbb = ir2.fbb := by
                        have hxf : ∀ (y : IR), (y.addPatchExprs biId (blk.off + off) p.text.symExprs).fbb = y.fbb := by
                          intro y; unfold IR.addPatchExprs; split <;> rfl
                        have hef : ∀ (y : IR), (y.editInterval biId (blk.off + off) repl p.text.data [b]).fbb = y.fbb := by
                          intro y; unfold IR.editInterval; split <;> rfl
                        show (IR.addPatchExprs _ _ _ _).fbb = _
                        rw [hxf, placePatchBlocks_fbb, hef, insertStitch_fbb, addReturnEdgesForPatchCalls_fbb]
                      generalize hA : ((((((((ir2.addReturnEdgesForPatchCalls pcX.1).1.insertStitch p.text.blocks b endB added).editInterval biId
                            (blk.off + off) repl p.text.data [b]).placePatchBlocks
                            p.text.blocks biId (blk.off + off)).addPatchExprs biId (blk.off + off) p.text.symExprs).orderInsertAfter sect b
                            (p.text.blocks.map (·.id))).addPatchNodes p (ir2.addReturnEdgesForPatchCalls pcX.1).2 pcX.2).addPatchAux
                            p biId (blk.off + off)) = A at ho h hAf
                      -- the fold that enters the patch's code blocks
                      have hX : ∀ tbk ∈ p.text.blocks, tbk.isCode = true →
                          alookup tbk.id (A.addPatchFunctions blk p.text.blocks).fbb = some f := by
                        intro tbk htb hc
                        unfold IR.addPatchFunctions
                        rw [hcode]
                        simp only [if_true]
                        rw [hid, hAf, hf2]
                        simp only []
                        apply addPatchFunctions_fold_fbb
                        · exact Or.inl ⟨tbk, htb, rfl, hc⟩
                        · intro blk' hm hid'
                          have := eq_of_nodup_map_id p.text.blocks hnd blk' hm tbk htb hid'
                          rw [this]; exact hc
                      have hO := addOthers_fsame ho
                      -- the clean-up only forgets blocks that leave the module
                      have hcl : FbbLe (ir12.bumpNext p) ir' := by
                        apply cleanup_fbble h
                        have hbT : b ∉ p.text.blocks.map (·.id) := fun hm => by
                          have := hnew b hm
                          rw [hb] at this; cases this
                        have heT : endB ∉ p.text.blocks.map (·.id) := fun hm => by
                          obtain ⟨eb, heb, _⟩ := hine2
                          rw [hfresh2 endB hm] at heb; cases heb
                        rw [List.append_assoc]
                        refine List.nodup_append.mpr ⟨by simp, ?_, ?_⟩
                        · refine List.nodup_append.mpr ⟨hnd, by simp, ?_⟩
                          intro x hx y hy hxy
                          simp only [List.mem_singleton] at hy
                          subst hy; subst hxy
                          exact heT hx
                        · intro x hx y hy hxy
                          simp only [List.mem_singleton] at hx
                          subst hx; subst hxy
                          rcases List.mem_append.mp hy with hy | hy
                          · exact hbT hy
                          · simp only [List.mem_singleton] at hy
                            exact hbe hy
                      intro tbk htb hc
                      have h12 : alookup tbk.id (ir12.bumpNext p).fbb = some f := by
                        show alookup tbk.id ir12.fbb = some f
                        rw [hO.1]; exact hX tbk htb hc
                      exact hcl.1 tbk.id f h12
      · cases h

end GtirbVerif.IR
