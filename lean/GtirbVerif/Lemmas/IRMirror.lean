import GtirbVerif.Lemmas.IRBatch
import GtirbVerif.Lemmas.IRFunc
import GtirbVerif.Lemmas.IRAll

/-!
# The function tables through every step of the IR model

`functions_by_block` (`ir.fbb`) and `functionBlocks` are written by `add_function_block_aux` and
`remove_function_block_aux` only.  The first part lists the steps that write neither (the
lemmas mirror Lemmas/IRFrame.lean); the second part carries the `Mirror` invariant (the cache
says `f` exactly when the table lists the block under `f`) through `insert`, `delete` and the
loops of `_apply_modifications` and `apply()`.
-/
namespace GtirbVerif.IR
open GtirbVerif.Adt (CfgNode Label Edge)

theorem foldl_fbb {α} (f : IR → α → IR) (h : ∀ ir a, (f ir a).fbb = ir.fbb)
    (l : List α) (ir : IR) : (l.foldl f ir).fbb = ir.fbb := by
  induction l generalizing ir with
  | nil => rfl
  | cons a l ih => simp only [List.foldl_cons]; rw [ih, h]

theorem ite_fbb {c : Prop} [Decidable c] {a b : IR} {x : List (Nat × Nat)}
    (ha : a.fbb = x) (hb : b.fbb = x) : (if c then a else b).fbb = x := by
  split <;> assumption

theorem foldl_pair_fbb {α β} (f : IR × β → α → IR × β)
    (h : ∀ acc a, (f acc a).1.fbb = acc.1.fbb)
    (l : List α) (acc : IR × β) : (l.foldl f acc).1.fbb = acc.1.fbb := by
  induction l generalizing acc with
  | nil => rfl
  | cons a l ih => simp only [List.foldl_cons]; rw [ih, h]


@[simp] theorem setBlock_fbb (ir : IR) (b : Block) : (ir.setBlock b).fbb = ir.fbb := rfl

@[simp] theorem updateEdge_fbb (ir : IR) (e e' : Edge) : (ir.updateEdge e e').fbb = ir.fbb := rfl

@[simp] theorem orderInsertAfter_fbb (ir : IR) (s a : Nat) (bs : List Nat) :
    (ir.orderInsertAfter s a bs).fbb = ir.fbb := rfl

@[simp] theorem orderRemove_fbb (ir : IR) (s b : Nat) : (ir.orderRemove s b).fbb = ir.fbb := rfl

@[simp] theorem orderAppend_fbb (ir : IR) (s : Nat) (bs : List Nat) :
    (ir.orderAppend s bs).fbb = ir.fbb := by
  unfold IR.orderAppend; split <;> rfl

@[simp] theorem moveReturnEdges_fbb (ir : IR) (ce : Edge) (ft : List Nat) (nf : Nat) :
    (ir.moveReturnEdges ce ft nf).fbb = ir.fbb := by
  unfold IR.moveReturnEdges
  split
  · rfl
  · split
    · rfl
    · apply foldl_fbb
      intro ir tb
      apply foldl_fbb
      intro ir e
      split
      · split <;> simp
      · rfl

@[simp] theorem updateFallthrough_fbb (ir : IR) (s t : Nat) :
    (ir.updateFallthrough s t).fbb = ir.fbb := by
  unfold IR.updateFallthrough
  simp only []
  apply foldl_fbb
  intro ir e
  split
  · simp
  · split <;> rfl

@[simp] theorem removeReturnEdgesFromCallee_fbb (ir : IR) (ce : Edge) (ft : List Nat) :
    (ir.removeReturnEdgesFromCallee ce ft).fbb = ir.fbb := by
  unfold IR.removeReturnEdgesFromCallee
  split
  · rfl
  · split
    · rfl
    · apply foldl_fbb
      intro ir b
      simp only []
      split
      · rfl
      · have hfold : ∀ (rets : List Edge) (acc : IR × Bool),
            (rets.foldl (fun (acc : IR × Bool) e =>
              match e.dst with
              | .block t => if ft.contains t then ({ acc.1 with cfg := cfgDiscard acc.1.cfg e }, acc.2)
                            else (acc.1, true)
              | .proxy _ => (acc.1, true)) acc).1.fbb = acc.1.fbb := by
          intro rets acc
          apply foldl_pair_fbb
          intro acc e
          split
          · split <;> rfl
          · rfl
        split
        · exact hfold _ _
        · exact hfold _ _

@[simp] theorem addReturnEdgesToCallee_fbb (ir : IR) (pcfg : List Edge) (f : Nat) (rt : CfgNode) :
    (ir.addReturnEdgesToCallee pcfg f rt).1.fbb = ir.fbb := by
  unfold IR.addReturnEdgesToCallee
  apply foldl_pair_fbb
  intro acc b
  simp only []
  split
  · rfl
  · simp only []
    apply foldl_fbb
    intro ir e
    rfl

@[simp] theorem splitSyms_fbb (ir : IR) (b nb : Nat) : (ir.splitSyms b nb).fbb = ir.fbb := rfl

@[simp] theorem splitBlocks_fbb (ir : IR) (blk : Block) (nb off : Nat) :
    (ir.splitBlocks blk nb off).fbb = ir.fbb := rfl

@[simp] theorem splitTables_fbb (ir : IR) (b nb off : Nat) :
    (ir.splitTables b nb off).fbb = ir.fbb := rfl

@[simp] theorem addFall_fbb (ir : IR) (a b : Nat) : (ir.addFall a b).fbb = ir.fbb := rfl

@[simp] theorem splitEdgesMid_fbb (ir : IR) (b nb : Nat) :
    (ir.splitEdgesMid b nb).fbb = ir.fbb := by
  unfold IR.splitEdgesMid
  apply foldl_fbb; intro i e; rfl

@[simp] theorem splitEdgesEnd_fbb (ir : IR) (b nb : Nat) :
    (ir.splitEdgesEnd b nb).fbb = ir.fbb := by
  unfold IR.splitEdgesEnd
  apply foldl_fbb; intro i e
  split
  · simp
  · split <;> rfl

@[simp] theorem joinSyms_fbb (ir : IR) (b1 : Block) (id2 : Nat) :
    (ir.joinSyms b1 id2).fbb = ir.fbb := rfl

@[simp] theorem joinTables_fbb (ir : IR) (b1 : Block) (id2 : Nat) (c : Bool) :
    (ir.joinTables b1 id2 c).fbb = ir.fbb := rfl

@[simp] theorem removeSyms_fbb (ir : IR) (b : Nat) (t : Referent × Bool) :
    (ir.removeSyms b t).fbb = ir.fbb := rfl

@[simp] theorem removeAuxEntries_fbb (ir : IR) (blk : Block) :
    (ir.removeAuxEntries blk).fbb = ir.fbb := rfl

@[simp] theorem removeCfi_fbb (ir : IR) (b : Nat) (c : List CfiDir) (p n : Option Nat) (pc nc : Bool) :
    (ir.removeCfi b c p n pc nc).fbb = ir.fbb := rfl

@[simp] theorem removeInEdges_fbb (ir : IR) (blk : Block) (p n : Option Nat) (nc : Bool) :
    (ir.removeInEdges blk p n nc).fbb = ir.fbb := by
  unfold IR.removeInEdges
  split
  · rfl
  · split
    · apply foldl_fbb; intro i e; rfl
    · split
      · apply foldl_fbb; intro i e; rfl
      · simp only []
        rw [foldl_fbb _ (by intro i e; rfl)]

@[simp] theorem removeEntrypoints_fbb (ir : IR) (blk : Block) (n : Option Nat) (nc : Bool) :
    (ir.removeEntrypoints blk n nc).fbb = ir.fbb := by
  unfold IR.removeEntrypoints
  simp only []
  apply ite_fbb
  · exact ite_fbb (ite_fbb (ite_fbb rfl rfl) (ite_fbb rfl rfl))
      (ite_fbb (ite_fbb rfl rfl) (ite_fbb rfl rfl))
  · exact ite_fbb (ite_fbb (ite_fbb rfl rfl) (ite_fbb rfl rfl))
      (ite_fbb (ite_fbb rfl rfl) (ite_fbb rfl rfl))

@[simp] theorem removeOutEdges_fbb (ir : IR) (blk : Block) :
    (ir.removeOutEdges blk).fbb = ir.fbb := by
  unfold IR.removeOutEdges
  split
  · rfl
  · apply foldl_fbb; intro i e
    simp only []
    split <;> simp

@[simp] theorem keepEmpty_fbb (ir : IR) (blk : Block) : (ir.keepEmpty blk).fbb = ir.fbb := by
  unfold IR.keepEmpty; simp only []; split <;> rfl

@[simp] theorem withProxy_fbb (ir : IR) (t : Bool) : (ir.withProxy t).fbb = ir.fbb := by
  unfold IR.withProxy; split <;> rfl

@[simp] theorem connectEmptyTail_fbb (ir : IR) (t : Nat) : (ir.connectEmptyTail t).fbb = ir.fbb := by
  unfold IR.connectEmptyTail
  split
  · rfl
  · split
    · split
      · split <;> rfl
      · rfl
    · rfl

@[simp] theorem insertStitch_fbb (ir : IR) (tb : List Block) (b e : Nat) (a : Bool) :
    (ir.insertStitch tb b e a).fbb = ir.fbb := by
  unfold IR.insertStitch
  apply ite_fbb
  · simp only [updateFallthrough_fbb]; split <;> simp
  · split <;> simp

@[simp] theorem placePatchBlocks_fbb (ir : IR) (tb : List Block) (i base : Nat) :
    (ir.placePatchBlocks tb i base).fbb = ir.fbb := rfl

@[simp] theorem addPatchNodes_fbb (ir : IR) (p : Patch) (c : List Edge) (px : List Nat) :
    (ir.addPatchNodes p c px).fbb = ir.fbb := rfl

@[simp] theorem addPatchAux_fbb (ir : IR) (p : Patch) (i base : Nat) :
    (ir.addPatchAux p i base).fbb = ir.fbb := rfl

@[simp] theorem bumpNext_fbb (ir : IR) (p : Patch) : (ir.bumpNext p).fbb = ir.fbb := rfl

@[simp] theorem addReturnEdgesForPatchCalls_fbb (ir : IR) (pcfg : List Edge) :
    (ir.addReturnEdgesForPatchCalls pcfg).1.fbb = ir.fbb := by
  unfold IR.addReturnEdgesForPatchCalls
  apply foldl_pair_fbb
  intro acc ce
  split
  · rfl
  · split
    · rfl
    · split
      · rfl
      · split
        · rfl
        · simp

theorem foldl_funcBlocks {α} (f : IR → α → IR) (h : ∀ ir a, (f ir a).aux.funcBlocks = ir.aux.funcBlocks)
    (l : List α) (ir : IR) : (l.foldl f ir).aux.funcBlocks = ir.aux.funcBlocks := by
  induction l generalizing ir with
  | nil => rfl
  | cons a l ih => simp only [List.foldl_cons]; rw [ih, h]

theorem ite_funcBlocks {c : Prop} [Decidable c] {a b : IR} {x : List (Nat × List Nat)}
    (ha : a.aux.funcBlocks = x) (hb : b.aux.funcBlocks = x) : (if c then a else b).aux.funcBlocks = x := by
  split <;> assumption

theorem foldl_pair_funcBlocks {α β} (f : IR × β → α → IR × β)
    (h : ∀ acc a, (f acc a).1.aux.funcBlocks = acc.1.aux.funcBlocks)
    (l : List α) (acc : IR × β) : (l.foldl f acc).1.aux.funcBlocks = acc.1.aux.funcBlocks := by
  induction l generalizing acc with
  | nil => rfl
  | cons a l ih => simp only [List.foldl_cons]; rw [ih, h]


@[simp] theorem setBlock_funcBlocks (ir : IR) (b : Block) : (ir.setBlock b).aux.funcBlocks = ir.aux.funcBlocks := rfl

@[simp] theorem updateEdge_funcBlocks (ir : IR) (e e' : Edge) : (ir.updateEdge e e').aux.funcBlocks = ir.aux.funcBlocks := rfl

@[simp] theorem orderInsertAfter_funcBlocks (ir : IR) (s a : Nat) (bs : List Nat) :
    (ir.orderInsertAfter s a bs).aux.funcBlocks = ir.aux.funcBlocks := rfl

@[simp] theorem orderRemove_funcBlocks (ir : IR) (s b : Nat) : (ir.orderRemove s b).aux.funcBlocks = ir.aux.funcBlocks := rfl

@[simp] theorem orderAppend_funcBlocks (ir : IR) (s : Nat) (bs : List Nat) :
    (ir.orderAppend s bs).aux.funcBlocks = ir.aux.funcBlocks := by
  unfold IR.orderAppend; split <;> rfl

@[simp] theorem moveReturnEdges_funcBlocks (ir : IR) (ce : Edge) (ft : List Nat) (nf : Nat) :
    (ir.moveReturnEdges ce ft nf).aux.funcBlocks = ir.aux.funcBlocks := by
  unfold IR.moveReturnEdges
  split
  · rfl
  · split
    · rfl
    · apply foldl_funcBlocks
      intro ir tb
      apply foldl_funcBlocks
      intro ir e
      split
      · split <;> simp
      · rfl

@[simp] theorem updateFallthrough_funcBlocks (ir : IR) (s t : Nat) :
    (ir.updateFallthrough s t).aux.funcBlocks = ir.aux.funcBlocks := by
  unfold IR.updateFallthrough
  simp only []
  apply foldl_funcBlocks
  intro ir e
  split
  · simp
  · split <;> rfl

@[simp] theorem removeReturnEdgesFromCallee_funcBlocks (ir : IR) (ce : Edge) (ft : List Nat) :
    (ir.removeReturnEdgesFromCallee ce ft).aux.funcBlocks = ir.aux.funcBlocks := by
  unfold IR.removeReturnEdgesFromCallee
  split
  · rfl
  · split
    · rfl
    · apply foldl_funcBlocks
      intro ir b
      simp only []
      split
      · rfl
      · have hfold : ∀ (rets : List Edge) (acc : IR × Bool),
            (rets.foldl (fun (acc : IR × Bool) e =>
              match e.dst with
              | .block t => if ft.contains t then ({ acc.1 with cfg := cfgDiscard acc.1.cfg e }, acc.2)
                            else (acc.1, true)
              | .proxy _ => (acc.1, true)) acc).1.aux.funcBlocks = acc.1.aux.funcBlocks := by
          intro rets acc
          apply foldl_pair_funcBlocks
          intro acc e
          split
          · split <;> rfl
          · rfl
        split
        · exact hfold _ _
        · exact hfold _ _

@[simp] theorem addReturnEdgesToCallee_funcBlocks (ir : IR) (pcfg : List Edge) (f : Nat) (rt : CfgNode) :
    (ir.addReturnEdgesToCallee pcfg f rt).1.aux.funcBlocks = ir.aux.funcBlocks := by
  unfold IR.addReturnEdgesToCallee
  apply foldl_pair_funcBlocks
  intro acc b
  simp only []
  split
  · rfl
  · simp only []
    apply foldl_funcBlocks
    intro ir e
    rfl

@[simp] theorem splitSyms_funcBlocks (ir : IR) (b nb : Nat) : (ir.splitSyms b nb).aux.funcBlocks = ir.aux.funcBlocks := rfl

@[simp] theorem splitBlocks_funcBlocks (ir : IR) (blk : Block) (nb off : Nat) :
    (ir.splitBlocks blk nb off).aux.funcBlocks = ir.aux.funcBlocks := rfl

@[simp] theorem splitTables_funcBlocks (ir : IR) (b nb off : Nat) :
    (ir.splitTables b nb off).aux.funcBlocks = ir.aux.funcBlocks := rfl

@[simp] theorem addFall_funcBlocks (ir : IR) (a b : Nat) : (ir.addFall a b).aux.funcBlocks = ir.aux.funcBlocks := rfl

@[simp] theorem splitEdgesMid_funcBlocks (ir : IR) (b nb : Nat) :
    (ir.splitEdgesMid b nb).aux.funcBlocks = ir.aux.funcBlocks := by
  unfold IR.splitEdgesMid
  apply foldl_funcBlocks; intro i e; rfl

@[simp] theorem splitEdgesEnd_funcBlocks (ir : IR) (b nb : Nat) :
    (ir.splitEdgesEnd b nb).aux.funcBlocks = ir.aux.funcBlocks := by
  unfold IR.splitEdgesEnd
  apply foldl_funcBlocks; intro i e
  split
  · simp
  · split <;> rfl

@[simp] theorem joinSyms_funcBlocks (ir : IR) (b1 : Block) (id2 : Nat) :
    (ir.joinSyms b1 id2).aux.funcBlocks = ir.aux.funcBlocks := rfl

@[simp] theorem joinTables_funcBlocks (ir : IR) (b1 : Block) (id2 : Nat) (c : Bool) :
    (ir.joinTables b1 id2 c).aux.funcBlocks = ir.aux.funcBlocks := rfl

@[simp] theorem removeSyms_funcBlocks (ir : IR) (b : Nat) (t : Referent × Bool) :
    (ir.removeSyms b t).aux.funcBlocks = ir.aux.funcBlocks := rfl

@[simp] theorem removeAuxEntries_funcBlocks (ir : IR) (blk : Block) :
    (ir.removeAuxEntries blk).aux.funcBlocks = ir.aux.funcBlocks := rfl

@[simp] theorem removeCfi_funcBlocks (ir : IR) (b : Nat) (c : List CfiDir) (p n : Option Nat) (pc nc : Bool) :
    (ir.removeCfi b c p n pc nc).aux.funcBlocks = ir.aux.funcBlocks := rfl

@[simp] theorem removeInEdges_funcBlocks (ir : IR) (blk : Block) (p n : Option Nat) (nc : Bool) :
    (ir.removeInEdges blk p n nc).aux.funcBlocks = ir.aux.funcBlocks := by
  unfold IR.removeInEdges
  split
  · rfl
  · split
    · apply foldl_funcBlocks; intro i e; rfl
    · split
      · apply foldl_funcBlocks; intro i e; rfl
      · simp only []
        rw [foldl_funcBlocks _ (by intro i e; rfl)]

@[simp] theorem removeEntrypoints_funcBlocks (ir : IR) (blk : Block) (n : Option Nat) (nc : Bool) :
    (ir.removeEntrypoints blk n nc).aux.funcBlocks = ir.aux.funcBlocks := by
  unfold IR.removeEntrypoints
  simp only []
  apply ite_funcBlocks
  · exact ite_funcBlocks (ite_funcBlocks (ite_funcBlocks rfl rfl) (ite_funcBlocks rfl rfl))
      (ite_funcBlocks (ite_funcBlocks rfl rfl) (ite_funcBlocks rfl rfl))
  · exact ite_funcBlocks (ite_funcBlocks (ite_funcBlocks rfl rfl) (ite_funcBlocks rfl rfl))
      (ite_funcBlocks (ite_funcBlocks rfl rfl) (ite_funcBlocks rfl rfl))

@[simp] theorem removeOutEdges_funcBlocks (ir : IR) (blk : Block) :
    (ir.removeOutEdges blk).aux.funcBlocks = ir.aux.funcBlocks := by
  unfold IR.removeOutEdges
  split
  · rfl
  · apply foldl_funcBlocks; intro i e
    simp only []
    split <;> simp

@[simp] theorem keepEmpty_funcBlocks (ir : IR) (blk : Block) : (ir.keepEmpty blk).aux.funcBlocks = ir.aux.funcBlocks := by
  unfold IR.keepEmpty; simp only []; split <;> rfl

@[simp] theorem withProxy_funcBlocks (ir : IR) (t : Bool) : (ir.withProxy t).aux.funcBlocks = ir.aux.funcBlocks := by
  unfold IR.withProxy; split <;> rfl

@[simp] theorem connectEmptyTail_funcBlocks (ir : IR) (t : Nat) : (ir.connectEmptyTail t).aux.funcBlocks = ir.aux.funcBlocks := by
  unfold IR.connectEmptyTail
  split
  · rfl
  · split
    · split
      · split <;> rfl
      · rfl
    · rfl

@[simp] theorem insertStitch_funcBlocks (ir : IR) (tb : List Block) (b e : Nat) (a : Bool) :
    (ir.insertStitch tb b e a).aux.funcBlocks = ir.aux.funcBlocks := by
  unfold IR.insertStitch
  apply ite_funcBlocks
  · simp only [updateFallthrough_funcBlocks]; split <;> simp
  · split <;> simp

@[simp] theorem placePatchBlocks_funcBlocks (ir : IR) (tb : List Block) (i base : Nat) :
    (ir.placePatchBlocks tb i base).aux.funcBlocks = ir.aux.funcBlocks := rfl

@[simp] theorem addPatchNodes_funcBlocks (ir : IR) (p : Patch) (c : List Edge) (px : List Nat) :
    (ir.addPatchNodes p c px).aux.funcBlocks = ir.aux.funcBlocks := rfl

@[simp] theorem addPatchAux_funcBlocks (ir : IR) (p : Patch) (i base : Nat) :
    (ir.addPatchAux p i base).aux.funcBlocks = ir.aux.funcBlocks := rfl

@[simp] theorem bumpNext_funcBlocks (ir : IR) (p : Patch) : (ir.bumpNext p).aux.funcBlocks = ir.aux.funcBlocks := rfl

@[simp] theorem addReturnEdgesForPatchCalls_funcBlocks (ir : IR) (pcfg : List Edge) :
    (ir.addReturnEdgesForPatchCalls pcfg).1.aux.funcBlocks = ir.aux.funcBlocks := by
  unfold IR.addReturnEdgesForPatchCalls
  apply foldl_pair_funcBlocks
  intro acc ce
  split
  · rfl
  · split
    · rfl
    · split
      · rfl
      · split
        · rfl
        · simp

/-! ## the invariant -/

/-- the function tables of `b` are those of `a` -/
def FSame (a b : IR) : Prop := b.fbb = a.fbb ∧ b.aux.funcBlocks = a.aux.funcBlocks

theorem FSame.refl (a : IR) : FSame a a := ⟨rfl, rfl⟩
theorem FSame.trans {a b c : IR} (h1 : FSame a b) (h2 : FSame b c) : FSame a c :=
  ⟨h2.1.trans h1.1, h2.2.trans h1.2⟩

/-- every key of the cache names a block of the block table (attached or detached) -/
def FKeys (ir : IR) : Prop := ∀ b, alookup b ir.fbb ≠ none → ir.block? b ≠ none

/-- **cache and table in step**, and the cache speaks of blocks only -/
def MInv (ir : IR) : Prop := Mirror ir ∧ FKeys ir

theorem Mirror.of_same {a b : IR} (hs : FSame a b) (h : Mirror a) : Mirror b := by
  intro c f
  unfold IR.inFunc
  rw [hs.1, hs.2]
  exact h c f

/-- no entry of the block table disappears -/
def Stay (a b : IR) : Prop := ∀ c, a.block? c ≠ none → b.block? c ≠ none

theorem Stay.refl (a : IR) : Stay a a := fun _ h => h
theorem Stay.trans {a b c : IR} (h1 : Stay a b) (h2 : Stay b c) : Stay a c := fun k h => h2 k (h1 k h)
theorem Stay.of_blocks {a b : IR} (h : b.blocks = a.blocks) : Stay a b := by
  intro c hc; unfold IR.block? at *; rw [h]; exact hc

theorem Keeps.stay {a b : IR} (hk : Keeps a b) : Stay a b := by
  intro c h
  cases hc : a.block? c with
  | none => exact absurd hc h
  | some blk =>
    obtain ⟨blk', hb', _⟩ := hk c blk hc
    rw [hb']; simp

theorem Stay.of_map {a b : IR} (f : Block → Block) (hid : ∀ x, (f x).id = x.id) (h : b.blocks = a.blocks.map f) : Stay a b := by
  intro c hc
  unfold IR.block? at *
  rw [h, find_map_id f hid]
  cases hf : List.find? (fun x => x.id == c) a.blocks with
  | none => exact absurd hf hc
  | some v => simp

theorem setBlock_stay (ir : IR) (nb : Block) : Stay ir (ir.setBlock nb) := by
  apply Stay.of_map (fun x => if x.id == nb.id then nb else x) _ rfl
  intro x
  by_cases hx : x.id = nb.id
  · simp [hx]
  · have : (x.id == nb.id) = false := by simp [hx]
    simp [this]

theorem MInv.of_same {a b : IR} (hs : FSame a b) (hk : Stay a b) (h : MInv a) : MInv b :=
  ⟨h.1.of_same hs, fun c hc => hk c (h.2 c (by rw [← hs.1]; exact hc))⟩

theorem MInv.keeps {a b : IR} (hb : b.fbb = a.fbb) (hf : b.aux.funcBlocks = a.aux.funcBlocks) (hk : Stay a b)
    (h : MInv a) : MInv b := h.of_same ⟨hb, hf⟩ hk

theorem removeFunctionBlock_fbb_sub (ir : IR) (b c : Nat) (h : alookup c (ir.removeFunctionBlock b).fbb ≠ none) :
    alookup c ir.fbb ≠ none := by
  unfold IR.removeFunctionBlock at h
  split at h
  · exact h
  · simp only [] at h
    have : alookup c (adel b ir.fbb) ≠ none := by split at h <;> exact h
    by_cases hc : c = b
    · subst hc; rw [alookup_adel_same] at this; exact absurd rfl this
    · rw [alookup_adel_other _ _ _ hc] at this; exact this

theorem removeFunctionBlock_blocks (ir : IR) (b : Nat) : (ir.removeFunctionBlock b).blocks = ir.blocks :=
  core_blocks (removeFunctionBlock_core ir b)

theorem removeFunctionBlock_minv (ir : IR) (b : Nat) (h : MInv ir) : MInv (ir.removeFunctionBlock b) := by
  refine ⟨removeFunctionBlock_mirror ir b h.1, ?_⟩
  intro c hc
  have := h.2 c (removeFunctionBlock_fbb_sub ir b c hc)
  unfold IR.block? at *
  rw [removeFunctionBlock_blocks]; exact this

theorem addFunctionBlock_minv (ir : IR) (b f : Nat) (h : MInv ir) (hnew : alookup b ir.fbb = none)
    (hblk : ir.block? b ≠ none) : MInv (ir.addFunctionBlock b f) := by
  refine ⟨addFunctionBlock_mirror ir b f h.1 hnew, ?_⟩
  intro c hc
  show ir.block? c ≠ none
  by_cases hcb : c = b
  · subst hcb; exact hblk
  · apply h.2 c
    unfold IR.addFunctionBlock at hc
    simp only [] at hc
    rw [alookup_aset_other _ _ _ _ hcb] at hc
    exact hc

theorem MInv.same_blocks {a b : IR} (hb : b.fbb = a.fbb) (hf : b.aux.funcBlocks = a.aux.funcBlocks)
    (hbl : b.blocks = a.blocks) (h : MInv a) : MInv b := h.keeps hb hf (Stay.of_blocks hbl)

theorem inheritFunction_minv (x : IR) (b nb : Nat) (h : MInv x) (hnew : alookup nb x.fbb = none)
    (hblk : x.block? nb ≠ none) : MInv (x.inheritFunction b nb) := by
  unfold IR.inheritFunction
  split
  · exact addFunctionBlock_minv x nb _ h hnew hblk
  · exact h

theorem MInv.fresh {ir : IR} (h : MInv ir) (hI : IdsBelow ir) {k : Nat} (hk : ir.next ≤ k) : alookup k ir.fbb = none := by
  cases hc : alookup k ir.fbb with
  | none => rfl
  | some f => exact absurd (hI.fresh hk) (h.2 k (by rw [hc]; simp))

/-! ### split_block -/

theorem splitCode_minv (x : IR) (b nb : Nat) (e : Bool) (h : MInv x) (hnew : alookup nb x.fbb = none)
    (hblk : x.block? nb ≠ none) : MInv (x.splitCode b nb e).1 := by
  unfold IR.splitCode
  split
  · apply inheritFunction_minv
    · exact h.same_blocks (by rw [addFall_fbb, splitEdgesMid_fbb]) (by rw [addFall_funcBlocks, splitEdgesMid_funcBlocks])
        (by rw [core_blocks (addFall_core _ _ _), core_blocks (splitEdgesMid_core _ _ _)])
    · rw [addFall_fbb, splitEdgesMid_fbb]; exact hnew
    · unfold IR.block? at hblk ⊢
      rw [core_blocks (addFall_core _ _ _), core_blocks (splitEdgesMid_core _ _ _)]; exact hblk
  · simp only []
    have hE : MInv (x.splitEdgesEnd b nb) := h.same_blocks (splitEdgesEnd_fbb _ _ _) (splitEdgesEnd_funcBlocks _ _ _)
      (core_blocks (splitEdgesEnd_core _ _ _))
    split
    · apply inheritFunction_minv
      · exact hE.same_blocks (addFall_fbb _ _ _) (addFall_funcBlocks _ _ _) (core_blocks (addFall_core _ _ _))
      · rw [addFall_fbb, splitEdgesEnd_fbb]; exact hnew
      · unfold IR.block? at hblk ⊢
        rw [core_blocks (addFall_core _ _ _), core_blocks (splitEdgesEnd_core _ _ _)]; exact hblk
    · apply inheritFunction_minv _ _ _ hE
      · rw [splitEdgesEnd_fbb]; exact hnew
      · unfold IR.block? at hblk ⊢
        rw [core_blocks (splitEdgesEnd_core _ _ _)]; exact hblk

theorem splitBlock_minv {ir ir' : IR} {b off nb : Nat} {added : Bool}
    (h : ir.splitBlock b off = .ok (ir', nb, added)) (hm : MInv ir) (hI : IdsBelow ir) : MInv ir' := by
  cases hb : ir.block? b with
  | none => unfold IR.splitBlock at h; rw [hb] at h; cases h
  | some blk =>
    have hid : blk.id = b := findB_id hb
    have hfresh : ir.block? ir.next = none := hI.fresh (Nat.le_refl _)
    have hnewk : alookup ir.next ir.fbb = none := hm.fresh hI (Nat.le_refl _)
    unfold IR.splitBlock at h
    rw [hb] at h
    simp only [] at h
    split at h
    · cases h
    · split at h
      · cases h
      · rename_i sect hsect
        injection h with h
        injection h with h1 h2
        injection h2 with h2 h3
        subst h2
        -- the state with the two blocks
        have k2 : Stay ir ((ir.splitBlocks blk ir.next off).splitSyms b ir.next) := by
          refine Stay.trans (setBlock_stay ir { blk with size := off }) ?_
          exact (append_keeps _ _ _ rfl).stay
        have m2 : MInv ((ir.splitBlocks blk ir.next off).splitSyms b ir.next) :=
          MInv.keeps (a := ir) rfl rfl k2 hm
        have hblk2 : ((ir.splitBlocks blk ir.next off).splitSyms b ir.next).block? ir.next ≠ none := by
          show (ir.splitBlocks blk ir.next off).block? ir.next ≠ none
          rw [splitBlocks_block? ir blk b ir.next off hb hfresh]
          have hne : ir.next ≠ b := by intro he; rw [he] at hfresh; rw [hfresh] at hb; cases hb
          simp [hne]
        have mr : MInv (if blk.isCode then ((ir.splitBlocks blk ir.next off).splitSyms b ir.next).splitCode b ir.next (off == blk.size)
            else (((ir.splitBlocks blk ir.next off).splitSyms b ir.next), false)).1 := by
          split
          · exact splitCode_minv _ _ _ _ m2 hnewk hblk2
          · exact m2
        rw [← h1]
        exact mr.same_blocks rfl rfl rfl

/-! ### join_blocks -/

theorem joinCode_split (x : IR) (b1 : Block) (id2 s2 : Nat) :
    ∃ i3 : IR, x.joinCode b1 id2 s2 = i3.removeFunctionBlock id2 ∧ i3.fbb = x.fbb ∧
      i3.aux.funcBlocks = x.aux.funcBlocks ∧ i3.blocks = x.blocks := by
  unfold IR.joinCode
  simp only []
  refine ⟨_, rfl, ?_, ?_, ?_⟩
  · have h1 : ∀ (y : IR), ((y.inEdges id2).foldl (fun ir e =>
        if Edge.isFall e && e.src == .block b1.id then { ir with cfg := cfgDiscard ir.cfg e } else ir) y).fbb = y.fbb := by
      intro y; apply foldl_fbb; intro i e; split <;> rfl
    have h2 : ∀ (y : IR), (if b1.size == 0 then
        (y.inEdges id2).foldl (fun ir e => ir.updateEdge e (updDst e (.block b1.id))) y
      else (y.inEdges id2).foldl (fun ir e => { ir with cfg := cfgDiscard ir.cfg e }) y).fbb = y.fbb := by
      intro y; split <;> (apply foldl_fbb; intro i e; rfl)
    split
    · rw [foldl_fbb _ (by intro i e; rfl), h2, h1]
    · rw [foldl_fbb _ (by intro i e; rfl), h2, h1]
  · have h1 : ∀ (y : IR), ((y.inEdges id2).foldl (fun ir e =>
        if Edge.isFall e && e.src == .block b1.id then { ir with cfg := cfgDiscard ir.cfg e } else ir) y).aux.funcBlocks
        = y.aux.funcBlocks := by
      intro y; apply foldl_funcBlocks; intro i e; split <;> rfl
    have h2 : ∀ (y : IR), (if b1.size == 0 then
        (y.inEdges id2).foldl (fun ir e => ir.updateEdge e (updDst e (.block b1.id))) y
      else (y.inEdges id2).foldl (fun ir e => { ir with cfg := cfgDiscard ir.cfg e }) y).aux.funcBlocks = y.aux.funcBlocks := by
      intro y; split <;> (apply foldl_funcBlocks; intro i e; rfl)
    split
    · rw [foldl_funcBlocks _ (by intro i e; rfl), h2, h1]
    · rw [foldl_funcBlocks _ (by intro i e; rfl), h2, h1]
  · have h1 : ∀ (y : IR), ((y.inEdges id2).foldl (fun ir e =>
        if Edge.isFall e && e.src == .block b1.id then { ir with cfg := cfgDiscard ir.cfg e } else ir) y).blocks = y.blocks := by
      intro y; apply foldl_blocks; intro i e; split <;> rfl
    have h2 : ∀ (y : IR), (if b1.size == 0 then
        (y.inEdges id2).foldl (fun ir e => ir.updateEdge e (updDst e (.block b1.id))) y
      else (y.inEdges id2).foldl (fun ir e => { ir with cfg := cfgDiscard ir.cfg e }) y).blocks = y.blocks := by
      intro y; split <;> (apply foldl_blocks; intro i e; rfl)
    split
    · rw [foldl_blocks _ (by intro i e; rfl), h2, h1]
    · rw [foldl_blocks _ (by intro i e; rfl), h2, h1]

theorem joinCode_minv (x : IR) (b1 : Block) (id2 s2 : Nat) (h : MInv x) : MInv (x.joinCode b1 id2 s2) := by
  obtain ⟨i3, he, hf, hg, hb⟩ := joinCode_split x b1 id2 s2
  rw [he]
  exact removeFunctionBlock_minv i3 id2 (h.same_blocks hf hg hb)

theorem joinBlocks_minv {ir ir' : IR} {id1 id2 : Nat} (h : ir.joinBlocks id1 id2 = .ok ir') (hm : MInv ir) : MInv ir' := by
  unfold IR.joinBlocks at h
  split at h
  · rename_i b1 b2 h1 h2
    split at h
    · cases h
    · split at h
      · cases h
      · rename_i sect hsect
        injection h with h
        subst h
        have m1 : MInv (ir.joinSyms b1 id2) := hm.same_blocks rfl rfl rfl
        have m2 : MInv (if b2.isCode then (ir.joinSyms b1 id2).joinCode b1 id2 b2.size else ir.joinSyms b1 id2) := by
          split
          · exact joinCode_minv _ _ _ _ m1
          · exact m1
        generalize (if b2.isCode then (ir.joinSyms b1 id2).joinCode b1 id2 b2.size else ir.joinSyms b1 id2) = y at m2
        have m3 : MInv (y.joinTables b1 id2 b2.isCode) := m2.same_blocks rfl rfl rfl
        have m4 := MInv.keeps (a := y.joinTables b1 id2 b2.isCode)
          (b := (y.joinTables b1 id2 b2.isCode).setBlock { b1 with size := b1.size + b2.size })
          rfl rfl (setBlock_stay _ _) m3
        have m5 : MInv (((y.joinTables b1 id2 b2.isCode).setBlock { b1 with size := b1.size + b2.size }).orderRemove sect id2) :=
          m4.same_blocks rfl rfl rfl
        exact MInv.keeps (a := ((y.joinTables b1 id2 b2.isCode).setBlock { b1 with size := b1.size + b2.size }).orderRemove sect id2)
          rfl rfl (setBlock_stay _ _) m5
  · cases h

/-! ### remove_block -/

theorem removeFunctions_minv (x : IR) (blk : Block) (n : Option Nat) (nc : Bool) (h : MInv x) :
    MInv (x.removeFunctions blk n nc) := by
  unfold IR.removeFunctions
  split
  · exact h
  · split
    · exact h
    · simp only []
      apply removeFunctionBlock_minv
      split
      · exact h.same_blocks rfl rfl rfl
      · exact h

theorem removeStages_minv (x : IR) (blk : Block) (t c : Bool) (px p n : Option Nat) (h : MInv x) :
    MInv (x.removeStages blk t c px p n) := by
  unfold IR.removeStages
  have tail : ∀ y : IR, MInv y → MInv (((y.removeOutEdges blk).removeAuxEntries blk).removeCfi blk.id (x.requiredCfi blk) p n
      (x.isCodeBlockId p) (x.isCodeBlockId n)) := by
    intro y hy
    have m1 : MInv (y.removeOutEdges blk) := hy.same_blocks (removeOutEdges_fbb _ _) (removeOutEdges_funcBlocks _ _)
      (core_blocks (removeOutEdges_core _ _))
    exact (m1.same_blocks (a := y.removeOutEdges blk) (b := (y.removeOutEdges blk).removeAuxEntries blk) rfl rfl rfl).same_blocks rfl rfl rfl
  simp only []
  apply tail
  split
  · have m1 : MInv (x.removeSyms blk.id (removeTarget px n p)) := h.same_blocks rfl rfl rfl
    have m2 : MInv ((x.removeSyms blk.id (removeTarget px n p)).removeInEdges blk px n (x.isCodeBlockId n)) :=
      m1.same_blocks (removeInEdges_fbb _ _ _ _ _) (removeInEdges_funcBlocks _ _ _ _ _) (core_blocks (removeInEdges_core _ _ _ _ _))
    have m3 := removeFunctions_minv _ blk (if t then none else n) (if t then false else x.isCodeBlockId n) m2
    have he : ∀ (y : IR) (a : Option Nat) (b : Bool), (y.removeEntrypoints blk a b).blocks = y.blocks := by
      intro y a b
      unfold IR.removeEntrypoints
      simp only []
      split <;> split <;> split <;> split <;> rfl
    exact m3.same_blocks (removeEntrypoints_fbb _ _ _ _) (removeEntrypoints_funcBlocks _ _ _ _) (he _ _ _)
  · exact h

theorem removeBlock_minv {ir ir' : IR} {b : Nat} {px r : Bool}
    (h : ir.removeBlock b px = .ok (ir', r)) (hm : MInv ir) : MInv ir' := by
  unfold IR.removeBlock at h
  split at h
  · cases h
  · rename_i blk hb
    split at h
    · cases h
    · rename_i sect hsect
      have m0 : MInv (ir.withProxy px) := hm.same_blocks (withProxy_fbb _ _) (withProxy_funcBlocks _ _)
        (core_blocks (withProxy_core _ _))
      simp only [] at h
      have m4 := removeStages_minv (ir.withProxy px) blk px
        ((ir.withProxy px).canRemove blk px (ir.adjacent blk).1 (ir.adjacent blk).2 ((ir.withProxy px).requiredCfi blk))
        (if px then some ir.next else none) (ir.adjacent blk).1 (ir.adjacent blk).2 m0
      generalize ((ir.withProxy px).removeStages blk px
        ((ir.withProxy px).canRemove blk px (ir.adjacent blk).1 (ir.adjacent blk).2 ((ir.withProxy px).requiredCfi blk))
        (if px then some ir.next else none) (ir.adjacent blk).1 (ir.adjacent blk).2) = x at m4 h
      split at h
      · injection h with h; injection h with h1 h2; subst h1
        have m5 : MInv (x.orderRemove sect blk.id) := m4.same_blocks rfl rfl rfl
        exact MInv.keeps (a := x.orderRemove sect blk.id) rfl rfl (setBlock_stay _ _) m5
      · injection h with h; injection h with h1 h2; subst h1
        refine MInv.keeps (keepEmpty_fbb _ _) (keepEmpty_funcBlocks _ _) ?_ m4
        have hk : (x.keepEmpty blk).blocks = (x.setBlock { blk with size := 0 }).blocks := by
          unfold IR.keepEmpty; simp only []; split <;> rfl
        exact (setBlock_stay _ { blk with size := 0 }).trans (Stay.of_blocks hk)

theorem editInterval_minv (ir : IR) (i off len : Nat) (c st : List Nat) (h : MInv ir) : MInv (ir.editInterval i off len c st) := by
  refine h.keeps ?_ ?_ (editInterval_touches ir i off len c st).1.stay
  · unfold IR.editInterval; split <;> rfl
  · unfold IR.editInterval; split <;> rfl

theorem connectEmptyTail_minv (ir : IR) (t : Nat) (h : MInv ir) : MInv (ir.connectEmptyTail t) :=
  h.same_blocks (connectEmptyTail_fbb _ _) (connectEmptyTail_funcBlocks _ _) (core_blocks (connectEmptyTail_core _ _))

/-! ### _cleanup_modified_blocks -/

theorem cleanupPass_minv : ∀ (rest : List Nat) (ir ir' : IR) (pred : Nat) (done : List Nat) (r : Option (List Nat)),
    ir.cleanupPass pred rest done = .ok (ir', r) → MInv ir → MInv ir' := by
  intro rest
  induction rest with
  | nil =>
    intro ir ir' pred done r h hm
    unfold IR.cleanupPass at h
    injection h with h; injection h with h1 h2; subst h1; exact hm
  | cons b rest ih =>
    intro ir ir' pred done r h hm
    unfold IR.cleanupPass at h
    split at h
    · rename_i i2 hj
      injection h with h; injection h with h1 h2; subst h1
      exact joinBlocks_minv hj hm
    · split at h
      · split at h
        · cases h
        · rename_i i2 hr
          injection h with h; injection h with h1 h2; subst h1
          exact removeBlock_minv hr hm
        · rename_i i2 hr
          exact ih _ _ _ _ _ h (removeBlock_minv hr hm)
      · exact ih _ _ _ _ _ h hm
    · cases h

theorem cleanupLoop_minv : ∀ (fuel : Nat) (ir ir' : IR) (bl bl' : List Nat),
    ir.cleanupLoop fuel bl = .ok (ir', bl') → MInv ir → MInv ir' := by
  intro fuel
  induction fuel with
  | zero =>
    intro ir ir' bl bl' h hm
    unfold IR.cleanupLoop at h
    injection h with h; injection h with h1 h2; subst h1; exact hm
  | succ n ih =>
    intro ir ir' bl bl' h hm
    unfold IR.cleanupLoop at h
    split at h
    · injection h with h; injection h with h1 h2; subst h1; exact hm
    · split at h
      · cases h
      · rename_i i2 hp
        injection h with h; injection h with h1 h2; subst h1
        exact cleanupPass_minv _ _ _ _ _ _ hp hm
      · rename_i i2 bl2 hp
        exact ih _ _ _ _ h (cleanupPass_minv _ _ _ _ _ _ hp hm)

theorem cleanupFirst_minv {ir ir' : IR} {bl bl' : List Nat}
    (h : ir.cleanupFirst bl = .ok (ir', bl')) (hm : MInv ir) : MInv ir' := by
  unfold IR.cleanupFirst at h
  split at h
  · injection h with h; injection h with h1 h2; subst h1; exact hm
  · split at h
    · split at h
      · cases h
      · rename_i hr
        injection h with h; injection h with h1 h2; subst h1
        exact removeBlock_minv hr hm
      · rename_i hr
        injection h with h; injection h with h1 h2; subst h1
        exact removeBlock_minv hr hm
    · injection h with h; injection h with h1 h2; subst h1; exact hm

theorem cleanup_minv {ir ir' : IR} {bl : List Nat} {last : Nat}
    (h : ir.cleanup bl = .ok (ir', last)) (hm : MInv ir) : MInv ir' := by
  unfold IR.cleanup at h
  split at h
  · cases h
  · split at h
    · cases h
    · rename_i ir1 bl1 hl
      split at h
      · cases h
      · rename_i ir2 bl2 hf
        split at h
        · split at h
          · injection h with h; injection h with h1 h2; subst h1
            exact cleanupFirst_minv hf (cleanupLoop_minv _ _ _ _ _ hl hm)
          · cases h
        · cases h

/-! ### delete -/

theorem delete_minv {ir ir' : IR} {b off len : Nat} {px : Bool} {r : Option Nat}
    (h : ir.delete b off len px = .ok (ir', r)) (hm : MInv ir) (hI : IdsBelow ir) : MInv ir' := by
  unfold IR.delete at h
  split at h
  · cases h
  · rename_i blk hb
    split at h
    · cases h
    · split at h
      · cases h
      · rename_i biId hbi
        split at h
        · injection h with h; injection h with h1 h2; subst h1; exact hm
        · split at h
          · split at h
            · cases h
            · rename_i ir1 e1 a1 hs1
              split at h
              · cases h
              · rename_i ir2 e2 a2 hs2
                simp only [] at h
                split at h
                · cases h
                · rename_i ir3 d3 hr3
                  split at h
                  · cases h
                  · rename_i ir5 last hc
                    injection h with h; injection h with h1 h2; subst h1
                    have m1 := splitBlock_minv hs1 hm hI
                    have m2 := splitBlock_minv hs2 m1 (splitBlock_idsBelow hs1 hI)
                    have m3 := removeBlock_minv hr3 (connectEmptyTail_minv ir2 e2 m2)
                    exact cleanup_minv hc (editInterval_minv _ _ _ _ _ _ m3)
          · split at h
            · cases h
            · rename_i ir1 deleted hr1
              have m1 := editInterval_minv ir1 biId (blk.off + off) len [] [b] (removeBlock_minv hr1 hm)
              simp only [] at h
              split at h
              · split at h
                · cases h
                · rename_i ir3 d3 hr3
                  injection h with h; injection h with h1 h2; subst h1
                  exact removeBlock_minv hr3 m1
              · injection h with h; injection h with h1 h2; subst h1
                exact m1

/-! ### insert -/

theorem insertSplit_minv {ir ir' : IR} {b off repl endB : Nat} {added : Bool}
    (h : ir.insertSplit b off repl = .ok (ir', endB, added)) (hm : MInv ir) (hI : IdsBelow ir) : MInv ir' := by
  unfold IR.insertSplit at h
  split at h
  · cases h
  · rename_i ir1 e0 a0 hs1
    have m1 := splitBlock_minv hs1 hm hI
    split at h
    · split at h
      · cases h
      · rename_i i2 e2 a2 hs2
        split at h
        · cases h
        · rename_i i3 d3 hr
          injection h with h; injection h with h1 h2; injection h2 with h2 h3; subst h1; subst h2
          exact removeBlock_minv hr (connectEmptyTail_minv i2 e2 (splitBlock_minv hs2 m1 (splitBlock_idsBelow hs1 hI)))
    · injection h with h; injection h with h1 h2; injection h2 with h2 h3; subst h1; subst h2
      exact connectEmptyTail_minv ir1 e0 m1

/-! keys of the cache: `split_block` adds the new block's id at most, `remove_block` none -/

theorem inheritFunction_keys (x : IR) (b nb c : Nat) (h : alookup c (x.inheritFunction b nb).fbb ≠ none) :
    alookup c x.fbb ≠ none ∨ c = nb := by
  unfold IR.inheritFunction at h
  split at h
  · by_cases hc : c = nb
    · exact Or.inr hc
    · left
      unfold IR.addFunctionBlock at h
      simp only [] at h
      rw [alookup_aset_other _ _ _ _ hc] at h
      exact h
  · exact Or.inl h

theorem splitCode_keys (x : IR) (b nb : Nat) (e : Bool) (c : Nat) (h : alookup c (x.splitCode b nb e).1.fbb ≠ none) :
    alookup c x.fbb ≠ none ∨ c = nb := by
  unfold IR.splitCode at h
  split at h
  · rcases inheritFunction_keys _ _ _ _ h with h' | h'
    · left; rw [addFall_fbb, splitEdgesMid_fbb] at h'; exact h'
    · exact Or.inr h'
  · simp only [] at h
    rcases inheritFunction_keys _ _ _ _ h with h' | h'
    · left
      split at h'
      · rw [addFall_fbb, splitEdgesEnd_fbb] at h'; exact h'
      · rw [splitEdgesEnd_fbb] at h'; exact h'
    · exact Or.inr h'

theorem splitBlock_keys {ir ir' : IR} {b off nb : Nat} {added : Bool}
    (h : ir.splitBlock b off = .ok (ir', nb, added)) (c : Nat) (hc : alookup c ir'.fbb ≠ none) :
    alookup c ir.fbb ≠ none ∨ c = ir.next := by
  unfold IR.splitBlock at h
  split at h
  · cases h
  · rename_i blk hb
    split at h
    · cases h
    · split at h
      · cases h
      · injection h with h
        injection h with h1 h2
        rw [← h1] at hc
        have hc' : alookup c (if blk.isCode then ((ir.splitBlocks blk ir.next off).splitSyms b ir.next).splitCode b ir.next (off == blk.size)
            else (((ir.splitBlocks blk ir.next off).splitSyms b ir.next), false)).1.fbb ≠ none := hc
        split at hc'
        · exact splitCode_keys ((ir.splitBlocks blk ir.next off).splitSyms b ir.next) _ _ _ _ hc'
        · exact Or.inl hc'

theorem removeStages_keys (x : IR) (blk : Block) (t c : Bool) (px p n : Option Nat) (k : Nat)
    (h : alookup k (x.removeStages blk t c px p n).fbb ≠ none) : alookup k x.fbb ≠ none := by
  unfold IR.removeStages at h
  simp only [] at h
  have hh : alookup k (if c = true then
      (((x.removeSyms blk.id (removeTarget px n p)).removeInEdges blk px n (x.isCodeBlockId n)).removeFunctions blk
        (if t then none else n) (if t then false else x.isCodeBlockId n)).removeEntrypoints blk (if t then none else n)
        (if t then false else x.isCodeBlockId n) else x).fbb ≠ none := by
    have e : ∀ y : IR, (((y.removeOutEdges blk).removeAuxEntries blk).removeCfi blk.id (x.requiredCfi blk) p n
        (x.isCodeBlockId p) (x.isCodeBlockId n)).fbb = y.fbb := by
      intro y
      show (y.removeOutEdges blk).fbb = _
      exact removeOutEdges_fbb _ _
    rw [e] at h; exact h
  split at hh
  · rw [removeEntrypoints_fbb] at hh
    unfold IR.removeFunctions at hh
    split at hh
    · rw [removeInEdges_fbb] at hh; exact hh
    · split at hh
      · rw [removeInEdges_fbb] at hh; exact hh
      · simp only [] at hh
        have := removeFunctionBlock_fbb_sub _ _ _ hh
        have e2 : ∀ (y : IR) (cnd : Bool) (fe : List (Nat × List Nat)),
            (if cnd then ({ y with aux := { y.aux with funcEntries := fe } } : IR) else y).fbb = y.fbb := by
          intro y cnd fe; split <;> rfl
        rw [e2, removeInEdges_fbb] at this
        exact this
  · exact hh

theorem removeBlock_keys {ir ir' : IR} {b : Nat} {px r : Bool}
    (h : ir.removeBlock b px = .ok (ir', r)) (k : Nat) (hk : alookup k ir'.fbb ≠ none) : alookup k ir.fbb ≠ none := by
  unfold IR.removeBlock at h
  split at h
  · cases h
  · rename_i blk hb
    split at h
    · cases h
    · simp only [] at h
      split at h
      · injection h with h; injection h with h1 h2; subst h1
        have := removeStages_keys _ _ _ _ _ _ _ k hk
        rw [withProxy_fbb] at this; exact this
      · injection h with h; injection h with h1 h2; subst h1
        rw [keepEmpty_fbb] at hk
        have := removeStages_keys _ _ _ _ _ _ _ k hk
        rw [withProxy_fbb] at this; exact this

theorem insertSplit_keys {ir ir' : IR} {b off repl endB : Nat} {added : Bool}
    (h : ir.insertSplit b off repl = .ok (ir', endB, added)) (c : Nat) (hc : alookup c ir'.fbb ≠ none) :
    alookup c ir.fbb ≠ none ∨ ir.next ≤ c := by
  unfold IR.insertSplit at h
  split at h
  · cases h
  · rename_i ir1 e0 a0 hs1
    split at h
    · split at h
      · cases h
      · rename_i i2 e2 a2 hs2
        split at h
        · cases h
        · rename_i i3 d3 hr
          injection h with h; injection h with h1 h2; injection h2 with h2 h3; subst h1; subst h2
          have h3' := removeBlock_keys hr c hc
          rw [connectEmptyTail_fbb] at h3'
          rcases splitBlock_keys hs2 c h3' with h2' | h2'
          · rcases splitBlock_keys hs1 c h2' with h1' | h1'
            · exact Or.inl h1'
            · right; omega
          · right; rw [h2', splitBlock_next hs1]; omega
    · injection h with h; injection h with h1 h2; injection h2 with h2 h3; subst h1; subst h2
      rw [connectEmptyTail_fbb] at hc
      rcases splitBlock_keys hs1 c hc with h1' | h1'
      · exact Or.inl h1'
      · right; omega

theorem addPatchFunctions_fold (f : Nat) : ∀ (tb : List Block) (x : IR), MInv x → (tb.map (·.id)).Nodup →
    (∀ b ∈ tb, alookup b.id x.fbb = none) → (∀ b ∈ tb, x.block? b.id ≠ none) →
    MInv (tb.foldl (fun ir b => if b.isCode then ir.addFunctionBlock b.id f else ir) x) := by
  intro tb
  induction tb with
  | nil => intro x h _ _ _; exact h
  | cons b tb ih =>
    intro x h hnd hnew hblk
    simp only [List.foldl_cons]
    have hnd' := List.nodup_cons.mp (by simpa using hnd : (b.id :: tb.map (·.id)).Nodup)
    apply ih
    · split
      · exact addFunctionBlock_minv x b.id f h (hnew b List.mem_cons_self) (hblk b List.mem_cons_self)
      · exact h
    · exact hnd'.2
    · intro b' hb'
      have hne : b'.id ≠ b.id := fun he => hnd'.1 (he ▸ List.mem_map_of_mem hb')
      split
      · show alookup b'.id (aset b.id f x.fbb) = none
        rw [alookup_aset_other _ _ _ _ hne]
        exact hnew b' (List.mem_cons_of_mem _ hb')
      · exact hnew b' (List.mem_cons_of_mem _ hb')
    · intro b' hb'
      split
      · exact hblk b' (List.mem_cons_of_mem _ hb')
      · exact hblk b' (List.mem_cons_of_mem _ hb')

theorem addPatchFunctions_minv (x : IR) (blk : Block) (tb : List Block) (h : MInv x) (hnd : (tb.map (·.id)).Nodup)
    (hnew : ∀ b ∈ tb, alookup b.id x.fbb = none) (hblk : ∀ b ∈ tb, x.block? b.id ≠ none) :
    MInv (x.addPatchFunctions blk tb) := by
  unfold IR.addPatchFunctions
  split
  · split
    · exact addPatchFunctions_fold _ tb x h hnd hnew hblk
    · exact h
  · exact h

theorem addOtherSection_fsame {ir ir' : IR} {p : Patch} {s : PatchSect} {sid bid : Nat} {ns : List Sym}
    (h : ir.addOtherSection p s sid bid = .ok (ir', ns)) : FSame ir ir' := by
  unfold IR.addOtherSection at h
  simp only [] at h
  split at h
  · cases h
  · split at h
    · cases h
    · injection h with h; injection h with h1 h2; subst h1
      constructor
      · show (IR.orderAppend _ _ _).fbb = _
        rw [orderAppend_fbb]
      · show (IR.orderAppend _ _ _).aux.funcBlocks = _
        rw [orderAppend_funcBlocks]

theorem addOthers_fsame_aux : ∀ (l : List (PatchSect × Nat × Nat)) (p : Patch) (acc : Except Err IR) (ir0 ir' : IR),
    (∀ a, acc = .ok a → FSame ir0 a) →
    l.foldl (fun (acc : Except Err IR) (x : PatchSect × Nat × Nat) =>
      match acc with
      | .error e => .error e
      | .ok i =>
        match i.addOtherSection { p with syms := i.syms.filter (fun y => p.syms.any (·.id == y.id)) } x.1 x.2.1 x.2.2 with
        | .error e => .error e
        | .ok (i', newSyms) =>
          .ok { i' with syms := i'.syms.map (fun y =>
            match newSyms.find? (·.id == y.id) with
            | some ny => ny
            | none => y) }) acc = .ok ir' → FSame ir0 ir' := by
  intro l
  induction l with
  | nil => intro p acc ir0 ir' hacc h; exact hacc _ h
  | cons x xs ih =>
    intro p acc ir0 ir' hacc h
    simp only [List.foldl_cons] at h
    refine ih p _ ir0 ir' ?_ h
    intro a ha
    split at ha
    · cases ha
    · rename_i i
      split at ha
      · cases ha
      · rename_i i2 ns hao
        injection ha with ha; subst ha
        exact (hacc i rfl).trans ((addOtherSection_fsame hao).trans ⟨rfl, rfl⟩)

theorem addOthers_fsame {ir ir' : IR} {p : Patch} (h : ir.addOthers p = .ok ir') : FSame ir ir' := by
  unfold IR.addOthers at h
  exact addOthers_fsame_aux p.others p (.ok ir) ir ir'
    (fun a ha => by injection ha with ha; subst ha; exact FSame.refl _) h

theorem insert_minv {i : Nat} {ir ir' : IR} {b off repl last : Nat} {p : Patch}
    (h : ir.insert b off repl p = .ok (ir', last)) (hin : In i ir b) (hm : MInv ir) (hI : IdsBelow ir)
    (hnew : ∀ c ∈ p.text.blocks.map (·.id), ir.block? c = none) (hlt : ∀ c ∈ p.text.blocks.map (·.id), c < ir.next)
    (hnd : (p.text.blocks.map (·.id)).Nodup) :
    MInv ir' := by
  have hin0 := hin
  obtain ⟨blk, hb, hi⟩ := hin
  unfold IR.insert at h
  rw [hb] at h
  simp only [] at h
  split at h
  · cases h
  · split at h
    · cases h
    · rcases hi with hbi | hbi
      · rw [hbi] at h
        split at h
        · rename_i biId sect hbi' hsect
          injection hbi' with hbi'; subst hbi'
          split at h
          · cases h
          · split at h
            · cases h
            · split at h
              · cases h
              · split at h
                · cases h
                · split at h
                  · cases h
                  · rename_i ir2 endB added hs
                    split at h
                    · cases h
                    · split at h
                      · cases h
                      · rename_i ir12 ho
                        have hin := hin0
                        have hst : ∀ c ∈ p.text.blocks.map (·.id), Stays i ir c :=
                          fun c hc blk' hblk' => by rw [hnew c hc] at hblk'; cases hblk'
                        obtain ⟨hI2, hinb2, hine2, hg2⟩ := insertSplit_facts hs hin hI
                        have m2 := insertSplit_minv hs hm hI
                        -- the patch's ids are not keys of the cache: they name no block yet
                        have hkey : ∀ c ∈ p.text.blocks.map (·.id), alookup c ir.fbb = none := by
                          intro c hc
                          cases hk : alookup c ir.fbb with
                          | none => rfl
                          | some f => exact absurd (hnew c hc) (hm.2 c (by rw [hk]; simp))
                        generalize hpc : (if blk.isCode then ir.matchPatchReturnEdges b p.cfg p.proxies else (p.cfg, p.proxies))
                          = pcX at ho h
                        have hRb : (ir2.addReturnEdgesForPatchCalls pcX.1).1.blocks = ir2.blocks :=
                          addReturnEdgesForPatchCalls_blocks _ _
                        have hfR : (ir2.addReturnEdgesForPatchCalls pcX.1).1.fbb = ir2.fbb := addReturnEdgesForPatchCalls_fbb _ _
                        have mR : MInv (ir2.addReturnEdgesForPatchCalls pcX.1).1 :=
                          m2.same_blocks hfR (addReturnEdgesForPatchCalls_funcBlocks _ _) hRb
                        generalize hR : (ir2.addReturnEdgesForPatchCalls pcX.1) = R at ho h hRb mR hfR
                        have kR : Keeps ir2 R.1 := Keeps.of_blocks hRb
                        have hSb := insertStitch_blocks R.1 p.text.blocks b endB added
                        have hfS : (R.1.insertStitch p.text.blocks b endB added).fbb = R.1.fbb := insertStitch_fbb _ _ _ _ _
                        have kS : Keeps R.1 (R.1.insertStitch p.text.blocks b endB added) := append_keeps _ _ _ hSb
                        have mS : MInv (R.1.insertStitch p.text.blocks b endB added) :=
                          mR.keeps hfS (insertStitch_funcBlocks _ _ _ _ _) kS.stay
                        have hinS : ∀ c ∈ [b] ++ p.text.blocks.map (·.id) ++ [endB],
                            In i (R.1.insertStitch p.text.blocks b endB added) c := by
                          intro c hc
                          simp only [List.mem_append, List.mem_singleton] at hc
                          rcases hc with (hc | hc) | hc
                          · subst hc; exact kS.in (kR.in hinb2)
                          · apply insertStitch_in _ _ _ _ _ _ hc
                            exact (Grows.of_blocks hRb).stays (hg2.stays (hst c hc))
                          · subst hc; exact kS.in (kR.in hine2)
                        generalize hS : R.1.insertStitch p.text.blocks b endB added = S at ho h hSb kS hinS mS hfS
                        have tE := editInterval_touches S i (blk.off + off) repl p.text.data [b]
                        have mE := editInterval_minv S i (blk.off + off) repl p.text.data [b] mS
                        have hfE : (S.editInterval i (blk.off + off) repl p.text.data [b]).fbb = S.fbb := by
                          unfold IR.editInterval; split <;> rfl
                        generalize hE : S.editInterval i (blk.off + off) repl p.text.data [b] = E at ho h tE mE hfE
                        have hinE : ∀ c ∈ [b] ++ p.text.blocks.map (·.id) ++ [endB], In i E c :=
                          fun c hc => tE.1.in (hinS c hc)
                        -- placing the patch's blocks: the table keeps every entry
                        have stP : Stay E (E.placePatchBlocks p.text.blocks i (blk.off + off)) := by
                          let placed := p.text.blocks.map (fun b => ({ b with bi := some i, off := (blk.off + off) + b.off } : Block))
                          apply Stay.of_map (fun b => match placed.find? (·.id == b.id) with | some pb => pb | none => b) _ rfl
                          intro x
                          split
                          · rename_i pb hp; exact findB_id hp
                          · rfl
                        have mP : MInv (E.placePatchBlocks p.text.blocks i (blk.off + off)) :=
                          mE.keeps (placePatchBlocks_fbb _ _ _ _) (placePatchBlocks_funcBlocks _ _ _ _) stP
                        -- up to the function tables of the patch's code: tables and block table as they are
                        have hmid1 : ∀ (x : IR) (c : List Edge) (px : List Nat),
                            ((((x.placePatchBlocks p.text.blocks i
                            (blk.off + off)).addPatchExprs i (blk.off + off)
                            p.text.symExprs).orderInsertAfter sect b (p.text.blocks.map (·.id))).addPatchNodes p c px
                            |>.addPatchAux p i (blk.off + off)).fbb = x.fbb ∧
                            ((((x.placePatchBlocks p.text.blocks i
                            (blk.off + off)).addPatchExprs i (blk.off + off)
                            p.text.symExprs).orderInsertAfter sect b (p.text.blocks.map (·.id))).addPatchNodes p c px
                            |>.addPatchAux p i (blk.off + off)).aux.funcBlocks = (x.placePatchBlocks p.text.blocks i (blk.off + off)).aux.funcBlocks ∧
                            ((((x.placePatchBlocks p.text.blocks i
                            (blk.off + off)).addPatchExprs i (blk.off + off)
                            p.text.symExprs).orderInsertAfter sect b (p.text.blocks.map (·.id))).addPatchNodes p c px
                            |>.addPatchAux p i (blk.off + off)).blocks = (x.placePatchBlocks p.text.blocks i (blk.off + off)).blocks := by
                          intro x c px
                          refine ⟨?_, ?_, ?_⟩
                          · show (IR.addPatchExprs _ _ _ _).fbb = _
                            have : ∀ (y : IR), (y.addPatchExprs i (blk.off + off) p.text.symExprs).fbb = y.fbb := by
                              intro y; unfold IR.addPatchExprs; split <;> rfl
                            rw [this]; rfl
                          · show (IR.addPatchExprs _ _ _ _).aux.funcBlocks = _
                            have : ∀ (y : IR), (y.addPatchExprs i (blk.off + off) p.text.symExprs).aux.funcBlocks = y.aux.funcBlocks := by
                              intro y; unfold IR.addPatchExprs; split <;> rfl
                            rw [this]
                          · show (IR.addPatchExprs _ _ _ _).blocks = _
                            rw [addPatchExprs_blocks]
                        obtain ⟨hfA, hgA, hbA⟩ := hmid1 E R.2 pcX.2
                        have mA := mP.same_blocks (a := E.placePatchBlocks p.text.blocks i (blk.off + off))
                          (by rw [hfA]; rfl) hgA hbA
                        have stA := stP.trans (Stay.of_blocks hbA)
                        generalize hA : ((((E.placePatchBlocks p.text.blocks i
                            (blk.off + off)).addPatchExprs i (blk.off + off)
                            p.text.symExprs).orderInsertAfter sect b (p.text.blocks.map (·.id))).addPatchNodes p R.2 pcX.2
                            |>.addPatchAux p i (blk.off + off)) = A at ho h mA hfA stA
                        -- the patch's code joins the function of the block: its ids are not yet keys of the cache
                        have hnewA : ∀ tbk ∈ p.text.blocks, alookup tbk.id A.fbb = none := by
                          intro tbk htb
                          have hc : tbk.id ∈ p.text.blocks.map (·.id) := List.mem_map_of_mem htb
                          cases hk : alookup tbk.id A.fbb with
                          | none => rfl
                          | some f =>
                            exfalso
                            have h1 : alookup tbk.id ir2.fbb ≠ none := by
                              rw [← hfR, ← hfS, ← hfE, ← hfA, hk]; simp
                            rcases insertSplit_keys hs _ h1 with h2 | h2
                            · exact h2 (hkey _ hc)
                            · have := hlt _ hc; omega
                        have hblkA : ∀ tbk ∈ p.text.blocks, A.block? tbk.id ≠ none := by
                          intro tbk htb
                          have hc : tbk.id ∈ [b] ++ p.text.blocks.map (·.id) ++ [endB] := by
                            simp only [List.mem_append, List.mem_singleton]
                            exact Or.inl (Or.inr (List.mem_map_of_mem htb))
                          obtain ⟨blk', hb', _⟩ := hinE _ hc
                          exact stA _ (by rw [hb']; simp)
                        have mF := addPatchFunctions_minv A blk p.text.blocks mA hnd hnewA hblkA
                        have mO : MInv ir12 := mF.of_same (addOthers_fsame ho) (addOthers_ext ho).keeps.stay
                        exact cleanup_minv h (mO.same_blocks rfl rfl rfl)
        · cases h
      · rw [hbi] at h
        cases h

/-! ### the loops -/

theorem adoptPatchBlocks_minv (p : Patch) (f : Nat) : ∀ (tb : List Block) (x : IR), MInv x →
    MInv (tb.foldl (fun ir b =>
      match ir.block? b.id with
      | some blk =>
        if b.isCode && blk.bi.isSome && (alookup b.id ir.fbb).isNone then ir.addFunctionBlock b.id f else ir
      | none => ir) x) := by
  intro tb
  induction tb with
  | nil => intro x h; exact h
  | cons b tb ih =>
    intro x h
    simp only [List.foldl_cons]
    apply ih
    split
    · rename_i blk hb
      split
      · rename_i hc
        simp only [Bool.and_eq_true, Option.isNone_iff_eq_none] at hc
        exact addFunctionBlock_minv x b.id f h hc.2 (by rw [hb]; simp)
      · exact h
    · exact h

theorem loopInsert_minv {i : Nat} {ir ir' : IR} {func : Option Nat} {ab : Block} {a ao repl last : Nat} {p : Patch}
    (h : ir.loopInsert func ab a ao repl p = .ok (ir', last)) (hin : In i ir a) (hm : MInv ir) (hI : IdsBelow ir)
    (hnew : ∀ c ∈ p.text.blocks.map (·.id), ir.block? c = none) (hlt : ∀ c ∈ p.text.blocks.map (·.id), c < ir.next)
    (hnd : (p.text.blocks.map (·.id)).Nodup) : MInv ir' := by
  unfold IR.loopInsert at h
  split at h
  · cases h
  · rename_i ir1 l1 hins
    have m1 := insert_minv hins hin hm hI hnew hlt hnd
    split at h
    · split at h
      · injection h with h; injection h with h1 h2; subst h1
        exact adoptPatchBlocks_minv p _ p.text.blocks ir1 m1
      · injection h with h; injection h with h1 h2; subst h1; exact m1
    · injection h with h; injection h with h1 h2; subst h1; exact m1

/-- **cache and table stay in step through the whole loop over the requests of a block** -/
theorem applyMods_minv (origOff i : Nat) (func : Option Nat) : ∀ (ms : List Mod) (ir ir' : IR) (actual : Option Nat)
    (total : Int),
    IR.applyMods origOff func ir actual total ms = .ok ir' →
    (∀ a, actual = some a → In i ir a) → IdsBelow ir → NewBlocks origOff func ir actual total ms → MInv ir → MInv ir' := by
  intro ms
  induction ms with
  | nil =>
    intro ir ir' actual total h _ _ _ hm
    unfold IR.applyMods at h
    injection h with h; subst h
    exact hm
  | cons m ms ih =>
    intro ir ir' actual total h hact hI hnew hm
    cases actual with
    | none => unfold IR.applyMods at h; cases h
    | some a =>
      obtain ⟨ab, hab, habi⟩ := hact a rfl
      have hin : In i ir a := ⟨ab, hab, habi⟩
      unfold IR.applyMods at h
      rw [hab] at h
      simp only [] at h
      unfold NewBlocks at hnew
      rw [hab] at hnew
      simp only [] at hnew
      split at h
      · cases h
      · cases m with
        | ins o repl p =>
          simp only [Mod.off] at h
          split at h
          · cases h
          · rename_i ir1 last hloop
            obtain ⟨hfresh, hnd, hnext⟩ := hnew
            obtain ⟨ir0, hins, hlb, hli, hln⟩ := loopInsert_ok hloop
            have hst : ∀ c ∈ p.text.blocks.map (·.id), Stays i ir c :=
              fun c hc blk hblk => by rw [(hfresh c hc).1] at hblk; cases hblk
            obtain ⟨hI0, hin0⟩ := insert_facts hins hin hI hst
            have hI1 : IdsBelow ir1 := hI0.mono (ids_of_blocks hlb) (by rw [hln]; exact Nat.le_refl _)
            have hin1 : In i ir1 last := (Keeps.of_blocks hlb).in hin0
            have m1 := loopInsert_minv hloop hin hm hI (fun c hc => (hfresh c hc).1) (fun c hc => (hfresh c hc).2) hnd
            exact ih ir1 ir' (some last) _ h (fun a' ha' => by injection ha' with ha'; subst ha'; exact hin1)
              hI1 (hnext ir1 last hloop) m1
        | del o len px =>
          simp only [Mod.off] at h
          split at h
          · cases h
          · rename_i ir1 r hdel
            obtain ⟨hI1, hin1⟩ := delete_facts hdel hin hI
            exact ih ir1 ir' r _ h hin1 hI1 (hnew ir1 r hdel) (delete_minv hdel hm hI)

/-- after the requests of the first block, the other request lists find what they were registered for -/
theorem applyAll_step {ir ir1 : IR} {r : BlockMods} {rest : List BlockMods} {blk : Block}
    (hb : ir.block? r.block = some blk)
    (hm : ir.applyMods blk.off r.func (some r.block) 0 r.mods = .ok ir1)
    (hI : IdsBelow ir) (hok : ∀ r' ∈ r :: rest, ReqOk ir r') (hnd : ((r :: rest).map (ivOf ir)).Nodup)
    (hn1 : NewBlocks blk.off r.func ir (some r.block) 0 r.mods) :
    IdsBelow ir1 ∧ (∀ r' ∈ rest, ReqOk ir1 r') ∧ (rest.map (ivOf ir1)).Nodup := by
  obtain ⟨blk0, i, bytes, hb0, hbi, hsz, hby, hfit, hd⟩ := hok r List.mem_cons_self
  rw [hb] at hb0; injection hb0 with hb0; subst hb0
  obtain ⟨s1, s2, s3, s4⟩ := applyMods_listing hm hb hbi hby hfit hI hn1 hd
  have hivr : ivOf ir r = some i := by unfold ivOf; rw [hb]; exact hbi
  have hnd' := List.nodup_cons.mp (by simpa using hnd : (ivOf ir r :: rest.map (ivOf ir)).Nodup)
  have hsame : ∀ r' ∈ rest, ir1.block? r'.block = ir.block? r'.block ∧
      (∀ i', ivOf ir r' = some i' → ir1.bytesOf i' = ir.bytesOf i') := by
    intro r' hr'
    obtain ⟨blk', i', bytes', hb', hbi', hsz', hby', _, _⟩ := hok r' (List.mem_cons_of_mem _ hr')
    have hiv' : ivOf ir r' = some i' := by unfold ivOf; rw [hb']; exact hbi'
    have hne : i' ≠ i := by
      intro he
      apply hnd'.1
      rw [hivr, ← he, ← hiv']
      exact List.mem_map_of_mem hr'
    refine ⟨by rw [s4 r'.block blk' hb' ⟨i', hbi', hne⟩ hsz', hb'], ?_⟩
    intro i'' hi''
    rw [hiv'] at hi''; injection hi'' with hi''; subst hi''
    exact s2 i' hne (by rw [hby']; simp)
  refine ⟨s3, ?_, ?_⟩
  · intro r' hr'
    obtain ⟨blk', i', bytes', hb', hbi', hsz', hby', hfit', hd'⟩ := hok r' (List.mem_cons_of_mem _ hr')
    have hiv' : ivOf ir r' = some i' := by unfold ivOf; rw [hb']; exact hbi'
    obtain ⟨hbe, hbb⟩ := hsame r' hr'
    exact ⟨blk', i', bytes', by rw [hbe]; exact hb', hbi', hsz', by rw [hbb i' hiv']; exact hby', hfit', hd'⟩
  · have : rest.map (ivOf ir1) = rest.map (ivOf ir) :=
      List.map_congr_left (fun r' hr' => by unfold ivOf; rw [(hsame r' hr').1])
    rw [this]; exact hnd'.2

/-- **cache and table stay in step through `apply()`'s whole loop over the blocks** -/
theorem applyAll_minv : ∀ (rs : List BlockMods) (ir ir' : IR),
    ir.applyAll rs = .ok ir' → IdsBelow ir → (∀ r ∈ rs, ReqOk ir r) → (rs.map (ivOf ir)).Nodup → NewBlocksAll ir rs →
    MInv ir → MInv ir' := by
  intro rs
  induction rs with
  | nil =>
    intro ir ir' h _ _ _ _ hm
    unfold IR.applyAll at h
    injection h with h; subst h; exact hm
  | cons r rest ih =>
    intro ir ir' h hI hok hnd hnew hm
    obtain ⟨blk, i, bytes, hb, hbi, hsz, hby, hfit, hd⟩ := hok r List.mem_cons_self
    unfold IR.applyAll at h
    rw [hb] at h
    simp only [] at h
    unfold NewBlocksAll at hnew
    rw [hb] at hnew
    simp only [] at hnew
    split at h
    · cases h
    · rename_i ir1 hmod
      obtain ⟨hn1, hn2⟩ := hnew
      obtain ⟨hI1, hok1, hnd1⟩ := applyAll_step hb hmod hI hok hnd hn1
      have m1 := applyMods_minv blk.off i r.func r.mods ir ir1 (some r.block) 0 hmod
        (fun a ha => by injection ha with ha; subst ha; exact ⟨blk, hb, Or.inl hbi⟩) hI hn1 hm
      exact ih ir1 ir' h hI1 hok1 hnd1 (hn2 ir1 hmod) m1

end GtirbVerif.IR
