import GtirbVerif.Model.IR.Modify

/-!
# Frame lemmas: which operations of the IR model touch the byte intervals

`edit_byte_interval` is the only operation that changes bytes.  Every other step of
`insert` / `delete` (splitting, joining, removing blocks, CFG and aux-data fix-ups)
leaves `ir.intervals` alone — this is the "nothing else changed" half of C01.
-/
namespace GtirbVerif.IR
open GtirbVerif.Adt (CfgNode Label Edge)

/-- folding steps that each preserve the intervals preserves them -/
theorem foldl_intervals {α} (f : IR → α → IR) (h : ∀ ir a, (f ir a).intervals = ir.intervals)
    (l : List α) (ir : IR) : (l.foldl f ir).intervals = ir.intervals := by
  induction l generalizing ir with
  | nil => rfl
  | cons a l ih => simp only [List.foldl_cons]; rw [ih, h]

theorem ite_intervals {c : Prop} [Decidable c] {a b : IR} {x : List Interval}
    (ha : a.intervals = x) (hb : b.intervals = x) : (if c then a else b).intervals = x := by
  split <;> assumption

@[simp] theorem setBlock_intervals (ir : IR) (b : Block) : (ir.setBlock b).intervals = ir.intervals := rfl
@[simp] theorem updateEdge_intervals (ir : IR) (e e' : Edge) : (ir.updateEdge e e').intervals = ir.intervals := rfl
@[simp] theorem addFunctionBlock_intervals (ir : IR) (b f : Nat) : (ir.addFunctionBlock b f).intervals = ir.intervals := rfl
@[simp] theorem orderInsertAfter_intervals (ir : IR) (s a : Nat) (bs : List Nat) :
    (ir.orderInsertAfter s a bs).intervals = ir.intervals := rfl
@[simp] theorem orderRemove_intervals (ir : IR) (s b : Nat) : (ir.orderRemove s b).intervals = ir.intervals := rfl
@[simp] theorem orderAppend_intervals (ir : IR) (s : Nat) (bs : List Nat) :
    (ir.orderAppend s bs).intervals = ir.intervals := by
  unfold IR.orderAppend; split <;> rfl

@[simp] theorem removeFunctionBlock_intervals (ir : IR) (b : Nat) :
    (ir.removeFunctionBlock b).intervals = ir.intervals := by
  unfold IR.removeFunctionBlock
  split
  · rfl
  · exact ite_intervals rfl rfl

@[simp] theorem moveReturnEdges_intervals (ir : IR) (ce : Edge) (ft : List Nat) (nf : Nat) :
    (ir.moveReturnEdges ce ft nf).intervals = ir.intervals := by
  unfold IR.moveReturnEdges
  split
  · rfl
  · split
    · rfl
    · apply foldl_intervals
      intro ir tb
      apply foldl_intervals
      intro ir e
      split
      · split <;> simp
      · rfl

@[simp] theorem updateFallthrough_intervals (ir : IR) (s t : Nat) :
    (ir.updateFallthrough s t).intervals = ir.intervals := by
  unfold IR.updateFallthrough
  simp only []
  apply foldl_intervals
  intro ir e
  split
  · simp
  · split <;> rfl

/-- pair-valued fold whose IR component keeps the intervals -/
theorem foldl_pair_intervals {α β} (f : IR × β → α → IR × β)
    (h : ∀ acc a, (f acc a).1.intervals = acc.1.intervals)
    (l : List α) (acc : IR × β) : (l.foldl f acc).1.intervals = acc.1.intervals := by
  induction l generalizing acc with
  | nil => rfl
  | cons a l ih => simp only [List.foldl_cons]; rw [ih, h]

@[simp] theorem removeReturnEdgesFromCallee_intervals (ir : IR) (ce : Edge) (ft : List Nat) :
    (ir.removeReturnEdgesFromCallee ce ft).intervals = ir.intervals := by
  unfold IR.removeReturnEdgesFromCallee
  split
  · rfl
  · split
    · rfl
    · apply foldl_intervals
      intro ir b
      simp only []
      split
      · rfl
      · have hfold : ∀ (rets : List Edge) (acc : IR × Bool),
            (rets.foldl (fun (acc : IR × Bool) e =>
              match e.dst with
              | .block t => if ft.contains t then ({ acc.1 with cfg := cfgDiscard acc.1.cfg e }, acc.2)
                            else (acc.1, true)
              | .proxy _ => (acc.1, true)) acc).1.intervals = acc.1.intervals := by
          intro rets acc
          apply foldl_pair_intervals
          intro acc e
          split
          · split <;> rfl
          · rfl
        split
        · exact hfold _ _
        · exact hfold _ _

@[simp] theorem addReturnEdgesToCallee_intervals (ir : IR) (pcfg : List Edge) (f : Nat) (rt : CfgNode) :
    (ir.addReturnEdgesToCallee pcfg f rt).1.intervals = ir.intervals := by
  unfold IR.addReturnEdgesToCallee
  apply foldl_pair_intervals
  intro acc b
  simp only []
  split
  · rfl
  · simp only []
    apply foldl_intervals
    intro ir e
    rfl

/-! ### split_block -/

@[simp] theorem splitSyms_intervals (ir : IR) (b nb : Nat) : (ir.splitSyms b nb).intervals = ir.intervals := rfl
@[simp] theorem splitBlocks_intervals (ir : IR) (blk : Block) (nb off : Nat) :
    (ir.splitBlocks blk nb off).intervals = ir.intervals := rfl
@[simp] theorem splitTables_intervals (ir : IR) (b nb off : Nat) :
    (ir.splitTables b nb off).intervals = ir.intervals := rfl
@[simp] theorem addFall_intervals (ir : IR) (a b : Nat) : (ir.addFall a b).intervals = ir.intervals := rfl
@[simp] theorem inheritFunction_intervals (ir : IR) (a b : Nat) :
    (ir.inheritFunction a b).intervals = ir.intervals := by
  unfold IR.inheritFunction; split <;> rfl

@[simp] theorem splitEdgesMid_intervals (ir : IR) (b nb : Nat) :
    (ir.splitEdgesMid b nb).intervals = ir.intervals := by
  unfold IR.splitEdgesMid
  apply foldl_intervals; intro i e; rfl

@[simp] theorem splitEdgesEnd_intervals (ir : IR) (b nb : Nat) :
    (ir.splitEdgesEnd b nb).intervals = ir.intervals := by
  unfold IR.splitEdgesEnd
  apply foldl_intervals; intro i e
  split
  · simp
  · split <;> rfl

@[simp] theorem splitCode_intervals (ir : IR) (b nb : Nat) (e : Bool) :
    (ir.splitCode b nb e).1.intervals = ir.intervals := by
  unfold IR.splitCode
  split
  · simp
  · simp only [inheritFunction_intervals]
    split <;> simp

theorem splitBlock_intervals {ir ir' : IR} {b off nb : Nat} {added : Bool}
    (h : ir.splitBlock b off = .ok (ir', nb, added)) : ir'.intervals = ir.intervals := by
  unfold IR.splitBlock at h
  split at h
  · cases h
  · split at h
    · cases h
    · split at h
      · cases h
      · simp only [] at h
        injection h with h
        injection h with h1 h2
        subst h1
        simp only [orderInsertAfter_intervals, splitTables_intervals]
        split <;> simp

/-! ### join_blocks -/

@[simp] theorem joinSyms_intervals (ir : IR) (b1 : Block) (id2 : Nat) :
    (ir.joinSyms b1 id2).intervals = ir.intervals := rfl
@[simp] theorem joinTables_intervals (ir : IR) (b1 : Block) (id2 : Nat) (c : Bool) :
    (ir.joinTables b1 id2 c).intervals = ir.intervals := rfl

@[simp] theorem joinCode_intervals (ir : IR) (b1 : Block) (id2 s2 : Nat) :
    (ir.joinCode b1 id2 s2).intervals = ir.intervals := by
  unfold IR.joinCode
  simp only [removeFunctionBlock_intervals]
  have h1 : ∀ (x : IR), ((x.inEdges id2).foldl (fun ir e =>
      if Edge.isFall e && e.src == .block b1.id then { ir with cfg := cfgDiscard ir.cfg e } else ir) x).intervals
      = x.intervals := by
    intro x; apply foldl_intervals; intro i e; split <;> rfl
  have h2 : ∀ (x : IR), (if b1.size == 0 then
      (x.inEdges id2).foldl (fun ir e => ir.updateEdge e (updDst e (.block b1.id))) x
    else (x.inEdges id2).foldl (fun ir e => { ir with cfg := cfgDiscard ir.cfg e }) x).intervals = x.intervals := by
    intro x; split <;> (apply foldl_intervals; intro i e; rfl)
  split
  · rw [foldl_intervals _ (by intro i e; rfl), h2, h1]
  · rw [foldl_intervals _ (by intro i e; rfl), h2, h1]

theorem joinBlocks_intervals {ir ir' : IR} {a b : Nat} (h : ir.joinBlocks a b = .ok ir') :
    ir'.intervals = ir.intervals := by
  unfold IR.joinBlocks at h
  split at h
  · split at h
    · cases h
    · split at h
      · cases h
      · injection h with h
        subst h
        simp only [setBlock_intervals, orderRemove_intervals, joinTables_intervals]
        split <;> simp
  · cases h

/-! ### remove_block -/

@[simp] theorem removeSyms_intervals (ir : IR) (b : Nat) (t : Referent × Bool) :
    (ir.removeSyms b t).intervals = ir.intervals := rfl
@[simp] theorem removeAuxEntries_intervals (ir : IR) (blk : Block) :
    (ir.removeAuxEntries blk).intervals = ir.intervals := rfl
@[simp] theorem removeCfi_intervals (ir : IR) (b : Nat) (c : List CfiDir) (p n : Option Nat) (pc nc : Bool) :
    (ir.removeCfi b c p n pc nc).intervals = ir.intervals := rfl

@[simp] theorem removeInEdges_intervals (ir : IR) (blk : Block) (p n : Option Nat) (nc : Bool) :
    (ir.removeInEdges blk p n nc).intervals = ir.intervals := by
  unfold IR.removeInEdges
  split
  · rfl
  · split
    · apply foldl_intervals; intro i e; rfl
    · split
      · apply foldl_intervals; intro i e; rfl
      · simp only []
        rw [foldl_intervals _ (by intro i e; rfl)]

@[simp] theorem removeFunctions_intervals (ir : IR) (blk : Block) (n : Option Nat) (nc : Bool) :
    (ir.removeFunctions blk n nc).intervals = ir.intervals := by
  unfold IR.removeFunctions
  split
  · rfl
  · split
    · rfl
    · simp only [removeFunctionBlock_intervals]
      split <;> rfl

@[simp] theorem removeEntrypoints_intervals (ir : IR) (blk : Block) (n : Option Nat) (nc : Bool) :
    (ir.removeEntrypoints blk n nc).intervals = ir.intervals := by
  unfold IR.removeEntrypoints
  simp only []
  apply ite_intervals
  · exact ite_intervals (ite_intervals (ite_intervals rfl rfl) (ite_intervals rfl rfl))
      (ite_intervals (ite_intervals rfl rfl) (ite_intervals rfl rfl))
  · exact ite_intervals (ite_intervals (ite_intervals rfl rfl) (ite_intervals rfl rfl))
      (ite_intervals (ite_intervals rfl rfl) (ite_intervals rfl rfl))

@[simp] theorem removeOutEdges_intervals (ir : IR) (blk : Block) :
    (ir.removeOutEdges blk).intervals = ir.intervals := by
  unfold IR.removeOutEdges
  split
  · rfl
  · apply foldl_intervals; intro i e
    simp only []
    split <;> simp

@[simp] theorem keepEmpty_intervals (ir : IR) (blk : Block) : (ir.keepEmpty blk).intervals = ir.intervals := by
  unfold IR.keepEmpty; simp only []; split <;> rfl

@[simp] theorem withProxy_intervals (ir : IR) (t : Bool) : (ir.withProxy t).intervals = ir.intervals := by
  unfold IR.withProxy; split <;> rfl

@[simp] theorem removeStages_intervals (ir : IR) (blk : Block) (t c : Bool) (px p n : Option Nat) :
    (ir.removeStages blk t c px p n).intervals = ir.intervals := by
  unfold IR.removeStages
  simp only [removeCfi_intervals, removeAuxEntries_intervals, removeOutEdges_intervals]
  split
  · simp
  · rfl

theorem removeBlock_intervals {ir ir' : IR} {b : Nat} {px r : Bool}
    (h : ir.removeBlock b px = .ok (ir', r)) : ir'.intervals = ir.intervals := by
  unfold IR.removeBlock at h
  split at h
  · cases h
  · split at h
    · cases h
    · simp only [] at h
      split at h
      · injection h with h; injection h with h1 h2; subst h1; simp
      · injection h with h; injection h with h1 h2; subst h1; simp

@[simp] theorem connectEmptyTail_intervals (ir : IR) (t : Nat) : (ir.connectEmptyTail t).intervals = ir.intervals := by
  unfold IR.connectEmptyTail
  split
  · rfl
  · split
    · split
      · split <;> rfl
      · rfl
    · rfl

/-! ### _cleanup_modified_blocks -/

theorem cleanupPass_intervals : ∀ (rest : List Nat) (ir ir' : IR) (pred : Nat) (done : List Nat) (r : Option (List Nat)),
    ir.cleanupPass pred rest done = .ok (ir', r) → ir'.intervals = ir.intervals := by
  intro rest
  induction rest with
  | nil =>
    intro ir ir' pred done r h
    unfold IR.cleanupPass at h
    injection h with h; injection h with h1 h2; subst h1; rfl
  | cons b rest ih =>
    intro ir ir' pred done r h
    unfold IR.cleanupPass at h
    split at h
    · rename_i i2 hj
      injection h with h; injection h with h1 h2; subst h1
      exact joinBlocks_intervals hj
    · split at h
      · split at h
        · cases h
        · rename_i i2 hr
          injection h with h; injection h with h1 h2; subst h1
          exact removeBlock_intervals hr
        · rename_i i2 hr
          rw [ih _ _ _ _ _ h]
          exact removeBlock_intervals hr
      · exact ih _ _ _ _ _ h
    · cases h

theorem cleanupLoop_intervals : ∀ (fuel : Nat) (ir ir' : IR) (bl bl' : List Nat),
    ir.cleanupLoop fuel bl = .ok (ir', bl') → ir'.intervals = ir.intervals := by
  intro fuel
  induction fuel with
  | zero =>
    intro ir ir' bl bl' h
    unfold IR.cleanupLoop at h
    injection h with h; injection h with h1 h2; subst h1; rfl
  | succ n ih =>
    intro ir ir' bl bl' h
    unfold IR.cleanupLoop at h
    split at h
    · injection h with h; injection h with h1 h2; subst h1; rfl
    · split at h
      · cases h
      · rename_i i2 hp
        injection h with h; injection h with h1 h2; subst h1
        exact cleanupPass_intervals _ _ _ _ _ _ hp
      · rename_i i2 bl2 hp
        rw [ih _ _ _ _ h]
        exact cleanupPass_intervals _ _ _ _ _ _ hp

theorem cleanupFirst_intervals {ir ir' : IR} {bl bl' : List Nat}
    (h : ir.cleanupFirst bl = .ok (ir', bl')) : ir'.intervals = ir.intervals := by
  unfold IR.cleanupFirst at h
  split at h
  · injection h with h; injection h with h1 h2; subst h1; rfl
  · split at h
    · split at h
      · cases h
      · rename_i hr
        injection h with h; injection h with h1 h2; subst h1
        exact removeBlock_intervals hr
      · rename_i hr
        injection h with h; injection h with h1 h2; subst h1
        exact removeBlock_intervals hr
    · injection h with h; injection h with h1 h2; subst h1; rfl

theorem cleanup_intervals {ir ir' : IR} {bl : List Nat} {last : Nat}
    (h : ir.cleanup bl = .ok (ir', last)) : ir'.intervals = ir.intervals := by
  unfold IR.cleanup at h
  split at h
  · cases h
  · split at h
    · cases h
    · rename_i ir1 bl1 hl
      split at h
      · cases h
      · rename_i ir2 bl2 hf
        split at h
        · split at h
          · injection h with h; injection h with h1 h2; subst h1
            rw [cleanupFirst_intervals hf, cleanupLoop_intervals _ _ _ _ _ hl]
          · cases h
        · cases h

end GtirbVerif.IR
