import GtirbVerif.Model.IR.Batch

/-!
# Sequential application with a running offset = the plain splice

The heart of C01's bookkeeping: applying sorted, non-overlapping edits one after the other,
each at `offset + total_insert_len`, produces exactly `spliceSpec` — the original bytes with
every patch spliced in at its requested offset and every deleted range removed.
-/
namespace GtirbVerif.Batch
open GtirbVerif.IR GtirbVerif.Listing

theorem spliceBytes_append_left (pre bs : List Nat) (k len : Nat) (c : List Nat) :
    spliceBytes (pre ++ bs) (pre.length + k) len c = pre ++ spliceBytes bs k len c := by
  unfold spliceBytes
  have h1 : (pre ++ bs).take (pre.length + k) = pre ++ bs.take k := by
    rw [List.take_append, List.take_of_length_le (by omega)]; simp
  have h2 : (pre ++ bs).drop (pre.length + k + len) = bs.drop (k + len) := by
    rw [List.drop_append]
    have : pre.length + k + len - pre.length = k + len := by omega
    rw [this, List.drop_eq_nil_of_le (by omega)]; simp
  rw [h1, h2]; simp [List.append_assoc]

/-- generalised statement: `pre` is what has been produced so far, `cur` how much of the
original block has been consumed -/
theorem seqSplice_eq (size : Nat) (bytes : List Nat) (hlen : bytes.length = size) :
    ∀ (es : List LEdit) (pre : List Nat) (cur : Nat), cur ≤ size → Disjoint size cur es →
      seqSplice 0 (pre ++ bytes.drop cur) ((pre.length : Int) - cur) es = pre ++ spliceSpec bytes cur es := by
  intro es
  induction es with
  | nil => intro pre cur _ _; simp [seqSplice, spliceSpec]
  | cons e es ih =>
    intro pre cur hcur hd
    obtain ⟨h1, h2, h3⟩ := hd
    simp only [seqSplice, spliceSpec]
    have hpos : posOf 0 ((pre.length : Int) - cur) e = pre.length + (e.off - cur) := by
      unfold posOf; omega
    rw [hpos, spliceBytes_append_left]
    -- the splice inside the not yet consumed part
    have hsp : spliceBytes (bytes.drop cur) (e.off - cur) e.del e.ins =
        ((bytes.drop cur).take (e.off - cur) ++ e.ins) ++ bytes.drop (e.off + e.del) := by
      unfold spliceBytes
      simp only [List.drop_drop, List.append_assoc]
      congr 2
      congr 1
      omega
    rw [hsp, ← List.append_assoc]
    have hl : (pre ++ ((bytes.drop cur).take (e.off - cur) ++ e.ins)).length = pre.length + (e.off - cur) + e.ins.length := by
      simp only [List.length_append, List.length_take, List.length_drop]
      omega
    have := ih (pre ++ ((bytes.drop cur).take (e.off - cur) ++ e.ins)) (e.off + e.del) h2 h3
    rw [hl] at this
    have hδ : ((pre.length : Int) - cur + e.ins.length - e.del) =
        ((pre.length + (e.off - cur) + e.ins.length : Nat) : Int) - ((e.off + e.del : Nat) : Int) := by
      omega
    rw [hδ, this]
    simp [List.append_assoc]

/-- **the running-offset loop computes the plain splice** -/
theorem seqSplice_spliceSpec (bytes : List Nat) (es : List LEdit) (h : Disjoint bytes.length 0 es) :
    seqSplice 0 bytes 0 es = spliceSpec bytes 0 es := by
  have := seqSplice_eq bytes.length bytes rfl es [] 0 (Nat.zero_le _) h
  simpa using this

theorem spliceBytes_append_right (bs sfx : List Nat) (k len : Nat) (c : List Nat) (h : k + len ≤ bs.length) :
    spliceBytes (bs ++ sfx) k len c = spliceBytes bs k len c ++ sfx := by
  unfold spliceBytes
  rw [List.take_append_of_le_length (by omega), List.drop_append_of_le_length h]
  simp [List.append_assoc]

theorem spliceSpec_length (size : Nat) (bytes : List Nat) (hlen : bytes.length = size) :
    ∀ (es : List LEdit) (cur : Nat), cur ≤ size → Disjoint size cur es →
      (spliceSpec bytes cur es).length + cur + (es.map (·.del)).sum = size + (es.map (·.ins.length)).sum := by
  intro es
  induction es with
  | nil => intro cur h _; simp [spliceSpec]; omega
  | cons e es ih =>
    intro cur hcur hd
    obtain ⟨h1, h2, h3⟩ := hd
    have := ih (e.off + e.del) h2 h3
    simp only [spliceSpec, List.length_append, List.length_take, List.length_drop, List.map_cons, List.sum_cons]
    omega

/-- the same in interval coordinates: the block sits at `base = |pfx|` inside its byte
interval, what precedes and follows it is untouched -/
theorem seqSplice_interval (bytes pfx sfx : List Nat) :
    ∀ (es : List LEdit) (pre : List Nat) (cur : Nat), cur ≤ bytes.length → Disjoint bytes.length cur es →
      seqSplice pfx.length (pfx ++ (pre ++ bytes.drop cur) ++ sfx) ((pre.length : Int) - cur) es =
        pfx ++ (pre ++ spliceSpec bytes cur es) ++ sfx := by
  intro es
  induction es with
  | nil => intro pre cur _ _; simp [seqSplice, spliceSpec]
  | cons e es ih =>
    intro pre cur hcur hd
    obtain ⟨h1, h2, h3⟩ := hd
    simp only [seqSplice, spliceSpec]
    have hpos : posOf pfx.length ((pre.length : Int) - cur) e = pfx.length + (pre.length + (e.off - cur)) := by
      unfold posOf; omega
    rw [hpos, List.append_assoc pfx, spliceBytes_append_left, spliceBytes_append_right _ _ _ _ _
      (by simp only [List.length_append, List.length_drop]; omega), spliceBytes_append_left]
    have hsp : spliceBytes (bytes.drop cur) (e.off - cur) e.del e.ins =
        ((bytes.drop cur).take (e.off - cur) ++ e.ins) ++ bytes.drop (e.off + e.del) := by
      unfold spliceBytes
      simp only [List.drop_drop, List.append_assoc]
      congr 2
      congr 1
      omega
    rw [hsp]
    have hl : (pre ++ ((bytes.drop cur).take (e.off - cur) ++ e.ins)).length = pre.length + (e.off - cur) + e.ins.length := by
      simp only [List.length_append, List.length_take, List.length_drop]
      omega
    have := ih (pre ++ ((bytes.drop cur).take (e.off - cur) ++ e.ins)) (e.off + e.del) h2 h3
    rw [hl] at this
    have hδ : ((pre.length : Int) - cur + e.ins.length - e.del) =
        ((pre.length + (e.off - cur) + e.ins.length : Nat) : Int) - ((e.off + e.del : Nat) : Int) := by
      omega
    rw [hδ]
    simp only [List.append_assoc] at this ⊢
    rw [this]

/-- **C01, bookkeeping**: for the sorted, disjoint edits of one block located at `|pfx|` in its
interval, the code's loop turns `pfx ++ block ++ sfx` into `pfx ++ splice(block) ++ sfx`. -/
theorem seqSplice_block_in_interval (bytes pfx sfx : List Nat) (es : List LEdit)
    (h : Disjoint bytes.length 0 es) :
    seqSplice pfx.length (pfx ++ bytes ++ sfx) 0 es = pfx ++ spliceSpec bytes 0 es ++ sfx := by
  have := seqSplice_interval bytes pfx sfx es [] 0 (Nat.zero_le _) h
  simpa using this

end GtirbVerif.Batch
