import GtirbVerif.Lemmas.IRSyms
import GtirbVerif.Lemmas.IRBytes

/-!
# Offset-keyed annotations travel with their byte (model side of C04)

An entry of an offset-keyed aux table is keyed by a block or a byte interval plus a
displacement; its *place* is (byte interval, offset inside it).  Splitting and joining blocks
re-key entries without moving them; `edit_byte_interval` keeps the entries before the edit,
drops those inside the replaced range and shifts those behind it by the size change.
-/
namespace GtirbVerif.IR
open GtirbVerif.Adt (CfgNode Label Edge)

/-- the place an entry annotates -/
def IR.entryPos (ir : IR) (el : Elem) (k : Nat) : Option (Nat × Nat) :=
  match el with
  | .interval i => some (i, k)
  | .block b => (ir.block? b).bind (fun blk => blk.bi.map (fun i => (i, blk.off + k)))

theorem entryPos_congr {a b : IR} (h : a.blocks = b.blocks) (el : Elem) (k : Nat) :
    a.entryPos el k = b.entryPos el k := by
  unfold IR.entryPos IR.block?; rw [h]

/-! ### edit_byte_interval: `shiftKeys` -/

/-- exactly the keys outside the replaced range survive; those behind it move by the size change -/
theorem mem_shiftKeys {β} (off len n : Nat) (m : List (Nat × β)) (k' : Nat) (v : β) :
    (k', v) ∈ shiftKeys off len n m ↔
      ∃ k, (k, v) ∈ m ∧ ((k < off ∧ k' = k) ∨ (off + len ≤ k ∧ k' = k + n - len)) := by
  unfold shiftKeys
  simp only [List.mem_filterMap]
  constructor
  · rintro ⟨⟨k, w⟩, hm, hf⟩
    simp only [] at hf
    split at hf
    · rename_i hlt
      injection hf with hf; injection hf with h1 h2; subst h1; subst h2
      exact ⟨k, hm, Or.inl ⟨hlt, rfl⟩⟩
    · split at hf
      · rename_i hge
        injection hf with hf; injection hf with h1 h2; subst h1; subst h2
        exact ⟨k, hm, Or.inr ⟨hge, rfl⟩⟩
      · cases hf
  · rintro ⟨k, hm, h | h⟩
    · refine ⟨(k, v), hm, ?_⟩
      simp only [h.1, if_true, h.2]
    · refine ⟨(k, v), hm, ?_⟩
      have : ¬ k < off := by omega
      simp only [this, if_false, ge_iff_le, h.1, if_true, h.2]

/-- nothing is left pointing into the replaced range or beyond the new end -/
theorem shiftKeys_bound {β} (off len n size : Nat) (m : List (Nat × β)) (hlen : off + len ≤ size)
    (hm : ∀ k v, (k, v) ∈ m → k < size) (k' : Nat) (v : β) (h : (k', v) ∈ shiftKeys off len n m) :
    k' < size + n - len ∧ (k' < off ∨ off + n ≤ k') := by
  obtain ⟨k, hk, h | h⟩ := (mem_shiftKeys off len n m k' v).mp h
  · have := hm k v hk; omega
  · have := hm k v hk; omega

/-! ### split_block -/

/-- **Splitting a block moves no entry of a block-keyed table.** -/
theorem splitOmaps_pos {ir ir' : IR} {b off nb : Nat} {added : Bool} {blk : Block}
    (h : ir.splitBlock b off = .ok (ir', nb, added)) (hb : ir.block? b = some blk)
    (hfresh : ir.block? ir.next = none) (el : Elem) (k : Nat) (pos : Nat × Nat)
    (hp : ir.entryPos el k = some pos) :
    let e' : Elem × Nat := if el == Elem.block b && decide (k ≥ off) then (Elem.block nb, k - off) else (el, k)
    ir'.entryPos e'.1 e'.2 = some pos := by
  obtain ⟨hnb, hoff, _, hblocks⟩ := splitBlock_core h hb
  subst hnb
  have hne : ir.next ≠ b := by intro h; rw [h] at hfresh; rw [hfresh] at hb; cases hb
  simp only []
  rw [entryPos_congr hblocks]
  cases el with
  | interval i =>
    simp only [show (Elem.interval i == Elem.block b) = false from by simp, Bool.false_and, Bool.false_eq_true, if_false]
    exact hp
  | block c =>
    unfold IR.entryPos at hp ⊢
    simp only [] at hp ⊢
    by_cases hc : c = b
    · subst hc
      rw [hb] at hp
      simp only [Option.bind_some] at hp
      by_cases hk : k ≥ off
      · simp only [beq_self_eq_true, hk, decide_true, Bool.and_self, if_true]
        rw [splitBlocks_block? ir blk c ir.next off hb hfresh]
        simp only [hne, if_false, if_true, Option.bind_some]
        cases hbi : blk.bi with
        | none => rw [hbi] at hp; cases hp
        | some i =>
          rw [hbi] at hp
          simp only [Option.map_some] at hp ⊢
          rw [← hp]
          apply some_pair_eq; omega
      · simp only [hk, decide_false, Bool.and_false, Bool.false_eq_true, if_false]
        rw [splitBlocks_block? ir blk c ir.next off hb hfresh]
        simp only [if_true, Option.bind_some]
        exact hp
    · have : (Elem.block c == Elem.block b) = false := by simp [hc]
      simp only [this, Bool.false_and, Bool.false_eq_true, if_false]
      rw [splitBlocks_block? ir blk b ir.next off hb hfresh]
      simp only [hc, if_false]
      by_cases hn : c = ir.next
      · subst hn; rw [hfresh] at hp; cases hp
      · simp only [hn, if_false]; exact hp

/-- the tables after the split are the entry-wise image under that re-keying -/
theorem splitBlock_omaps {ir ir' : IR} {b off nb : Nat} {added : Bool} {blk : Block}
    (h : ir.splitBlock b off = .ok (ir', nb, added)) (hb : ir.block? b = some blk) :
    ir'.aux.omaps = splitOmaps ir.aux.omaps b nb off ∧ ir'.aux.cfi = splitCfi ir.aux.cfi b nb off := by
  unfold IR.splitBlock at h
  rw [hb] at h
  simp only [] at h
  split at h
  · cases h
  · split at h
    · cases h
    · injection h with h
      injection h with h1 h2
      injection h2 with h2 h3
      subst h2
      rw [← h1]
      have ho : (if blk.isCode then ((ir.splitBlocks blk ir.next off).splitSyms b ir.next).splitCode b ir.next (off == blk.size)
          else ((ir.splitBlocks blk ir.next off).splitSyms b ir.next, false)).1.aux.omaps = ir.aux.omaps := by
        split
        · rw [core_omaps (splitCode_core _ _ _ _)]; rfl
        · rfl
      have hc : (if blk.isCode then ((ir.splitBlocks blk ir.next off).splitSyms b ir.next).splitCode b ir.next (off == blk.size)
          else ((ir.splitBlocks blk ir.next off).splitSyms b ir.next, false)).1.aux.cfi = ir.aux.cfi := by
        split
        · rw [core_cfi (splitCode_core _ _ _ _)]; rfl
        · rfl
      constructor
      · show splitOmaps _ b ir.next off = _
        rw [ho]
      · show splitCfi _ b ir.next off = _
        rw [hc]

/-! ### join_blocks -/

/-- **Joining two blocks moves no entry**: block2's entries are re-keyed to block1 at
`block1.size + displacement`, the place they had. -/
theorem joinOmaps_pos {ir ir' : IR} {id1 id2 : Nat} {b1 b2 : Block}
    (h : ir.joinBlocks id1 id2 = .ok ir') (h1 : ir.block? id1 = some b1) (h2 : ir.block? id2 = some b2)
    (hne : id1 ≠ id2) (el : Elem) (k : Nat) (pos : Nat × Nat) (hp : ir.entryPos el k = some pos) :
    let e' : Elem × Nat := if el == Elem.block id2 then (Elem.block id1, b1.size + k) else (el, k)
    ir'.entryPos e'.1 e'.2 = some pos := by
  obtain ⟨hj, _, hblocks⟩ := joinBlocks_core h h1 h2
  obtain ⟨hbi, hbin, hadj, _⟩ := notJoinable_none hj
  have e1 : b1.id = id1 := findB_id h1
  have e2 : b2.id = id2 := findB_id h2
  subst e1
  subst e2
  simp only []
  rw [entryPos_congr hblocks]
  have hL1 : ((ir.setBlock { b1 with size := b1.size + b2.size }).setBlock { b2 with bi := none }).block? b1.id =
      some { b1 with size := b1.size + b2.size } := by
    rw [block?_setBlock_other _ b2.id b1.id { b2 with bi := none } rfl hne]
    exact block?_setBlock_same ir b1.id b1 { b1 with size := b1.size + b2.size } h1 rfl
  have hLo : ∀ c, c ≠ b1.id → c ≠ b2.id →
      ((ir.setBlock { b1 with size := b1.size + b2.size }).setBlock { b2 with bi := none }).block? c = ir.block? c := by
    intro c hc1 hc2
    rw [block?_setBlock_other _ b2.id c { b2 with bi := none } rfl hc2,
      block?_setBlock_other _ b1.id c { b1 with size := b1.size + b2.size } rfl hc1]
  cases el with
  | interval i =>
    simp only [show (Elem.interval i == Elem.block b2.id) = false from by simp, Bool.false_eq_true, if_false]
    exact hp
  | block c =>
    unfold IR.entryPos at hp ⊢
    simp only [] at hp ⊢
    by_cases hc2 : c = b2.id
    · subst hc2
      rw [h2] at hp
      simp only [beq_self_eq_true, if_true, hL1, Option.bind_some] at hp ⊢
      cases hb2 : b2.bi with
      | none => rw [hb2] at hp; cases hp
      | some i =>
        rw [hb2] at hp
        have hb1 : b1.bi = some i := by rw [hbi, hb2]
        simp only [hb1, Option.map_some] at hp ⊢
        rw [← hp]
        apply some_pair_eq; omega
    · have hcne : (Elem.block c == Elem.block b2.id) = false := by simp [hc2]
      simp only [hcne, Bool.false_eq_true, if_false]
      by_cases hc1 : c = b1.id
      · subst hc1
        rw [h1] at hp
        simp only [hL1, Option.bind_some] at hp ⊢
        exact hp
      · rw [hLo c hc1 hc2]; exact hp

theorem joinBlocks_omaps {ir ir' : IR} {id1 id2 : Nat} {b1 b2 : Block}
    (h : ir.joinBlocks id1 id2 = .ok ir') (h1 : ir.block? id1 = some b1) (h2 : ir.block? id2 = some b2) :
    ir'.aux.omaps = joinOmaps ir.aux.omaps b1.id b1.size id2 ∧ ir'.aux.cfi = joinCfi ir.aux.cfi b1.id b1.size id2 := by
  unfold IR.joinBlocks at h
  rw [h1, h2] at h
  simp only [] at h
  split at h
  · cases h
  · split at h
    · cases h
    · injection h with h
      subst h
      have ho : (if b2.isCode then (ir.joinSyms b1 id2).joinCode b1 id2 b2.size else ir.joinSyms b1 id2).aux.omaps = ir.aux.omaps := by
        split
        · rw [core_omaps (joinCode_core _ _ _ _)]; rfl
        · rfl
      have hc : (if b2.isCode then (ir.joinSyms b1 id2).joinCode b1 id2 b2.size else ir.joinSyms b1 id2).aux.cfi = ir.aux.cfi := by
        split
        · rw [core_cfi (joinCode_core _ _ _ _)]; rfl
        · rfl
      constructor
      · show joinOmaps _ b1.id b1.size id2 = _
        rw [ho]
      · show joinCfi _ b1.id b1.size id2 = _
        rw [hc]

/-! ### remove_block: annotations of removed bytes disappear -/

theorem removeBlock_omaps {ir ir' : IR} {b : Nat} {px r : Bool} {blk : Block}
    (h : ir.removeBlock b px = .ok (ir', r)) (hb : ir.block? b = some blk) :
    ir'.aux.omaps = ir.aux.omaps.map (fun (name, entries) =>
      (name, entries.filter (fun (el, _, _) => el != Elem.block b))) := by
  have hid : blk.id = b := findB_id hb
  unfold IR.removeBlock at h
  rw [hb] at h
  simp only [] at h
  have key : ∀ (x : IR) (t c : Bool) (px p n : Option Nat), x.core = ir.core →
      (x.removeStages blk t c px p n).aux.omaps = ir.aux.omaps.map (fun (name, entries) =>
        (name, entries.filter (fun (el, _, _) => el != Elem.block b))) := by
    intro x t c px p n hx
    unfold IR.removeStages
    show (IR.removeAuxEntries _ blk).aux.omaps = _
    unfold IR.removeAuxEntries
    simp only [hid]
    rw [core_omaps (removeOutEdges_core _ _)]
    split
    · have : ∀ (y : IR) (n : Option Nat) (nc : Bool), (y.removeEntrypoints blk n nc).aux.omaps = y.aux.omaps := by
        intro y n nc
        unfold IR.removeEntrypoints
        simp only []
        split <;> split <;> split <;> split <;> rfl
      rw [this, core_omaps (removeFunctions_core _ _ _ _), core_omaps (removeInEdges_core _ _ _ _ _)]
      show x.aux.omaps.map _ = _
      rw [core_omaps hx]
    · rw [core_omaps hx]
  split at h
  · cases h
  · split at h
    · injection h with h; injection h with h1 h2; subst h1
      show (IR.removeStages _ _ _ _ _ _ _).aux.omaps = _
      exact key _ _ _ _ _ _ (withProxy_core _ _)
    · injection h with h; injection h with h1 h2; subst h1
      have : ∀ y : IR, (y.keepEmpty blk).aux.omaps = y.aux.omaps := by
        intro y; unfold IR.keepEmpty; simp only []; split <;> rfl
      rw [this]
      exact key _ _ _ _ _ _ (withProxy_core _ _)

/-! ### edit_byte_interval -/

/-- the symbolic expressions of the edited interval are shifted by `shiftKeys` -/
theorem editInterval_symExprs (ir : IR) (i off len : Nat) (content st : List Nat) (iv : Interval)
    (h : ir.interval? i = some iv) :
    ((ir.editInterval i off len content st).interval? i).map (·.symExprs) =
      some (shiftKeys off len content.length iv.symExprs) := by
  unfold IR.editInterval
  rw [h]
  simp only []
  have hid := find_id h
  have := interval?_setInterval_same ir i iv
    { iv with size := iv.size + content.length - len, bytes := spliceBytes iv.bytes off len content,
              symExprs := shiftKeys off len content.length iv.symExprs } h hid
  unfold IR.interval? at this ⊢
  simp only [] at this ⊢
  rw [this]
  rfl

/-- interval-keyed table entries of the edited interval are shifted the same way, all other
entries are untouched -/
theorem editInterval_omaps (ir : IR) (i off len : Nat) (content st : List Nat) (iv : Interval)
    (h : ir.interval? i = some iv) :
    (ir.editInterval i off len content st).aux.omaps = ir.aux.omaps.map (fun (name, entries) =>
      (name, entries.filterMap (fun (el, k, v) =>
        if el == Elem.interval i then
          if k < off then some (el, k, v)
          else if k ≥ off + len then some (el, k + content.length - len, v)
          else none
        else some (el, k, v)))) := by
  unfold IR.editInterval
  rw [h]

end GtirbVerif.IR
