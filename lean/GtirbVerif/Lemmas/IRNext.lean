import GtirbVerif.Lemmas.IRSyms

/-!
# The fresh-id counter through every step of the IR model

`ir.next` is where `split_block` (and the proxy-creating steps) take new ids from.  For the
loop of `_apply_modifications` (Lemmas/IRBatch.lean) it has to be known, for *every* step of
`insert` and `delete`, that the counter never goes down: then the ids of the block table stay
below it and a split always creates its block under an unused id.

The first part (steps that do not write the counter) mirrors Lemmas/IRFrame.lean; the
steps that allocate a proxy (`keepEmpty`, `withProxy`, `_retarget_incoming_edges`,
`remove_return_edges_from_callee`) and `split_block` itself come after.
-/
namespace GtirbVerif.IR
open GtirbVerif.Adt (CfgNode Label Edge)

theorem foldl_next {α} (f : IR → α → IR) (h : ∀ ir a, (f ir a).next = ir.next)
    (l : List α) (ir : IR) : (l.foldl f ir).next = ir.next := by
  induction l generalizing ir with
  | nil => rfl
  | cons a l ih => simp only [List.foldl_cons]; rw [ih, h]

theorem ite_next {c : Prop} [Decidable c] {a b : IR} {x : Nat}
    (ha : a.next = x) (hb : b.next = x) : (if c then a else b).next = x := by
  split <;> assumption

theorem foldl_pair_next {α β} (f : IR × β → α → IR × β)
    (h : ∀ acc a, (f acc a).1.next = acc.1.next)
    (l : List α) (acc : IR × β) : (l.foldl f acc).1.next = acc.1.next := by
  induction l generalizing acc with
  | nil => rfl
  | cons a l ih => simp only [List.foldl_cons]; rw [ih, h]

theorem foldl_next_le {α} (f : IR → α → IR) (h : ∀ ir a, ir.next ≤ (f ir a).next)
    (l : List α) (ir : IR) : ir.next ≤ (l.foldl f ir).next := by
  induction l generalizing ir with
  | nil => exact Nat.le_refl _
  | cons a l ih => simp only [List.foldl_cons]; exact Nat.le_trans (h ir a) (ih _)

@[simp] theorem setBlock_next (ir : IR) (b : Block) : (ir.setBlock b).next = ir.next := rfl

@[simp] theorem updateEdge_next (ir : IR) (e e' : Edge) : (ir.updateEdge e e').next = ir.next := rfl

@[simp] theorem addFunctionBlock_next (ir : IR) (b f : Nat) : (ir.addFunctionBlock b f).next = ir.next := rfl

@[simp] theorem orderInsertAfter_next (ir : IR) (s a : Nat) (bs : List Nat) :
    (ir.orderInsertAfter s a bs).next = ir.next := rfl

@[simp] theorem orderRemove_next (ir : IR) (s b : Nat) : (ir.orderRemove s b).next = ir.next := rfl

@[simp] theorem orderAppend_next (ir : IR) (s : Nat) (bs : List Nat) :
    (ir.orderAppend s bs).next = ir.next := by
  unfold IR.orderAppend; split <;> rfl

@[simp] theorem removeFunctionBlock_next (ir : IR) (b : Nat) :
    (ir.removeFunctionBlock b).next = ir.next := by
  unfold IR.removeFunctionBlock
  split
  · rfl
  · exact ite_next rfl rfl

@[simp] theorem moveReturnEdges_next (ir : IR) (ce : Edge) (ft : List Nat) (nf : Nat) :
    (ir.moveReturnEdges ce ft nf).next = ir.next := by
  unfold IR.moveReturnEdges
  split
  · rfl
  · split
    · rfl
    · apply foldl_next
      intro ir tb
      apply foldl_next
      intro ir e
      split
      · split <;> simp
      · rfl

@[simp] theorem updateFallthrough_next (ir : IR) (s t : Nat) :
    (ir.updateFallthrough s t).next = ir.next := by
  unfold IR.updateFallthrough
  simp only []
  apply foldl_next
  intro ir e
  split
  · simp
  · split <;> rfl

@[simp] theorem addReturnEdgesToCallee_next (ir : IR) (pcfg : List Edge) (f : Nat) (rt : CfgNode) :
    (ir.addReturnEdgesToCallee pcfg f rt).1.next = ir.next := by
  unfold IR.addReturnEdgesToCallee
  apply foldl_pair_next
  intro acc b
  simp only []
  split
  · rfl
  · simp only []
    apply foldl_next
    intro ir e
    rfl

@[simp] theorem splitSyms_next (ir : IR) (b nb : Nat) : (ir.splitSyms b nb).next = ir.next := rfl

@[simp] theorem splitTables_next (ir : IR) (b nb off : Nat) :
    (ir.splitTables b nb off).next = ir.next := rfl

@[simp] theorem addFall_next (ir : IR) (a b : Nat) : (ir.addFall a b).next = ir.next := rfl

@[simp] theorem inheritFunction_next (ir : IR) (a b : Nat) :
    (ir.inheritFunction a b).next = ir.next := by
  unfold IR.inheritFunction; split <;> rfl

@[simp] theorem splitEdgesMid_next (ir : IR) (b nb : Nat) :
    (ir.splitEdgesMid b nb).next = ir.next := by
  unfold IR.splitEdgesMid
  apply foldl_next; intro i e; rfl

@[simp] theorem splitEdgesEnd_next (ir : IR) (b nb : Nat) :
    (ir.splitEdgesEnd b nb).next = ir.next := by
  unfold IR.splitEdgesEnd
  apply foldl_next; intro i e
  split
  · simp
  · split <;> rfl

@[simp] theorem splitCode_next (ir : IR) (b nb : Nat) (e : Bool) :
    (ir.splitCode b nb e).1.next = ir.next := by
  unfold IR.splitCode
  split
  · simp
  · simp only [inheritFunction_next]
    split <;> simp

@[simp] theorem joinSyms_next (ir : IR) (b1 : Block) (id2 : Nat) :
    (ir.joinSyms b1 id2).next = ir.next := rfl

@[simp] theorem joinTables_next (ir : IR) (b1 : Block) (id2 : Nat) (c : Bool) :
    (ir.joinTables b1 id2 c).next = ir.next := rfl

@[simp] theorem joinCode_next (ir : IR) (b1 : Block) (id2 s2 : Nat) :
    (ir.joinCode b1 id2 s2).next = ir.next := by
  unfold IR.joinCode
  simp only [removeFunctionBlock_next]
  have h1 : ∀ (x : IR), ((x.inEdges id2).foldl (fun ir e =>
      if Edge.isFall e && e.src == .block b1.id then { ir with cfg := cfgDiscard ir.cfg e } else ir) x).next
      = x.next := by
    intro x; apply foldl_next; intro i e; split <;> rfl
  have h2 : ∀ (x : IR), (if b1.size == 0 then
      (x.inEdges id2).foldl (fun ir e => ir.updateEdge e (updDst e (.block b1.id))) x
    else (x.inEdges id2).foldl (fun ir e => { ir with cfg := cfgDiscard ir.cfg e }) x).next = x.next := by
    intro x; split <;> (apply foldl_next; intro i e; rfl)
  split
  · rw [foldl_next _ (by intro i e; rfl), h2, h1]
  · rw [foldl_next _ (by intro i e; rfl), h2, h1]

@[simp] theorem removeSyms_next (ir : IR) (b : Nat) (t : Referent × Bool) :
    (ir.removeSyms b t).next = ir.next := rfl

@[simp] theorem removeAuxEntries_next (ir : IR) (blk : Block) :
    (ir.removeAuxEntries blk).next = ir.next := rfl

@[simp] theorem removeCfi_next (ir : IR) (b : Nat) (c : List CfiDir) (p n : Option Nat) (pc nc : Bool) :
    (ir.removeCfi b c p n pc nc).next = ir.next := rfl

@[simp] theorem removeFunctions_next (ir : IR) (blk : Block) (n : Option Nat) (nc : Bool) :
    (ir.removeFunctions blk n nc).next = ir.next := by
  unfold IR.removeFunctions
  split
  · rfl
  · split
    · rfl
    · simp only [removeFunctionBlock_next]
      split <;> rfl

@[simp] theorem removeEntrypoints_next (ir : IR) (blk : Block) (n : Option Nat) (nc : Bool) :
    (ir.removeEntrypoints blk n nc).next = ir.next := by
  unfold IR.removeEntrypoints
  simp only []
  apply ite_next
  · exact ite_next (ite_next (ite_next rfl rfl) (ite_next rfl rfl))
      (ite_next (ite_next rfl rfl) (ite_next rfl rfl))
  · exact ite_next (ite_next (ite_next rfl rfl) (ite_next rfl rfl))
      (ite_next (ite_next rfl rfl) (ite_next rfl rfl))

@[simp] theorem connectEmptyTail_next (ir : IR) (t : Nat) : (ir.connectEmptyTail t).next = ir.next := by
  unfold IR.connectEmptyTail
  split
  · rfl
  · split
    · split
      · split <;> rfl
      · rfl
    · rfl

/-! ### steps that allocate ids: the counter only grows -/

theorem removeReturnEdgesFromCallee_next_le (ir : IR) (ce : Edge) (ft : List Nat) :
    ir.next ≤ (ir.removeReturnEdgesFromCallee ce ft).next := by
  unfold IR.removeReturnEdgesFromCallee
  split
  · exact Nat.le_refl _
  · split
    · exact Nat.le_refl _
    · apply foldl_next_le
      intro ir b
      simp only []
      split
      · exact Nat.le_refl _
      · have hfold : ∀ (rets : List Edge) (acc : IR × Bool),
            (rets.foldl (fun (acc : IR × Bool) e =>
              match e.dst with
              | .block t => if ft.contains t then ({ acc.1 with cfg := cfgDiscard acc.1.cfg e }, acc.2)
                            else (acc.1, true)
              | .proxy _ => (acc.1, true)) acc).1.next = acc.1.next := by
          intro rets acc
          apply foldl_pair_next
          intro acc e
          split
          · split <;> rfl
          · rfl
        split
        · exact Nat.le_of_eq (hfold _ (ir, false)).symm
        · exact Nat.le_trans (Nat.le_of_eq (hfold _ (ir, false)).symm) (Nat.le_succ _)

theorem removeOutEdges_next_le (ir : IR) (blk : Block) : ir.next ≤ (ir.removeOutEdges blk).next := by
  unfold IR.removeOutEdges
  split
  · exact Nat.le_refl _
  · apply foldl_next_le; intro i e
    simp only []
    split
    · exact removeReturnEdgesFromCallee_next_le _ _ _
    · exact Nat.le_refl _

theorem removeInEdges_next_le (ir : IR) (blk : Block) (p n : Option Nat) (nc : Bool) :
    ir.next ≤ (ir.removeInEdges blk p n nc).next := by
  unfold IR.removeInEdges
  split
  · exact Nat.le_refl _
  · split
    · rw [foldl_next _ (by intro i e; rfl)]; exact Nat.le_refl _
    · split
      · rw [foldl_next _ (by intro i e; rfl)]; exact Nat.le_refl _
      · simp only []
        rw [foldl_next _ (by intro i e; rfl)]
        exact Nat.le_succ _

theorem keepEmpty_next_le (ir : IR) (blk : Block) : ir.next ≤ (ir.keepEmpty blk).next := by
  unfold IR.keepEmpty; simp only []; split
  · exact Nat.le_succ _
  · exact Nat.le_refl _

theorem withProxy_next_le (ir : IR) (t : Bool) : ir.next ≤ (ir.withProxy t).next := by
  unfold IR.withProxy; split
  · exact Nat.le_succ _
  · exact Nat.le_refl _

theorem removeStages_next_le (ir : IR) (blk : Block) (t c : Bool) (px p n : Option Nat) :
    ir.next ≤ (ir.removeStages blk t c px p n).next := by
  unfold IR.removeStages
  simp only [removeCfi_next, removeAuxEntries_next]
  refine Nat.le_trans ?_ (removeOutEdges_next_le _ _)
  split
  · simp only [removeEntrypoints_next, removeFunctions_next]
    exact Nat.le_trans (Nat.le_of_eq (removeSyms_next ir _ _).symm) (removeInEdges_next_le _ _ _ _ _)
  · exact Nat.le_refl _

theorem removeBlock_next_le {ir ir' : IR} {b : Nat} {px r : Bool}
    (h : ir.removeBlock b px = .ok (ir', r)) : ir.next ≤ ir'.next := by
  unfold IR.removeBlock at h
  split at h
  · cases h
  · split at h
    · cases h
    · simp only [] at h
      split at h
      · injection h with h; injection h with h1 h2; subst h1
        simp only [setBlock_next, orderRemove_next]
        exact Nat.le_trans (withProxy_next_le _ _) (removeStages_next_le _ _ _ _ _ _ _)
      · injection h with h; injection h with h1 h2; subst h1
        exact Nat.le_trans (Nat.le_trans (withProxy_next_le _ _) (removeStages_next_le _ _ _ _ _ _ _))
          (keepEmpty_next_le _ _)

theorem splitBlock_next {ir ir' : IR} {b off nb : Nat} {added : Bool}
    (h : ir.splitBlock b off = .ok (ir', nb, added)) : ir'.next = ir.next + 1 := by
  unfold IR.splitBlock at h
  split at h
  · cases h
  · split at h
    · cases h
    · split at h
      · cases h
      · simp only [] at h
        injection h with h
        injection h with h1 h2
        subst h1
        simp only [orderInsertAfter_next, splitTables_next]
        split
        · simp only [splitCode_next, splitSyms_next]; rfl
        · rfl

theorem joinBlocks_next {ir ir' : IR} {a b : Nat} (h : ir.joinBlocks a b = .ok ir') : ir'.next = ir.next := by
  unfold IR.joinBlocks at h
  split at h
  · split at h
    · cases h
    · split at h
      · cases h
      · injection h with h
        subst h
        simp only [setBlock_next, orderRemove_next, joinTables_next]
        split <;> simp
  · cases h

@[simp] theorem editInterval_next (ir : IR) (i off len : Nat) (c st : List Nat) :
    (ir.editInterval i off len c st).next = ir.next := by
  unfold IR.editInterval; split <;> rfl

/-! ### _cleanup_modified_blocks -/

theorem cleanupPass_next_le : ∀ (rest : List Nat) (ir ir' : IR) (pred : Nat) (done : List Nat) (r : Option (List Nat)),
    ir.cleanupPass pred rest done = .ok (ir', r) → ir.next ≤ ir'.next := by
  intro rest
  induction rest with
  | nil =>
    intro ir ir' pred done r h
    unfold IR.cleanupPass at h
    injection h with h; injection h with h1 h2; subst h1; exact Nat.le_refl _
  | cons b rest ih =>
    intro ir ir' pred done r h
    unfold IR.cleanupPass at h
    split at h
    · rename_i i2 hj
      injection h with h; injection h with h1 h2; subst h1
      rw [joinBlocks_next hj]; exact Nat.le_refl _
    · split at h
      · split at h
        · cases h
        · rename_i i2 hr
          injection h with h; injection h with h1 h2; subst h1
          exact removeBlock_next_le hr
        · rename_i i2 hr
          exact Nat.le_trans (removeBlock_next_le hr) (ih _ _ _ _ _ h)
      · exact ih _ _ _ _ _ h
    · cases h

theorem cleanupLoop_next_le : ∀ (fuel : Nat) (ir ir' : IR) (bl bl' : List Nat),
    ir.cleanupLoop fuel bl = .ok (ir', bl') → ir.next ≤ ir'.next := by
  intro fuel
  induction fuel with
  | zero =>
    intro ir ir' bl bl' h
    unfold IR.cleanupLoop at h
    injection h with h; injection h with h1 h2; subst h1; exact Nat.le_refl _
  | succ n ih =>
    intro ir ir' bl bl' h
    unfold IR.cleanupLoop at h
    split at h
    · injection h with h; injection h with h1 h2; subst h1; exact Nat.le_refl _
    · split at h
      · cases h
      · rename_i i2 hp
        injection h with h; injection h with h1 h2; subst h1
        exact cleanupPass_next_le _ _ _ _ _ _ hp
      · rename_i i2 bl2 hp
        exact Nat.le_trans (cleanupPass_next_le _ _ _ _ _ _ hp) (ih _ _ _ _ h)

theorem cleanupFirst_next_le {ir ir' : IR} {bl bl' : List Nat}
    (h : ir.cleanupFirst bl = .ok (ir', bl')) : ir.next ≤ ir'.next := by
  unfold IR.cleanupFirst at h
  split at h
  · injection h with h; injection h with h1 h2; subst h1; exact Nat.le_refl _
  · split at h
    · split at h
      · cases h
      · rename_i hr
        injection h with h; injection h with h1 h2; subst h1
        exact removeBlock_next_le hr
      · rename_i hr
        injection h with h; injection h with h1 h2; subst h1
        exact removeBlock_next_le hr
    · injection h with h; injection h with h1 h2; subst h1; exact Nat.le_refl _

theorem cleanup_next_le {ir ir' : IR} {bl : List Nat} {last : Nat}
    (h : ir.cleanup bl = .ok (ir', last)) : ir.next ≤ ir'.next := by
  unfold IR.cleanup at h
  split at h
  · cases h
  · split at h
    · cases h
    · rename_i ir1 bl1 hl
      split at h
      · cases h
      · rename_i ir2 bl2 hf
        split at h
        · split at h
          · injection h with h; injection h with h1 h2; subst h1
            exact Nat.le_trans (cleanupLoop_next_le _ _ _ _ _ hl) (cleanupFirst_next_le hf)
          · cases h
        · cases h

end GtirbVerif.IR
