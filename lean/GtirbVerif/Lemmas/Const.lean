import GtirbVerif.Lemmas.Leb
import GtirbVerif.Model.Dwarf.Const

/-! `make_const_op`: the chosen form accepts the value and is a shortest one. -/
set_option linter.unusedSimpArgs false
namespace GtirbVerif.Dwarf

/-- signed LEB128 length: `k+1` bytes suffice iff `-64·128^k ≤ v < 64·128^k`. -/
theorem slebEnc_length_le (v : Int) (k : Nat) :
    (slebEnc v).length ≤ k + 1 ↔
      (-(64 * ((128 ^ k : Nat) : Int)) ≤ v ∧ v < 64 * ((128 ^ k : Nat) : Int)) := by
  induction k generalizing v with
  | zero =>
    rw [slebEnc]
    split
    · rename_i h
      simp only [List.length_cons, List.length_nil, Nat.pow_zero]
      omega
    · rename_i h
      have := slebEnc_length_pos (v / 128)
      simp only [List.length_cons, Nat.pow_zero]
      omega
  | succ k ih =>
    have hP : 128 ^ (k + 1) = 128 ^ k * 128 := Nat.pow_succ 128 k
    have hQ : 0 < 128 ^ k := Nat.pow_pos (by omega)
    rw [slebEnc]
    split
    · rename_i h
      simp only [List.length_cons, List.length_nil, hP]
      generalize 128 ^ k = Q at *
      constructor
      · intro _; push_cast; omega
      · intro _; omega
    · rename_i h
      simp only [List.length_cons, Nat.add_le_add_iff_right, ih (v / 128), hP]
      generalize 128 ^ k = Q at *
      push_cast
      omega

set_option maxRecDepth 4096 in
/-- the value is inside the range of the chosen form (so the operation object
can be built and its operand is exactly `v`) -/
theorem makeConst_valid (v : Int) (k : ConstKind) (h : makeConst v = some k) :
    validateInt k.enc none v = true := by
  unfold makeConst at h
  simp only [inIntDomain, Bool.false_eq_true, ↓reduceIte, decide_eq_true_eq] at h
  repeat' split at h
  all_goals first
    | (cases h; simp only [ConstKind.enc, validateInt, inIntDomain, Bool.false_eq_true,
        ↓reduceIte, decide_eq_true_eq, Bool.and_true, Bool.true_and];
        (try simp only [Nat.reduceMul, Nat.reduceSub, Int.reducePow, Int.reduceNeg] at *); omega)
    | (cases h; simp [ConstKind.enc, validateInt])
    | cases h

/-- `make_const_op` fails exactly outside `[-2^63, 2^64)` -/
theorem makeConst_none_iff (v : Int) :
    makeConst v = none ↔ ¬ (-(2 ^ 63 : Int) ≤ v ∧ v < (2 ^ 64 : Int)) := by
  unfold makeConst
  simp only [inIntDomain, Bool.false_eq_true, ↓reduceIte, decide_eq_true_eq]
  repeat' split
  all_goals (simp only [Nat.reduceMul, Nat.reduceSub, Int.reducePow, Int.reduceNeg, reduceCtorEq,
    false_iff, true_iff, Classical.not_not] at *; try omega)

end GtirbVerif.Dwarf

namespace GtirbVerif.Dwarf

set_option maxRecDepth 8192 in
set_option maxHeartbeats 1600000 in
/-- **`make_const_op` returns a shortest available form**: no constant-pushing
operation class whose operand range contains `v` encodes in fewer bytes. -/
theorem makeConst_minimal (v : Int) (k k' : ConstKind) (h : makeConst v = some k)
    (hv' : validateInt k'.enc none v = true) : k.size v ≤ k'.size v := by
  have hu0 := ulebEnc_length_le v.toNat 0
  have hu1 := ulebEnc_length_le v.toNat 1
  have hu2 := ulebEnc_length_le v.toNat 2
  have hu3 := ulebEnc_length_le v.toNat 3
  have hu4 := ulebEnc_length_le v.toNat 4
  have hu5 := ulebEnc_length_le v.toNat 5
  have hu6 := ulebEnc_length_le v.toNat 6
  have hu7 := ulebEnc_length_le v.toNat 7
  have hu8 := ulebEnc_length_le v.toNat 8
  have hs0 := slebEnc_length_le v 0
  have hs1 := slebEnc_length_le v 1
  have hs2 := slebEnc_length_le v 2
  have hs3 := slebEnc_length_le v 3
  have hs4 := slebEnc_length_le v 4
  have hs5 := slebEnc_length_le v 5
  have hs6 := slebEnc_length_le v 6
  have hs7 := slebEnc_length_le v 7
  have hs8 := slebEnc_length_le v 8
  have hup := ulebEnc_length_pos v.toNat
  have hsp := slebEnc_length_pos v
  simp only [Nat.reducePow, Nat.reduceAdd, Nat.reduceMul, Int.reduceMul,
    Int.reduceNeg] at hu0 hu1 hu2 hu3 hu4 hu5 hu6 hu7 hu8 hs0 hs1 hs2 hs3 hs4 hs5 hs6 hs7 hs8
  generalize hlu : (ulebEnc v.toNat).length = lu at *
  generalize hls : (slebEnc v).length = ls at *
  unfold makeConst at h
  simp only [inIntDomain, Bool.false_eq_true, ↓reduceIte, decide_eq_true_eq, Nat.reduceMul,
    Nat.reduceSub, Int.reducePow, Int.reduceNeg] at h
  cases k' <;>
    simp only [ConstKind.enc, validateInt, inIntDomain, Bool.false_eq_true, ↓reduceIte,
      decide_eq_true_eq, Bool.and_true, Nat.reduceMul, Nat.reduceSub, Int.reducePow,
      Int.reduceNeg, Int.reduceMul] at hv' <;>
    (repeat' split at h) <;>
    first
      | (cases h; simp only [ConstKind.size, hlu, hls]; omega)
      | cases h

end GtirbVerif.Dwarf
