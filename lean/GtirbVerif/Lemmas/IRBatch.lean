import GtirbVerif.Lemmas.IRNext
import GtirbVerif.Lemmas.IRBytes
import GtirbVerif.Lemmas.Splice
import GtirbVerif.Model.IR.Batch

/-!
# The loop of `_apply_modifications` splices bytes like the listing

`IR.insert` and `IR.delete` are splices at `block.offset + offset` of the block they are
given (Lemmas/IRBytes.lean).  The loop applies request after request to the block the
*previous* request returned, at an offset corrected by how far that block starts behind
the original one.  This file proves that the correction is right for whatever block comes
back, as long as it lies in the same byte interval - and that it always does:

* `Keeps a b`: every block of `a` is still in the table of `b`, in the same interval or
  detached; every step of the model is of this kind except the placement of the patch's own
  blocks;
* `In i ir c`: `c` names a block that is in interval `i` or detached.  The blocks handed to
  `_cleanup_modified_blocks` are all `In i`, the clean-up keeps that, and the block it
  returns is one of them.  The next request can only succeed on a block that is attached, so
  it edits interval `i` again;
* `IdsBelow`: the ids of the block table stay below the id counter, so the blocks created by
  `split_block` are new.
-/
namespace GtirbVerif.IR
open GtirbVerif.Adt (CfgNode Label Edge)
open GtirbVerif.Listing GtirbVerif.Batch

/-! ### lookups in the block table -/

/-- `c` names a block in interval `i`, or a detached one -/
def In (i : Nat) (ir : IR) (c : Nat) : Prop :=
  ∃ blk, ir.block? c = some blk ∧ (blk.bi = some i ∨ blk.bi = none)

/-- `c` names no block of another interval (it need not name a block at all) -/
def Stays (i : Nat) (ir : IR) (c : Nat) : Prop :=
  ∀ blk, ir.block? c = some blk → blk.bi = some i ∨ blk.bi = none

theorem In.stays {i : Nat} {ir : IR} {c : Nat} (h : In i ir c) : Stays i ir c := by
  obtain ⟨blk, hb, hi⟩ := h
  intro blk' hb'
  rw [hb] at hb'; injection hb' with hb'; subst hb'; exact hi

/-- every block of `a` is still a block of `b`, in its interval or detached -/
def Keeps (a b : IR) : Prop :=
  ∀ c blk, a.block? c = some blk → ∃ blk', b.block? c = some blk' ∧ (blk'.bi = blk.bi ∨ blk'.bi = none)

/-- … and every block of `b` was one of `a` or is a new one in interval `i` (or detached) -/
def Grows (i : Nat) (a b : IR) : Prop :=
  ∀ c blk', b.block? c = some blk' →
    (∃ blk, a.block? c = some blk ∧ (blk'.bi = blk.bi ∨ blk'.bi = none)) ∨
    (a.block? c = none ∧ (blk'.bi = some i ∨ blk'.bi = none))

theorem Keeps.refl (a : IR) : Keeps a a := fun _ blk h => ⟨blk, h, Or.inl rfl⟩

theorem Keeps.trans {a b c : IR} (h1 : Keeps a b) (h2 : Keeps b c) : Keeps a c := by
  intro k blk hk
  obtain ⟨b1, hb1, hi1⟩ := h1 k blk hk
  obtain ⟨b2, hb2, hi2⟩ := h2 k b1 hb1
  refine ⟨b2, hb2, ?_⟩
  rcases hi2 with hi2 | hi2
  · rcases hi1 with hi1 | hi1
    · exact Or.inl (hi2.trans hi1)
    · exact Or.inr (hi2.trans hi1)
  · exact Or.inr hi2

theorem Keeps.of_blocks {a b : IR} (h : b.blocks = a.blocks) : Keeps a b := by
  intro c blk hc
  exact ⟨blk, by unfold IR.block? at *; rw [h]; exact hc, Or.inl rfl⟩

theorem Keeps.in {i : Nat} {a b : IR} {c : Nat} (h : Keeps a b) (hc : In i a c) : In i b c := by
  obtain ⟨blk, hb, hi⟩ := hc
  obtain ⟨blk', hb', hi'⟩ := h c blk hb
  refine ⟨blk', hb', ?_⟩
  rcases hi' with hi' | hi'
  · rw [hi']; exact hi
  · exact Or.inr hi'

theorem Grows.refl (i : Nat) (a : IR) : Grows i a a := fun _ blk h => Or.inl ⟨blk, h, Or.inl rfl⟩

theorem Grows.of_blocks {i : Nat} {a b : IR} (h : b.blocks = a.blocks) : Grows i a b := by
  intro c blk hc
  exact Or.inl ⟨blk, by unfold IR.block? at *; rw [← h]; exact hc, Or.inl rfl⟩

theorem Grows.trans {i : Nat} {a b c : IR} (k1 : Keeps a b) (h1 : Grows i a b) (h2 : Grows i b c) : Grows i a c := by
  intro k blk hk
  rcases h2 k blk hk with ⟨b1, hb1, hi1⟩ | ⟨hn, hi⟩
  · rcases h1 k b1 hb1 with ⟨b0, hb0, hi0⟩ | ⟨hn0, hi0⟩
    · left
      refine ⟨b0, hb0, ?_⟩
      rcases hi1 with hi1 | hi1
      · rcases hi0 with hi0 | hi0
        · exact Or.inl (hi1.trans hi0)
        · exact Or.inr (hi1.trans hi0)
      · exact Or.inr hi1
    · right
      refine ⟨hn0, ?_⟩
      rcases hi1 with hi1 | hi1
      · rw [hi1]; exact hi0
      · exact Or.inr hi1
  · right
    refine ⟨?_, hi⟩
    cases ha : a.block? k with
    | none => rfl
    | some b0 =>
      obtain ⟨b1, hb1, _⟩ := k1 k b0 ha
      rw [hn] at hb1; cases hb1

theorem Grows.stays {i : Nat} {a b : IR} {c : Nat} (h : Grows i a b) (hc : Stays i a c) : Stays i b c := by
  intro blk' hb'
  rcases h c blk' hb' with ⟨blk, hb, hi⟩ | ⟨_, hi⟩
  · rcases hi with hi | hi
    · rw [hi]; exact hc blk hb
    · exact Or.inr hi
  · exact hi

/-- lookups after replacing the block `nb.id` by `nb` -/
theorem block?_setBlock (ir : IR) (nb old : Block) (h : ir.block? nb.id = some old) (c : Nat) :
    (ir.setBlock nb).block? c = if c = nb.id then some nb else ir.block? c := by
  by_cases hc : c = nb.id
  · subst hc; simp only [if_true]
    exact block?_setBlock_same ir nb.id old nb h rfl
  · simp only [hc, if_false]
    exact block?_setBlock_other ir nb.id c nb rfl hc

theorem setBlock_keeps (ir : IR) (nb old : Block) (h : ir.block? nb.id = some old)
    (hbi : nb.bi = old.bi ∨ nb.bi = none) : Keeps ir (ir.setBlock nb) := by
  intro c blk hc
  rw [block?_setBlock ir nb old h c]
  by_cases hcn : c = nb.id
  · subst hcn
    simp only [if_true]
    rw [h] at hc; injection hc with hc; subst hc
    exact ⟨nb, rfl, hbi⟩
  · simp only [hcn, if_false]
    exact ⟨blk, hc, Or.inl rfl⟩

theorem setBlock_grows (i : Nat) (ir : IR) (nb old : Block) (h : ir.block? nb.id = some old)
    (hbi : nb.bi = old.bi ∨ nb.bi = none) : Grows i ir (ir.setBlock nb) := by
  intro c blk' hc
  rw [block?_setBlock ir nb old h c] at hc
  by_cases hcn : c = nb.id
  · subst hcn
    simp only [if_true] at hc
    injection hc with hc; subst hc
    exact Or.inl ⟨old, h, hbi⟩
  · simp only [hcn, if_false] at hc
    exact Or.inl ⟨blk', hc, Or.inl rfl⟩

/-- lookups after mapping the table with a function that keeps ids -/
theorem find_map_id (f : Block → Block) (hid : ∀ x, (f x).id = x.id) (l : List Block) (c : Nat) :
    (l.map f).find? (·.id == c) = (l.find? (·.id == c)).map f := by
  induction l with
  | nil => rfl
  | cons x xs ih =>
    simp only [List.map_cons, List.find?_cons, hid]
    split
    · rfl
    · exact ih

theorem map_keeps (ir ir' : IR) (f : Block → Block) (hid : ∀ x, (f x).id = x.id)
    (hbi : ∀ x, (f x).bi = x.bi ∨ (f x).bi = none)
    (h : ir'.blocks = ir.blocks.map f) : Keeps ir ir' := by
  intro c blk hc
  refine ⟨f blk, ?_, hbi blk⟩
  unfold IR.block? at *
  rw [h, find_map_id f hid, hc]; rfl

theorem map_grows (i : Nat) (ir ir' : IR) (f : Block → Block) (hid : ∀ x, (f x).id = x.id)
    (hbi : ∀ x, (f x).bi = x.bi ∨ (f x).bi = none)
    (h : ir'.blocks = ir.blocks.map f) : Grows i ir ir' := by
  intro c blk' hc
  unfold IR.block? at *
  rw [h, find_map_id f hid] at hc
  cases hf : List.find? (fun x => x.id == c) ir.blocks with
  | none => rw [hf] at hc; cases hc
  | some blk =>
    rw [hf] at hc
    simp only [Option.map_some] at hc
    injection hc with hc; subst hc
    exact Or.inl ⟨blk, rfl, hbi blk⟩

/-- lookups after appending blocks to the table -/
theorem find_append (l extra : List Block) (c : Nat) :
    (l ++ extra).find? (·.id == c) =
      match l.find? (·.id == c) with
      | some b => some b
      | none => extra.find? (·.id == c) := by
  rw [List.find?_append]
  cases l.find? (·.id == c) <;> rfl

theorem append_keeps (ir ir' : IR) (extra : List Block) (h : ir'.blocks = ir.blocks ++ extra) : Keeps ir ir' := by
  intro c blk hc
  refine ⟨blk, ?_, Or.inl rfl⟩
  unfold IR.block? at *
  rw [h, find_append, hc]

theorem append_grows (i : Nat) (ir ir' : IR) (extra : List Block) (h : ir'.blocks = ir.blocks ++ extra)
    (hx : ∀ x ∈ extra, x.bi = some i ∨ x.bi = none) : Grows i ir ir' := by
  intro c blk' hc
  unfold IR.block? at *
  rw [h, find_append] at hc
  cases hf : List.find? (fun x => x.id == c) ir.blocks with
  | some blk =>
    rw [hf] at hc
    injection hc with hc; subst hc
    exact Or.inl ⟨blk, rfl, Or.inl rfl⟩
  | none =>
    rw [hf] at hc
    exact Or.inr ⟨rfl, hx _ (List.mem_of_find?_eq_some hc)⟩

/-! ### ids below the counter -/

/-- all block ids in use are below the counter new ids are taken from -/
def IdsBelow (ir : IR) : Prop := ∀ k ∈ ir.ids, k < ir.next

theorem IdsBelow.fresh {ir : IR} (h : IdsBelow ir) {k : Nat} (hk : ir.next ≤ k) : ir.block? k = none := by
  unfold IR.block?
  cases hf : ir.blocks.find? (·.id == k) with
  | none => rfl
  | some b =>
    have hm := List.mem_of_find?_eq_some hf
    have hid : b.id = k := findB_id hf
    have := h b.id (List.mem_map_of_mem hm)
    omega

theorem IdsBelow.mono {a b : IR} (h : IdsBelow a) (hi : b.ids = a.ids) (hn : a.next ≤ b.next) : IdsBelow b := by
  intro k hk
  rw [hi] at hk
  exact Nat.lt_of_lt_of_le (h k hk) hn

theorem ids_of_blocks {a b : IR} (h : b.blocks = a.blocks) : b.ids = a.ids := by unfold IR.ids; rw [h]

theorem ids_map (ir ir' : IR) (f : Block → Block) (hid : ∀ x, (f x).id = x.id) (h : ir'.blocks = ir.blocks.map f) :
    ir'.ids = ir.ids := by
  unfold IR.ids
  rw [h, List.map_map]
  apply List.map_congr_left
  intro x _
  exact hid x

theorem setBlock_ids (ir : IR) (nb : Block) : (ir.setBlock nb).ids = ir.ids := by
  apply ids_map ir _ (fun x => if x.id == nb.id then nb else x) _ rfl
  intro x
  by_cases hx : x.id = nb.id
  · simp [hx]
  · have : (x.id == nb.id) = false := by simp [hx]
    simp [this]

theorem IdsBelow.append {a b : IR} (h : IdsBelow a) (extra : List Nat) (hi : b.ids = a.ids ++ extra)
    (hn : a.next ≤ b.next) (hx : ∀ k ∈ extra, k < b.next) : IdsBelow b := by
  intro k hk
  rw [hi] at hk
  rcases List.mem_append.mp hk with hk | hk
  · exact Nat.lt_of_lt_of_le (h k hk) hn
  · exact hx k hk

/-! ### split_block -/

theorem splitBlock_blocks {ir ir' : IR} {b off nb : Nat} {added : Bool} {blk : Block}
    (h : ir.splitBlock b off = .ok (ir', nb, added)) (hb : ir.block? b = some blk) :
    nb = ir.next ∧ ir'.blocks = (ir.setBlock { blk with size := off }).blocks ++
      [{ id := ir.next, isCode := blk.isCode, bi := blk.bi, off := blk.off + off, size := blk.size - off }] := by
  obtain ⟨h1, _, _, h4⟩ := splitBlock_core h hb
  subst h1
  exact ⟨rfl, h4⟩

theorem splitBlock_keeps {ir ir' : IR} {b off nb : Nat} {added : Bool}
    (h : ir.splitBlock b off = .ok (ir', nb, added)) : Keeps ir ir' := by
  cases hb : ir.block? b with
  | none => unfold IR.splitBlock at h; rw [hb] at h; cases h
  | some blk =>
    have hid : blk.id = b := findB_id hb
    obtain ⟨_, hbl⟩ := splitBlock_blocks h hb
    refine Keeps.trans (setBlock_keeps ir { blk with size := off } blk (by simpa [hid] using hb) (Or.inl rfl)) ?_
    exact append_keeps _ _ _ hbl

theorem splitBlock_grows {i : Nat} {ir ir' : IR} {b off nb : Nat} {added : Bool}
    (h : ir.splitBlock b off = .ok (ir', nb, added)) (hin : In i ir b) : Grows i ir ir' := by
  obtain ⟨blk, hb, hi⟩ := hin
  have hid : blk.id = b := findB_id hb
  obtain ⟨_, hbl⟩ := splitBlock_blocks h hb
  have hsb : ir.block? ({ blk with size := off } : Block).id = some blk := by simpa [hid] using hb
  refine Grows.trans (setBlock_keeps ir { blk with size := off } blk hsb (Or.inl rfl))
    (setBlock_grows i ir { blk with size := off } blk hsb (Or.inl rfl)) ?_
  apply append_grows i _ _ _ hbl
  intro x hx
  simp only [List.mem_singleton] at hx
  subst hx
  exact hi

theorem splitBlock_ids {ir ir' : IR} {b off nb : Nat} {added : Bool}
    (h : ir.splitBlock b off = .ok (ir', nb, added)) : ir'.ids = ir.ids ++ [ir.next] := by
  cases hb : ir.block? b with
  | none => unfold IR.splitBlock at h; rw [hb] at h; cases h
  | some blk =>
    obtain ⟨_, hbl⟩ := splitBlock_blocks h hb
    unfold IR.ids
    rw [hbl, List.map_append]
    have := setBlock_ids ir { blk with size := off }
    unfold IR.ids at this
    rw [this]; rfl

theorem splitBlock_idsBelow {ir ir' : IR} {b off nb : Nat} {added : Bool}
    (h : ir.splitBlock b off = .ok (ir', nb, added)) (hI : IdsBelow ir) : IdsBelow ir' := by
  apply hI.append [ir.next] (splitBlock_ids h)
  · rw [splitBlock_next h]; omega
  · intro k hk
    simp only [List.mem_singleton] at hk
    rw [splitBlock_next h]; omega

/-- the block `split_block` creates lies in the interval of the block it splits -/
theorem splitBlock_new_in {i : Nat} {ir ir' : IR} {b off nb : Nat} {added : Bool}
    (h : ir.splitBlock b off = .ok (ir', nb, added)) (hin : In i ir b) (hI : IdsBelow ir) : In i ir' nb := by
  obtain ⟨blk, hb, hi⟩ := hin
  obtain ⟨hnb, hbl⟩ := splitBlock_blocks h hb
  subst hnb
  have hfresh : ir.block? ir.next = none := hI.fresh (Nat.le_refl _)
  have hid : blk.id = b := findB_id hb
  have hne : ir.next ≠ b := by intro he; rw [he] at hfresh; rw [hfresh] at hb; cases hb
  refine ⟨{ id := ir.next, isCode := blk.isCode, bi := blk.bi, off := blk.off + off, size := blk.size - off }, ?_, hi⟩
  unfold IR.block?
  rw [hbl, find_append]
  have : (ir.setBlock { blk with size := off }).block? ir.next = none := by
    rw [block?_setBlock_other ir b ir.next { blk with size := off } hid hne]; exact hfresh
  unfold IR.block? at this
  rw [this]
  simp

/-! ### detaching or resizing one block -/

theorem setBlock_keeps_none (ir : IR) (nb : Block) (hbi : nb.bi = none) : Keeps ir (ir.setBlock nb) := by
  apply map_keeps ir _ (fun x => if x.id == nb.id then nb else x) _ _ rfl
  · intro x
    by_cases hx : x.id = nb.id
    · simp [hx]
    · have : (x.id == nb.id) = false := by simp [hx]
      simp [this]
  · intro x
    by_cases hx : x.id = nb.id
    · right; simp [hx, hbi]
    · have : (x.id == nb.id) = false := by simp [hx]
      left; simp [this]

/-- a step that writes the block table only by resizing or detaching the block `c` -/
def Touches (a b : IR) : Prop := Keeps a b ∧ (∀ i, Grows i a b) ∧ b.ids = a.ids ∧ a.next ≤ b.next

theorem Touches.refl (a : IR) : Touches a a := ⟨Keeps.refl a, fun i => Grows.refl i a, rfl, Nat.le_refl _⟩

theorem Touches.trans {a b c : IR} (h1 : Touches a b) (h2 : Touches b c) : Touches a c :=
  ⟨h1.1.trans h2.1, fun i => Grows.trans h1.1 (h1.2.1 i) (h2.2.1 i), h2.2.2.1.trans h1.2.2.1,
    Nat.le_trans h1.2.2.2 h2.2.2.2⟩

theorem Touches.of_blocks {a b : IR} (h : b.blocks = a.blocks) (hn : a.next ≤ b.next) : Touches a b :=
  ⟨Keeps.of_blocks h, fun _ => Grows.of_blocks h, ids_of_blocks h, hn⟩

theorem Touches.idsBelow {a b : IR} (h : Touches a b) (hI : IdsBelow a) : IdsBelow b :=
  hI.mono h.2.2.1 h.2.2.2

theorem setBlock_touches (ir : IR) (nb old : Block) (h : ir.block? nb.id = some old)
    (hbi : nb.bi = old.bi ∨ nb.bi = none) : Touches ir (ir.setBlock nb) :=
  ⟨setBlock_keeps ir nb old h hbi, fun i => setBlock_grows i ir nb old h hbi, setBlock_ids ir nb, Nat.le_refl _⟩

theorem joinBlocks_touches {ir ir' : IR} {id1 id2 : Nat} (h : ir.joinBlocks id1 id2 = .ok ir') : Touches ir ir' := by
  cases h1 : ir.block? id1 with
  | none => unfold IR.joinBlocks at h; rw [h1] at h; cases h
  | some b1 =>
    cases h2 : ir.block? id2 with
    | none => unfold IR.joinBlocks at h; rw [h1, h2] at h; cases h
    | some b2 =>
      obtain ⟨_, _, hbl⟩ := joinBlocks_core h h1 h2
      have hid1 : b1.id = id1 := findB_id h1
      have hid2 : b2.id = id2 := findB_id h2
      have t1 := setBlock_touches ir { b1 with size := b1.size + b2.size } b1 (by simpa [hid1] using h1) (Or.inl rfl)
      -- the absorbed block is still in the table (possibly it is the very block just resized)
      have hex : ∃ old, (ir.setBlock { b1 with size := b1.size + b2.size }).block? ({ b2 with bi := none } : Block).id = some old := by
        rw [block?_setBlock ir { b1 with size := b1.size + b2.size } b1 (by simpa [hid1] using h1)]
        by_cases he : ({ b2 with bi := none } : Block).id = ({ b1 with size := b1.size + b2.size } : Block).id
        · exact ⟨_, if_pos he⟩
        · exact ⟨b2, by rw [if_neg he]; simpa [hid2] using h2⟩
      obtain ⟨old, hold⟩ := hex
      have t2 := setBlock_touches (ir.setBlock { b1 with size := b1.size + b2.size }) { b2 with bi := none } old hold (Or.inr rfl)
      have t3 : Touches ((ir.setBlock { b1 with size := b1.size + b2.size }).setBlock { b2 with bi := none }) ir' :=
        Touches.of_blocks hbl (by rw [joinBlocks_next h]; exact Nat.le_refl _)
      exact (t1.trans t2).trans t3

theorem removeStages_blocks (ir : IR) (blk : Block) (t c : Bool) (px p n : Option Nat) :
    (ir.removeStages blk t c px p n).blocks = ir.blocks := by
  unfold IR.removeStages
  have h : ∀ x : IR, (((x.removeOutEdges blk).removeAuxEntries blk).removeCfi blk.id (ir.requiredCfi blk) p n
      (ir.isCodeBlockId p) (ir.isCodeBlockId n)).blocks = x.blocks := by
    intro x
    show ((x.removeOutEdges blk).removeAuxEntries blk).blocks = _
    show (x.removeOutEdges blk).blocks = _
    exact core_blocks (removeOutEdges_core _ _)
  simp only [h]
  split
  · have he : ∀ (x : IR) (a : Option Nat) (b : Bool), (x.removeEntrypoints blk a b).blocks = x.blocks := by
      intro x a b
      unfold IR.removeEntrypoints
      simp only []
      split <;> split <;> split <;> split <;> rfl
    rw [he, core_blocks (removeFunctions_core _ _ _ _), core_blocks (removeInEdges_core _ _ _ _ _)]
    rfl
  · rfl

theorem touches_setBlock {ir x : IR} {blk nb : Block} (hx : x.blocks = ir.blocks) (hn : ir.next ≤ x.next)
    (hb : ir.block? nb.id = some blk) (hbi : nb.bi = blk.bi ∨ nb.bi = none) : Touches ir (x.setBlock nb) := by
  refine (Touches.of_blocks hx hn).trans (setBlock_touches x nb blk ?_ hbi)
  unfold IR.block? at hb ⊢
  rw [hx]; exact hb

theorem removeBlock_touches {ir ir' : IR} {b : Nat} {px r : Bool}
    (h : ir.removeBlock b px = .ok (ir', r)) : Touches ir ir' := by
  cases hb : ir.block? b with
  | none => unfold IR.removeBlock at h; rw [hb] at h; cases h
  | some blk =>
    have hid : blk.id = b := findB_id hb
    have hst : ∀ (c : Bool) (sect : Nat), (((ir.withProxy px).removeStages blk px c (if px then some ir.next else none)
        (ir.adjacent blk).1 (ir.adjacent blk).2).orderRemove sect blk.id).blocks = ir.blocks := by
      intro c sect
      show (IR.removeStages _ _ _ _ _ _ _).blocks = _
      rw [removeStages_blocks]; exact core_blocks (withProxy_core _ _)
    have hsn : ∀ (c : Bool), ir.next ≤ ((ir.withProxy px).removeStages blk px c (if px then some ir.next else none)
        (ir.adjacent blk).1 (ir.adjacent blk).2).next :=
      fun c => Nat.le_trans (withProxy_next_le _ _) (removeStages_next_le _ _ _ _ _ _ _)
    unfold IR.removeBlock at h
    rw [hb] at h
    simp only [] at h
    split at h
    · cases h
    · rename_i sect hsect
      split at h
      · -- the block left the module: detached
        injection h with h; injection h with h1 h2; subst h1
        exact touches_setBlock (blk := blk) (nb := { blk with bi := none }) (hst _ sect) (hsn _) (by simpa [hid] using hb) (Or.inr rfl)
      · -- the block has to stay: emptied
        injection h with h; injection h with h1 h2; subst h1
        have hst2 : ((ir.withProxy px).removeStages blk px
            ((ir.withProxy px).canRemove blk px (ir.adjacent blk).1 (ir.adjacent blk).2 ((ir.withProxy px).requiredCfi blk))
            (if px then some ir.next else none) (ir.adjacent blk).1 (ir.adjacent blk).2).blocks = ir.blocks := by
          rw [removeStages_blocks]; exact core_blocks (withProxy_core _ _)
        have t1 := touches_setBlock (blk := blk) (nb := { blk with size := 0 }) hst2
          (hsn _) (by simpa [hid] using hb) (Or.inl rfl)
        refine t1.trans (Touches.of_blocks ?_ ?_)
        · unfold IR.keepEmpty; simp only []; split <;> rfl
        · exact keepEmpty_next_le ((ir.withProxy px).removeStages blk px
            ((ir.withProxy px).canRemove blk px (ir.adjacent blk).1 (ir.adjacent blk).2 ((ir.withProxy px).requiredCfi blk))
            (if px then some ir.next else none) (ir.adjacent blk).1 (ir.adjacent blk).2) blk

theorem connectEmptyTail_touches (ir : IR) (t : Nat) : Touches ir (ir.connectEmptyTail t) :=
  Touches.of_blocks (core_blocks (connectEmptyTail_core _ _)) (by rw [connectEmptyTail_next]; exact Nat.le_refl _)

theorem editInterval_touches (ir : IR) (i off len : Nat) (c st : List Nat) : Touches ir (ir.editInterval i off len c st) := by
  unfold IR.editInterval
  split
  · exact Touches.refl _
  · rename_i bi hbi
    let f : Block → Block := fun b =>
      if b.bi == some i && decide (b.off ≥ off) && !st.contains b.id
      then { b with off := b.off + c.length - len } else b
    have hid : ∀ x, (f x).id = x.id := by intro x; simp only [f]; split <;> rfl
    have hbi' : ∀ x, (f x).bi = x.bi ∨ (f x).bi = none := by intro x; left; simp only [f]; split <;> rfl
    exact ⟨map_keeps _ _ f hid hbi' rfl, fun j => map_grows j _ _ f hid hbi' rfl, ids_map _ _ f hid rfl, Nat.le_refl _⟩

/-! ### _cleanup_modified_blocks: joins and removals only, and the block it returns is one it was given -/

theorem cleanupPass_facts : ∀ (rest : List Nat) (ir ir' : IR) (pred : Nat) (done : List Nat) (r : Option (List Nat)),
    ir.cleanupPass pred rest done = .ok (ir', r) →
    Touches ir ir' ∧ ∀ bl', r = some bl' → ∀ c ∈ bl', c ∈ done ++ [pred] ++ rest := by
  intro rest
  induction rest with
  | nil =>
    intro ir ir' pred done r h
    unfold IR.cleanupPass at h
    injection h with h; injection h with h1 h2; subst h1; subst h2
    exact ⟨Touches.refl _, fun _ hr => by cases hr⟩
  | cons b rest ih =>
    intro ir ir' pred done r h
    unfold IR.cleanupPass at h
    split at h
    · rename_i i2 hj
      injection h with h; injection h with h1 h2; subst h1; subst h2
      refine ⟨joinBlocks_touches hj, ?_⟩
      intro bl' hr c hc
      injection hr with hr; subst hr
      simp only [List.mem_append, List.mem_cons, List.mem_singleton, List.not_mem_nil, or_false] at hc ⊢
      rcases hc with (hc | hc) | hc
      · exact Or.inl (Or.inl hc)
      · exact Or.inl (Or.inr hc)
      · exact Or.inr (Or.inr hc)
    · split at h
      · split at h
        · cases h
        · rename_i i2 hr
          injection h with h; injection h with h1 h2; subst h1; subst h2
          refine ⟨removeBlock_touches hr, ?_⟩
          intro bl' hr c hc
          injection hr with hr; subst hr
          simp only [List.mem_append, List.mem_cons, List.mem_singleton, List.not_mem_nil, or_false] at hc ⊢
          rcases hc with (hc | hc) | hc
          · exact Or.inl (Or.inl hc)
          · exact Or.inl (Or.inr hc)
          · exact Or.inr (Or.inr hc)
        · rename_i i2 hr
          obtain ⟨t, hsub⟩ := ih _ _ _ _ _ h
          refine ⟨(removeBlock_touches hr).trans t, ?_⟩
          intro bl' hr' c hc
          have := hsub bl' hr' c hc
          simp only [List.mem_append, List.mem_cons, List.mem_singleton, List.not_mem_nil, or_false] at this ⊢
          rcases this with ((hc | hc) | hc) | hc
          · exact Or.inl (Or.inl hc)
          · exact Or.inl (Or.inr hc)
          · exact Or.inr (Or.inl hc)
          · exact Or.inr (Or.inr hc)
      · obtain ⟨t, hsub⟩ := ih _ _ _ _ _ h
        refine ⟨t, ?_⟩
        intro bl' hr' c hc
        have := hsub bl' hr' c hc
        simp only [List.mem_append, List.mem_cons, List.mem_singleton, List.not_mem_nil, or_false] at this ⊢
        rcases this with ((hc | hc) | hc) | hc
        · exact Or.inl (Or.inl hc)
        · exact Or.inl (Or.inr hc)
        · exact Or.inr (Or.inl hc)
        · exact Or.inr (Or.inr hc)
    · cases h

theorem cleanupLoop_facts : ∀ (fuel : Nat) (ir ir' : IR) (bl bl' : List Nat),
    ir.cleanupLoop fuel bl = .ok (ir', bl') → Touches ir ir' ∧ ∀ c ∈ bl', c ∈ bl := by
  intro fuel
  induction fuel with
  | zero =>
    intro ir ir' bl bl' h
    unfold IR.cleanupLoop at h
    injection h with h; injection h with h1 h2; subst h1; subst h2
    exact ⟨Touches.refl _, fun _ hc => hc⟩
  | succ n ih =>
    intro ir ir' bl bl' h
    unfold IR.cleanupLoop at h
    split at h
    · injection h with h; injection h with h1 h2; subst h1; subst h2
      exact ⟨Touches.refl _, fun _ hc => hc⟩
    · rename_i b0 rest
      split at h
      · cases h
      · rename_i i2 hp
        injection h with h; injection h with h1 h2; subst h1; subst h2
        exact ⟨(cleanupPass_facts _ _ _ _ _ _ hp).1, fun _ hc => hc⟩
      · rename_i i2 bl2 hp
        obtain ⟨t1, hsub1⟩ := cleanupPass_facts _ _ _ _ _ _ hp
        obtain ⟨t2, hsub2⟩ := ih _ _ _ _ h
        refine ⟨t1.trans t2, ?_⟩
        intro c hc
        have := hsub1 bl2 rfl c (hsub2 c hc)
        simpa using this

theorem cleanupFirst_facts {ir ir' : IR} {bl bl' : List Nat}
    (h : ir.cleanupFirst bl = .ok (ir', bl')) : Touches ir ir' ∧ ∀ c ∈ bl', c ∈ bl := by
  unfold IR.cleanupFirst at h
  split at h
  · injection h with h; injection h with h1 h2; subst h1; subst h2
    exact ⟨Touches.refl _, fun _ hc => hc⟩
  · split at h
    · split at h
      · cases h
      · rename_i hr
        injection h with h; injection h with h1 h2; subst h1; subst h2
        exact ⟨removeBlock_touches hr, fun _ hc => List.mem_cons_of_mem _ hc⟩
      · rename_i hr
        injection h with h; injection h with h1 h2; subst h1; subst h2
        exact ⟨removeBlock_touches hr, fun _ hc => hc⟩
    · injection h with h; injection h with h1 h2; subst h1; subst h2
      exact ⟨Touches.refl _, fun _ hc => hc⟩

theorem cleanup_facts {ir ir' : IR} {bl : List Nat} {last : Nat}
    (h : ir.cleanup bl = .ok (ir', last)) : Touches ir ir' ∧ last ∈ bl := by
  unfold IR.cleanup at h
  split at h
  · cases h
  · split at h
    · cases h
    · rename_i ir1 bl1 hl
      split at h
      · cases h
      · rename_i ir2 bl2 hf
        split at h
        · split at h
          · rename_i l hl'
            injection h with h; injection h with h1 h2; subst h1; subst h2
            obtain ⟨t1, s1⟩ := cleanupLoop_facts _ _ _ _ _ hl
            obtain ⟨t2, s2⟩ := cleanupFirst_facts hf
            exact ⟨t1.trans t2, s1 _ (s2 _ (List.mem_of_getLast? hl'))⟩
          · cases h
        · cases h

/-- **the block `_cleanup_modified_blocks` returns lies in the interval of the blocks it was
given** (or is detached - then the next request on it fails) -/
theorem cleanup_in {i : Nat} {ir ir' : IR} {bl : List Nat} {last : Nat}
    (h : ir.cleanup bl = .ok (ir', last)) (hin : ∀ c ∈ bl, In i ir c) : In i ir' last := by
  obtain ⟨t, hm⟩ := cleanup_facts h
  exact t.1.in (hin _ hm)

/-! ### delete -/

/-- **`delete` returns a block of the interval it edited** (or no block), and keeps the ids
below the counter -/
theorem delete_facts {i : Nat} {ir ir' : IR} {b off len : Nat} {px : Bool} {r : Option Nat}
    (h : ir.delete b off len px = .ok (ir', r)) (hin : In i ir b) (hI : IdsBelow ir) :
    IdsBelow ir' ∧ ∀ last, r = some last → In i ir' last := by
  unfold IR.delete at h
  split at h
  · cases h
  · rename_i blk hb
    split at h
    · cases h
    · split at h
      · cases h
      · rename_i biId hbi
        split at h
        · -- nothing to delete
          injection h with h; injection h with h1 h2; subst h1; subst h2
          exact ⟨hI, fun last hl => by injection hl with hl; subst hl; exact hin⟩
        · split at h
          · -- part of the block
            split at h
            · cases h
            · rename_i ir1 e1 a1 hs1
              split at h
              · cases h
              · rename_i ir2 e2 a2 hs2
                simp only [] at h
                split at h
                · cases h
                · rename_i ir3 d3 hr3
                  split at h
                  · cases h
                  · rename_i ir5 last hc
                    injection h with h; injection h with h1 h2; subst h1; subst h2
                    have hI1 := splitBlock_idsBelow hs1 hI
                    have hin1b : In i ir1 b := (splitBlock_keeps hs1).in hin
                    have hin1e : In i ir1 e1 := splitBlock_new_in hs1 hin hI
                    have hI2 := splitBlock_idsBelow hs2 hI1
                    have hin2b : In i ir2 b := (splitBlock_keeps hs2).in hin1b
                    have hin2e : In i ir2 e2 := splitBlock_new_in hs2 hin1e hI1
                    have t : Touches ir2 (ir3.editInterval biId (blk.off + off) len [] [b]) :=
                      ((connectEmptyTail_touches ir2 e2).trans (removeBlock_touches hr3)).trans
                        (editInterval_touches _ _ _ _ _ _)
                    obtain ⟨tc, _⟩ := cleanup_facts hc
                    refine ⟨(t.trans tc).idsBelow hI2, ?_⟩
                    intro l hl
                    injection hl with hl; subst hl
                    apply cleanup_in hc
                    intro c hcm
                    simp only [List.mem_cons, List.mem_singleton, List.not_mem_nil, or_false] at hcm
                    rcases hcm with hcm | hcm
                    · subst hcm; exact t.1.in hin2b
                    · subst hcm; exact t.1.in hin2e
          · -- the whole block
            split at h
            · cases h
            · rename_i ir1 deleted hr1
              have t1 : Touches ir (ir1.editInterval biId (blk.off + off) len [] [b]) :=
                (removeBlock_touches hr1).trans (editInterval_touches _ _ _ _ _ _)
              simp only [] at h
              split at h
              · split at h
                · cases h
                · rename_i ir3 d3 hr3
                  injection h with h; injection h with h1 h2; subst h1; subst h2
                  exact ⟨(t1.trans (removeBlock_touches hr3)).idsBelow hI, fun _ hl => by cases hl⟩
              · injection h with h; injection h with h1 h2; subst h1; subst h2
                exact ⟨t1.idsBelow hI, fun _ hl => by cases hl⟩

/-! ### insert: steps around the splice -/

theorem foldl_blocks {α} (f : IR → α → IR) (h : ∀ ir a, (f ir a).blocks = ir.blocks)
    (l : List α) (ir : IR) : (l.foldl f ir).blocks = ir.blocks := by
  induction l generalizing ir with
  | nil => rfl
  | cons a l ih => simp only [List.foldl_cons]; rw [ih, h]

theorem foldl_pair_blocks {α β} (f : IR × β → α → IR × β)
    (h : ∀ acc a, (f acc a).1.blocks = acc.1.blocks)
    (l : List α) (acc : IR × β) : (l.foldl f acc).1.blocks = acc.1.blocks := by
  induction l generalizing acc with
  | nil => rfl
  | cons a l ih => simp only [List.foldl_cons]; rw [ih, h]

@[simp] theorem addReturnEdgesToCallee_blocks (ir : IR) (pcfg : List Edge) (f : Nat) (rt : CfgNode) :
    (ir.addReturnEdgesToCallee pcfg f rt).1.blocks = ir.blocks := by
  unfold IR.addReturnEdgesToCallee
  apply foldl_pair_blocks
  intro acc b
  simp only []
  split
  · rfl
  · simp only []
    apply foldl_blocks
    intro ir e
    rfl

@[simp] theorem addReturnEdgesForPatchCalls_blocks (ir : IR) (pcfg : List Edge) :
    (ir.addReturnEdgesForPatchCalls pcfg).1.blocks = ir.blocks := by
  unfold IR.addReturnEdgesForPatchCalls
  apply foldl_pair_blocks
  intro acc ce
  split
  · rfl
  · split
    · rfl
    · split
      · rfl
      · split
        · rfl
        · simp

@[simp] theorem addReturnEdgesForPatchCalls_next (ir : IR) (pcfg : List Edge) :
    (ir.addReturnEdgesForPatchCalls pcfg).1.next = ir.next := by
  unfold IR.addReturnEdgesForPatchCalls
  apply foldl_pair_next
  intro acc ce
  split
  · rfl
  · split
    · rfl
    · split
      · rfl
      · split
        · rfl
        · simp

@[simp] theorem addPatchFunctions_blocks (ir : IR) (blk : Block) (tb : List Block) :
    (ir.addPatchFunctions blk tb).blocks = ir.blocks := by
  unfold IR.addPatchFunctions
  split
  · split
    · apply foldl_blocks; intro i b; split <;> rfl
    · rfl
  · rfl

@[simp] theorem addPatchFunctions_next (ir : IR) (blk : Block) (tb : List Block) :
    (ir.addPatchFunctions blk tb).next = ir.next := by
  unfold IR.addPatchFunctions
  split
  · split
    · apply foldl_next; intro i b; split <;> rfl
    · rfl
  · rfl

/-- split at the insertion point and cut out the replaced range: joins/removals/splits only -/
theorem insertSplit_facts {i : Nat} {ir ir' : IR} {b off repl endB : Nat} {added : Bool}
    (h : ir.insertSplit b off repl = .ok (ir', endB, added)) (hin : In i ir b) (hI : IdsBelow ir) :
    IdsBelow ir' ∧ In i ir' b ∧ In i ir' endB ∧ Grows i ir ir' := by
  unfold IR.insertSplit at h
  split at h
  · cases h
  · rename_i ir1 e0 a0 hs1
    have hI1 := splitBlock_idsBelow hs1 hI
    have hin1b : In i ir1 b := (splitBlock_keeps hs1).in hin
    have hin1e : In i ir1 e0 := splitBlock_new_in hs1 hin hI
    have hg1 : Grows i ir ir1 := splitBlock_grows hs1 hin
    split at h
    · split at h
      · cases h
      · rename_i i2 e2 a2 hs2
        split at h
        · cases h
        · rename_i i3 d3 hr
          injection h with h; injection h with h1 h2; injection h2 with h2 h3; subst h1; subst h2
          have hI2 := splitBlock_idsBelow hs2 hI1
          have t : Touches i2 i3 := (connectEmptyTail_touches i2 e2).trans (removeBlock_touches hr)
          refine ⟨t.idsBelow hI2, t.1.in ((splitBlock_keeps hs2).in hin1b), t.1.in (splitBlock_new_in hs2 hin1e hI1), ?_⟩
          exact Grows.trans (splitBlock_keeps hs1) hg1
            (Grows.trans (splitBlock_keeps hs2) (splitBlock_grows hs2 hin1e) (t.2.1 i))
    · injection h with h; injection h with h1 h2; injection h2 with h2 h3; subst h1; subst h2
      have t := connectEmptyTail_touches ir1 e0
      exact ⟨t.idsBelow hI1, t.1.in hin1b, t.1.in hin1e, Grows.trans (splitBlock_keeps hs1) hg1 (t.2.1 i)⟩

theorem insertStitch_blocks (ir : IR) (tb : List Block) (b e : Nat) (a : Bool) :
    (ir.insertStitch tb b e a).blocks = ir.blocks ++ tb.map (fun x => { x with bi := none }) := by
  have hu : ∀ (x : IR) (s t : Nat), (x.updateFallthrough s t).blocks = x.blocks :=
    fun x s t => core_blocks (updateFallthrough_core x s t)
  unfold IR.insertStitch
  simp only []
  split <;> split <;> simp only [hu]

theorem insertStitch_next (ir : IR) (tb : List Block) (b e : Nat) (a : Bool) :
    (ir.insertStitch tb b e a).next = ir.next := by
  unfold IR.insertStitch
  simp only []
  split <;> split <;> simp only [updateFallthrough_next]

/-- a patch block is in the table after the stitch: the new, still detached block - unless its
id was already taken -/
theorem insertStitch_in {i : Nat} (ir : IR) (tb : List Block) (b e : Nat) (a : Bool) (c : Nat)
    (hc : c ∈ tb.map (·.id)) (hs : Stays i ir c) : In i (ir.insertStitch tb b e a) c := by
  unfold In IR.block?
  rw [insertStitch_blocks, find_append]
  cases hf : ir.blocks.find? (·.id == c) with
  | some blk => exact ⟨blk, rfl, hs blk hf⟩
  | none =>
    simp only []
    obtain ⟨x, hx, hxc⟩ := List.mem_map.mp hc
    cases hg : (tb.map (fun x => ({ x with bi := none } : Block))).find? (·.id == c) with
    | none =>
      have := List.find?_eq_none.mp hg { x with bi := none } (List.mem_map_of_mem hx)
      simp [hxc] at this
    | some y =>
      refine ⟨y, rfl, Or.inr ?_⟩
      obtain ⟨z, _, hz⟩ := List.mem_map.mp (List.mem_of_find?_eq_some hg)
      rw [← hz]

/-- placing the patch's blocks into interval `i` keeps every block `In i` -/
theorem placePatchBlocks_in {i : Nat} (ir : IR) (tb : List Block) (base c : Nat) (h : In i ir c) :
    In i (ir.placePatchBlocks tb i base) c := by
  obtain ⟨blk, hb, hi⟩ := h
  let placed := tb.map (fun b => ({ b with bi := some i, off := base + b.off } : Block))
  let f : Block → Block := fun b => match placed.find? (·.id == b.id) with | some pb => pb | none => b
  have hid : ∀ x, (f x).id = x.id := by
    intro x
    simp only [f]
    split
    · rename_i pb hp; exact findB_id hp
    · rfl
  refine ⟨f blk, ?_, ?_⟩
  · unfold IR.block? at hb ⊢
    show List.find? _ (ir.blocks.map f) = _
    rw [find_map_id f hid, hb]; rfl
  · simp only [f]
    split
    · rename_i pb hp
      obtain ⟨z, _, hz⟩ := List.mem_map.mp (List.mem_of_find?_eq_some hp)
      left; rw [← hz]
    · exact hi

theorem placePatchBlocks_ids (ir : IR) (tb : List Block) (i base : Nat) :
    (ir.placePatchBlocks tb i base).ids = ir.ids := by
  let placed := tb.map (fun b => ({ b with bi := some i, off := base + b.off } : Block))
  apply ids_map ir _ (fun b => match placed.find? (·.id == b.id) with | some pb => pb | none => b) _ rfl
  intro x
  split
  · rename_i pb hp; exact findB_id hp
  · rfl

/-- the table of `b` is the table of `a` plus blocks whose ids are among `ids`; counter unchanged -/
def Ext (ids : List Nat) (a b : IR) : Prop :=
  ∃ extra, b.blocks = a.blocks ++ extra ∧ (∀ y ∈ extra, y.id ∈ ids) ∧ b.next = a.next

theorem Ext.refl (ids : List Nat) (a : IR) : Ext ids a a := ⟨[], by simp, by simp, rfl⟩

theorem Ext.trans {ids : List Nat} {a b c : IR} (h1 : Ext ids a b) (h2 : Ext ids b c) : Ext ids a c := by
  obtain ⟨e1, hb1, hi1, hn1⟩ := h1
  obtain ⟨e2, hb2, hi2, hn2⟩ := h2
  refine ⟨e1 ++ e2, by rw [hb2, hb1, List.append_assoc], ?_, hn2.trans hn1⟩
  intro y hy
  rcases List.mem_append.mp hy with hy | hy
  · exact hi1 y hy
  · exact hi2 y hy

theorem orderAppend_blocks (ir : IR) (s : Nat) (bs : List Nat) : (ir.orderAppend s bs).blocks = ir.blocks := by
  unfold IR.orderAppend; split <;> rfl

theorem addOtherSection_ext {ir ir' : IR} {p : Patch} {s : PatchSect} {sid bid : Nat} {ns : List Sym}
    (h : ir.addOtherSection p s sid bid = .ok (ir', ns)) : Ext (s.blocks.map (·.id)) ir ir' := by
  unfold IR.addOtherSection at h
  simp only [] at h
  split at h
  · cases h
  · split at h
    · cases h
    · injection h with h; injection h with h1 h2; subst h1
      refine ⟨(if (s.blocks.getLast?.map (·.size == 0)).getD false then s.blocks.dropLast else s.blocks).map
        (fun b => ({ b with bi := some bid } : Block)), ?_, ?_, ?_⟩
      · show (IR.orderAppend _ _ _).blocks = _
        rw [orderAppend_blocks]
      · intro y hy
        obtain ⟨z, hz, hzy⟩ := List.mem_map.mp hy
        subst hzy
        show z.id ∈ _
        apply List.mem_map_of_mem
        split at hz
        · exact List.dropLast_subset _ hz
        · exact hz
      · show (IR.orderAppend _ _ _).next = _
        rw [orderAppend_next]

theorem mem_patch_ids_of_others {p : Patch} {x : PatchSect × Nat × Nat} (hx : x ∈ p.others) {k : Nat}
    (hk : k ∈ x.1.blocks.map (·.id)) : k ∈ p.ids := by
  unfold Patch.ids
  apply List.mem_append_right
  exact List.mem_flatten.mpr ⟨_, List.mem_map_of_mem (f := fun s => s.1.blocks.map (·.id)) hx, hk⟩

theorem addOthers_ext_aux : ∀ (l : List (PatchSect × Nat × Nat)) (p : Patch) (acc : Except Err IR) (ir0 ir' : IR),
    (∀ x ∈ l, x ∈ p.others) →
    (∀ a, acc = .ok a → Ext p.ids ir0 a) →
    l.foldl (fun (acc : Except Err IR) (x : PatchSect × Nat × Nat) =>
      match acc with
      | .error e => .error e
      | .ok i =>
        match i.addOtherSection { p with syms := i.syms.filter (fun y => p.syms.any (·.id == y.id)) } x.1 x.2.1 x.2.2 with
        | .error e => .error e
        | .ok (i', newSyms) =>
          .ok { i' with syms := i'.syms.map (fun y =>
            match newSyms.find? (·.id == y.id) with
            | some ny => ny
            | none => y) }) acc = .ok ir' → Ext p.ids ir0 ir' := by
  intro l
  induction l with
  | nil => intro p acc ir0 ir' _ hacc h; exact hacc _ h
  | cons x xs ih =>
    intro p acc ir0 ir' hl hacc h
    simp only [List.foldl_cons] at h
    refine ih p _ ir0 ir' (fun y hy => hl y (List.mem_cons_of_mem _ hy)) ?_ h
    intro a ha
    split at ha
    · cases ha
    · rename_i i
      split at ha
      · cases ha
      · rename_i i2 ns hao
        injection ha with ha; subst ha
        obtain ⟨extra, hb, hi, hn⟩ := addOtherSection_ext hao
        exact (hacc i rfl).trans ⟨extra, hb,
          fun y hy => mem_patch_ids_of_others (hl x List.mem_cons_self) (hi y hy), hn⟩

theorem addOthers_ext {ir ir' : IR} {p : Patch} (h : ir.addOthers p = .ok ir') : Ext p.ids ir ir' := by
  unfold IR.addOthers at h
  exact addOthers_ext_aux p.others p (.ok ir) ir ir' (fun _ hx => hx)
    (fun a ha => by injection ha with ha; subst ha; exact Ext.refl _ _) h

theorem Ext.keeps {ids : List Nat} {a b : IR} (h : Ext ids a b) : Keeps a b := by
  obtain ⟨extra, hb, _, _⟩ := h
  exact append_keeps a b extra hb

theorem foldl_max_ge (l : List Nat) (n : Nat) : n ≤ l.foldl max n ∧ ∀ k ∈ l, k ≤ l.foldl max n := by
  induction l generalizing n with
  | nil => exact ⟨Nat.le_refl _, fun _ hk => by cases hk⟩
  | cons x xs ih =>
    simp only [List.foldl_cons]
    obtain ⟨h1, h2⟩ := ih (max n x)
    refine ⟨Nat.le_trans (Nat.le_max_left _ _) h1, ?_⟩
    intro k hk
    rcases List.mem_cons.mp hk with hk | hk
    · subst hk; exact Nat.le_trans (Nat.le_max_right _ _) h1
    · exact h2 k hk

theorem bumpNext_facts (ir : IR) (p : Patch) :
    (ir.bumpNext p).blocks = ir.blocks ∧ ir.next ≤ (ir.bumpNext p).next ∧ ∀ k ∈ p.ids, k < (ir.bumpNext p).next := by
  refine ⟨rfl, ?_, ?_⟩
  · show ir.next ≤ max ir.next _
    exact Nat.le_max_left _ _
  · intro k hk
    show k < max ir.next (p.ids.foldl max ir.next + 1)
    have := (foldl_max_ge p.ids ir.next).2 k hk
    omega

theorem addPatchExprs_blocks (ir : IR) (i base : Nat) (ex : List (Nat × SymExpr)) :
    (ir.addPatchExprs i base ex).blocks = ir.blocks := by
  unfold IR.addPatchExprs; split <;> rfl

theorem addPatchExprs_next (ir : IR) (i base : Nat) (ex : List (Nat × SymExpr)) :
    (ir.addPatchExprs i base ex).next = ir.next := by
  unfold IR.addPatchExprs; split <;> rfl

/-! ### insert -/

/-- **`insert` returns a block of the interval it edited** and keeps the ids below the
counter.  `hnew`: the ids of the patch's blocks do not name blocks of other intervals (they
are new objects: they name no block at all). -/
theorem insert_facts {i : Nat} {ir ir' : IR} {b off repl last : Nat} {p : Patch}
    (h : ir.insert b off repl p = .ok (ir', last)) (hin : In i ir b) (hI : IdsBelow ir)
    (hnew : ∀ c ∈ p.text.blocks.map (·.id), Stays i ir c) :
    IdsBelow ir' ∧ In i ir' last := by
  have hin0 := hin
  obtain ⟨blk, hb, hi⟩ := hin
  unfold IR.insert at h
  rw [hb] at h
  simp only [] at h
  split at h
  · cases h
  · split at h
    · cases h
    · rcases hi with hbi | hbi
      · rw [hbi] at h
        split at h
        · rename_i biId sect hbi' hsect
          injection hbi' with hbi'; subst hbi'
          split at h
          · cases h
          · split at h
            · cases h
            · split at h
              · cases h
              · split at h
                · cases h
                · split at h
                  · cases h
                  · rename_i ir2 endB added hs
                    split at h
                    · cases h
                    · split at h
                      · cases h
                      · rename_i ir12 ho
                        have hin := hin0
                        obtain ⟨hI2, hinb2, hine2, hg2⟩ := insertSplit_facts hs hin hI
                        generalize hpc : (if blk.isCode then ir.matchPatchReturnEdges b p.cfg p.proxies else (p.cfg, p.proxies))
                          = pcX at ho h
                        -- after the return edges of calls in the patch: same table
                        have hRb : (ir2.addReturnEdgesForPatchCalls pcX.1).1.blocks = ir2.blocks :=
                          addReturnEdgesForPatchCalls_blocks _ _
                        have hRn : (ir2.addReturnEdgesForPatchCalls pcX.1).1.next = ir2.next :=
                          addReturnEdgesForPatchCalls_next _ _
                        generalize hR : (ir2.addReturnEdgesForPatchCalls pcX.1) = R at ho h hRb hRn
                        have kR : Keeps ir2 R.1 := Keeps.of_blocks hRb
                        -- the stitch appends the patch's blocks, detached
                        have hSb := insertStitch_blocks R.1 p.text.blocks b endB added
                        have hSn := insertStitch_next R.1 p.text.blocks b endB added
                        have kS : Keeps R.1 (R.1.insertStitch p.text.blocks b endB added) := append_keeps _ _ _ hSb
                        have hinS : ∀ c ∈ [b] ++ p.text.blocks.map (·.id) ++ [endB],
                            In i (R.1.insertStitch p.text.blocks b endB added) c := by
                          intro c hc
                          simp only [List.mem_append, List.mem_singleton] at hc
                          rcases hc with (hc | hc) | hc
                          · subst hc; exact kS.in (kR.in hinb2)
                          · apply insertStitch_in _ _ _ _ _ _ hc
                            exact (Grows.of_blocks hRb).stays (hg2.stays (hnew c hc))
                          · subst hc; exact kS.in (kR.in hine2)
                        generalize hS : R.1.insertStitch p.text.blocks b endB added = S at ho h hSb hSn kS hinS
                        -- the byte edit moves blocks inside the interval only
                        have tE := editInterval_touches S i (blk.off + off) repl p.text.data [b]
                        generalize hE : S.editInterval i (blk.off + off) repl p.text.data [b] = E at ho h tE
                        -- everything up to the other sections
                        have hmidb : ∀ (x : IR) (c : List Edge) (px : List Nat), ((((x.placePatchBlocks p.text.blocks i
                            (blk.off + off)).addPatchExprs i (blk.off + off)
                            p.text.symExprs).orderInsertAfter sect b (p.text.blocks.map (·.id))).addPatchNodes p c px
                            |>.addPatchAux p i (blk.off + off) |>.addPatchFunctions blk p.text.blocks).blocks
                            = (x.placePatchBlocks p.text.blocks i (blk.off + off)).blocks := by
                          intro x c px
                          rw [addPatchFunctions_blocks]
                          show (IR.addPatchExprs _ _ _ _).blocks = _
                          rw [addPatchExprs_blocks]
                        have hmidn : ∀ (x : IR) (c : List Edge) (px : List Nat), ((((x.placePatchBlocks p.text.blocks i
                            (blk.off + off)).addPatchExprs i (blk.off + off)
                            p.text.symExprs).orderInsertAfter sect b (p.text.blocks.map (·.id))).addPatchNodes p c px
                            |>.addPatchAux p i (blk.off + off) |>.addPatchFunctions blk p.text.blocks).next = x.next := by
                          intro x c px
                          rw [addPatchFunctions_next]
                          show (IR.addPatchExprs _ _ _ _).next = _
                          rw [addPatchExprs_next]; rfl
                        have hXb := hmidb E R.2 pcX.2
                        have hXn := hmidn E R.2 pcX.2
                        generalize hX : ((((E.placePatchBlocks p.text.blocks i
                            (blk.off + off)).addPatchExprs i (blk.off + off)
                            p.text.symExprs).orderInsertAfter sect b (p.text.blocks.map (·.id))).addPatchNodes p R.2 pcX.2
                            |>.addPatchAux p i (blk.off + off) |>.addPatchFunctions blk p.text.blocks) = X at ho h hXb hXn
                        have eO := addOthers_ext ho
                        obtain ⟨hBb, hBn, hBp⟩ := bumpNext_facts ir12 p
                        obtain ⟨tc, _⟩ := cleanup_facts h
                        constructor
                        · -- ids below the counter
                          apply tc.idsBelow
                          intro k hk
                          obtain ⟨extra, hOb, hOi, hOn⟩ := eO
                          have hkk : k ∈ ir2.ids ∨ k ∈ p.ids := by
                            unfold IR.ids at hk
                            rw [hBb, hOb, List.map_append] at hk
                            rcases List.mem_append.mp hk with hk | hk
                            · rw [hXb] at hk
                              have : (E.placePatchBlocks p.text.blocks i (blk.off + off)).ids = E.ids :=
                                placePatchBlocks_ids _ _ _ _
                              unfold IR.ids at this
                              rw [this] at hk
                              have hEi := tE.2.2.1
                              unfold IR.ids at hEi
                              rw [hEi, hSb, List.map_append, hRb] at hk
                              rcases List.mem_append.mp hk with hk | hk
                              · exact Or.inl hk
                              · right
                                unfold Patch.ids
                                apply List.mem_append_left; apply List.mem_append_left; apply List.mem_append_left
                                rw [List.map_map] at hk
                                exact hk
                            · right
                              obtain ⟨y, hy, hyk⟩ := List.mem_map.mp hk
                              rw [← hyk]; exact hOi y hy
                          rcases hkk with hkk | hkk
                          · have h1 := hI2 k hkk
                            have h2 : ir2.next ≤ (ir12.bumpNext p).next := by
                              have := tE.2.2.2
                              have e1 : X.next = E.next := hXn
                              omega
                            omega
                          · exact hBp k hkk
                        · -- the returned block is one of those handed to the clean-up
                          apply cleanup_in h
                          intro c hc
                          have h1 : In i E c := tE.1.in (hinS c hc)
                          have h2 : In i (E.placePatchBlocks p.text.blocks i (blk.off + off)) c := placePatchBlocks_in _ _ _ _ h1
                          have h3 : In i X c := (Keeps.of_blocks hXb).in h2
                          have h4 : In i ir12 c := eO.keeps.in h3
                          exact (Keeps.of_blocks hBb).in h4
        · cases h
      · rw [hbi] at h
        cases h

/-! ### the loop -/

theorem adoptPatchBlocks_touches (ir : IR) (p : Patch) (f : Nat) :
    (ir.adoptPatchBlocks p f).blocks = ir.blocks ∧ (ir.adoptPatchBlocks p f).intervals = ir.intervals ∧
      (ir.adoptPatchBlocks p f).next = ir.next := by
  unfold IR.adoptPatchBlocks
  refine ⟨?_, ?_, ?_⟩
  · apply foldl_blocks; intro i b; split
    · split <;> rfl
    · rfl
  · apply foldl_intervals; intro i b; split
    · split <;> rfl
    · rfl
  · apply foldl_next; intro i b; split
    · split <;> rfl
    · rfl

/-- what the loop's insertion step returns: the result of `insert`, up to function tables -/
theorem loopInsert_ok {ir ir' : IR} {func : Option Nat} {ab : Block} {a ao repl last : Nat} {p : Patch}
    (h : ir.loopInsert func ab a ao repl p = .ok (ir', last)) :
    ∃ ir1, ir.insert a ao repl p = .ok (ir1, last) ∧ ir'.blocks = ir1.blocks ∧ ir'.intervals = ir1.intervals ∧
      ir'.next = ir1.next := by
  unfold IR.loopInsert at h
  split at h
  · cases h
  · rename_i ir1 l1 hins
    split at h
    · split at h
      · injection h with h; injection h with h1 h2; subst h1; subst h2
        obtain ⟨hb, hi, hn⟩ := adoptPatchBlocks_touches ir1 p _
        exact ⟨ir1, hins, hb, hi, hn⟩
      · injection h with h; injection h with h1 h2; subst h1; subst h2
        exact ⟨ir1, hins, rfl, rfl, rfl⟩
    · injection h with h; injection h with h1 h2; subst h1; subst h2
      exact ⟨ir1, hins, rfl, rfl, rfl⟩

theorem insert_ok_bi {ir ir' : IR} {b off repl last : Nat} {p : Patch} {blk : Block}
    (h : ir.insert b off repl p = .ok (ir', last)) (hb : ir.block? b = some blk) : blk.bi ≠ none := by
  intro hn
  unfold IR.insert at h
  rw [hb] at h
  simp only [] at h
  split at h
  · cases h
  · split at h
    · cases h
    · rw [hn] at h; cases h

theorem delete_ok_bi {ir ir' : IR} {b off len : Nat} {px : Bool} {r : Option Nat} {blk : Block}
    (h : ir.delete b off len px = .ok (ir', r)) (hb : ir.block? b = some blk) : blk.bi ≠ none := by
  intro hn
  unfold IR.delete at h
  rw [hb] at h
  simp only [] at h
  split at h
  · cases h
  · rw [hn] at h; cases h

/-- **the blocks of every patch are new, distinct objects when the patch is inserted**: their ids
are pairwise different, name no block of the IR at that moment and lie below the model's id
counter (the model takes the ids of the blocks it creates itself from that counter upwards) (the model names objects by numbers; the real patch
consists of freshly created `gtirb.ByteBlock`s) -/
def NewBlocks (origOff : Nat) (func : Option Nat) : IR → Option Nat → Int → List Mod → Prop
  | _, _, _, [] => True
  | _, none, _, _ :: _ => True
  | ir, some a, total, m :: ms =>
    match ir.block? a with
    | none => True
    | some ab =>
      match m with
      | .ins o repl p =>
        (∀ c ∈ p.text.blocks.map (·.id), ir.block? c = none ∧ c < ir.next) ∧ (p.text.blocks.map (·.id)).Nodup ∧
        ∀ ir' last, ir.loopInsert func ab a (actualOffset origOff ab total o).toNat repl p = .ok (ir', last) →
          NewBlocks origOff func ir' (some last) (total + (p.text.data.length : Int) - (repl : Int)) ms
      | .del o len px =>
        ∀ ir' r, ir.delete a (actualOffset origOff ab total o).toNat len px = .ok (ir', r) →
          NewBlocks origOff func ir' r (total - (len : Int)) ms

/-- **The loop of `_apply_modifications` is the running-offset splice.**  Whatever blocks
`insert` and `delete` return along the way, request `k` is carried out at interval position
`block.offset + offset_k + total_insert_len`, every one in the byte interval of the block the
requests were registered for, and no other interval the module had changes. -/
theorem applyMods_bytes (origOff i : Nat) (func : Option Nat) : ∀ (ms : List Mod) (ir ir' : IR) (actual : Option Nat)
    (total : Int) (cur : List Nat),
    IR.applyMods origOff func ir actual total ms = .ok ir' →
    (∀ a, actual = some a → In i ir a) → IdsBelow ir → NewBlocks origOff func ir actual total ms →
    ir.bytesOf i = some cur →
    ir'.bytesOf i = some (seqSplice origOff cur total (ms.map Mod.toLEdit)) ∧
      ∀ j, j ≠ i → ir.bytesOf j ≠ none → ir'.bytesOf j = ir.bytesOf j := by
  intro ms
  induction ms with
  | nil =>
    intro ir ir' actual total cur h _ _ _ hcur
    unfold IR.applyMods at h
    injection h with h; subst h
    exact ⟨hcur, fun _ _ _ => rfl⟩
  | cons m ms ih =>
    intro ir ir' actual total cur h hact hI hnew hcur
    cases actual with
    | none => unfold IR.applyMods at h; cases h
    | some a =>
      obtain ⟨ab, hab, habi⟩ := hact a rfl
      have hin : In i ir a := ⟨ab, hab, habi⟩
      obtain ⟨iv, hiv, hivb⟩ : ∃ iv, ir.interval? i = some iv ∧ iv.bytes = cur := by
        unfold IR.bytesOf at hcur
        cases hx : ir.interval? i with
        | none => rw [hx] at hcur; cases hcur
        | some iv => rw [hx] at hcur; injection hcur with hcur; exact ⟨iv, rfl, hcur⟩
      unfold IR.applyMods at h
      rw [hab] at h
      simp only [] at h
      unfold NewBlocks at hnew
      rw [hab] at hnew
      simp only [] at hnew
      split at h
      · cases h
      · rename_i hao
        cases m with
        | ins o repl p =>
          simp only [Mod.off] at h hao
          split at h
          · cases h
          · rename_i ir1 last hloop
            obtain ⟨hfresh, _, hnext⟩ := hnew
            obtain ⟨ir0, hins, hlb, hli, hln⟩ := loopInsert_ok hloop
            have hbi : ab.bi = some i := by
              rcases habi with hh | hh
              · exact hh
              · exact absurd hh (insert_ok_bi hins hab)
            obtain ⟨hb1', hb2'⟩ := insert_bytes hins hab hbi hiv
            obtain ⟨hI0, hin0⟩ := insert_facts hins hin hI (fun c hc blk hblk => by rw [(hfresh c hc).1] at hblk; cases hblk)
            -- the function-table step on top of `insert` changes neither bytes, blocks nor the counter
            have hb1 : ir1.bytesOf i = some (spliceBytes iv.bytes (ab.off + (actualOffset origOff ab total o).toNat) repl p.text.data) := by
              rw [bytesOf_congr hli]; exact hb1'
            have hb2 : ∀ j, j ≠ i → ir.bytesOf j ≠ none → ir1.bytesOf j = ir.bytesOf j := by
              intro j hj hne; rw [bytesOf_congr hli]; exact hb2' j hj hne
            have hI1 : IdsBelow ir1 := hI0.mono (ids_of_blocks hlb) (by rw [hln]; exact Nat.le_refl _)
            have hin1 : In i ir1 last := (Keeps.of_blocks hlb).in hin0
            have hpos : ab.off + (actualOffset origOff ab total o).toNat =
                posOf origOff total (Mod.toLEdit (.ins o repl p)) := by
              unfold posOf actualOffset Mod.toLEdit at *
              simp only [Mod.off]
              omega
            obtain ⟨r1, r2⟩ := ih ir1 ir' (some last) _ _ h (fun a' ha' => by injection ha' with ha'; subst ha'; exact hin1)
              hI1 (hnext ir1 last hloop) hb1
            constructor
            · rw [r1]
              simp only [List.map_cons, seqSplice]
              rw [← hpos, hivb]
              rfl
            · intro j hj hne
              rw [r2 j hj (by rw [hb2 j hj hne]; exact hne), hb2 j hj hne]
        | del o len px =>
          simp only [Mod.off] at h hao
          split at h
          · cases h
          · rename_i ir1 r hdel
            have hbi : ab.bi = some i := by
              rcases habi with hh | hh
              · exact hh
              · exact absurd hh (delete_ok_bi hdel hab)
            obtain ⟨hb1, hb2⟩ := delete_bytes hdel hab hbi hiv
            obtain ⟨hI1, hin1⟩ := delete_facts hdel hin hI
            have hpos : ab.off + (actualOffset origOff ab total o).toNat =
                posOf origOff total (Mod.toLEdit (.del o len px)) := by
              unfold posOf actualOffset Mod.toLEdit at *
              simp only [Mod.off]
              omega
            obtain ⟨r1, r2⟩ := ih ir1 ir' r _ _ h hin1 hI1 (hnew ir1 r hdel) hb1
            constructor
            · rw [r1]
              simp only [List.map_cons, seqSplice]
              rw [← hpos, hivb]
              simp [Mod.toLEdit, Mod.len, Mod.bytes]
            · intro j hj hne
              rw [r2 j hj (by rw [hb2 j hj]; exact hne), hb2 j hj]

end GtirbVerif.IR
