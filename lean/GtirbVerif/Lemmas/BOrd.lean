import GtirbVerif.Spec.AdtSpec

namespace GtirbVerif.Adt

/-- `l` is a doubly linked run whose first element has predecessor `p` and
whose last element has successor `a` -/
def Linked (o : BOrd) : Option Nat → List Nat → Option Nat → Prop
  | _, [], _ => True
  | p, x :: r, a => o.prev x = p ∧ o.next x = (r.head?.or a) ∧ Linked o (some x) r a

theorem Linked.congr {o o' : BOrd} {l : List Nat} {p a : Option Nat}
    (h : ∀ x ∈ l, o'.prev x = o.prev x ∧ o'.next x = o.next x) (hl : Linked o p l a) :
    Linked o' p l a := by
  induction l generalizing p with
  | nil => trivial
  | cons x r ih =>
    obtain ⟨h1, h2, h3⟩ := hl
    have hx := h x List.mem_cons_self
    exact ⟨hx.1 ▸ h1, hx.2 ▸ h2, ih (fun y hy => h y (List.mem_cons_of_mem _ hy)) h3⟩

theorem Linked.append {o : BOrd} {l1 l2 : List Nat} {p a : Option Nat} :
    Linked o p (l1 ++ l2) a ↔
      Linked o p l1 (l2.head?.or a) ∧ Linked o (l1.getLast?.or p) l2 a := by
  induction l1 generalizing p with
  | nil => simp [Linked]
  | cons x r ih =>
    simp only [List.cons_append, Linked, ih]
    have e1 : (r ++ l2).head?.or a = r.head?.or (l2.head?.or a) := by
      cases r <;> simp
    have e2 : (x :: r).getLast?.or p = r.getLast?.or (some x) := by
      cases r with
      | nil => simp
      | cons y s =>
        rw [List.getLast?_cons_cons]
        cases hgl : (y :: s).getLast? with
        | none => simp at hgl
        | some z => rfl
    rw [e1, e2]
    constructor
    · rintro ⟨h1, h2, h3, h4⟩; exact ⟨⟨h1, h2, h3⟩, h4⟩
    · rintro ⟨⟨h1, h2, h3⟩, h4⟩; exact ⟨h1, h2, h3, h4⟩

/-- the pointer structure represents the list of chains -/
structure Repr (o : BOrd) (cs : Chains) : Prop where
  nodup : cs.flatten.Nodup
  nonempty : ∀ ch ∈ cs, ch ≠ []
  mem : ∀ b, o.mem b = true ↔ b ∈ cs.flatten
  linked : ∀ ch ∈ cs, Linked o none ch none

theorem repr_empty : Repr {} [] := by
  refine ⟨by simp, by simp, by simp, by simp⟩

/-- neighbours of an element inside a linked run -/
theorem Linked.neighbours {o : BOrd} {pre post : List Nat} {b : Nat} {p a : Option Nat}
    (h : Linked o p (pre ++ b :: post) a) :
    o.prev b = pre.getLast?.or p ∧ o.next b = post.head?.or a := by
  rw [Linked.append] at h
  obtain ⟨_, h2, h3, _⟩ := h
  exact ⟨h2, h3⟩

/-- **adjacent_blocks = the neighbours in the chain** (and KeyError exactly for
blocks that are in no chain) -/
theorem adjacent_spec {o : BOrd} {cs : Chains} (h : Repr o cs) (b : Nat) :
    (b ∉ cs.flatten → o.adjacent b = .error .keyError) ∧
    (∀ pre post, (pre ++ b :: post) ∈ cs →
      o.adjacent b = .ok (pre.getLast?, post.head?)) := by
  constructor
  · intro hb
    have : o.mem b = false := by
      cases hm : o.mem b with
      | false => rfl
      | true => exact absurd ((h.mem b).mp hm) hb
    simp [BOrd.adjacent, this]
  · intro pre post hin
    have hm : o.mem b = true := (h.mem b).mpr (by
      simp only [List.mem_flatten]; exact ⟨_, hin, by simp⟩)
    have := (h.linked _ hin).neighbours
    simp [BOrd.adjacent, hm, this.1, this.2]

end GtirbVerif.Adt

namespace GtirbVerif.Adt

theorem Linked.change_after {o o' : BOrd} {l : List Nat} {p a a' : Option Nat}
    (hl : Linked o p l a)
    (hprev : ∀ x ∈ l, o'.prev x = o.prev x)
    (hnext : ∀ x ∈ l.dropLast, o'.next x = o.next x)
    (hlast : ∀ x, l.getLast? = some x → o'.next x = a') :
    Linked o' p l a' := by
  induction l generalizing p with
  | nil => trivial
  | cons x r ih =>
    obtain ⟨h1, h2, h3⟩ := hl
    refine ⟨(hprev x List.mem_cons_self).trans h1, ?_, ?_⟩
    · cases r with
      | nil => simpa using hlast x (by simp)
      | cons y s =>
        have := hnext x (by simp [List.dropLast])
        rw [this, h2]; simp
    · apply ih h3 (fun y hy => hprev y (List.mem_cons_of_mem _ hy))
      · intro y hy
        apply hnext
        cases r with
        | nil => simp at hy
        | cons z s => simp only [List.dropLast_cons_cons, List.mem_cons]; exact Or.inr hy
      · intro y hy
        apply hlast
        cases r with
        | nil => simp at hy
        | cons z s => rw [List.getLast?_cons_cons]; exact hy

theorem Linked.change_before {o o' : BOrd} {l : List Nat} {p p' a : Option Nat}
    (hl : Linked o p l a)
    (hnext : ∀ x ∈ l, o'.next x = o.next x)
    (hprev : ∀ x ∈ l.tail, o'.prev x = o.prev x)
    (hfirst : ∀ x, l.head? = some x → o'.prev x = p') :
    Linked o' p' l a := by
  cases l with
  | nil => trivial
  | cons x r =>
    obtain ⟨h1, h2, h3⟩ := hl
    refine ⟨hfirst x rfl, (hnext x List.mem_cons_self).trans h2, ?_⟩
    exact Linked.congr (fun y hy => ⟨hprev y hy, hnext y (List.mem_cons_of_mem _ hy)⟩) h3

theorem getLast?_mem {l : List Nat} {x : Nat} (h : l.getLast? = some x) : x ∈ l :=
  List.mem_of_getLast? h

theorem head?_mem' {l : List Nat} {x : Nat} (h : l.head? = some x) : x ∈ l :=
  List.mem_of_head? h

/-- **remove_block** = deleting the element from its chain (a chain that
becomes empty disappears) -/
theorem remove_spec {o : BOrd} {cs1 cs2 : Chains} {pre post : List Nat} {b : Nat}
    (h : Repr o (cs1 ++ (pre ++ b :: post) :: cs2)) :
    ∃ o', o.remove b = .ok o' ∧
      Repr o' (cs1 ++ (if pre ++ post = [] then [] else [pre ++ post]) ++ cs2) := by
  have hin : (pre ++ b :: post) ∈ cs1 ++ (pre ++ b :: post) :: cs2 := by simp
  have hm : o.mem b = true := (h.mem b).mpr (by
    simp only [List.mem_flatten]; exact ⟨_, hin, by simp⟩)
  have hnb := (h.linked _ hin).neighbours
  simp only [Option.or_none] at hnb
  -- facts from Nodup
  have hnd := h.nodup
  simp only [List.flatten_append, List.flatten_cons] at hnd
  have hnd1 := (List.nodup_append.mp hnd).2.1
  have hnd_ch : (pre ++ b :: post).Nodup := (List.nodup_append.mp hnd1).1
  have hbpre : b ∉ pre := fun hb =>
    (List.nodup_append.mp hnd_ch).2.2 b hb b List.mem_cons_self rfl
  have hbpost : b ∉ post := (List.nodup_cons.mp (List.nodup_append.mp hnd_ch).2.1).1
  have hprepost : ∀ x ∈ pre, x ∉ post := fun x hx hx' =>
    (List.nodup_append.mp hnd_ch).2.2 x hx x (List.mem_cons_of_mem _ hx') rfl
  have hother : ∀ ch, ch ∈ cs1 ∨ ch ∈ cs2 → ∀ x ∈ ch, x ∉ pre ++ b :: post := by
    intro ch hch x hx hx'
    rcases hch with hch | hch
    · exact (List.nodup_append.mp hnd).2.2 x (List.mem_flatten.mpr ⟨ch, hch, hx⟩) x
        (List.mem_append.mpr (Or.inl hx')) rfl
    · exact (List.nodup_append.mp hnd1).2.2 x hx' x (List.mem_flatten.mpr ⟨ch, hch, hx⟩) rfl
  refine ⟨o.removeCore b, by simp only [BOrd.remove, hm, ↓reduceIte], ?_⟩
  have hP : ∀ x, (o.removeCore b).prev x = if x = b then none else
      match o.next b with
      | some n => if x = n then o.prev b else o.prev x
      | none => o.prev x := by
    intro x
    simp only [BOrd.removeCore, fset]
    split
    · rfl
    · cases o.next b <;> rfl
  have hN : ∀ x, (o.removeCore b).next x = if x = b then none else
      match o.prev b with
      | some p => if x = p then o.next b else o.next x
      | none => o.next x := by
    intro x
    simp only [BOrd.removeCore, fset]
    split
    · rfl
    · cases o.prev b <;> rfl
  have hM : ∀ x, (o.removeCore b).mem x = if x = b then false else o.mem x := by
    intro x; rfl
  generalize o.removeCore b = o' at hP hN hM
  have hprev' : ∀ x, x ≠ b → post.head? ≠ some x → o'.prev x = o.prev x := by
    intro x hxb hxh
    rw [hP x]
    simp only [hxb, ↓reduceIte]
    rw [hnb.2]
    cases hp : post.head? with
    | none => rfl
    | some n =>
      have : x ≠ n := fun e => hxh (by rw [hp, e])
      simp [this]
  have hnext' : ∀ x, x ≠ b → pre.getLast? ≠ some x → o'.next x = o.next x := by
    intro x hxb hxh
    rw [hN x]
    simp only [hxb, ↓reduceIte]
    rw [hnb.1]
    cases hp : pre.getLast? with
    | none => rfl
    | some n =>
      have : x ≠ n := fun e => hxh (by rw [hp, e])
      simp [this]
  have hprev_head : ∀ x, post.head? = some x → o'.prev x = pre.getLast? := by
    intro x hx
    have hxb : x ≠ b := fun e => hbpost (e ▸ head?_mem' hx)
    rw [hP x]
    simp only [hxb, ↓reduceIte]
    rw [hnb.2, hx]
    simp [hnb.1]
  have hnext_last : ∀ x, pre.getLast? = some x → o'.next x = post.head? := by
    intro x hx
    have hxb : x ≠ b := fun e => hbpre (e ▸ getLast?_mem hx)
    rw [hN x]
    simp only [hxb, ↓reduceIte]
    rw [hnb.1, hx]
    simp [hnb.2]
  have hmem' : ∀ x, o'.mem x = if x = b then false else o.mem x := hM
  -- the frame: chains that do not contain b are untouched
  have hframe : ∀ ch, ch ∈ cs1 ∨ ch ∈ cs2 → Linked o' none ch none := by
    intro ch hch
    have hl := h.linked ch (by
      rcases hch with hch | hch
      · exact List.mem_append.mpr (Or.inl hch)
      · exact List.mem_append.mpr (Or.inr (List.mem_cons_of_mem _ hch)))
    refine Linked.congr (fun x hx => ?_) hl
    have hnot := hother ch hch x hx
    have hxb : x ≠ b := fun e => hnot (by simp [e])
    refine ⟨hprev' x hxb ?_, hnext' x hxb ?_⟩
    · intro hh; exact hnot (by simp [head?_mem' hh])
    · intro hh; exact hnot (by simp [getLast?_mem hh])
  -- the chain that contained b
  have hmid : Linked o' none (pre ++ post) none := by
    have hl := h.linked _ hin
    rw [Linked.append] at hl
    obtain ⟨hl1, hl2⟩ := hl
    simp only [List.head?_cons, Option.or_some, Option.or_none] at hl1 hl2
    obtain ⟨_, _, hl3⟩ := hl2
    rw [Linked.append]
    simp only [Option.or_none]
    constructor
    · refine Linked.change_after hl1 ?_ ?_ hnext_last
      · intro x hx
        exact hprev' x (fun e => hbpre (e ▸ hx)) (fun hh => hprepost x hx (head?_mem' hh))
      · intro x hx
        have hxpre : x ∈ pre := List.dropLast_subset pre hx
        refine hnext' x (fun e => hbpre (e ▸ hxpre)) ?_
        intro hh
        -- x is the last element and in dropLast: contradicts Nodup
        have hndpre : pre.Nodup := (List.nodup_append.mp hnd_ch).1
        rcases List.eq_nil_or_concat pre with hnil | ⟨init, lst, hc⟩
        · simp [hnil] at hx
        · subst hc
          simp only [List.concat_eq_append, List.getLast?_append, List.getLast?_singleton,
            Option.some_or, Option.some.injEq, List.dropLast_concat] at hh hx hndpre
          subst hh
          have := (List.nodup_append.mp hndpre).2.2 lst hx lst (by simp) rfl
          exact this
    · refine Linked.change_before hl3 ?_ ?_ hprev_head
      · intro x hx
        exact hnext' x (fun e => hbpost (e ▸ hx)) (fun hh => hprepost x (getLast?_mem hh) hx)
      · intro x hx
        have hxpost : x ∈ post := List.mem_of_mem_tail hx
        refine hprev' x (fun e => hbpost (e ▸ hxpost)) ?_
        intro hh
        have hndpost : post.Nodup := (List.nodup_cons.mp (List.nodup_append.mp hnd_ch).2.1).2
        cases post with
        | nil => simp at hx
        | cons y s =>
          simp only [List.head?_cons, Option.some.injEq, List.tail_cons] at hh hx
          subst hh
          exact (List.nodup_cons.mp hndpost).1 hx
  constructor
  · -- Nodup
    have : (cs1 ++ (if pre ++ post = [] then [] else [pre ++ post]) ++ cs2).flatten =
        cs1.flatten ++ ((pre ++ post) ++ cs2.flatten) := by
      split <;> rename_i hh <;> simp [hh]
    rw [this]
    have hsub : ∀ x, x ∈ pre ++ post → x ∈ pre ++ b :: post := by
      intro x hx; simp only [List.mem_append, List.mem_cons] at hx ⊢
      rcases hx with hx | hx
      · exact Or.inl hx
      · exact Or.inr (Or.inr hx)
    rw [List.nodup_append] at hnd ⊢
    refine ⟨hnd.1, ?_, ?_⟩
    · rw [List.nodup_append] at hnd1 ⊢
      refine ⟨?_, hnd1.2.1, fun x hx y hy => hnd1.2.2 x (hsub x hx) y hy⟩
      rw [List.nodup_append] at hnd_ch ⊢
      exact ⟨hnd_ch.1, (List.nodup_cons.mp hnd_ch.2.1).2,
        fun x hx y hy => hnd_ch.2.2 x hx y (List.mem_cons_of_mem _ hy)⟩
    · intro x hx y hy
      apply hnd.2.2 x hx y
      rcases List.mem_append.mp hy with hy | hy
      · exact List.mem_append.mpr (Or.inl (hsub y hy))
      · exact List.mem_append.mpr (Or.inr hy)
  · intro ch hch
    simp only [List.mem_append] at hch
    rcases hch with (hch | hch) | hch
    · exact h.nonempty ch (List.mem_append.mpr (Or.inl hch))
    · split at hch
      · simp at hch
      · rename_i hne; simp only [List.mem_singleton] at hch; subst hch; exact hne
    · exact h.nonempty ch (List.mem_append.mpr (Or.inr (List.mem_cons_of_mem _ hch)))
  · intro x
    rw [hmem' x]
    have hfl : ∀ y, y ∈ (cs1 ++ (if pre ++ post = [] then [] else [pre ++ post]) ++ cs2).flatten ↔
        (y ∈ cs1.flatten ∨ y ∈ pre ∨ y ∈ post ∨ y ∈ cs2.flatten) := by
      intro y; split <;> rename_i hh
      · simp only [List.append_eq_nil_iff] at hh
        simp [hh.1, hh.2]
      · simp [or_assoc]
    have hfl0 : ∀ y, y ∈ (cs1 ++ (pre ++ b :: post) :: cs2).flatten ↔
        (y ∈ cs1.flatten ∨ y ∈ pre ∨ y = b ∨ y ∈ post ∨ y ∈ cs2.flatten) := by
      intro y; simp [or_assoc]
    rw [hfl x]
    by_cases hxb : x = b
    · subst hxb
      simp only [↓reduceIte, Bool.false_eq_true, false_iff, not_or]
      refine ⟨?_, hbpre, hbpost, ?_⟩
      · intro hx
        obtain ⟨ch, hch, hxc⟩ := List.mem_flatten.mp hx
        exact hother ch (Or.inl hch) x hxc (by simp)
      · intro hx
        obtain ⟨ch, hch, hxc⟩ := List.mem_flatten.mp hx
        exact hother ch (Or.inr hch) x hxc (by simp)
    · simp only [hxb, ↓reduceIte]
      rw [h.mem x, hfl0 x]
      simp [hxb]
  · intro ch hch
    simp only [List.mem_append] at hch
    rcases hch with (hch | hch) | hch
    · exact hframe ch (Or.inl hch)
    · split at hch
      · simp at hch
      · simp only [List.mem_singleton] at hch; subst hch; exact hmid
    · exact hframe ch (Or.inr hch)

end GtirbVerif.Adt

namespace GtirbVerif.Adt

theorem flatten_mid (cs1 cs2 : Chains) (ch : List Nat) (y : Nat) :
    y ∈ (cs1 ++ ch :: cs2).flatten ↔ (y ∈ cs1.flatten ∨ y ∈ ch ∨ y ∈ cs2.flatten) := by
  simp [or_assoc]

/-- linking one fresh block after `a` -/
theorem linkAfter_spec {o : BOrd} {cs1 cs2 : Chains} {pre post : List Nat} {a b : Nat}
    (h : Repr o (cs1 ++ (pre ++ a :: post) :: cs2))
    (hb : b ∉ (cs1 ++ (pre ++ a :: post) :: cs2).flatten) :
    Repr (o.linkAfter (some a) b) (cs1 ++ (pre ++ a :: b :: post) :: cs2) := by
  have hin : (pre ++ a :: post) ∈ cs1 ++ (pre ++ a :: post) :: cs2 := by simp
  have hnb := (h.linked _ hin).neighbours
  simp only [Option.or_none] at hnb
  have hnd := h.nodup
  simp only [List.flatten_append, List.flatten_cons] at hnd
  have hnd1 := (List.nodup_append.mp hnd).2.1
  have hnd_ch : (pre ++ a :: post).Nodup := (List.nodup_append.mp hnd1).1
  have hapre : a ∉ pre := fun hx =>
    (List.nodup_append.mp hnd_ch).2.2 a hx a List.mem_cons_self rfl
  have hapost : a ∉ post := (List.nodup_cons.mp (List.nodup_append.mp hnd_ch).2.1).1
  have hprepost : ∀ x ∈ pre, x ∉ post := fun x hx hx' =>
    (List.nodup_append.mp hnd_ch).2.2 x hx x (List.mem_cons_of_mem _ hx') rfl
  rw [flatten_mid] at hb
  simp only [not_or, List.mem_append, List.mem_cons] at hb
  obtain ⟨hb1, hbch, hb2⟩ := hb
  have hbpre : b ∉ pre := fun hx => hbch.1 hx
  have hba : b ≠ a := fun e => hbch.2.1 e
  have hbpost : b ∉ post := fun hx => hbch.2.2 hx
  have hother : ∀ ch, ch ∈ cs1 ∨ ch ∈ cs2 → ∀ x ∈ ch, x ∉ pre ++ a :: post ∧ x ≠ b := by
    intro ch hch x hx
    constructor
    · intro hx'
      rcases hch with hch | hch
      · exact (List.nodup_append.mp hnd).2.2 x (List.mem_flatten.mpr ⟨ch, hch, hx⟩) x
          (List.mem_append.mpr (Or.inl hx')) rfl
      · exact (List.nodup_append.mp hnd1).2.2 x hx' x (List.mem_flatten.mpr ⟨ch, hch, hx⟩) rfl
    · rintro rfl
      rcases hch with hch | hch
      · exact hb1 (List.mem_flatten.mpr ⟨ch, hch, hx⟩)
      · exact hb2 (List.mem_flatten.mpr ⟨ch, hch, hx⟩)
  have hP : ∀ x, (o.linkAfter (some a) b).prev x = if x = b then some a else
      match o.next a with
      | some n => if x = n then some b else o.prev x
      | none => o.prev x := by
    intro x
    simp only [BOrd.linkAfter, fset]
    split
    · rfl
    · cases o.next a <;> rfl
  have hN : ∀ x, (o.linkAfter (some a) b).next x =
      if x = a then some b else if x = b then o.next a else o.next x := by
    intro x; simp only [BOrd.linkAfter, fset]
  have hM : ∀ x, (o.linkAfter (some a) b).mem x = if x = b then true else o.mem x := by
    intro x; rfl
  generalize o.linkAfter (some a) b = o' at hP hN hM
  have hprev' : ∀ x, x ≠ b → post.head? ≠ some x → o'.prev x = o.prev x := by
    intro x hxb hxh
    rw [hP x]
    simp only [hxb, ↓reduceIte]
    rw [hnb.2]
    cases hp : post.head? with
    | none => rfl
    | some n =>
      have : x ≠ n := fun e => hxh (by rw [hp, e])
      simp [this]
  have hnext' : ∀ x, x ≠ b → x ≠ a → o'.next x = o.next x := by
    intro x hxb hxa; rw [hN x]; simp [hxb, hxa]
  have hframe : ∀ ch, ch ∈ cs1 ∨ ch ∈ cs2 → Linked o' none ch none := by
    intro ch hch
    have hl := h.linked ch (by
      rcases hch with hch | hch
      · exact List.mem_append.mpr (Or.inl hch)
      · exact List.mem_append.mpr (Or.inr (List.mem_cons_of_mem _ hch)))
    refine Linked.congr (fun x hx => ?_) hl
    have hnot := hother ch hch x hx
    refine ⟨hprev' x hnot.2 ?_, hnext' x hnot.2 ?_⟩
    · intro hh; exact hnot.1 (by simp [head?_mem' hh])
    · rintro rfl; exact hnot.1 (by simp)
  have hmid : Linked o' none (pre ++ a :: b :: post) none := by
    have hl := h.linked _ hin
    have e1 : pre ++ a :: post = (pre ++ [a]) ++ post := by simp
    have e2 : pre ++ a :: b :: post = (pre ++ [a]) ++ (b :: post) := by simp
    rw [e1, Linked.append] at hl
    obtain ⟨hl1, hl2⟩ := hl
    simp only [Option.or_none, List.getLast?_append, List.getLast?_singleton, Option.some_or] at hl1 hl2
    rw [e2, Linked.append]
    simp only [List.head?_cons, Option.or_some, List.getLast?_append, List.getLast?_singleton,
      Option.some_or]
    constructor
    · refine Linked.change_after hl1 ?_ ?_ ?_
      · intro x hx
        simp only [List.mem_append, List.mem_singleton] at hx
        refine hprev' x ?_ ?_
        · rcases hx with hx | hx
          · exact fun e => hbpre (e ▸ hx)
          · exact fun e => hba (e.symm.trans hx)
        · intro hh
          rcases hx with hx | hx
          · exact hprepost x hx (head?_mem' hh)
          · exact hapost (hx ▸ head?_mem' hh)
      · intro x hx
        simp only [List.dropLast_concat] at hx
        exact hnext' x (fun e => hbpre (e ▸ hx)) (fun e => hapre (e ▸ hx))
      · intro x hx
        simp only [List.getLast?_append, List.getLast?_singleton, Option.some_or,
          Option.some.injEq] at hx
        subst hx
        rw [hN]; simp
    · refine ⟨?_, ?_, ?_⟩
      · rw [hP]; simp
      · rw [hN]; simp [hba, hnb.2]
      · refine Linked.change_before hl2 ?_ ?_ ?_
        · intro x hx
          exact hnext' x (fun e => hbpost (e ▸ hx)) (fun e => hapost (e ▸ hx))
        · intro x hx
          have hxpost : x ∈ post := List.mem_of_mem_tail hx
          refine hprev' x (fun e => hbpost (e ▸ hxpost)) ?_
          intro hh
          have hndpost : post.Nodup := (List.nodup_cons.mp (List.nodup_append.mp hnd_ch).2.1).2
          cases post with
          | nil => simp at hx
          | cons y s =>
            simp only [List.head?_cons, Option.some.injEq, List.tail_cons] at hh hx
            subst hh
            exact (List.nodup_cons.mp hndpost).1 hx
        · intro x hx
          have hxb : x ≠ b := fun e => hbpost (e ▸ head?_mem' hx)
          rw [hP x]
          simp only [hxb, ↓reduceIte]
          rw [hnb.2, hx]
          simp
  constructor
  · -- Nodup
    simp only [List.flatten_append, List.flatten_cons]
    rw [List.nodup_append] at hnd ⊢
    refine ⟨hnd.1, ?_, ?_⟩
    · rw [List.nodup_append] at hnd1 ⊢
      refine ⟨?_, hnd1.2.1, ?_⟩
      · rw [List.nodup_append] at hnd_ch ⊢
        refine ⟨hnd_ch.1, ?_, ?_⟩
        · rw [List.nodup_cons] at hnd_ch ⊢
          refine ⟨?_, List.nodup_cons.mpr ⟨hbpost, hnd_ch.2.1.2⟩⟩
          simp only [List.mem_cons, not_or]
          exact ⟨fun e => hba e.symm, hnd_ch.2.1.1⟩
        · intro x hx y hy
          simp only [List.mem_cons] at hy
          rcases hy with hy | hy | hy
          · subst hy; exact hnd_ch.2.2 x hx y List.mem_cons_self
          · subst hy; intro e; exact hbpre (e ▸ hx)
          · exact hnd_ch.2.2 x hx y (List.mem_cons_of_mem _ hy)
      · intro x hx y hy
        simp only [List.mem_append, List.mem_cons] at hx
        rcases hx with hx | hx | hx | hx
        · exact hnd1.2.2 x (by simp [hx]) y hy
        · exact hnd1.2.2 x (by simp [hx]) y hy
        · subst hx; intro e; exact hb2 (e ▸ hy)
        · exact hnd1.2.2 x (by simp [hx]) y hy
    · intro x hx y hy
      simp only [List.mem_append, List.mem_cons] at hy
      rcases hy with (hy | hy | hy | hy) | hy
      · exact hnd.2.2 x hx y (by simp [hy])
      · exact hnd.2.2 x hx y (by simp [hy])
      · subst hy; intro e; exact hb1 (e ▸ hx)
      · exact hnd.2.2 x hx y (by simp [hy])
      · exact hnd.2.2 x hx y (by simp [hy])
  · intro ch hch
    simp only [List.mem_append, List.mem_cons] at hch
    rcases hch with hch | hch | hch
    · exact h.nonempty ch (List.mem_append.mpr (Or.inl hch))
    · subst hch; simp
    · exact h.nonempty ch (List.mem_append.mpr (Or.inr (List.mem_cons_of_mem _ hch)))
  · intro x
    rw [hM x, flatten_mid]
    by_cases hxb : x = b
    · subst hxb; simp
    · simp only [hxb, ↓reduceIte]
      rw [h.mem x, flatten_mid]
      simp [hxb]
  · intro ch hch
    simp only [List.mem_append, List.mem_cons] at hch
    rcases hch with hch | hch | hch
    · exact hframe ch (Or.inl hch)
    · subst hch; exact hmid
    · exact hframe ch (Or.inr hch)

/-- linking a fresh block to nothing starts a new chain -/
theorem linkNone_spec {o : BOrd} {cs : Chains} {b : Nat}
    (h : Repr o cs) (hb : b ∉ cs.flatten) :
    Repr (o.linkAfter none b) (cs ++ [[b]]) := by
  have hP : ∀ x, (o.linkAfter none b).prev x = if x = b then none else o.prev x := by
    intro x; simp only [BOrd.linkAfter, fset]
  have hN : ∀ x, (o.linkAfter none b).next x = if x = b then none else o.next x := by
    intro x; simp only [BOrd.linkAfter, fset]
  have hM : ∀ x, (o.linkAfter none b).mem x = if x = b then true else o.mem x := by
    intro x; rfl
  generalize o.linkAfter none b = o' at hP hN hM
  constructor
  · simp only [List.flatten_append, List.flatten_cons, List.flatten_nil, List.append_nil]
    rw [List.nodup_append]
    refine ⟨h.nodup, by simp, ?_⟩
    intro x hx y hy
    simp only [List.mem_singleton] at hy
    subst hy; intro e; exact hb (e ▸ hx)
  · intro ch hch
    simp only [List.mem_append, List.mem_singleton] at hch
    rcases hch with hch | hch
    · exact h.nonempty ch hch
    · subst hch; simp
  · intro x
    rw [hM x]
    simp only [List.flatten_append, List.flatten_cons, List.flatten_nil, List.append_nil,
      List.mem_append, List.mem_singleton]
    by_cases hxb : x = b
    · subst hxb; simp
    · simp [hxb, h.mem x]
  · intro ch hch
    simp only [List.mem_append, List.mem_singleton] at hch
    rcases hch with hch | hch
    · refine Linked.congr (fun x hx => ?_) (h.linked ch hch)
      have hxb : x ≠ b := fun e => hb (e ▸ List.mem_flatten.mpr ⟨ch, hch, hx⟩)
      rw [hP, hN]; simp [hxb]
    · subst hch
      refine ⟨?_, ?_, trivial⟩
      · rw [hP]; simp
      · rw [hN]; simp

/-- the insertion loop: all blocks of `bs` end up, in order, right after `a` -/
theorem insertLoop_spec : ∀ (bs : List Nat) {o : BOrd} {cs1 cs2 : Chains} {pre post : List Nat}
    {a : Nat}, Repr o (cs1 ++ (pre ++ a :: post) :: cs2) →
    (∀ x ∈ bs, x ∉ (cs1 ++ (pre ++ a :: post) :: cs2).flatten) → bs.Nodup →
    Repr (o.insertLoop (some a) bs) (cs1 ++ (pre ++ a :: (bs ++ post)) :: cs2)
  | [], o, cs1, cs2, pre, post, a, h, _, _ => by simpa [BOrd.insertLoop] using h
  | b :: bs, o, cs1, cs2, pre, post, a, h, hnot, hnd => by
    simp only [BOrd.insertLoop]
    have h1 := linkAfter_spec h (hnot b List.mem_cons_self)
    have e : pre ++ a :: b :: post = (pre ++ [a]) ++ b :: post := by simp
    rw [e] at h1
    have ih := insertLoop_spec bs (pre := pre ++ [a]) (post := post) (a := b) h1 (by
      intro x hx
      have hx0 := hnot x (List.mem_cons_of_mem _ hx)
      rw [flatten_mid] at hx0 ⊢
      simp only [List.mem_append, List.mem_cons, List.mem_singleton, not_or, List.not_mem_nil,
        or_false] at hx0 ⊢
      have hxb : x ≠ b := fun e => (List.nodup_cons.mp hnd).1 (e ▸ hx)
      exact ⟨hx0.1, ⟨⟨hx0.2.1.1, hx0.2.1.2.1⟩, hxb, hx0.2.1.2.2⟩, hx0.2.2⟩) (List.nodup_cons.mp hnd).2
    simpa using ih

/-- **insert_blocks_after** on the plain-list specification -/
theorem insertAfter_spec {o : BOrd} {cs1 cs2 : Chains} {pre post : List Nat} {a : Nat}
    (bs : List Nat) (h : Repr o (cs1 ++ (pre ++ a :: post) :: cs2))
    (hnot : ∀ x ∈ bs, x ∉ (cs1 ++ (pre ++ a :: post) :: cs2).flatten) (hnd : bs.Nodup) :
    ∃ o', o.primitiveInsert (some a) bs = .ok o' ∧
      Repr o' (cs1 ++ (pre ++ a :: (bs ++ post)) :: cs2) := by
  have hany : bs.any o.mem = false := by
    rw [List.any_eq_false]
    intro x hx hm
    exact hnot x hx ((h.mem x).mp hm)
  have hma : o.mem a = true := (h.mem a).mpr (by rw [flatten_mid]; simp)
  exact ⟨_, by simp [BOrd.primitiveInsert, hany, hma, hnd], insertLoop_spec bs h hnot hnd⟩

/-- **add_detached_blocks** on the plain-list specification -/
theorem addDetached_spec {o : BOrd} {cs : Chains} (b : Nat) (bs : List Nat) (h : Repr o cs)
    (hnot : ∀ x ∈ b :: bs, x ∉ cs.flatten) (hnd : (b :: bs).Nodup) :
    ∃ o', o.primitiveInsert none (b :: bs) = .ok o' ∧ Repr o' (cs ++ [b :: bs]) := by
  have hany : (b :: bs).any o.mem = false := by
    rw [List.any_eq_false]
    intro x hx hm
    exact hnot x hx ((h.mem x).mp hm)
  have hpi : o.primitiveInsert none (b :: bs) = .ok (o.insertLoop none (b :: bs)) := by
    unfold BOrd.primitiveInsert
    rw [hany]
    simp [hnd]
  refine ⟨_, hpi, ?_⟩
  simp only [BOrd.insertLoop]
  have h1 := linkNone_spec h (hnot b List.mem_cons_self)
  have := insertLoop_spec bs (cs1 := cs) (cs2 := []) (pre := []) (post := []) (a := b)
    (by simpa using h1) (by
      intro x hx
      have hx0 := hnot x (List.mem_cons_of_mem _ hx)
      have hxb : x ≠ b := fun e => (List.nodup_cons.mp hnd).1 (e ▸ hx)
      simp [hx0, hxb]) (List.nodup_cons.mp hnd).2
  simpa using this

/-- the refusals of `_primitive_insert` -/
theorem insert_refusals {o : BOrd} {cs : Chains} (h : Repr o cs) (after : Option Nat)
    (bs : List Nat) :
    ((∃ x ∈ bs, x ∈ cs.flatten) → o.primitiveInsert after bs = .error .valueError) ∧
    (¬ bs.Nodup → o.primitiveInsert after bs = .error .valueError) ∧
    ((∀ x ∈ bs, x ∉ cs.flatten) → bs.Nodup → ∀ a, after = some a → a ∉ cs.flatten →
      o.primitiveInsert after bs = .error .keyError) := by
  refine ⟨?_, ?_, ?_⟩
  · rintro ⟨x, hx, hxm⟩
    have : bs.any o.mem = true := List.any_eq_true.mpr ⟨x, hx, (h.mem x).mpr hxm⟩
    simp [BOrd.primitiveInsert, this]
  · intro hnd
    simp [BOrd.primitiveInsert, hnd]
  · intro hnot hnd a ha hna
    have hany : bs.any o.mem = false := by
      rw [List.any_eq_false]
      intro x hx hm
      exact hnot x hx ((h.mem x).mp hm)
    have : o.mem a = false := by
      cases hm : o.mem a with
      | false => rfl
      | true => exact absurd ((h.mem a).mp hm) hna
    simp [BOrd.primitiveInsert, hany, ha, this, hnd]

end GtirbVerif.Adt
