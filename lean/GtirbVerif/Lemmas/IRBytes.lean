import GtirbVerif.Lemmas.IRFrame

/-!
# What `insert` and `delete` do to the bytes (model side of C01)

`IR.bytesOf ir i` are the bytes of byte interval `i`.  `delete` splices the deleted range
out of the block's interval, `insert` splices the patch bytes in, and neither touches the
bytes of any other interval that existed before.
-/
namespace GtirbVerif.IR
open GtirbVerif.Adt (CfgNode Label Edge)

def IR.bytesOf (ir : IR) (i : Nat) : Option (List Nat) := (ir.interval? i).map (·.bytes)

theorem bytesOf_congr {a b : IR} (h : a.intervals = b.intervals) (i : Nat) : a.bytesOf i = b.bytesOf i := by
  unfold IR.bytesOf IR.interval?; rw [h]

theorem find_id {l : List Interval} {i : Nat} {iv : Interval} (h : l.find? (·.id == i) = some iv) : iv.id = i := by
  have := List.find?_some h
  simpa using this

theorem find_map_same (l : List Interval) (i : Nat) (iv nv : Interval)
    (h : l.find? (·.id == i) = some iv) (hid : nv.id = i) :
    (l.map (fun x => if x.id == nv.id then nv else x)).find? (·.id == i) = some nv := by
  induction l with
  | nil => simp at h
  | cons x xs ih =>
    simp only [List.map_cons, List.find?_cons]
    by_cases hx : x.id = i
    · simp [hx, hid]
    · have hx' : (x.id == nv.id) = false := by simp [hid, hx]
      simp only [hx', Bool.false_eq_true, if_false]
      have hx2 : (x.id == i) = false := by simp [hx]
      simp only [hx2]
      apply ih
      simpa [List.find?_cons, hx2] using h

theorem find_map_other (l : List Interval) (i j : Nat) (nv : Interval) (hid : nv.id = i) (hj : j ≠ i) :
    (l.map (fun x => if x.id == nv.id then nv else x)).find? (·.id == j) = l.find? (·.id == j) := by
  induction l with
  | nil => rfl
  | cons x xs ih =>
    simp only [List.map_cons, List.find?_cons]
    by_cases hx : x.id = i
    · have : (x.id == nv.id) = true := by simp [hid, hx]
      simp only [this, if_true]
      have h1 : (nv.id == j) = false := by simp [hid]; exact fun h => hj h.symm
      have h2 : (x.id == j) = false := by simp [hx]; exact fun h => hj h.symm
      simp only [h1, h2]
      exact ih
    · have : (x.id == nv.id) = false := by simp [hid, hx]
      simp only [this, Bool.false_eq_true, if_false]
      by_cases hxj : x.id = j
      · simp [hxj]
      · have : (x.id == j) = false := by simp [hxj]
        simp only [this]
        exact ih

/-- replacing an interval by one with the same id -/
theorem interval?_setInterval_same (ir : IR) (i : Nat) (iv nv : Interval)
    (h : ir.interval? i = some iv) (hid : nv.id = i) : (ir.setInterval nv).interval? i = some nv :=
  find_map_same ir.intervals i iv nv h hid

theorem interval?_setInterval_other (ir : IR) (i j : Nat) (nv : Interval) (hid : nv.id = i) (hj : j ≠ i) :
    (ir.setInterval nv).interval? j = ir.interval? j :=
  find_map_other ir.intervals i j nv hid hj

/-- **`edit_byte_interval` is a splice** of the target interval … -/
theorem editInterval_bytes_same (ir : IR) (i off len : Nat) (content : List Nat) (st : List Nat) (iv : Interval)
    (h : ir.interval? i = some iv) :
    (ir.editInterval i off len content st).bytesOf i = some (spliceBytes iv.bytes off len content) := by
  unfold IR.editInterval
  rw [h]
  simp only []
  unfold IR.bytesOf
  have hid := find_id h
  have := interval?_setInterval_same ir i iv
    { iv with size := iv.size + content.length - len, bytes := spliceBytes iv.bytes off len content,
              symExprs := shiftKeys off len content.length iv.symExprs } h hid
  unfold IR.interval? at this ⊢
  simp only [] at this ⊢
  rw [this]
  rfl

/-- … and leaves every other interval alone -/
theorem editInterval_bytes_other (ir : IR) (i j off len : Nat) (content : List Nat) (st : List Nat) (hj : j ≠ i) :
    (ir.editInterval i off len content st).bytesOf j = ir.bytesOf j := by
  unfold IR.editInterval
  split
  · rfl
  · rename_i iv h
    unfold IR.bytesOf
    have hid := find_id h
    have := interval?_setInterval_other ir i j
      { iv with size := iv.size + content.length - len, bytes := spliceBytes iv.bytes off len content,
                symExprs := shiftKeys off len content.length iv.symExprs } hid hj
    unfold IR.interval? at this ⊢
    simp only [] at this ⊢
    rw [this]

theorem spliceBytes_nothing (bytes : List Nat) (off : Nat) : spliceBytes bytes off 0 [] = bytes := by
  unfold spliceBytes; simp

/-- bytes after an operation that keeps the intervals, then an edit, then another frame step -/
theorem bytes_after_edit {ir0 ir1 ir2 : IR} {i off len : Nat} {content st : List Nat} {iv : Interval}
    (h0 : ir1.intervals = ir0.intervals) (hiv : ir0.interval? i = some iv)
    (h2 : ir2.intervals = (ir1.editInterval i off len content st).intervals) :
    ir2.bytesOf i = some (spliceBytes iv.bytes off len content) ∧ ∀ j, j ≠ i → ir2.bytesOf j = ir0.bytesOf j := by
  have hiv1 : ir1.interval? i = some iv := by unfold IR.interval? at *; rw [h0]; exact hiv
  constructor
  · rw [bytesOf_congr h2, editInterval_bytes_same _ _ _ _ _ _ _ hiv1]
  · intro j hj
    rw [bytesOf_congr h2, editInterval_bytes_other _ _ _ _ _ _ _ hj, bytesOf_congr h0]

/-- **`delete` removes exactly the requested range** from the block's interval and touches
no other interval. -/
theorem delete_bytes {ir ir' : IR} {b off len : Nat} {px : Bool} {r : Option Nat} {blk : Block} {i : Nat}
    {iv : Interval}
    (h : ir.delete b off len px = .ok (ir', r))
    (hb : ir.block? b = some blk) (hbi : blk.bi = some i) (hiv : ir.interval? i = some iv) :
    ir'.bytesOf i = some (spliceBytes iv.bytes (blk.off + off) len []) ∧
    ∀ j, j ≠ i → ir'.bytesOf j = ir.bytesOf j := by
  unfold IR.delete at h
  rw [hb] at h
  simp only [] at h
  split at h
  · cases h
  · rw [hbi] at h
    simp only [] at h
    split at h
    · -- nothing to delete
      rename_i hz
      injection h with h; injection h with h1 h2; subst h1
      have : len = 0 := by simp at hz; exact hz.1
      subst this
      refine ⟨?_, fun j _ => rfl⟩
      unfold IR.bytesOf; rw [hiv, spliceBytes_nothing]; rfl
    · split at h
      · -- part of the block
        split at h
        · cases h
        · rename_i ir1 e1 a1 hs1
          split at h
          · cases h
          · rename_i ir2 e2 a2 hs2
            split at h
            · cases h
            · rename_i ir3 d3 hr3
              split at h
              · cases h
              · rename_i ir5 last hc
                injection h with h; injection h with h1 h2; subst h1
                apply bytes_after_edit (ir1 := ir3) _ hiv (cleanup_intervals hc)
                rw [removeBlock_intervals hr3, connectEmptyTail_intervals, splitBlock_intervals hs2,
                  splitBlock_intervals hs1]
      · -- the whole block
        split at h
        · cases h
        · rename_i ir1 deleted hr1
          split at h
          · split at h
            · cases h
            · rename_i ir3 d3 hr3
              injection h with h; injection h with h1 h2; subst h1
              exact bytes_after_edit (removeBlock_intervals hr1) hiv (removeBlock_intervals hr3)
          · injection h with h; injection h with h1 h2; subst h1
            exact bytes_after_edit (removeBlock_intervals hr1) hiv rfl

/-! ### insert -/

/-- `b` has every interval of `a`, with the same bytes (it may have more) -/
def BytesKept (a b : IR) : Prop := ∀ j, a.bytesOf j ≠ none → b.bytesOf j = a.bytesOf j

theorem BytesKept.refl (a : IR) : BytesKept a a := fun _ _ => rfl

theorem BytesKept.of_intervals {a b : IR} (h : b.intervals = a.intervals) : BytesKept a b :=
  fun j _ => bytesOf_congr h j

theorem BytesKept.trans {a b c : IR} (h1 : BytesKept a b) (h2 : BytesKept b c) : BytesKept a c := by
  intro j hj
  have hb := h1 j hj
  rw [h2 j (by rw [hb]; exact hj), hb]

@[simp] theorem insertStitch_intervals (ir : IR) (tb : List Block) (b e : Nat) (a : Bool) :
    (ir.insertStitch tb b e a).intervals = ir.intervals := by
  unfold IR.insertStitch
  apply ite_intervals
  · simp only [updateFallthrough_intervals]; split <;> simp
  · split <;> simp

@[simp] theorem placePatchBlocks_intervals (ir : IR) (tb : List Block) (i base : Nat) :
    (ir.placePatchBlocks tb i base).intervals = ir.intervals := rfl
@[simp] theorem addPatchNodes_intervals (ir : IR) (p : Patch) (c : List Edge) (px : List Nat) :
    (ir.addPatchNodes p c px).intervals = ir.intervals := rfl
@[simp] theorem addPatchAux_intervals (ir : IR) (p : Patch) (i base : Nat) :
    (ir.addPatchAux p i base).intervals = ir.intervals := rfl
@[simp] theorem bumpNext_intervals (ir : IR) (p : Patch) : (ir.bumpNext p).intervals = ir.intervals := rfl

@[simp] theorem addPatchFunctions_intervals (ir : IR) (blk : Block) (tb : List Block) :
    (ir.addPatchFunctions blk tb).intervals = ir.intervals := by
  unfold IR.addPatchFunctions
  split
  · split
    · apply foldl_intervals; intro i b; split <;> rfl
    · rfl
  · rfl

@[simp] theorem addReturnEdgesForPatchCalls_intervals (ir : IR) (pcfg : List Edge) :
    (ir.addReturnEdgesForPatchCalls pcfg).1.intervals = ir.intervals := by
  unfold IR.addReturnEdgesForPatchCalls
  apply foldl_pair_intervals
  intro acc ce
  split
  · rfl
  · split
    · rfl
    · split
      · rfl
      · split
        · rfl
        · simp

theorem insertSplit_intervals {ir ir' : IR} {b off repl e : Nat} {a : Bool}
    (h : ir.insertSplit b off repl = .ok (ir', e, a)) : ir'.intervals = ir.intervals := by
  unfold IR.insertSplit at h
  split at h
  · cases h
  · rename_i ir1 e0 a0 hs1
    split at h
    · split at h
      · cases h
      · rename_i i2 e2 a2 hs2
        split at h
        · cases h
        · rename_i i3 d3 hr
          injection h with h; injection h with h1 h2; subst h1
          rw [removeBlock_intervals hr, connectEmptyTail_intervals, splitBlock_intervals hs2,
            splitBlock_intervals hs1]
    · injection h with h; injection h with h1 h2; subst h1
      rw [connectEmptyTail_intervals]
      exact splitBlock_intervals hs1

/-- the patch's symbolic expressions are attached without touching any bytes -/
theorem setInterval_sameBytes (ir : IR) (i j : Nat) (bi nv : Interval) (hbi : ir.interval? i = some bi)
    (hid : nv.id = i) (hb : nv.bytes = bi.bytes) : (ir.setInterval nv).bytesOf j = ir.bytesOf j := by
  unfold IR.bytesOf
  by_cases hj : j = i
  · subst hj
    rw [interval?_setInterval_same ir j bi nv hbi hid, hbi]
    simp [hb]
  · rw [interval?_setInterval_other ir i j nv hid hj]

theorem addPatchExprs_bytes (ir : IR) (i base : Nat) (ex : List (Nat × SymExpr)) (j : Nat) :
    (ir.addPatchExprs i base ex).bytesOf j = ir.bytesOf j := by
  unfold IR.addPatchExprs
  split
  · rfl
  · rename_i bi hbi
    have hid : bi.id = i := find_id hbi
    exact setInterval_sameBytes ir i j bi _ hbi hid rfl

theorem find_append_some {l : List Interval} {x : Interval} {j : Nat} (h : l.find? (·.id == j) ≠ none) :
    (l ++ [x]).find? (·.id == j) = l.find? (·.id == j) := by
  rw [List.find?_append]
  cases hf : l.find? (·.id == j) with
  | none => exact absurd hf h
  | some v => rfl

theorem addOtherSection_kept {ir ir' : IR} {p : Patch} {s : PatchSect} {sid bid : Nat} {ns : List Sym}
    (h : ir.addOtherSection p s sid bid = .ok (ir', ns)) : BytesKept ir ir' := by
  unfold IR.addOtherSection at h
  simp only [] at h
  split at h
  · cases h
  · split at h
    · cases h
    · injection h with h; injection h with h1 h2; subst h1
      intro j hj
      unfold IR.bytesOf IR.interval? at *
      simp only [orderAppend_intervals]
      rw [find_append_some]
      intro hn; rw [hn] at hj; exact hj rfl

theorem addOthers_kept : ∀ (l : List (PatchSect × Nat × Nat)) (p : Patch) (acc : Except Err IR) (ir0 ir' : IR),
    (∀ a, acc = .ok a → BytesKept ir0 a) →
    l.foldl (fun (acc : Except Err IR) (x : PatchSect × Nat × Nat) =>
      match acc with
      | .error e => .error e
      | .ok i =>
        match i.addOtherSection { p with syms := i.syms.filter (fun y => p.syms.any (·.id == y.id)) } x.1 x.2.1 x.2.2 with
        | .error e => .error e
        | .ok (i', newSyms) =>
          .ok { i' with syms := i'.syms.map (fun y =>
            match newSyms.find? (·.id == y.id) with
            | some ny => ny
            | none => y) }) acc = .ok ir' → BytesKept ir0 ir' := by
  intro l
  induction l with
  | nil => intro p acc ir0 ir' hacc h; exact hacc _ h
  | cons x xs ih =>
    intro p acc ir0 ir' hacc h
    simp only [List.foldl_cons] at h
    refine ih p _ ir0 ir' ?_ h
    intro a ha
    split at ha
    · cases ha
    · rename_i i
      split at ha
      · cases ha
      · rename_i i2 ns hao
        injection ha with ha; subst ha
        have := (hacc i rfl).trans (addOtherSection_kept hao)
        exact this

theorem addOthers_kept' {ir ir' : IR} {p : Patch} (h : ir.addOthers p = .ok ir') : BytesKept ir ir' := by
  unfold IR.addOthers at h
  exact addOthers_kept p.others p (.ok ir) ir ir' (fun a ha => by injection ha with ha; subst ha; exact BytesKept.refl _) h

/-- **`insert` splices exactly the patch bytes** over the replaced range of the block's
interval and keeps the bytes of every other interval the module had. -/
theorem insert_bytes {ir ir' : IR} {b off repl last : Nat} {p : Patch} {blk : Block} {i : Nat} {iv : Interval}
    (h : ir.insert b off repl p = .ok (ir', last))
    (hb : ir.block? b = some blk) (hbi : blk.bi = some i) (hiv : ir.interval? i = some iv) :
    ir'.bytesOf i = some (spliceBytes iv.bytes (blk.off + off) repl p.text.data) ∧
    ∀ j, j ≠ i → ir.bytesOf j ≠ none → ir'.bytesOf j = ir.bytesOf j := by
  unfold IR.insert at h
  rw [hb] at h
  simp only [] at h
  split at h
  · cases h
  · split at h
    · cases h
    · rw [hbi] at h
      split at h
      · rename_i biId sect hbi' hsect
        injection hbi' with hbi'; subst hbi'
        split at h
        · cases h
        · split at h
          · cases h
          · split at h
            · cases h
            · split at h
              · cases h
              · split at h
                · cases h
                · rename_i ir2 endB added hs
                  split at h
                  · cases h
                  · split at h
                    · cases h
                    · rename_i ir12 ho
                      have hc := cleanup_intervals h
                      simp only [bumpNext_intervals] at hc
                      generalize hpc : (if blk.isCode then ir.matchPatchReturnEdges b p.cfg p.proxies else (p.cfg, p.proxies)).1
                        = pcfgX at ho hc
                      -- the state right after the byte edit
                      have h0 : ((ir2.addReturnEdgesForPatchCalls pcfgX).1.insertStitch p.text.blocks b endB added).intervals
                          = ir.intervals := by
                        rw [insertStitch_intervals, addReturnEdgesForPatchCalls_intervals, insertSplit_intervals hs]
                      have hE := bytes_after_edit (ir2 := ((ir2.addReturnEdgesForPatchCalls pcfgX).1.insertStitch p.text.blocks b
                        endB added).editInterval i (blk.off + off) repl p.text.data [b]) h0 hiv rfl
                      -- everything after it keeps the bytes
                      have hK := addOthers_kept' ho
                      have hmid : ∀ (x : IR) (c : List Edge) (px : List Nat) j, ((((x.placePatchBlocks p.text.blocks i
                          (blk.off + off)).addPatchExprs i (blk.off + off)
                          p.text.symExprs).orderInsertAfter sect b (p.text.blocks.map (·.id))).addPatchNodes p c px
                          |>.addPatchAux p i (blk.off + off) |>.addPatchFunctions blk p.text.blocks).bytesOf j = x.bytesOf j := by
                        intro x c px j
                        rw [bytesOf_congr (by simp : _ = ((x.placePatchBlocks p.text.blocks i (blk.off + off)).addPatchExprs
                          i (blk.off + off) p.text.symExprs).intervals)]
                        rw [addPatchExprs_bytes]
                        exact bytesOf_congr (by simp) j
                      constructor
                      · rw [bytesOf_congr hc, hK i (by rw [hmid, hE.1]; simp), hmid, hE.1]
                      · intro j hj hne
                        rw [bytesOf_congr hc, hK j (by rw [hmid, hE.2 j hj]; exact hne), hmid, hE.2 j hj]
      · cases h

end GtirbVerif.IR
