import GtirbVerif.Lemmas.IRFrame

/-!
# Frame lemmas for symbols and blocks

`IR.core` = (intervals, symbols, blocks).  The CFG, function-table and aux-data steps of
split / join / remove leave all three alone; only the few steps named `…Syms`, `…Blocks`,
`setBlock`, `keepEmpty` write symbols or blocks.
-/
namespace GtirbVerif.IR
open GtirbVerif.Adt (CfgNode Label Edge)

/-- everything of the IR except the CFG, the function tables, the block ordering and the
fresh-id counter / proxy set: what the pure CFG and function-membership steps never touch -/
structure Core where
  sections : List (Nat × String)
  intervals : List Interval
  blocks : List Block
  syms : List Sym
  entry : Option Nat
  alignment : List (Nat × Nat)
  omaps : List (String × List (Elem × Nat × String))
  cfi : List (Nat × Nat × List CfiDir)
  encodings : List (Nat × String)
  types : List (Nat × String)
  profile : List (Nat × String)
  sccs : List (Nat × String)
  peSafeSeh : List Nat
  elfInit : Option Nat
  elfFini : Option Nat
  elfSymInfo : List (Nat × String)

def IR.core (ir : IR) : Core :=
  { sections := ir.sections, intervals := ir.intervals, blocks := ir.blocks, syms := ir.syms, entry := ir.entry,
    alignment := ir.aux.alignment, omaps := ir.aux.omaps, cfi := ir.aux.cfi, encodings := ir.aux.encodings,
    types := ir.aux.types, profile := ir.aux.profile, sccs := ir.aux.sccs, peSafeSeh := ir.aux.peSafeSeh,
    elfInit := ir.aux.elfInit, elfFini := ir.aux.elfFini, elfSymInfo := ir.aux.elfSymInfo }

theorem core_syms {a b : IR} (h : a.core = b.core) : a.syms = b.syms := congrArg Core.syms h
theorem core_blocks {a b : IR} (h : a.core = b.core) : a.blocks = b.blocks := congrArg Core.blocks h
theorem core_omaps {a b : IR} (h : a.core = b.core) : a.aux.omaps = b.aux.omaps := congrArg Core.omaps h
theorem core_cfi {a b : IR} (h : a.core = b.core) : a.aux.cfi = b.aux.cfi := congrArg Core.cfi h
theorem core_alignment {a b : IR} (h : a.core = b.core) : a.aux.alignment = b.aux.alignment := congrArg Core.alignment h
theorem core_intervals {a b : IR} (h : a.core = b.core) : a.intervals = b.intervals := congrArg Core.intervals h

theorem foldl_core {α} (f : IR → α → IR) (h : ∀ ir a, (f ir a).core = ir.core)
    (l : List α) (ir : IR) : (l.foldl f ir).core = ir.core := by
  induction l generalizing ir with
  | nil => rfl
  | cons a l ih => simp only [List.foldl_cons]; rw [ih, h]

theorem foldl_pair_core {α β} (f : IR × β → α → IR × β)
    (h : ∀ acc a, (f acc a).1.core = acc.1.core)
    (l : List α) (acc : IR × β) : (l.foldl f acc).1.core = acc.1.core := by
  induction l generalizing acc with
  | nil => rfl
  | cons a l ih => simp only [List.foldl_cons]; rw [ih, h]

theorem ite_core {c : Prop} [Decidable c] {a b : IR} {x : Core}
    (ha : a.core = x) (hb : b.core = x) : (if c then a else b).core = x := by
  split <;> assumption

@[simp] theorem updateEdge_core (ir : IR) (e e' : Edge) : (ir.updateEdge e e').core = ir.core := rfl
@[simp] theorem addFunctionBlock_core (ir : IR) (b f : Nat) : (ir.addFunctionBlock b f).core = ir.core := rfl
@[simp] theorem orderInsertAfter_core (ir : IR) (s a : Nat) (bs : List Nat) :
    (ir.orderInsertAfter s a bs).core = ir.core := rfl
@[simp] theorem orderRemove_core (ir : IR) (s b : Nat) : (ir.orderRemove s b).core = ir.core := rfl
@[simp] theorem addFall_core (ir : IR) (a b : Nat) : (ir.addFall a b).core = ir.core := rfl

@[simp] theorem removeFunctionBlock_core (ir : IR) (b : Nat) : (ir.removeFunctionBlock b).core = ir.core := by
  unfold IR.removeFunctionBlock
  split
  · rfl
  · exact ite_core rfl rfl

@[simp] theorem inheritFunction_core (ir : IR) (a b : Nat) : (ir.inheritFunction a b).core = ir.core := by
  unfold IR.inheritFunction; split <;> rfl

@[simp] theorem withProxy_core (ir : IR) (t : Bool) : (ir.withProxy t).core = ir.core := by
  unfold IR.withProxy; split <;> rfl

@[simp] theorem moveReturnEdges_core (ir : IR) (ce : Edge) (ft : List Nat) (nf : Nat) :
    (ir.moveReturnEdges ce ft nf).core = ir.core := by
  unfold IR.moveReturnEdges
  split
  · rfl
  · split
    · rfl
    · apply foldl_core
      intro ir tb
      apply foldl_core
      intro ir e
      split
      · split <;> simp
      · rfl

@[simp] theorem updateFallthrough_core (ir : IR) (s t : Nat) : (ir.updateFallthrough s t).core = ir.core := by
  unfold IR.updateFallthrough
  show (List.foldl _ ir _).core = ir.core
  apply foldl_core
  intro ir e
  split
  · simp
  · split <;> rfl

@[simp] theorem removeReturnEdgesFromCallee_core (ir : IR) (ce : Edge) (ft : List Nat) :
    (ir.removeReturnEdgesFromCallee ce ft).core = ir.core := by
  unfold IR.removeReturnEdgesFromCallee
  split
  · rfl
  · split
    · rfl
    · apply foldl_core
      intro ir b
      simp only []
      split
      · rfl
      · have hfold : ∀ (rets : List Edge) (acc : IR × Bool),
            (rets.foldl (fun (acc : IR × Bool) e =>
              match e.dst with
              | .block t => if ft.contains t then ({ acc.1 with cfg := cfgDiscard acc.1.cfg e }, acc.2)
                            else (acc.1, true)
              | .proxy _ => (acc.1, true)) acc).1.core = acc.1.core := by
          intro rets acc
          apply foldl_pair_core
          intro acc e
          split
          · split <;> rfl
          · rfl
        split
        · exact hfold _ _
        · exact hfold _ _

@[simp] theorem splitEdgesMid_core (ir : IR) (b nb : Nat) : (ir.splitEdgesMid b nb).core = ir.core := by
  unfold IR.splitEdgesMid
  apply foldl_core; intro i e; rfl

@[simp] theorem splitEdgesEnd_core (ir : IR) (b nb : Nat) : (ir.splitEdgesEnd b nb).core = ir.core := by
  unfold IR.splitEdgesEnd
  apply foldl_core; intro i e
  split
  · simp
  · split <;> rfl

@[simp] theorem splitCode_core (ir : IR) (b nb : Nat) (e : Bool) : (ir.splitCode b nb e).1.core = ir.core := by
  unfold IR.splitCode
  split
  · simp
  · simp only [inheritFunction_core]
    split <;> simp

@[simp] theorem joinCode_core (ir : IR) (b1 : Block) (id2 s2 : Nat) :
    (ir.joinCode b1 id2 s2).core = ir.core := by
  unfold IR.joinCode
  simp only [removeFunctionBlock_core]
  have h1 : ∀ (x : IR), ((x.inEdges id2).foldl (fun ir e =>
      if Edge.isFall e && e.src == .block b1.id then { ir with cfg := cfgDiscard ir.cfg e } else ir) x).core
      = x.core := by
    intro x; apply foldl_core; intro i e; split <;> rfl
  have h2 : ∀ (x : IR), (if b1.size == 0 then
      (x.inEdges id2).foldl (fun ir e => ir.updateEdge e (updDst e (.block b1.id))) x
    else (x.inEdges id2).foldl (fun ir e => { ir with cfg := cfgDiscard ir.cfg e }) x).core = x.core := by
    intro x; split <;> (apply foldl_core; intro i e; rfl)
  split
  · rw [foldl_core _ (by intro i e; rfl), h2, h1]
  · rw [foldl_core _ (by intro i e; rfl), h2, h1]

@[simp] theorem removeInEdges_core (ir : IR) (blk : Block) (p n : Option Nat) (nc : Bool) :
    (ir.removeInEdges blk p n nc).core = ir.core := by
  unfold IR.removeInEdges
  split
  · rfl
  · split
    · apply foldl_core; intro i e; rfl
    · split
      · apply foldl_core; intro i e; rfl
      · simp only []
        rw [foldl_core _ (by intro i e; rfl)]; rfl

@[simp] theorem removeFunctions_core (ir : IR) (blk : Block) (n : Option Nat) (nc : Bool) :
    (ir.removeFunctions blk n nc).core = ir.core := by
  unfold IR.removeFunctions
  split
  · rfl
  · split
    · rfl
    · simp only [removeFunctionBlock_core]
      split <;> rfl

@[simp] theorem removeOutEdges_core (ir : IR) (blk : Block) : (ir.removeOutEdges blk).core = ir.core := by
  unfold IR.removeOutEdges
  split
  · rfl
  · apply foldl_core; intro i e
    simp only []
    split
    · exact (removeReturnEdgesFromCallee_core i e _)
    · rfl

@[simp] theorem connectEmptyTail_core (ir : IR) (t : Nat) : (ir.connectEmptyTail t).core = ir.core := by
  unfold IR.connectEmptyTail
  split
  · rfl
  · split
    · split
      · split <;> rfl
      · rfl
    · rfl

/-! the table-writing steps still leave symbols and blocks alone -/
@[simp] theorem splitTables_syms (ir : IR) (b nb off : Nat) : (ir.splitTables b nb off).syms = ir.syms := rfl
@[simp] theorem splitTables_blocks (ir : IR) (b nb off : Nat) : (ir.splitTables b nb off).blocks = ir.blocks := rfl
@[simp] theorem joinTables_syms (ir : IR) (b1 : Block) (id2 : Nat) (c : Bool) : (ir.joinTables b1 id2 c).syms = ir.syms := rfl
@[simp] theorem joinTables_blocks (ir : IR) (b1 : Block) (id2 : Nat) (c : Bool) : (ir.joinTables b1 id2 c).blocks = ir.blocks := rfl
@[simp] theorem removeAuxEntries_syms (ir : IR) (blk : Block) : (ir.removeAuxEntries blk).syms = ir.syms := rfl
@[simp] theorem removeCfi_syms (ir : IR) (b : Nat) (c : List CfiDir) (p n : Option Nat) (pc nc : Bool) :
    (ir.removeCfi b c p n pc nc).syms = ir.syms := rfl
@[simp] theorem removeEntrypoints_syms (ir : IR) (blk : Block) (n : Option Nat) (nc : Bool) :
    (ir.removeEntrypoints blk n nc).syms = ir.syms := by
  unfold IR.removeEntrypoints
  simp only []
  split <;> split <;> split <;> split <;> rfl

end GtirbVerif.IR
