import GtirbVerif.Model.Asm.Streamer
/-!
Tiling invariant of the streamer: in every section the blocks sit end to end from offset 0 and
the last one ends at the end of the section's data.
-/
namespace GtirbVerif.Asm

/-- the end offset when the blocks sit end to end starting at `p` -/
def tiles : Nat → List ABlock → Option Nat
  | p, [] => some p
  | p, b :: bs => if b.off = p then tiles (p + b.size) bs else none

theorem tiles_append (p : Nat) (xs ys : List ABlock) :
    tiles p (xs ++ ys) = (tiles p xs).bind (fun q => tiles q ys) := by
  induction xs generalizing p with
  | nil => simp [tiles]
  | cons x xs ih =>
    simp only [List.cons_append, tiles]
    split
    · exact ih _
    · simp

/-- a section is tiled: non-empty block list, end to end, ending at the data length -/
def TiledS (s : ASect) : Prop := s.blocks ≠ [] ∧ tiles 0 s.blocks = some s.dataLen

theorem blocks_split {s : ASect} (h : s.blocks ≠ []) : s.blocks = s.blocks.dropLast ++ [s.curBlock] := by
  unfold ASect.curBlock
  rw [List.getLast?_eq_some_getLast h]
  simp [List.dropLast_concat_getLast]

/-- in a tiled section the current block ends where the data ends -/
theorem TiledS.cur_end {s : ASect} (h : TiledS s) :
    ∃ q, tiles 0 s.blocks.dropLast = some q ∧ s.curBlock.off = q ∧ q + s.curBlock.size = s.dataLen := by
  obtain ⟨hne, ht⟩ := h
  rw [blocks_split hne, tiles_append] at ht
  cases hq : tiles 0 s.blocks.dropLast with
  | none => simp [hq] at ht
  | some q =>
    simp only [hq, Option.bind_some, tiles] at ht
    split at ht
    · rename_i ho
      simp at ht
      exact ⟨q, rfl, ho, ht⟩
    · cases ht

theorem tiled_of_parts {s : ASect} {pre : List ABlock} {q e : Nat} {tail : List ABlock}
    (hb : s.blocks = pre ++ tail) (hne : tail ≠ []) (hq : tiles 0 pre = some q) (ht : tiles q tail = some e)
    (he : e = s.dataLen) : TiledS s := by
  refine ⟨?_, ?_⟩
  · rw [hb]; simp [hne]
  · rw [hb, tiles_append, hq]; simp [ht, he]

theorem TiledS.append {s : ASect} (h : TiledS s) (n : Nat) : TiledS (s.append n) := by
  obtain ⟨q, hq, ho, he⟩ := h.cur_end
  unfold ASect.append ASect.setCur
  refine tiled_of_parts (pre := s.blocks.dropLast) (tail := [{ s.curBlock with size := s.curBlock.size + n }]) (q := q)
    (e := q + (s.curBlock.size + n)) rfl (by simp) hq ?_ ?_
  · simp [tiles, ho]
  · simp; omega

theorem TiledS.push {s : ASect} (h : TiledS s) (id : Nat) :
    TiledS { s with blocks := s.blocks ++ [{ id := id, off := s.curBlock.off + s.curBlock.size, size := 0 }] } := by
  obtain ⟨q, hq, ho, he⟩ := h.cur_end
  refine ⟨by simp, ?_⟩
  show tiles 0 (s.blocks ++ _) = some s.dataLen
  rw [tiles_append, h.2]
  simp [tiles]; omega

theorem TiledS.split {s : ASect} (h : TiledS s) (st : AState) (f : Bool) : TiledS (splitBlock st s f).2 := by
  unfold splitBlock
  exact h.push _

theorem TiledS.congr {s s' : ASect} (h : TiledS s) (hb : s'.blocks = s.blocks) (hd : s'.dataLen = s.dataLen) : TiledS s' := by
  unfold TiledS at *
  rw [hb, hd]; exact h

/-- the invariant of a whole state -/
def Inv (st : AState) : Prop := ∀ s ∈ st.sects, TiledS s

theorem Inv.setSect {st : AState} {s : ASect} (h : Inv st) (hs : TiledS s) : Inv (st.setSect s) := by
  intro x hx
  unfold AState.setSect at hx
  simp only [List.mem_map] at hx
  obtain ⟨y, hy, rfl⟩ := hx
  split
  · exact hs
  · exact h y hy

theorem Inv.of_sects {st st' : AState} (h : Inv st) (hs : st'.sects = st.sects) : Inv st' := by
  unfold Inv at *; rw [hs]; exact h

theorem sect?_mem {st : AState} {s : ASect} (h : st.sect? = some s) : s ∈ st.sects := by
  unfold AState.sect? at h
  split at h
  · cases h
  · exact List.mem_of_find?_eq_some h

/-! ### symbol resolution leaves the sections alone -/

theorem resolveRef_sects {t : Target} {st st' : AState} {n : String} (h : resolveRef t st n = .ok st') : st'.sects = st.sects := by
  unfold resolveRef at h
  split at h
  · injection h with h; rw [← h]
  · split at h
    · cases h
    · injection h with h; rw [← h]

theorem resolveFix_sects {t : Target} {st st' : AState} {f : Fixup} (h : resolveFix t st f = .ok st') : st'.sects = st.sects := by
  unfold resolveFix at h
  split at h
  · cases h
  · rename_i st1 h1
    split at h
    · injection h with h; rw [← h]; exact resolveRef_sects h1
    · rw [resolveRef_sects h, resolveRef_sects h1]

theorem resolveFixups_sects {t : Target} {fixups : List Fixup} {st st' : AState}
    (h : resolveFixups t st fixups = .ok st') : st'.sects = st.sects := by
  induction fixups generalizing st with
  | nil => simp [resolveFixups] at h; rw [← h]
  | cons f fs ih =>
    simp only [resolveFixups] at h
    split at h
    · cases h
    · rename_i st1 hf
      rw [ih h, resolveFix_sects hf]

theorem resolveTarget_sects {t : Target} {st st' : AState} {n : String} {nd : Node}
    (h : resolveTarget t st n = .ok (st', nd)) : st'.sects = st.sects := by
  unfold resolveTarget at h
  split at h
  · injection h with h; injection h with h1 h2; rw [← h1]
  · split at h
    · injection h with h; injection h with h1 h2; rw [← h1]
    · split at h
      · split at h
        · injection h with h; injection h with h1 h2; rw [← h1]
        · cases h
      · split at h
        · cases h
        · injection h with h; injection h with h1 h2; rw [← h1]

theorem insnTarget_sects {t : Target} {st st' : AState} {ind : Bool} {fx : List Fixup} {nd : Node} {d : Bool}
    (h : insnTarget t st ind fx = .ok (st', nd, d)) : st'.sects = st.sects := by
  unfold insnTarget at h
  split at h
  · injection h with h; injection h with h1 h2; rw [← h1]
  · split at h
    · split at h
      · cases h
      · rename_i f _
        cases hr : resolveTarget t st f.sym with
        | error e => rw [hr] at h; cases h
        | ok r =>
          obtain ⟨a, n⟩ := r
          rw [hr] at h
          simp only [Except.map] at h
          injection h with h; injection h with h1 h2
          rw [← h1]; exact resolveTarget_sects hr
    · cases h

end GtirbVerif.Asm

namespace GtirbVerif.Asm

/-! ### every event keeps the sections tiled -/

theorem Inv.stepSection {st : AState} (h : Inv st) (name : String) (exec : Bool) : Inv (stepSection st name exec) := by
  unfold GtirbVerif.Asm.stepSection
  split
  · exact h.of_sects rfl
  · intro s hs
    simp only [List.mem_append, List.mem_singleton] at hs
    rcases hs with hs | rfl
    · exact h s hs
    · exact ⟨by simp, by simp [tiles]⟩

theorem Inv.stepLabel {st st' : AState} {s : ASect} (h : Inv st) (hs : TiledS s) {name : String}
    (hr : stepLabel st s name = .ok st') : Inv st' := by
  unfold GtirbVerif.Asm.stepLabel at hr
  split at hr
  · cases hr
  · injection hr with hr
    rw [← hr]
    exact Inv.setSect (h.of_sects rfl) (hs.push _)

theorem TiledS.insnSect {s : ASect} (hs : TiledS s) (size : Nat) (fx : List Fixup) : TiledS (insnSect s size fx) := by
  unfold GtirbVerif.Asm.insnSect
  exact (hs.congr rfl rfl).append size

theorem Inv.stepInsn {t : Target} {st st' : AState} {s : ASect} (h : Inv st) (hs : TiledS s)
    {size : Nat} {kind : IKind} {ind : Bool} {fx : List Fixup}
    (hr : stepInsn t st s size kind ind fx = .ok st') : Inv st' := by
  unfold GtirbVerif.Asm.stepInsn at hr
  split at hr
  · cases hr
  · rename_i st0 h0
    have hi0 : Inv st0 := h.of_sects (resolveFixups_sects h0)
    have hs2 := hs.insnSect size fx
    have hm : Inv (markCode st0 (insnSect s size fx).curBlock.id) := hi0.of_sects rfl
    split at hr
    · injection hr with hr; rw [← hr]; exact hm.setSect hs2
    · injection hr with hr; rw [← hr]
      refine Inv.setSect (Inv.of_sects hm ?_) (hs2.split _ _)
      simp [splitBlock]
    · simp only [] at hr
      split at hr
      · cases hr
      · rename_i st2 tgt direct ht
        injection hr with hr; rw [← hr]
        refine Inv.setSect (Inv.of_sects hm ?_) (hs2.split _ _)
        simp only [splitBlock]
        exact insnTarget_sects ht

theorem Inv.stepValue {t : Target} {st st' : AState} {s : ASect} (h : Inv st) (hs : TiledS s) {size : Nat} {f : Fixup}
    (hr : stepValue t st s size f = .ok st') : Inv st' := by
  unfold GtirbVerif.Asm.stepValue at hr
  split at hr
  · cases hr
  · rename_i st0 h0
    injection hr with hr; rw [← hr]
    exact Inv.setSect (h.of_sects (resolveFix_sects h0)) ((hs.congr rfl rfl).append size)

theorem TiledS.encoded {s : ASect} (hs : TiledS s) (st : AState) (n : Nat) (ty : DType) (e : Option Fixup) :
    TiledS (encoded st s n ty e).2 := by
  unfold GtirbVerif.Asm.encoded
  refine TiledS.split (TiledS.append ?_ n) _ _
  have h1 := hs.split st false
  cases e with
  | none => exact h1
  | some f => exact h1.congr rfl rfl

theorem encoded_sects (st : AState) (s : ASect) (n : Nat) (ty : DType) (e : Option Fixup) :
    (encoded st s n ty e).1.sects = st.sects := by
  simp [GtirbVerif.Asm.encoded, splitBlock]

theorem blocks_split2 {s : ASect} (h : s.blocks.length ≥ 2) :
    s.blocks = s.blocks.dropLast.dropLast ++ [s.blocks.dropLast.getLast?.getD default, s.curBlock] := by
  have hne : s.blocks ≠ [] := by intro h0; rw [h0] at h; simp at h
  have hne2 : s.blocks.dropLast ≠ [] := by
    intro h0
    have := congrArg List.length h0
    simp at this; omega
  have h1 := blocks_split hne
  have h2 : s.blocks.dropLast = s.blocks.dropLast.dropLast ++ [s.blocks.dropLast.getLast?.getD default] := by
    rw [List.getLast?_eq_some_getLast hne2]
    simp [List.dropLast_concat_getLast]
  calc s.blocks = s.blocks.dropLast ++ [s.curBlock] := h1
    _ = (s.blocks.dropLast.dropLast ++ [s.blocks.dropLast.getLast?.getD default]) ++ [s.curBlock] := by rw [← h2]
    _ = _ := by simp

theorem TiledS.terminate {s : ASect} (hs : TiledS s) (hl : s.blocks.length ≥ 2) (hz : s.curBlock.size = 0) :
    TiledS (terminateSect s) := by
  have hb := blocks_split2 hl
  have ht := hs.2
  rw [hb, tiles_append] at ht
  cases hq : tiles 0 s.blocks.dropLast.dropLast with
  | none => simp [hq] at ht
  | some q =>
    simp only [hq, Option.bind_some, tiles] at ht
    split at ht
    · rename_i hp
      split at ht
      · rename_i hc
        simp at ht
        unfold terminateSect
        refine tiled_of_parts (pre := s.blocks.dropLast.dropLast) (q := q) (e := s.dataLen + 1) rfl (by simp) hq ?_ rfl
        simp only [tiles, hp]
        simp
        constructor <;> omega
      · cases ht
    · cases ht

theorem Inv.stepStr {st : AState} {s : ASect} (h : Inv st) (hs : TiledS s) (n : Nat) (isNul : Bool) :
    Inv (stepStr st s n isNul) := by
  unfold GtirbVerif.Asm.stepStr
  split
  · rename_i hc
    unfold canTerminate at hc
    simp only [Bool.and_eq_true, decide_eq_true_eq, beq_iff_eq] at hc
    exact Inv.setSect (h.of_sects rfl) (hs.terminate hc.1.2 hc.1.1.2)
  · exact Inv.setSect (h.of_sects (encoded_sects _ _ _ _ _)) (hs.encoded _ _ _ _)

theorem Inv.stepLeb {t : Target} {st st' : AState} {s : ASect} (h : Inv st) (hs : TiledS s) {signed : Bool} {f : Fixup}
    (hr : stepLeb t st s signed f = .ok st') : Inv st' := by
  unfold GtirbVerif.Asm.stepLeb at hr
  split at hr
  · cases hr
  · rename_i st0 h0
    injection hr with hr; rw [← hr]
    exact Inv.setSect ((h.of_sects (resolveFix_sects h0)).of_sects (encoded_sects _ _ _ _ _)) (hs.encoded _ _ _ _)

theorem Inv.stepAlign {st : AState} {s : ASect} (h : Inv st) (hs : TiledS s) (a : Nat) : Inv (stepAlign st s a) := by
  unfold GtirbVerif.Asm.stepAlign
  split
  · exact Inv.setSect (h.of_sects (by simp [splitBlock])) ((hs.split st true).congr rfl rfl)
  · exact Inv.setSect h (hs.congr rfl rfl)

theorem Inv.step {t : Target} {st st' : AState} {ev : Event} (h : Inv st) (hr : step t st ev = .ok st') : Inv st' := by
  unfold GtirbVerif.Asm.step at hr
  split at hr
  · injection hr with hr; rw [← hr]; exact h.stepSection _ _
  · split at hr
    · cases hr
    · rename_i s hsec
      have hs : TiledS s := h s (sect?_mem hsec)
      unfold stepIn at hr
      split at hr
      · injection hr with hr; rw [← hr]; exact h
      · exact h.stepLabel hs hr
      · exact h.stepInsn hs hr
      · exact h.stepValue hs hr
      · injection hr with hr; rw [← hr]; exact h.setSect (hs.append _)
      · injection hr with hr; rw [← hr]; exact h.setSect (hs.append _)
      · injection hr with hr; rw [← hr]; exact h.stepStr hs _ _
      · exact h.stepLeb hs hr
      · injection hr with hr; rw [← hr]; exact h.stepAlign hs _
      · injection hr with hr; rw [← hr]; exact h.of_sects rfl

theorem Inv.run {t : Target} {evs : List Event} {st st' : AState} (h : Inv st) (hr : run t st evs = .ok st') : Inv st' := by
  induction evs generalizing st with
  | nil => simp [GtirbVerif.Asm.run] at hr; rw [← hr]; exact h
  | cons e es ih =>
    simp only [GtirbVerif.Asm.run] at hr
    split at hr
    · cases hr
    · rename_i st1 h1
      exact ih (h.step h1) hr

theorem precreate_sects {t : Target} {evs : List Event} {st st' : AState} (hr : precreate t st evs = .ok st') :
    st'.sects = st.sects := by
  induction evs generalizing st with
  | nil => simp [precreate] at hr; rw [← hr]
  | cons e es ih =>
    cases e <;> simp only [precreate] at hr
    case label n =>
      split at hr
      · cases hr
      · exact (ih hr).trans rfl
    all_goals exact ih hr

theorem Inv.assembleChunks {t : Target} {chunks : List (List Event)} {st st' : AState} (h : Inv st)
    (hr : assembleChunks t st chunks = .ok st') : Inv st' := by
  induction chunks generalizing st with
  | nil => simp [GtirbVerif.Asm.assembleChunks] at hr; rw [← hr]; exact h
  | cons c cs ih =>
    simp only [GtirbVerif.Asm.assembleChunks] at hr
    split at hr
    · cases hr
    · rename_i st1 h1
      split at hr
      · cases hr
      · rename_i st2 h2
        exact ih ((h.of_sects (precreate_sects h1)).run h2) hr

theorem Inv.empty : Inv ({} : AState) := by
  intro s hs; cases hs

end GtirbVerif.Asm
