import GtirbVerif.Lemmas.Intervals

/-!
# join_byte_intervals with padding (C10): what is added, and where the aligned block lands

For every state of the join loop, every interval appended and every nop encoding:

* the bytes of the destination afterwards are the bytes before, then the fill of the uninitialized
  tail, then the alignment padding, then the appended interval's bytes - nothing else, nothing lost;
* each of the two paddings is whole nops when the block in front of it is code, zeros otherwise;
* when the running address is the end of the destination (the loop's invariant, kept by every step),
  the block whose alignment is asked for lands at a multiple of the boundary;
* the running-address invariant is preserved.
-/
namespace GtirbVerif.Intervals

/-- padding behind `last`: whole nops after code, zeros after data (or after nothing) -/
def PadOk (last : Option Blk) (nop pad : List Nat) : Prop :=
  if (last.map (·.isCode)).getD false then ∃ k, pad = (List.replicate k nop).flatten
  else pad = List.replicate pad.length 0

theorem repeatTo_spec (nop : List Nat) (hne : nop ≠ []) : ∀ (n k : Nat), n = k * nop.length →
    repeatTo nop n = (List.replicate k nop).flatten := by
  intro n
  induction n using Nat.strongRecOn with
  | _ n ih =>
    intro k hk
    have hl : nop.length ≠ 0 := by
      intro h; exact hne (List.length_eq_zero_iff.mp h)
    cases n with
    | zero =>
      have : k = 0 := by
        rcases Nat.eq_zero_or_pos k with h | h
        · exact h
        · exfalso
          have : 0 < k * nop.length := Nat.mul_pos h (Nat.pos_of_ne_zero hl)
          omega
      subst this
      unfold repeatTo; simp
    | succ m =>
      unfold repeatTo
      have hemp : nop.isEmpty = false := by
        cases nop with
        | nil => exact absurd rfl hne
        | cons _ _ => rfl
      simp only [hemp, Bool.false_eq_true, if_false]
      cases k with
      | zero => simp at hk
      | succ j =>
        have hj : m + 1 - nop.length = j * nop.length := by
          rw [hk, Nat.succ_mul]; omega
        rw [ih (m + 1 - nop.length) (by omega) j hj]
        simp [List.replicate_succ]

theorem length_flatten_replicate (k : Nat) (nop : List Nat) : ((List.replicate k nop).flatten).length = k * nop.length := by
  induction k with
  | zero => simp
  | succ j ih => simp [List.replicate_succ, ih, Nat.succ_mul, Nat.add_comm]

/-- `insert_padding(size)`: exactly `size` bytes are appended, of the right kind, covered by a block;
nothing else of the destination changes -/
theorem insertPadding_spec {st st' : JoinState} {nop : List Nat} {size : Nat}
    (h : insertPadding st nop size = .ok st') :
    ∃ pad, pad.length = size ∧ PadOk st.last nop pad ∧
      st'.dest.contents = st.dest.contents ++ pad ∧
      st'.dest.size = st.dest.size ∧ st'.dest.addr = st.dest.addr ∧ st'.dest.anns = st.dest.anns ∧
      st'.address = st.address ∧
      (st'.dest.blocks = st.dest.blocks ∨
        ∃ pb : Blk, st'.dest.blocks = st.dest.blocks ++ [pb] ∧ pb.off + pb.size = st'.dest.contents.length ∧
          pb.isCode = (st.last.map (·.isCode)).getD false) ∧
      ((st'.last.map (·.isCode)).getD false = (st.last.map (·.isCode)).getD false) := by
  unfold insertPadding at h
  split at h
  · rename_i h0
    simp only [Except.ok.injEq] at h
    subst h
    have : size = 0 := by simpa using h0
    subst this
    refine ⟨[], rfl, ?_, by simp, rfl, rfl, rfl, rfl, Or.inl rfl, rfl⟩
    unfold PadOk
    split
    · exact ⟨0, by simp⟩
    · simp
  · simp only [] at h
    -- the padding bytes
    have hpad : ∀ (r : Except JoinErr (List Nat)) (pad : List Nat),
        (if (st.last.map (·.isCode)).getD false = true then
          (if nop.isEmpty = true then Except.error (JoinErr.padding "cannot determine nop instruction")
           else if (size % nop.length != 0) = true then Except.error (JoinErr.padding "nop does not fit evenly in padding")
           else Except.ok (repeatTo nop size))
         else Except.ok (List.replicate size 0)) = r → r = .ok pad →
        pad.length = size ∧ PadOk st.last nop pad := by
      intro r pad hr hp
      subst hp
      unfold PadOk
      split at hr
      · rename_i hc
        simp only [hc, if_true]
        split at hr
        · cases hr
        · rename_i hne
          split at hr
          · cases hr
          · rename_i hdiv
            simp only [Except.ok.injEq] at hr
            have hne' : nop ≠ [] := by
              intro h; subst h; simp at hne
            have hmod : size % nop.length = 0 := by simpa using hdiv
            have hk : size = (size / nop.length) * nop.length := by
              have := Nat.div_add_mod size nop.length
              rw [hmod, Nat.add_zero, Nat.mul_comm] at this
              exact this.symm
            have hs := repeatTo_spec nop hne' size (size / nop.length) hk
            rw [← hr, hs]
            exact ⟨by rw [length_flatten_replicate]; exact hk.symm, ⟨_, rfl⟩⟩
      · rename_i hc
        simp only [Except.ok.injEq] at hr
        subst hr
        simp only [hc, if_false, Bool.false_eq_true]
        exact ⟨by simp, by simp⟩
    split at h
    · cases h
    · rename_i pad hr
      obtain ⟨hlen, hok⟩ := hpad _ pad hr rfl
      split at h
      · simp only [Except.ok.injEq] at h
        subst h
        refine ⟨pad, hlen, hok, rfl, rfl, rfl, rfl, rfl, Or.inr ⟨_, rfl, ?_, rfl⟩, rfl⟩
        simp only []
        rename_i hpos
        omega
      · simp only [Except.ok.injEq] at h
        subst h
        exact ⟨pad, hlen, hok, rfl, rfl, rfl, rfl, rfl, Or.inl rfl, rfl⟩

/-- the loop's invariant: the running address is the end of the destination -/
def AddrInv (st : JoinState) : Prop := st.address = st.dest.addr.getD 0 + st.dest.size

theorem alignUp_dvd (x a : Nat) (ha : 1 < a) : alignUp x a % a = 0 := by
  unfold alignUp
  have : ¬ a ≤ 1 := by omega
  simp only [this, if_false]
  exact Nat.mul_mod_left _ _

theorem alignUp_ge (x a : Nat) : x ≤ alignUp x a := by
  unfold alignUp
  split
  · exact Nat.le_refl _
  · rename_i h
    have ha : 0 < a := by omega
    have h1 := Nat.div_add_mod (x + a - 1) a
    have h2 := Nat.mod_lt (x + a - 1) ha
    have h3 : (x + a - 1) / a * a = a * ((x + a - 1) / a) := Nat.mul_comm _ _
    omega

/-- **one appended interval**: the bytes added are the fill of the uninitialized tail and the alignment
padding, each of the right kind; the appended bytes, blocks and table entries sit behind them; the
block whose alignment is demanded lands on its boundary; the invariant is kept -/
theorem joinOne_spec {nop : List Nat} {alignB : Nat → Option Nat} {st st' : JoinState} {iv : Iv} {alignI : Option Nat}
    (h : joinOne nop alignB st iv alignI = .ok st') (hle : st.dest.contents.length ≤ st.dest.size) (hinv : AddrInv st) :
    ∃ fill pad, fill.length = st.dest.size - st.dest.contents.length ∧ PadOk st.last nop fill ∧
      (∃ l1, PadOk l1 nop pad ∧ (l1.map (·.isCode)).getD false = (st.last.map (·.isCode)).getD false) ∧
      st'.dest.contents = st.dest.contents ++ fill ++ pad ++ iv.contents ∧
      st'.dest.size = st.dest.size + pad.length + iv.size ∧
      st'.dest.addr = st.dest.addr ∧
      st'.dest.anns = st.dest.anns ++ iv.anns.map (fun a => { a with off := a.off + (st.dest.size + pad.length) }) ∧
      (∀ b ∈ iv.blocks, ({ b with off := b.off + (st.dest.size + pad.length) } : Blk) ∈ st'.dest.blocks) ∧
      (∀ b ∈ st.dest.blocks, b ∈ st'.dest.blocks) ∧
      (1 < (wantedAlignment alignB alignI iv).2 →
        (st.dest.addr.getD 0 + (st.dest.size + pad.length) + (wantedAlignment alignB alignI iv).1) %
          (wantedAlignment alignB alignI iv).2 = 0) ∧
      pad.length < max 1 (wantedAlignment alignB alignI iv).2 ∧
      st'.dest.contents.length = st.dest.size + pad.length + iv.contents.length ∧
      AddrInv st' := by
  unfold joinOne at h
  simp only [bind, Except.bind] at h
  split at h
  · cases h
  · rename_i st1 h1
    obtain ⟨fill, hfl, hfok, hc1, hs1, ha1, han1, had1, hb1, hl1⟩ := insertPadding_spec h1
    split at h
    · cases h
    · rename_i st2 h2
      obtain ⟨pad, hpl, hpok, hc2, hs2, ha2, han2, had2, hb2, _⟩ := insertPadding_spec h2
      simp only [Except.ok.injEq] at h
      subst h
      have hlen2 : st2.dest.contents.length = st.dest.size + pad.length := by
        rw [hc2, hc1]; simp only [List.length_append]; omega
      have haddr1 : st1.address = st.dest.addr.getD 0 + st.dest.size := by rw [had1]; exact hinv
      have hpadval : pad.length = alignUp (st1.address + (wantedAlignment alignB alignI iv).1) (wantedAlignment alignB alignI iv).2 -
          (st1.address + (wantedAlignment alignB alignI iv).1) := hpl
      refine ⟨fill, pad, hfl, hfok, ⟨st1.last, hpok, hl1⟩, ?_, ?_, ?_, ?_, ?_, ?_, ?_, ?_, ?_, ?_⟩
      · simp only []; rw [hc2, hc1]
      · simp only []; rw [hs2, hs1, ← hpadval]
      · simp only []; rw [ha2, ha1]
      · simp only []; rw [han2, han1, hlen2]
      · intro b hb
        simp only [hlen2]
        exact List.mem_append_right _ (List.mem_map.mpr ⟨b, hb, rfl⟩)
      · intro b hb
        simp only []
        apply List.mem_append_left
        have m1 : b ∈ st1.dest.blocks := by
          rcases hb1 with e | ⟨pb, e, _⟩ <;> rw [e]
          · exact hb
          · exact List.mem_append_left _ hb
        rcases hb2 with e | ⟨pb, e, _⟩ <;> rw [e]
        · exact m1
        · exact List.mem_append_left _ m1
      · intro hb
        have hge := alignUp_ge (st1.address + (wantedAlignment alignB alignI iv).1) (wantedAlignment alignB alignI iv).2
        have hd := alignUp_dvd (st1.address + (wantedAlignment alignB alignI iv).1) (wantedAlignment alignB alignI iv).2 hb
        have : st.dest.addr.getD 0 + (st.dest.size + pad.length) + (wantedAlignment alignB alignI iv).1 =
            alignUp (st1.address + (wantedAlignment alignB alignI iv).1) (wantedAlignment alignB alignI iv).2 := by
          omega
        rw [this]; exact hd
      · rw [hpadval]
        generalize (wantedAlignment alignB alignI iv).2 = a
        generalize st1.address + (wantedAlignment alignB alignI iv).1 = x
        unfold alignUp
        split
        · omega
        · rename_i ha
          have hap : 0 < a := by omega
          have e1 := Nat.div_add_mod (x + a - 1) a
          have e2 := Nat.mod_lt (x + a - 1) hap
          have e3 : (x + a - 1) / a * a = a * ((x + a - 1) / a) := Nat.mul_comm _ _
          omega
      · simp only [List.length_append, hlen2]
      · unfold AddrInv
        simp only []
        rw [← hpadval, had2, ha2, ha1, hs2, hs1]
        omega

/-- the loop of `join_byte_intervals` -/
def joinFold (nop : List Nat) (alignB : Nat → Option Nat) (rest : List (Iv × Option Nat)) (st : JoinState) :
    Except JoinErr JoinState :=
  rest.foldl (fun (acc : Except JoinErr JoinState) (p : Iv × Option Nat) =>
    match acc with
    | .error e => .error e
    | .ok st => joinOne nop alignB st p.1 p.2) (.ok st)

theorem joinFold_error (nop : List Nat) (alignB : Nat → Option Nat) (rest : List (Iv × Option Nat)) (e : JoinErr) :
    rest.foldl (fun (acc : Except JoinErr JoinState) (p : Iv × Option Nat) =>
      match acc with
      | .error e => .error e
      | .ok st => joinOne nop alignB st p.1 p.2) (.error e) = .error e := by
  induction rest with
  | nil => rfl
  | cons p r ih => simpa [List.foldl_cons] using ih

/-- **the whole loop**: the bytes the destination had stay where they were (a prefix of the result), every
block that was placed stays placed, and for every appended interval the block whose alignment is asked for
sits on its boundary in the joined interval, with its blocks at the same displacement -/
theorem joinFold_spec (nop : List Nat) (alignB : Nat → Option Nat) : ∀ (rest : List (Iv × Option Nat)) (st st' : JoinState),
    joinFold nop alignB rest st = .ok st' → st.dest.contents.length ≤ st.dest.size → AddrInv st →
    (∀ p ∈ rest, p.1.contents.length ≤ p.1.size) →
    AddrInv st' ∧ st'.dest.contents.length ≤ st'.dest.size ∧ st'.dest.addr = st.dest.addr ∧
    (∃ t, st'.dest.contents = st.dest.contents ++ t) ∧
    (∀ b ∈ st.dest.blocks, b ∈ st'.dest.blocks) ∧
    (∀ p ∈ rest, ∃ base, (∀ b ∈ p.1.blocks, ({ b with off := b.off + base } : Blk) ∈ st'.dest.blocks) ∧
      (∃ u v, st'.dest.contents = u ++ p.1.contents ++ v ∧ u.length = base) ∧
      (1 < (wantedAlignment alignB p.2 p.1).2 →
        (st.dest.addr.getD 0 + base + (wantedAlignment alignB p.2 p.1).1) % (wantedAlignment alignB p.2 p.1).2 = 0)) := by
  intro rest
  induction rest with
  | nil =>
    intro st st' h hle hinv _
    simp only [joinFold, List.foldl_nil, Except.ok.injEq] at h
    subst h
    exact ⟨hinv, hle, rfl, ⟨[], by simp⟩, fun b hb => hb, fun p hp => by cases hp⟩
  | cons p r ih =>
    intro st st' h hle hinv hall
    unfold joinFold at h
    simp only [List.foldl_cons] at h
    cases h1 : joinOne nop alignB st p.1 p.2 with
    | error e => rw [h1, joinFold_error] at h; cases h
    | ok st1 =>
      rw [h1] at h
      obtain ⟨fill, pad, hfl, _, _, hc, hs, ha, _, hblk, hold, halign, _, hlen, hinv1⟩ := joinOne_spec h1 hle hinv
      have hp := hall p (List.mem_cons_self ..)
      have hle1 : st1.dest.contents.length ≤ st1.dest.size := by rw [hlen, hs]; omega
      obtain ⟨i1, i2, i3, ⟨t, i4⟩, i5, i6⟩ := ih st1 st' h hle1 hinv1 (fun q hq => hall q (List.mem_cons_of_mem _ hq))
      refine ⟨i1, i2, i3.trans ha, ⟨fill ++ pad ++ p.1.contents ++ t, by rw [i4, hc]; simp [List.append_assoc]⟩,
        fun b hb => i5 b (hold b hb), ?_⟩
      intro q hq
      rcases List.mem_cons.mp hq with rfl | hq
      · refine ⟨st.dest.size + pad.length, fun b hb => i5 _ (hblk b hb), ⟨st.dest.contents ++ fill ++ pad, t, ?_, ?_⟩, halign⟩
        · rw [i4, hc]
        · simp only [List.length_append, hfl]; omega
      · obtain ⟨base, j1, j2, j3⟩ := i6 q hq
        exact ⟨base, j1, j2, by rw [← ha]; exact j3⟩

end GtirbVerif.Intervals
