import GtirbVerif.Spec.Listing

/-! `sortOn` (the insertion sort used by the specifications) sorts and permutes. -/
namespace GtirbVerif.Listing

theorem insertSorted_perm {α} (key : α → Nat × Nat) (x : α) (l : List α) : (insertSorted key x l).Perm (x :: l) := by
  induction l with
  | nil => exact List.Perm.refl _
  | cons y ys ih =>
    unfold insertSorted
    simp only []
    split
    · exact List.Perm.refl _
    · exact (List.Perm.cons y ih).trans (List.Perm.swap x y ys)

theorem sortOn_perm {α} (key : α → Nat × Nat) (l : List α) : (sortOn key l).Perm l := by
  unfold sortOn
  induction l with
  | nil => exact List.Perm.refl _
  | cons x xs ih =>
    simp only [List.foldr_cons]
    exact (insertSorted_perm key x _).trans (List.Perm.cons x ih)

def leBy {α} (key : α → Nat × Nat) (a b : α) : Prop :=
  (key a).1 < (key b).1 ∨ ((key a).1 = (key b).1 ∧ (key a).2 ≤ (key b).2)

theorem leBy_total {α} (key : α → Nat × Nat) (a b : α) : leBy key a b ∨ leBy key b a := by
  unfold leBy; omega

theorem leBy_trans {α} (key : α → Nat × Nat) {a b c : α} (h1 : leBy key a b) (h2 : leBy key b c) : leBy key a c := by
  unfold leBy at *; omega

theorem insertSorted_sorted {α} (key : α → Nat × Nat) (x : α) (l : List α) (h : l.Pairwise (leBy key)) :
    (insertSorted key x l).Pairwise (leBy key) := by
  induction l with
  | nil => simp [insertSorted]
  | cons y ys ih =>
    unfold insertSorted
    simp only []
    have hy := List.pairwise_cons.mp h
    split
    · rename_i hle
      have hxy : leBy key x y := by
        unfold leBy
        simp only [Bool.or_eq_true, decide_eq_true_eq, Bool.and_eq_true, beq_iff_eq] at hle
        omega
      exact List.pairwise_cons.mpr ⟨fun z hz => by
        rcases List.mem_cons.mp hz with rfl | hz
        · exact hxy
        · exact leBy_trans key hxy (hy.1 z hz), h⟩
    · rename_i hle
      have hyx : leBy key y x := by
        rcases leBy_total key x y with h1 | h1
        · exfalso; apply hle
          unfold leBy at h1
          simp only [Bool.or_eq_true, decide_eq_true_eq, Bool.and_eq_true, beq_iff_eq]
          omega
        · exact h1
      refine List.pairwise_cons.mpr ⟨fun z hz => ?_, ih hy.2⟩
      have := (insertSorted_perm key x ys).mem_iff.mp hz
      rcases List.mem_cons.mp this with rfl | hz'
      · exact hyx
      · exact hy.1 z hz'

theorem sortOn_sorted {α} (key : α → Nat × Nat) (l : List α) : (sortOn key l).Pairwise (leBy key) := by
  unfold sortOn
  induction l with
  | nil => simp
  | cons x xs ih => simp only [List.foldr_cons]; exact insertSorted_sorted key x _ ih


end GtirbVerif.Listing
