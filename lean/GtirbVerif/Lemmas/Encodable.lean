import GtirbVerif.Lemmas.IntCodec
import GtirbVerif.Model.Dwarf.Encodable

/-! Round trip of the table-driven opcode/operand codec, for *any* table that
satisfies the decidable predicate `TableOK`. -/
namespace GtirbVerif.Dwarf

/-- encoder is one written after the opcode byte and carries an integer -/
def Enc.standalone : Enc → Bool
  | .addOp _ => false
  | .expr => false
  | _ => true

def Enc.ok : Enc → Bool
  | .sint n => n != 0
  | .addOp b => b != 0
  | _ => true

/-- per-class sanity: registered bytes fit in a byte, a fused field only in
first position -/
def ClassDesc.ok (c : ClassDesc) : Bool :=
  decide (c.opcode + c.width ≤ 256) && c.encs.all Enc.ok &&
    (c.encs.drop 1).all (fun e => match e with | .addOp _ => false | _ => true)

def noOverlap (c c' : ClassDesc) : Bool :=
  !(decide (c.opcode < c'.opcode + c'.width) && decide (c'.opcode < c.opcode + c.width))

def pairwiseB {α} (r : α → α → Bool) : List α → Bool
  | [] => true
  | x :: xs => xs.all (r x) && pairwiseB r xs

def TableOK (t : Table) : Bool := t.all ClassDesc.ok && pairwiseB noOverlap t

/-- expression tables have integer operands only -/
def ExprFree (t : Table) : Bool := t.all (fun c => c.encs.all (· != .expr))

theorem lookup_of_mem {t : Table} (ht : pairwiseB noOverlap t = true) {c : ClassDesc}
    (hc : c ∈ t) {b : Nat} (hb : c.covers b = true) : lookup t b = some c := by
  unfold lookup
  induction t with
  | nil => cases hc
  | cons x xs ih =>
    simp only [pairwiseB, Bool.and_eq_true, List.all_eq_true] at ht
    rw [List.find?_cons]
    by_cases hx : x.covers b = true
    · rw [hx]
      rcases List.mem_cons.mp hc with rfl | hmem
      · rfl
      · exfalso
        have := ht.1 c hmem
        simp only [noOverlap, ClassDesc.covers, Bool.not_eq_true', Bool.and_eq_false_iff,
          decide_eq_false_iff_not, decide_eq_true_eq] at this hx hb
        omega
    · have hx' : x.covers b = false := by simpa using hx
      rw [hx']
      rcases List.mem_cons.mp hc with rfl | hmem
      · exact absurd hb hx
      · exact ih ht.2 hmem

theorem decInt_encInt {e : Enc} {bo : ByteOrder} {ptr : Nat} {v : Int} {b : List Nat}
    (rest : List Nat) (hs : e.standalone = true) (hok : e.ok = true)
    (hv : validateInt e (some ptr) v = true) (h : encInt e bo ptr v = some b) :
    decInt e bo ptr (b ++ rest) = .ok (v, b.length, rest) := by
  cases e with
  | uleb =>
    simp only [encInt, Option.some.injEq] at h
    simp only [validateInt, decide_eq_true_eq] at hv
    subst h
    simp only [decInt, ulebDec_ulebEnc, Int.toNat_of_nonneg hv]
  | sleb =>
    simp only [encInt, Option.some.injEq] at h
    subst h
    simp only [decInt, slebDec_slebEnc]
  | uint n =>
    simp only [encInt] at h
    simp only [decInt, intDec_intEnc_unsigned n bo v b rest h, intEnc_length h]
  | sint n =>
    simp only [encInt] at h
    have hn : n ≠ 0 := by simpa [Enc.ok] using hok
    simp only [decInt, intDec_intEnc_signed n hn bo v b rest h, intEnc_length h]
  | uintptr =>
    simp only [encInt] at h
    simp only [decInt, intDec_intEnc_unsigned ptr bo v b rest h, intEnc_length h]
  | addOp k => simp [Enc.standalone] at hs
  | expr => simp [Enc.standalone] at hs

theorem encInt_lt {e : Enc} {bo : ByteOrder} {ptr : Nat} {v : Int} {b : List Nat}
    (h : encInt e bo ptr v = some b) : ∀ x ∈ b, x < 256 := by
  cases e with
  | uleb => simp only [encInt, Option.some.injEq] at h; subst h; exact ulebEnc_lt _
  | sleb => simp only [encInt, Option.some.injEq] at h; subst h; exact slebEnc_lt _
  | uint n => exact intEnc_lt h
  | sint n => exact intEnc_lt h
  | uintptr => exact intEnc_lt h
  | addOp k => simp only [encInt, Option.some.injEq] at h; subst h; simp
  | expr => simp [encInt] at h

theorem decOpFields_encOpFields {bo : ByteOrder} {ptr : Nat} :
    ∀ (es : List Enc) (vs : List Int) (b rest : List Nat),
      (∀ e ∈ es, e.standalone = true ∧ e.ok = true) →
      validateOpArgs (some ptr) es vs = .ok () →
      encOpFields bo ptr es vs = .ok b →
      decOpFields bo ptr es (b ++ rest) = .ok (vs, b.length, rest)
  | [], [], b, rest, _, _, h => by
    simp only [encOpFields, Except.ok.injEq] at h; subst h; rfl
  | [], _ :: _, _, _, _, hv, _ => by simp [validateOpArgs] at hv
  | _ :: _, [], _, _, _, hv, _ => by simp [validateOpArgs] at hv
  | e :: es, v :: vs, b, rest, hall, hv, h => by
    simp only [validateOpArgs] at hv
    split at hv
    · rename_i hve
      simp only [encOpFields] at h
      split at h
      · cases h
      · rename_i b1 hb1
        cases hr : encOpFields bo ptr es vs with
        | error _ => simp [hr, bind, Except.bind] at h
        | ok r =>
          simp only [hr, bind, Except.bind, Except.ok.injEq] at h
          subst h
          have he := hall e (List.mem_cons_self)
          have ih := decOpFields_encOpFields es vs r rest
            (fun e' he' => hall e' (List.mem_cons_of_mem _ he')) hv hr
          simp only [decOpFields, List.append_assoc,
            decInt_encInt (r ++ rest) he.1 he.2 hve hb1, ih, bind, Except.bind,
            List.length_append]
    · cases hv

theorem encOpFields_lt {bo : ByteOrder} {ptr : Nat} :
    ∀ (es : List Enc) (vs : List Int) (b : List Nat),
      encOpFields bo ptr es vs = .ok b → ∀ x ∈ b, x < 256
  | [], [], b, h => by simp only [encOpFields, Except.ok.injEq] at h; subst h; simp
  | [], _ :: _, _, h => by simp [encOpFields] at h
  | _ :: _, [], _, h => by simp [encOpFields] at h
  | e :: es, v :: vs, b, h => by
    simp only [encOpFields] at h
    split at h
    · cases h
    · rename_i b1 hb1
      cases hr : encOpFields bo ptr es vs with
      | error _ => simp [hr, bind, Except.bind] at h
      | ok r =>
        simp only [hr, bind, Except.bind, Except.ok.injEq] at h
        subst h
        intro x hx
        rcases List.mem_append.mp hx with hx | hx
        · exact encInt_lt hb1 x hx
        · exact encOpFields_lt es vs r hr x hx

/-- all fields after the first are standalone in an `ok` class of an
expression-free table -/
theorem tail_standalone {c : ClassDesc} (hok : c.ok = true)
    (hfree : ∀ x ∈ c.encs, (x != Enc.expr) = true) :
    ∀ e ∈ c.encs.drop 1, e.standalone = true ∧ e.ok = true := by
  intro e he
  simp only [ClassDesc.ok, Bool.and_eq_true, List.all_eq_true, decide_eq_true_eq] at hok
  simp only [bne_iff_ne, ne_eq] at hfree
  have hmem : e ∈ c.encs := List.mem_of_mem_drop he
  refine ⟨?_, hok.1.2 e hmem⟩
  have h1 := hok.2 e he
  have h2 := hfree e hmem
  cases e <;> simp_all [Enc.standalone]

/-- **Round trip of one expression operation**, for any table satisfying `TableOK`. -/
theorem decodeOp_encodeOp {t : Table} (hT : TableOK t = true) (hF : ExprFree t = true)
    (bo : ByteOrder) (ptr : Nat) (o : OpObj) (ho : o.cls ∈ t) (bs rest : List Nat)
    (h : encodeOp bo ptr o = .ok bs) :
    decodeOp t bo ptr (bs ++ rest) = .ok (o, bs.length, rest) := by
  simp only [TableOK, Bool.and_eq_true, List.all_eq_true] at hT
  simp only [ExprFree, List.all_eq_true] at hF
  have hok := hT.1 _ ho
  have hfree := hF _ ho
  obtain ⟨c, args⟩ := o
  simp only at ho hok hfree
  unfold encodeOp at h
  simp only [bind, Except.bind] at h
  cases hv : validateOpArgs (some ptr) c.encs args with
  | error _ => simp [hv] at h
  | ok _ =>
    cases hr : encOpFields bo ptr c.encs args with
    | error _ => simp [hv, hr] at h
    | ok r =>
      simp only [hv, hr, Except.ok.injEq] at h
      subst h
      have htail := tail_standalone hok hfree
      simp only [ClassDesc.ok, Bool.and_eq_true, List.all_eq_true, decide_eq_true_eq] at hok
      unfold decodeOp
      simp only [List.cons_append, readOpcode]
      -- case split on whether the class is fused
      cases hencs : c.encs with
      | nil =>
        rw [hencs] at hv hr
        cases args with
        | cons _ _ => simp [validateOpArgs] at hv
        | nil =>
          simp only [encOpFields, Except.ok.injEq] at hr; subst hr
          have hfb : c.fusedBound = none := by simp [ClassDesc.fusedBound, hencs]
          have hcov : c.covers (firstByte c ([] : List Int).head?) = true := by
            simp [ClassDesc.covers, firstByte, hfb, ClassDesc.width]
          simp only [lookup_of_mem hT.2 ho hcov, hfb, hencs, decOpFields, bind, Except.bind,
            List.nil_append, List.length_cons, List.length_nil]
      | cons e es =>
        rw [hencs] at hv hr htail
        cases args with
        | nil => simp [validateOpArgs] at hv
        | cons v vs =>
          simp only [List.drop_succ_cons, List.drop_zero] at htail
          simp only [validateOpArgs] at hv
          split at hv
          · rename_i hve
            simp only [encOpFields] at hr
            split at hr
            · cases hr
            · rename_i b1 hb1
              cases hr2 : encOpFields bo ptr es vs with
              | error _ => simp [hr2, bind, Except.bind] at hr
              | ok r2 =>
                simp only [hr2, bind, Except.bind, Except.ok.injEq] at hr
                subst hr
                have ihf := decOpFields_encOpFields es vs r2 rest htail hv hr2
                by_cases hfused : ∃ k, e = .addOp k
                · obtain ⟨k, rfl⟩ := hfused
                  simp only [encInt, Option.some.injEq] at hb1
                  subst hb1
                  simp only [validateInt, decide_eq_true_eq] at hve
                  have hfb : c.fusedBound = some k := by simp [ClassDesc.fusedBound, hencs]
                  have hw : c.width = k := by simp [ClassDesc.width, hfb]
                  have hcov : c.covers (firstByte c (v :: vs).head?) = true := by
                    simp only [ClassDesc.covers, firstByte, hfb, List.head?_cons, hw,
                      decide_eq_true_eq]
                    omega
                  simp only [lookup_of_mem hT.2 ho hcov, hfb, hencs, List.drop_succ_cons,
                    List.drop_zero, List.nil_append, ihf, bind, Except.bind, List.length_cons]
                  have : ((firstByte c (v :: vs).head? : Nat) : Int) - (c.opcode : Int) = v := by
                    simp only [firstByte, hfb, List.head?_cons]
                    omega
                  rw [this, Nat.add_comm]
                · have hfb : c.fusedBound = none := by
                    simp only [ClassDesc.fusedBound, hencs]
                    cases e <;> simp_all
                  have hcov : c.covers (firstByte c (v :: vs).head?) = true := by
                    simp [ClassDesc.covers, firstByte, hfb, ClassDesc.width]
                  have hes : e.standalone = true ∧ e.ok = true := by
                    refine ⟨?_, hok.1.2 e (by simp [hencs])⟩
                    have h2 : e ≠ Enc.expr := by
                      have := hfree e (by simp [hencs])
                      simpa using this
                    cases e <;> simp_all [Enc.standalone]
                  simp only [lookup_of_mem hT.2 ho hcov, hfb, hencs, decOpFields,
                    List.append_assoc, decInt_encInt (r2 ++ rest) hes.1 hes.2 hve hb1, ihf, bind,
                    Except.bind, List.length_cons, List.length_append]
                  rw [Nat.add_comm]
          · cases hv

end GtirbVerif.Dwarf

namespace GtirbVerif.Dwarf

theorem encodeOp_length_pos {bo ptr o bs} (h : encodeOp bo ptr o = .ok bs) : 0 < bs.length := by
  unfold encodeOp at h
  simp only [bind, Except.bind] at h
  split at h
  · cases h
  · split at h
    · cases h
    · simp only [Except.ok.injEq] at h; subst h; simp

theorem encodeOps_length {bo ptr} : ∀ (ops : List OpObj) (e : List Nat),
    encodeOps bo ptr ops = .ok e → ops.length ≤ e.length
  | [], e, h => by simp
  | o :: os, e, h => by
    simp only [encodeOps, bind, Except.bind] at h
    cases hb : encodeOp bo ptr o with
    | error _ => simp [hb] at h
    | ok b =>
      cases hr : encodeOps bo ptr os with
      | error _ => simp [hb, hr] at h
      | ok r =>
        simp only [hb, hr, Except.ok.injEq] at h
        subst h
        have := encodeOp_length_pos hb
        have := encodeOps_length os r hr
        simp only [List.length_cons, List.length_append]; omega

theorem decodeOpsLoop_encodeOps {t : Table} (hT : TableOK t = true) (hF : ExprFree t = true)
    (bo : ByteOrder) (ptr : Nat) :
    ∀ (ops : List OpObj) (e rest : List Nat) (f read len : Nat),
      (∀ o ∈ ops, o.cls ∈ t) → encodeOps bo ptr ops = .ok e →
      ops.length ≤ f → read + e.length = len →
      decodeOpsLoop t bo ptr f read len (e ++ rest) = .ok (ops, len, rest)
  | [], e, rest, f, read, len, _, h, _, hlen => by
    simp only [encodeOps, Except.ok.injEq] at h; subst h
    simp only [List.length_nil, Nat.add_zero] at hlen; subst hlen
    cases f <;> simp [decodeOpsLoop]
  | o :: os, e, rest, f, read, len, hin, h, hf, hlen => by
    simp only [encodeOps, bind, Except.bind] at h
    cases hb : encodeOp bo ptr o with
    | error _ => simp [hb] at h
    | ok b =>
      cases hr : encodeOps bo ptr os with
      | error _ => simp [hb, hr] at h
      | ok r =>
        simp only [hb, hr, Except.ok.injEq] at h
        subst h
        have hpos := encodeOp_length_pos hb
        simp only [List.length_append] at hlen
        cases f with
        | zero => simp at hf
        | succ f =>
          have hlt : read < len := by omega
          have hdec := decodeOp_encodeOp hT hF bo ptr o (hin o List.mem_cons_self) b (r ++ rest) hb
          have ih := decodeOpsLoop_encodeOps hT hF bo ptr os r rest f (read + b.length) len
            (fun o' ho' => hin o' (List.mem_cons_of_mem _ ho')) hr
            (by simp only [List.length_cons] at hf; omega) (by omega)
          simp only [decodeOpsLoop, hlt, ↓reduceIte, List.append_assoc, hdec, ih, bind, Except.bind]

/-- **Round trip of a DWARF expression** (`_ExprEncoder`). -/
theorem decodeExpr_encodeExpr {t : Table} (hT : TableOK t = true) (hF : ExprFree t = true)
    (bo : ByteOrder) (ptr : Nat) (ops : List OpObj) (hin : ∀ o ∈ ops, o.cls ∈ t)
    (bs rest : List Nat) (h : encodeExpr bo ptr ops = .ok bs) :
    decodeExpr t bo ptr (bs ++ rest) = .ok (ops, bs.length, rest) := by
  unfold encodeExpr at h
  simp only [bind, Except.bind] at h
  cases he : encodeOps bo ptr ops with
  | error _ => simp [he] at h
  | ok e =>
    simp only [he, Except.ok.injEq] at h
    subst h
    unfold decodeExpr
    simp only [List.append_assoc, ulebDec_ulebEnc]
    have := decodeOpsLoop_encodeOps hT hF bo ptr ops e rest e.length 0 e.length hin he
      (encodeOps_length ops e he) (by omega)
    simp only [this, bind, Except.bind, List.length_append]

end GtirbVerif.Dwarf
