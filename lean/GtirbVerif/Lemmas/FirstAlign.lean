import GtirbVerif.Lemmas.SortOn

/-! `firstAlign`: the lowest offset of a piece that carries an alignment request, with the
strictest of the requests made there. -/
namespace GtirbVerif.Listing

theorem foldl_max_ge_init (l : List Nat) (a : Nat) : a ≤ l.foldl max a := by
  induction l generalizing a with
  | nil => exact Nat.le_refl _
  | cons x xs ih => exact Nat.le_trans (Nat.le_max_left a x) (ih (max a x))

theorem foldl_max_ge_mem (l : List Nat) (a : Nat) : ∀ x ∈ l, x ≤ l.foldl max a := by
  induction l generalizing a with
  | nil => intro x hx; cases hx
  | cons y ys ih =>
    intro x hx
    rcases List.mem_cons.mp hx with rfl | hx
    · exact Nat.le_trans (Nat.le_max_right a x) (foldl_max_ge_init ys (max a x))
    · exact ih (max a y) x hx

theorem foldl_max_mem (l : List Nat) (a : Nat) : l.foldl max a = a ∨ l.foldl max a ∈ l := by
  induction l generalizing a with
  | nil => exact Or.inl rfl
  | cons y ys ih =>
    rcases ih (max a y) with h | h
    · rcases Nat.le_total a y with hay | hay
      · right
        rw [Nat.max_eq_right hay] at h
        simp only [List.foldl_cons, Nat.max_eq_right hay, h, List.mem_cons, true_or]
      · left
        rw [Nat.max_eq_left hay] at h
        simp only [List.foldl_cons, Nat.max_eq_left hay, h]
    · right; exact List.mem_cons_of_mem _ h

theorem firstAlign_none (as : List (Nat × Nat)) : firstAlign as = none ↔ as = [] := by
  unfold firstAlign
  constructor
  · intro h
    cases hs : sortOn (fun a => (a.1, 0)) as with
    | nil =>
      have hp := sortOn_perm (fun a : Nat × Nat => (a.1, 0)) as
      rw [hs] at hp
      exact List.Perm.eq_nil hp.symm |> fun h' => by simpa using h'
    | cons x xs => rw [hs] at h; cases h
  · intro h; subst h; rfl

/-- what `firstAlign` returns: the offset is the lowest one that carries a request, the alignment
is requested there, and no request made there is stricter -/
theorem firstAlign_spec (as : List (Nat × Nat)) (o a : Nat) (h : firstAlign as = some (o, a)) :
    (∀ p ∈ as, o ≤ p.1) ∧ (∃ p ∈ as, p.1 = o ∧ p.2 = a) ∧ (∀ p ∈ as, p.1 = o → p.2 ≤ a) := by
  unfold firstAlign at h
  have hperm := sortOn_perm (fun a : Nat × Nat => (a.1, 0)) as
  have hsorted := sortOn_sorted (fun a : Nat × Nat => (a.1, 0)) as
  cases hs : sortOn (fun a => (a.1, 0)) as with
  | nil => rw [hs] at h; cases h
  | cons x rest =>
    rw [hs] at h hperm hsorted
    obtain ⟨o0, a0⟩ := x
    simp only [Option.some.injEq, Prod.mk.injEq] at h
    obtain ⟨ho, ha⟩ := h
    subst ho
    have hmem : ∀ p, p ∈ as ↔ p = (o0, a0) ∨ p ∈ rest := fun p => by
      rw [← hperm.mem_iff]; exact List.mem_cons
    have hlow : ∀ p ∈ rest, o0 ≤ p.1 := fun p hp => by
      have := (List.pairwise_cons.mp hsorted).1 p hp
      unfold leBy at this
      simp only at this
      omega
    refine ⟨?_, ?_, ?_⟩
    · intro p hp
      rcases (hmem p).mp hp with rfl | hp
      · exact Nat.le_refl _
      · exact hlow p hp
    · rcases foldl_max_mem ((rest.filter (fun x => x.1 == o0)).map (·.2)) a0 with hm | hm
      · exact ⟨(o0, a0), (hmem _).mpr (Or.inl rfl), rfl, by rw [← ha, hm]⟩
      · rw [ha] at hm
        obtain ⟨p, hp, hpa⟩ := List.mem_map.mp hm
        obtain ⟨hpr, hpo⟩ := List.mem_filter.mp hp
        exact ⟨p, (hmem p).mpr (Or.inr hpr), by simpa using hpo, hpa⟩
    · intro p hp hpo
      rcases (hmem p).mp hp with rfl | hp
      · rw [← ha]; exact foldl_max_ge_init _ _
      · rw [← ha]
        apply foldl_max_ge_mem
        exact List.mem_map.mpr ⟨p, List.mem_filter.mpr ⟨hp, by simpa using hpo⟩, rfl⟩

end GtirbVerif.Listing
