import GtirbVerif.Model.Rewrite.Store

/-!
# `_ModificationStore`: what comes out is what was registered, once, in listing order

* `modificationsFor_build` — after any sequence of `add`s the modifications handed out for a block are
  exactly the registered ones whose scope matches the block, each as often as it was registered.
* `resolve_*` — `resolve_offsets` answers with a permutation of what it was given, every modification at
  the first potential offset of its scope, ordered by (offset, insertion before replacement,
  registration id), and it accepts exactly the request lists that do not overlap in that order.
-/
namespace GtirbVerif.Store

/-! ### the store -/

theorem bcLookup_bcAppend (b k : Nat) (m : Mod) : ∀ (bc : List (Nat × List Mod)),
    bcLookup k (bcAppend b m bc) = if b = k then bcLookup k bc ++ [m] else bcLookup k bc := by
  intro bc
  induction bc with
  | nil =>
    unfold bcAppend bcLookup
    by_cases h : b = k
    · simp [h, bcLookup]
    · simp [h, bcLookup]
  | cons x xs ih =>
    obtain ⟨k', v⟩ := x
    unfold bcAppend
    by_cases h1 : k' = b
    · subst h1
      simp only [if_true]
      by_cases h2 : k' = k
      · subst h2; simp [bcLookup]
      · simp [bcLookup, h2]
    · simp only [h1, if_false]
      by_cases h2 : k' = k
      · subst h2
        have : ¬ b = k' := fun h => h1 h.symm
        simp [bcLookup, this]
      · simp only [bcLookup, h2, if_false]
        exact ih

/-- a scope with known targets matches exactly those -/
theorem knownTargets_matches (env : BlockEnv) (sc : Scope) (ts : List Nat) (h : knownTargets sc = some ts) :
    ∃ b, ts = [b] ∧ blockMatches env sc = (b == env.id) := by
  cases sc with
  | allBlocks p e => simp [knownTargets] at h
  | allFunctions en p fs => simp [knownTargets] at h
  | single b p => simp only [knownTargets, Option.some.injEq] at h; exact ⟨b, h.symm, rfl⟩
  | specific b o r => simp only [knownTargets, Option.some.injEq] at h; exact ⟨b, h.symm, rfl⟩

/-- one `add`: the modifications of every block grow by the new one exactly when its scope matches -/
theorem add_modificationsFor (s : Store) (m : Mod) (env : BlockEnv) :
    ((s.add m).modificationsFor env).Perm
      (s.modificationsFor env ++ if blockMatches env m.scope then [m] else []) := by
  unfold Store.add Store.modificationsFor
  cases hk : knownTargets m.scope with
  | none =>
    simp only [List.filter_append]
    by_cases hm : blockMatches env m.scope = true
    · simp [hm, List.filter_cons]
    · simp [hm, List.filter_cons]
  | some ts =>
    obtain ⟨b, rfl, hb⟩ := knownTargets_matches env m.scope ts hk
    simp only [List.foldl_cons, List.foldl_nil, bcLookup_bcAppend, hb]
    by_cases h : b = env.id
    · simp only [h, if_true, beq_self_eq_true]
      -- (A ++ [m]) ++ S ~ (A ++ S) ++ [m]
      rw [List.append_assoc, List.append_assoc]
      exact List.Perm.append_left _ List.perm_append_comm
    · have hne : (b == env.id) = false := by simp [h]
      simp [h, hne]

theorem foldl_add_modificationsFor (env : BlockEnv) : ∀ (ms : List Mod) (s : Store),
    ((ms.foldl Store.add s).modificationsFor env).Perm
      (s.modificationsFor env ++ ms.filter (fun m => blockMatches env m.scope)) := by
  intro ms
  induction ms with
  | nil => intro s; simp
  | cons m r ih =>
    intro s
    simp only [List.foldl_cons]
    refine (ih (s.add m)).trans ?_
    refine (List.Perm.append_right _ (add_modificationsFor s m env)).trans ?_
    rw [List.append_assoc]
    refine List.Perm.append_left _ ?_
    by_cases hm : blockMatches env m.scope = true
    · simp [hm, List.filter_cons]
    · simp [hm, List.filter_cons]

/-- **exactly the registrations that designate the block, each as often as registered** -/
theorem modificationsFor_build (ms : List Mod) (env : BlockEnv) :
    ((build ms).modificationsFor env).Perm (ms.filter (fun m => blockMatches env m.scope)) := by
  have := foldl_add_modificationsFor env ms {}
  simpa [build, Store.modificationsFor, bcLookup] using this

/-! ### the offsets -/

theorem offsetsOf_ok (env : BlockEnv) (hd : Bool) : ∀ (ms : List Mod) (l : List (Mod × Nat)),
    offsetsOf env hd ms = .ok l →
      l.map (·.1) = ms ∧ ∀ x ∈ l, firstOffset env hd x.1.scope = .ok x.2 := by
  intro ms
  induction ms with
  | nil => intro l h; simp only [offsetsOf, Except.ok.injEq] at h; subst h; simp
  | cons m r ih =>
    intro l h
    unfold offsetsOf at h
    split at h
    · cases h
    · rename_i off hoff
      split at h
      · cases h
      · rename_i rest hrest
        simp only [Except.ok.injEq] at h
        subst h
        obtain ⟨h1, h2⟩ := ih rest hrest
        refine ⟨by simp [h1], ?_⟩
        intro x hx
        rcases List.mem_cons.mp hx with rfl | hx
        · exact hoff
        · exact h2 x hx

/-! ### the sort -/

theorem insertK_perm (x : Mod × Nat) (l : List (Mod × Nat)) : (insertK x l).Perm (x :: l) := by
  induction l with
  | nil => exact List.Perm.refl _
  | cons y ys ih =>
    unfold insertK
    split
    · exact List.Perm.refl _
    · exact (List.Perm.cons y ih).trans (List.Perm.swap x y ys)

theorem sortK_perm (l : List (Mod × Nat)) : (sortK l).Perm l := by
  unfold sortK
  induction l with
  | nil => exact List.Perm.refl _
  | cons x xs ih =>
    simp only [List.foldr_cons]
    exact (insertK_perm x _).trans (List.Perm.cons x ih)

/-- the order of application: by offset; at one offset insertions before the replacement or deletion;
then by registration id -/
def Before (a b : Mod × Nat) : Prop :=
  a.2 < b.2 ∨ (a.2 = b.2 ∧
    ((replLen a.1.scope = 0 ∧ replLen b.1.scope ≠ 0) ∨
     ((replLen a.1.scope = 0 ↔ replLen b.1.scope = 0) ∧ a.1.id ≤ b.1.id)))

theorem keyLe_iff (a b : Mod × Nat) : keyLe (sortKey a) (sortKey b) = true ↔ Before a b := by
  unfold keyLe sortKey Before
  simp only [Bool.or_eq_true, decide_eq_true_eq, Bool.and_eq_true, beq_iff_eq, bne_iff_ne, ne_eq]
  by_cases ha : replLen a.1.scope = 0 <;> by_cases hb : replLen b.1.scope = 0 <;> simp [ha, hb] <;> omega

theorem Before.total (a b : Mod × Nat) : Before a b ∨ Before b a := by
  unfold Before
  by_cases ha : replLen a.1.scope = 0 <;> by_cases hb : replLen b.1.scope = 0 <;> simp [ha, hb] <;> omega

theorem Before.trans {a b c : Mod × Nat} (h1 : Before a b) (h2 : Before b c) : Before a c := by
  unfold Before at *
  by_cases ha : replLen a.1.scope = 0 <;> by_cases hb : replLen b.1.scope = 0 <;>
    by_cases hc : replLen c.1.scope = 0 <;> simp [ha, hb, hc] at h1 h2 ⊢ <;> omega

theorem insertK_sorted (x : Mod × Nat) (l : List (Mod × Nat)) (h : l.Pairwise Before) :
    (insertK x l).Pairwise Before := by
  induction l with
  | nil => simp [insertK]
  | cons y ys ih =>
    unfold insertK
    have hy := List.pairwise_cons.mp h
    split
    · rename_i hle
      have hxy : Before x y := (keyLe_iff x y).mp hle
      exact List.pairwise_cons.mpr ⟨fun z hz => by
        rcases List.mem_cons.mp hz with rfl | hz
        · exact hxy
        · exact hxy.trans (hy.1 z hz), h⟩
    · rename_i hle
      have hyx : Before y x := by
        rcases Before.total x y with h1 | h1
        · exact absurd ((keyLe_iff x y).mpr h1) hle
        · exact h1
      refine List.pairwise_cons.mpr ⟨fun z hz => ?_, ih hy.2⟩
      have := (insertK_perm x ys).mem_iff.mp hz
      rcases List.mem_cons.mp this with rfl | hz'
      · exact hyx
      · exact hy.1 z hz'

theorem sortK_sorted (l : List (Mod × Nat)) : (sortK l).Pairwise Before := by
  unfold sortK
  induction l with
  | nil => simp
  | cons x xs ih => simp only [List.foldr_cons]; exact insertK_sorted x _ ih

/-! ### the overlap assertion -/

/-- `a` ends where `b` begins, or earlier -/
def Clear (a b : Mod × Nat) : Prop := a.2 + replLen a.1.scope ≤ b.2

theorem checkOverlap_sound : ∀ (l : List (Mod × Nat)) (e : Nat), l.Pairwise (fun a b => a.2 ≤ b.2) →
    checkOverlap e l = true → l.Pairwise Clear ∧ ∀ x ∈ l, e ≤ x.2 := by
  intro l
  induction l with
  | nil => intro e _ _; simp
  | cons x r ih =>
    intro e hs hc
    obtain ⟨m, off⟩ := x
    unfold checkOverlap at hc
    split at hc
    · cases hc
    · rename_i hlt
      have hp := List.pairwise_cons.mp hs
      obtain ⟨h1, h2⟩ := ih (off + replLen m.scope) hp.2 hc
      refine ⟨List.pairwise_cons.mpr ⟨fun z hz => h2 z hz, h1⟩, ?_⟩
      intro z hz
      rcases List.mem_cons.mp hz with rfl | hz
      · simp only; omega
      · have := hp.1 z hz; simp only at this; omega

theorem checkOverlap_complete : ∀ (l : List (Mod × Nat)) (e : Nat), l.Pairwise Clear → (∀ x ∈ l, e ≤ x.2) →
    checkOverlap e l = true := by
  intro l
  induction l with
  | nil => intro e _ _; rfl
  | cons x r ih =>
    intro e hp he
    obtain ⟨m, off⟩ := x
    unfold checkOverlap
    have h0 := he (m, off) (List.mem_cons_self ..)
    simp only at h0
    have hlt : ¬ off < e := by omega
    simp only [hlt, if_false]
    have hq := List.pairwise_cons.mp hp
    exact ih _ hq.2 (fun z hz => hq.1 z hz)

theorem Before.le {a b : Mod × Nat} (h : Before a b) : a.2 ≤ b.2 := by
  unfold Before at h; omega

/-! ### resolve_offsets as a whole -/

/-- whether instructions are decoded for this call -/
def haveDisFor (env : BlockEnv) (mods : List Mod) : Bool := env.isCode && mods.any (fun m => needsDisassembly m.scope)

theorem resolve_ok {env : BlockEnv} {mods : List Mod} {r : List (Mod × Nat)} (h : resolveOffsets env mods = .ok r) :
    (r.map (·.1)).Perm mods ∧
    (∀ x ∈ r, firstOffset env (haveDisFor env mods) x.1.scope = .ok x.2) ∧
    r.Pairwise Before ∧ r.Pairwise Clear := by
  unfold resolveOffsets at h
  simp only [] at h
  split at h
  · cases h
  · rename_i l hl
    split at h
    · rename_i hc
      simp only [Except.ok.injEq] at h
      subst h
      obtain ⟨h1, h2⟩ := offsetsOf_ok env _ mods l hl
      have hs := sortK_sorted l
      refine ⟨?_, ?_, hs, ?_⟩
      · rw [← h1]; exact (sortK_perm l).map _
      · intro x hx; exact h2 x ((sortK_perm l).mem_iff.mp hx)
      · exact (checkOverlap_sound _ 0 (hs.imp Before.le) hc).1
    · cases h

/-- **no request list is refused without reason**: when every scope has an offset in the block and the
requests, put in listing order, do not overlap, `resolve_offsets` answers -/
theorem resolve_accepts {env : BlockEnv} {mods : List Mod} {l : List (Mod × Nat)}
    (hl : offsetsOf env (haveDisFor env mods) mods = .ok l) (hc : (sortK l).Pairwise Clear) :
    resolveOffsets env mods = .ok (sortK l) := by
  unfold resolveOffsets
  simp only []
  unfold haveDisFor at hl
  rw [hl]
  simp only []
  rw [checkOverlap_complete _ 0 hc (fun _ _ => Nat.zero_le _)]
  simp

/-- ... and an overlapping list is refused with the assertion, never applied -/
theorem resolve_refuses {env : BlockEnv} {mods : List Mod} {l : List (Mod × Nat)}
    (hl : offsetsOf env (haveDisFor env mods) mods = .ok l) (hc : ¬ (sortK l).Pairwise Clear) :
    resolveOffsets env mods = .error (.assertion "modifications overlap") := by
  unfold resolveOffsets
  simp only []
  unfold haveDisFor at hl
  rw [hl]
  simp only []
  cases hco : checkOverlap 0 (sortK l) with
  | true => exact absurd (checkOverlap_sound _ 0 ((sortK_sorted l).imp Before.le) hco).1 hc
  | false => simp

end GtirbVerif.Store
