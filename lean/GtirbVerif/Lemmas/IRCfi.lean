import GtirbVerif.Lemmas.IRCore

/-!
# CFI procedures survive the removal of a block (model side of C08)

`procStep` is the procedure bookkeeping of the CFI evaluator: `.cfi_startproc` only outside a
procedure, everything else only inside, `.cfi_endproc` closes.  Whatever directives
`_required_cfi_directives` decides to keep, the kept stream opens and closes procedures exactly
like the block's full stream: no procedure is lost, duplicated, left open or closed twice.
-/
namespace GtirbVerif.IR

/-- procedure bookkeeping: `some true` inside, `some false` outside, `none` = CFIStateError -/
def procStep : Option Bool → CfiDir → Option Bool
  | some false, d => if d.name == ".cfi_startproc" then some true else none
  | some true, d =>
    if d.name == ".cfi_startproc" then none
    else if d.name == ".cfi_endproc" then some false
    else some true
  | none, _ => none

def procRun (s : Option Bool) (ds : List CfiDir) : Option Bool := ds.foldl procStep s

theorem procRun_append (s : Option Bool) (a b : List CfiDir) : procRun s (a ++ b) = procRun (procRun s a) b := by
  unfold procRun; rw [List.foldl_append]

theorem procRun_none (ds : List CfiDir) : procRun none ds = none := by
  unfold procRun
  induction ds with
  | nil => rfl
  | cons d ds ih => simpa [List.foldl_cons, procStep] using ih

/-- the invariant of the accumulators `(results, procedure_directives)` after a prefix that took
the evaluator from `s` to `t` -/
def ReqInv (s t : Bool) (a : List CfiDir × List CfiDir × Bool) : Prop :=
  if a.2.1 = [] then procRun (some s) a.1 = some t
  else procRun (some s) a.1 = some false ∧ t = true ∧ procRun (some false) a.2.1 = some true

theorem requiredStep_inv (s t t' : Bool) (a : List CfiDir × List CfiDir × Bool) (d : CfiDir)
    (h : ReqInv s t a) (hd : procStep (some t) d = some t') : ReqInv s t' (requiredStep a d) := by
  obtain ⟨R, Q, i⟩ := a
  unfold ReqInv at h ⊢
  unfold requiredStep
  simp only [] at h ⊢
  by_cases hs : d.name = ".cfi_startproc"
  · -- startproc: only legal outside
    simp only [hs, beq_self_eq_true, if_true]
    cases t with
    | true => simp [procStep, hs] at hd
    | false =>
      have ht' : t' = true := by simp [procStep, hs] at hd; exact hd
      subst ht'
      by_cases hq : Q = []
      · subst hq
        simp only [if_true] at h
        simp only [List.nil_append, List.cons_ne_nil, if_false]
        exact ⟨h, trivial, by simp [procRun, procStep, hs]⟩
      · simp only [hq, if_false] at h
        exact absurd h.2.1 (by simp)
  · have hs' : (d.name == ".cfi_startproc") = false := by simp [hs]
    simp only [hs', Bool.false_eq_true, if_false]
    by_cases he : d.name = ".cfi_endproc"
    · simp only [he, beq_self_eq_true, if_true]
      cases t with
      | false => simp [procStep, hs, he] at hd
      | true =>
        have ht' : t' = false := by
          simp only [procStep, hs', Bool.false_eq_true, if_false, he, beq_self_eq_true, if_true] at hd
          injection hd with hd; exact hd.symm
        subst ht'
        by_cases hq : Q = []
        · subst hq
          simp only [if_true] at h
          simp only [List.isEmpty_nil, if_true]
          rw [procRun_append, h]
          simp [procRun, procStep, hs', he]
        · simp only [hq, if_false] at h
          have : Q.isEmpty = false := by simp [List.isEmpty_iff, hq]
          simp only [this, Bool.false_eq_true, if_false, if_true]
          exact h.1
    · have he' : (d.name == ".cfi_endproc") = false := by simp [he]
      simp only [he', Bool.false_eq_true, if_false]
      -- any other directive is legal only inside and leaves the bookkeeping alone
      cases t with
      | false => simp [procStep, hs'] at hd
      | true =>
        have ht' : t' = true := by
          simp only [procStep, hs', he', Bool.false_eq_true, if_false] at hd
          injection hd with hd; exact hd.symm
        subst ht'
        have hstep : procStep (some true) d = some true := by simp [procStep, hs', he']
        split
        · by_cases hq : Q = []
          · subst hq
            simp only [if_true] at h
            simp only [List.isEmpty_nil, if_true]
            rw [procRun_append, h]
            simpa [procRun] using hstep
          · simp only [hq, if_false] at h
            have : Q.isEmpty = false := by simp [List.isEmpty_iff, hq]
            simp only [this, Bool.false_eq_true, if_false]
            have hne : Q ++ [d] ≠ [] := by simp
            simp only [hne, if_false]
            refine ⟨h.1, trivial, ?_⟩
            rw [procRun_append, h.2.2]
            simpa [procRun] using hstep
        · exact h

/-- folding a whole run of directives -/
theorem requiredSteps_inv : ∀ (ds : List CfiDir) (s t t' : Bool) (a : List CfiDir × List CfiDir × Bool),
    ReqInv s t a → procRun (some t) ds = some t' → ReqInv s t' (ds.foldl requiredStep a) := by
  intro ds
  induction ds with
  | nil =>
    intro s t t' a h hr
    simp only [procRun, List.foldl_nil] at hr
    injection hr with hr; subst hr
    exact h
  | cons d ds ih =>
    intro s t t' a h hr
    simp only [procRun, List.foldl_cons] at hr ⊢
    cases hm : procStep (some t) d with
    | none =>
      rw [hm] at hr
      have := procRun_none ds
      unfold procRun at this
      rw [this] at hr; cases hr
    | some m =>
      rw [hm] at hr
      exact ih s m t' _ (requiredStep_inv s t m a d h hm) hr

theorem reqInv_flag (s t : Bool) (R Q : List CfiDir) (i j : Bool) : ReqInv s t (R, Q, i) → ReqInv s t (R, Q, j) := by
  unfold ReqInv; exact id

/-- group by group -/
theorem requiredGroups_inv : ∀ (gs : List (List CfiDir)) (s t t' : Bool) (acc : List CfiDir × List CfiDir),
    ReqInv s t (acc.1, acc.2, false) → procRun (some t) gs.flatten = some t' →
    ReqInv s t' ((gs.foldl requiredGroup acc).1, (gs.foldl requiredGroup acc).2, false) := by
  intro gs
  induction gs with
  | nil =>
    intro s t t' acc h hr
    simp only [List.flatten_nil, procRun, List.foldl_nil] at hr ⊢
    injection hr with hr; subst hr
    exact h
  | cons g gs ih =>
    intro s t t' acc h hr
    simp only [List.flatten_cons, List.foldl_cons] at hr ⊢
    rw [procRun_append] at hr
    cases hm : procRun (some t) g with
    | none => rw [hm, procRun_none] at hr; cases hr
    | some m =>
      rw [hm] at hr
      have h1 := requiredSteps_inv g s t m (acc.1, acc.2, false) h hm
      apply ih s m t' (requiredGroup acc g) _ hr
      unfold requiredGroup
      exact reqInv_flag s m _ _ _ false h1

/-- **The kept directives open and close procedures exactly like the whole block did.** -/
theorem requiredGroups_brackets (gs : List (List CfiDir)) (s t : Bool)
    (h : procRun (some s) gs.flatten = some t) : procRun (some s) (requiredGroups gs) = some t := by
  have hinit : ReqInv s s (([] : List CfiDir), ([] : List CfiDir), false) := by
    unfold ReqInv; simp [procRun]
  have := requiredGroups_inv gs s s t ([], []) hinit h
  unfold requiredGroups
  unfold ReqInv at this
  simp only [] at this ⊢
  split at this
  · rename_i hq
    rw [hq, List.append_nil]; exact this
  · rw [procRun_append, this.1, this.2.2, this.2.1]

/-! ### the split point of `split_block` -/

/-- at the split offset the directives are divided, in order, right before the first
`.cfi_endproc`: what describes the code in front stays there, the end of the procedure (and
whatever follows it) goes behind the inserted code -/
theorem splitAtEndproc_spec (ds : List CfiDir) :
    (splitAtEndproc ds).1 ++ (splitAtEndproc ds).2 = ds ∧
    (∀ d ∈ (splitAtEndproc ds).1, d.name ≠ ".cfi_endproc") ∧
    ((splitAtEndproc ds).2 = [] ∨ ∃ d tl, (splitAtEndproc ds).2 = d :: tl ∧ d.name = ".cfi_endproc") := by
  induction ds with
  | nil => simp [splitAtEndproc]
  | cons d ds ih =>
    unfold splitAtEndproc
    by_cases h : d.name = ".cfi_endproc"
    · simp only [h, beq_self_eq_true, if_true]
      exact ⟨by simp, by simp, Or.inr ⟨d, ds, rfl, h⟩⟩
    · have h' : (d.name == ".cfi_endproc") = false := by simp [h]
      simp only [h', Bool.false_eq_true, if_false]
      obtain ⟨h1, h2, h3⟩ := ih
      refine ⟨by simp [h1], ?_, h3⟩
      intro x hx
      rcases List.mem_cons.mp hx with rfl | hx
      · exact h
      · exact h2 x hx

end GtirbVerif.IR
