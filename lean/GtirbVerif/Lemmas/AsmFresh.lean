import GtirbVerif.Model.Asm.Streamer
/-!
Freshness of the proxies the streamer allocates: every proxy is numbered below the allocation
counter, every CFG edge to a proxy leads to an allocated one, and so does every undefined symbol.
Hence the proxy a return or an indirect transfer gets (`st.next`) is the target of no earlier edge
and of no symbol.
-/
namespace GtirbVerif.Asm

def Fresh (st : AState) : Prop :=
  (∀ p ∈ st.proxies, p < st.next) ∧
  (∀ e ∈ st.cfg, ∀ p, e.dst = .proxy p → p ∈ st.proxies) ∧
  (∀ x ∈ st.undefs, x.2 ∈ st.proxies)

theorem Fresh.empty : Fresh ({} : AState) := ⟨by simp, by simp, by simp⟩

/-- the counter's value is the target of no edge and of no undefined symbol -/
theorem Fresh.next_unused {st : AState} (h : Fresh st) :
    st.next ∉ st.proxies ∧ (∀ e ∈ st.cfg, e.dst ≠ .proxy st.next) ∧ (∀ x ∈ st.undefs, x.2 ≠ st.next) := by
  obtain ⟨h1, h2, h3⟩ := h
  have hn : st.next ∉ st.proxies := fun hm => Nat.lt_irrefl _ (h1 _ hm)
  exact ⟨hn, fun e he hd => hn (h2 e he _ hd), fun x hx hd => hn (hd ▸ h3 x hx)⟩

/-- states that differ only in fields the invariant does not read -/
theorem Fresh.congr {st st' : AState} (h : Fresh st) (hp : st'.proxies = st.proxies) (hc : st'.cfg = st.cfg)
    (hu : st'.undefs = st.undefs) (hn : st'.next = st.next) : Fresh st' := by
  unfold Fresh at *; rw [hp, hc, hu, hn]; exact h

/-- allocating a block id: the counter grows, a block edge may be added -/
theorem Fresh.bump {st : AState} (h : Fresh st) (es : List AEdge) (hes : ∀ e ∈ es, ∀ p, e.dst ≠ .proxy p) {st' : AState}
    (hp : st'.proxies = st.proxies) (hc : st'.cfg = st.cfg ++ es) (hu : st'.undefs = st.undefs) (hn : st.next ≤ st'.next) :
    Fresh st' := by
  obtain ⟨h1, h2, h3⟩ := h
  refine ⟨?_, ?_, ?_⟩
  · intro p hp'; rw [hp] at hp'; exact Nat.lt_of_lt_of_le (h1 p hp') hn
  · intro e he p hd
    rw [hc, List.mem_append] at he
    rw [hp]
    rcases he with he | he
    · exact h2 e he p hd
    · exact absurd hd (hes e he p)
  · intro x hx; rw [hu] at hx; rw [hp]; exact h3 x hx

/-- allocating a proxy, optionally with an edge to it and/or an undefined symbol for it -/
theorem Fresh.alloc {st : AState} (h : Fresh st) {st' : AState} (es : List AEdge)
    (hes : ∀ e ∈ es, ∀ p, e.dst = .proxy p → p = st.next) (us : List (String × Nat)) (hus : ∀ x ∈ us, x.2 = st.next)
    (hp : st'.proxies = st.proxies ++ [st.next]) (hc : st'.cfg = st.cfg ++ es) (hu : st'.undefs = st.undefs ++ us)
    (hn : st'.next = st.next + 1) : Fresh st' := by
  obtain ⟨h1, h2, h3⟩ := h
  refine ⟨?_, ?_, ?_⟩
  · intro p hp'
    rw [hp, List.mem_append, List.mem_singleton] at hp'
    rw [hn]
    rcases hp' with hp' | rfl
    · exact Nat.lt_succ_of_lt (h1 p hp')
    · exact Nat.lt_succ_self _
  · intro e he p hd
    rw [hc, List.mem_append] at he
    rw [hp, List.mem_append, List.mem_singleton]
    rcases he with he | he
    · exact Or.inl (h2 e he p hd)
    · exact Or.inr (hes e he p hd)
  · intro x hx
    rw [hu, List.mem_append] at hx
    rw [hp, List.mem_append, List.mem_singleton]
    rcases hx with hx | hx
    · exact Or.inl (h3 x hx)
    · exact Or.inr (hus x hx)

theorem resolveRef_fresh {t : Target} {st st' : AState} {n : String} (h : Fresh st) (hr : resolveRef t st n = .ok st') : Fresh st' := by
  unfold resolveRef at hr
  split at hr
  · injection hr with hr; rw [← hr]; exact h
  · split at hr
    · cases hr
    · injection hr with hr; rw [← hr]
      exact h.alloc [] (by simp) [(n, st.next)] (by simp) rfl (by simp) rfl rfl

theorem resolveFix_fresh {t : Target} {st st' : AState} {f : Fixup} (h : Fresh st) (hr : resolveFix t st f = .ok st') : Fresh st' := by
  unfold resolveFix at hr
  split at hr
  · cases hr
  · rename_i st1 h1
    split at hr
    · injection hr with hr; rw [← hr]; exact resolveRef_fresh h h1
    · exact resolveRef_fresh (resolveRef_fresh h h1) hr

theorem resolveFixups_fresh {t : Target} {fx : List Fixup} {st st' : AState} (h : Fresh st)
    (hr : resolveFixups t st fx = .ok st') : Fresh st' := by
  induction fx generalizing st with
  | nil => simp [resolveFixups] at hr; rw [← hr]; exact h
  | cons f fs ih =>
    simp only [resolveFixups] at hr
    split at hr
    · cases hr
    · rename_i st1 h1
      exact ih (resolveFix_fresh h h1) hr

/-- a resolved target is a block, a module symbol, or an allocated proxy -/
theorem resolveTarget_fresh {t : Target} {st st' : AState} {n : String} {nd : Node} (h : Fresh st)
    (hr : resolveTarget t st n = .ok (st', nd)) : Fresh st' ∧ ∀ p, nd = .proxy p → p ∈ st'.proxies := by
  unfold resolveTarget at hr
  split at hr
  · injection hr with hr; injection hr with h1 h2; rw [← h1, ← h2]; exact ⟨h, fun p hp => by cases hp⟩
  · split at hr
    · rename_i nm p hf
      injection hr with hr; injection hr with h1 h2; rw [← h1, ← h2]
      refine ⟨h, fun q hq => ?_⟩
      injection hq with hq
      rw [← hq]
      exact h.2.2 (nm, p) (List.mem_of_find?_eq_some hf)
    · split at hr
      · split at hr
        · injection hr with hr; injection hr with h1 h2; rw [← h1, ← h2]; exact ⟨h, fun p hp => by cases hp⟩
        · cases hr
      · split at hr
        · cases hr
        · injection hr with hr; injection hr with h1 h2; rw [← h1, ← h2]
          refine ⟨h.alloc [] (by simp) [(n, st.next)] (by simp) rfl (by simp) rfl rfl, fun q hq => ?_⟩
          injection hq with hq
          simp [← hq]

theorem insnTarget_fresh {t : Target} {st st' : AState} {ind : Bool} {fx : List Fixup} {nd : Node} {d : Bool} (h : Fresh st)
    (hr : insnTarget t st ind fx = .ok (st', nd, d)) : Fresh st' ∧ ∀ p, nd = .proxy p → p ∈ st'.proxies := by
  unfold insnTarget at hr
  split at hr
  · injection hr with hr; injection hr with h1 h2; injection h2 with h2 h3
    rw [← h1, ← h2]
    refine ⟨h.alloc [] (by simp) [] (by simp) rfl (by simp) (by simp) rfl, fun q hq => ?_⟩
    injection hq with hq
    simp [← hq]
  · split at hr
    · rename_i f
      split at hr
      · cases hr
      · cases hx : resolveTarget t st f.sym with
        | error e => rw [hx] at hr; cases hr
        | ok r =>
          obtain ⟨a, n⟩ := r
          rw [hx] at hr
          simp only [Except.map] at hr
          injection hr with hr; injection hr with h1 h2; injection h2 with h2 h3
          rw [← h1, ← h2]
          exact resolveTarget_fresh h hx
    · cases hr

theorem Fresh.setSect {st : AState} (h : Fresh st) (s : ASect) : Fresh (st.setSect s) := h.congr rfl rfl rfl rfl

theorem Fresh.split {st : AState} (h : Fresh st) (s : ASect) (f : Bool) : Fresh (splitBlock st s f).1 := by
  unfold splitBlock
  cases f
  · exact h.bump [] (by simp) rfl (by simp) rfl (Nat.le_succ _)
  · refine h.bump [{ src := s.curBlock.id, dst := .block (2 * st.next), type := .fall, cond := false, direct := true }] ?_ rfl (by simp) rfl (Nat.le_succ _)
    intro e he p hd
    simp only [List.mem_singleton] at he
    rw [he] at hd
    exact Node.noConfusion hd

theorem encoded_fresh {st : AState} (h : Fresh st) (s : ASect) (n : Nat) (ty : DType) (e : Option Fixup) :
    Fresh (encoded st s n ty e).1 := by
  unfold encoded
  simp only []
  apply Fresh.split
  exact (h.split s false).congr rfl rfl rfl rfl

theorem stepInsn_fresh {t : Target} {st st' : AState} {s : ASect} {size : Nat} {kind : IKind} {ind : Bool} {fx : List Fixup}
    (h : Fresh st) (hr : stepInsn t st s size kind ind fx = .ok st') : Fresh st' := by
  unfold stepInsn at hr
  split at hr
  · cases hr
  · rename_i st0 h0
    have f0 : Fresh (markCode st0 (insnSect s size fx).curBlock.id) := (resolveFixups_fresh h h0).congr rfl rfl rfl rfl
    split at hr
    · injection hr with hr; rw [← hr]; exact f0.setSect _
    · injection hr with hr; rw [← hr]
      refine Fresh.setSect (Fresh.split ?_ _ _) _
      exact f0.alloc [retEdge _ _] (by intro e he p hd; simp at he; rw [he] at hd; simp [retEdge] at hd; exact hd.symm) [] (by simp)
        rfl rfl (by simp) rfl
    · simp only [] at hr
      split at hr
      · cases hr
      · rename_i st2 tgt direct ht
        injection hr with hr; rw [← hr]
        have ft := insnTarget_fresh f0 ht
        refine Fresh.setSect (Fresh.split ?_ _ _) _
        obtain ⟨g1, g2, g3⟩ := ft.1
        refine ⟨g1, ?_, g3⟩
        intro e he p hd
        simp only [List.mem_append, List.mem_singleton] at he
        rcases he with he | he
        · exact g2 e he p hd
        · rw [he] at hd
          exact ft.2 p (by simpa [xferEdge] using hd)

theorem step_fresh {t : Target} {st st' : AState} {ev : Event} (h : Fresh st) (hr : step t st ev = .ok st') : Fresh st' := by
  unfold step at hr
  split at hr
  · injection hr with hr; rw [← hr]
    unfold stepSection
    split
    · exact h.congr rfl rfl rfl rfl
    · exact h.bump [] (by simp) rfl (by simp) rfl (Nat.le_succ _)
  · split at hr
    · cases hr
    · rename_i s hs
      unfold stepIn at hr
      split at hr
      · injection hr with hr; rw [← hr]; exact h
      · unfold stepLabel at hr
        split at hr
        · cases hr
        · injection hr with hr; rw [← hr]
          rename_i nm lb hf
          refine Fresh.setSect ?_ _
          refine h.bump [{ src := s.curBlock.id, dst := .block lb, type := .fall, cond := false, direct := true }] ?_ rfl rfl rfl (Nat.le_refl _)
          intro e he p hd
          simp only [List.mem_singleton] at he
          rw [he] at hd
          exact Node.noConfusion hd
      · exact stepInsn_fresh h hr
      · unfold stepValue at hr
        split at hr
        · cases hr
        · rename_i st0 h0
          injection hr with hr; rw [← hr]; exact (resolveFix_fresh h h0).setSect _
      · injection hr with hr; rw [← hr]; exact h.setSect _
      · injection hr with hr; rw [← hr]; exact h.setSect _
      · injection hr with hr; rw [← hr]
        unfold stepStr
        split
        · refine Fresh.setSect ?_ _
          exact h.congr rfl rfl rfl rfl
        · exact (encoded_fresh h _ _ _ _).setSect _
      · unfold stepLeb at hr
        split at hr
        · cases hr
        · rename_i st0 h0
          injection hr with hr; rw [← hr]
          exact (encoded_fresh (resolveFix_fresh h h0) _ _ _ _).setSect _
      · injection hr with hr; rw [← hr]
        unfold stepAlign
        split
        · exact (h.split _ _).setSect _
        · exact h.setSect _
      · injection hr with hr; rw [← hr]; exact h.congr rfl rfl rfl rfl

theorem run_fresh {t : Target} {evs : List Event} {st st' : AState} (h : Fresh st) (hr : run t st evs = .ok st') : Fresh st' := by
  induction evs generalizing st with
  | nil => simp [run] at hr; rw [← hr]; exact h
  | cons e es ih =>
    simp only [run] at hr
    split at hr
    · cases hr
    · rename_i st1 h1
      exact ih (step_fresh h h1) hr

end GtirbVerif.Asm
