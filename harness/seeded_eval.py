#!/usr/bin/env python3
"""Re-run the seeded changes of /verif/seeded: for each one apply the patch to /repo's working tree, run the repo's
suite, the demonstration and the property's quick check, and undo the patch (git checkout -- .).
    python3 harness/seeded_eval.py [--record] [--only=r4] [C01 C02 ...]
/repo must be clean when this starts; nothing is ever committed there.  Results: out/seeded_results.json"""
import json
import os
import re
import subprocess
import sys

ROOT = os.path.dirname(os.path.dirname(os.path.abspath(__file__)))
REPO = os.environ.get("VERIF_REPO", "/repo")      # a scratch worktree may stand in for /repo
SEEDED = os.path.join(ROOT, "seeded")


def sh(cmd, cwd=None, timeout=3600):
    p = subprocess.run(cmd, shell=True, cwd=cwd, capture_output=True, text=True, timeout=timeout)
    return p.returncode, p.stdout + p.stderr


def main():
    only = next((a.split("=", 1)[1] for a in sys.argv[1:] if a.startswith("--only=")), "")
    ids = [a for a in sys.argv[1:] if not a.startswith("--")] or sorted(d for d in os.listdir(SEEDED) if re.fullmatch(r"C\d\d", d))
    res = {}
    # a scratch worktree lacks the generated, git-ignored version.py: take /repo's
    vpy = os.path.join(REPO, "src", "gtirb_rewriting", "version.py")
    if not os.path.exists(vpy) and os.path.exists("/repo/src/gtirb_rewriting/version.py"):
        import shutil
        shutil.copy("/repo/src/gtirb_rewriting/version.py", vpy)
    for pid in ids:
        for k in sorted(os.listdir(os.path.join(SEEDED, pid))):
            md = os.path.join(SEEDED, pid, k)
            patch = os.path.join(md, "patch.diff")
            if not os.path.exists(patch) or not k.startswith(only):
                continue
            if json.load(open(os.path.join(md, "meta.json"))).get("obsolete"):
                print("%s/%s: skipped (obsolete: a later fix made the change harmless)" % (pid, k), flush=True)
                continue
            rc, out = sh("git status --short", cwd=REPO)
            if out.strip():
                print("ERROR: %s is not clean:\n" % REPO + out)
                return 2
            r = {}
            rc, out = sh("git apply %s" % patch, cwd=REPO)
            r["applies"] = rc == 0
            if rc == 0:
                try:
                    rc, out = sh("PYTHONPATH=%s/src /venv/bin/python -m pytest tests -q -p no:cacheprovider --deselect tests/test_e2e.py 2>&1 | tail -1" % REPO, cwd=REPO)
                    r["suite"] = out.strip()
                    rc, out = sh("PYTHONPATH=%s/src:%s/tests /venv/bin/python %s/demo.py" % (REPO, REPO, md), cwd=REPO, timeout=600)
                    r["demo_changed"] = rc
                    rc, out = sh("./check %s --tier quick" % pid, cwd=ROOT)
                    r["check_exit"] = rc
                    r["no_failing_input"] = "no-failing-input-found" in out
                finally:
                    sh("git checkout -- .", cwd=REPO)
                rc, out = sh("PYTHONPATH=%s/src:%s/tests /venv/bin/python %s/demo.py" % (REPO, REPO, md), cwd=REPO, timeout=600)
                r["demo_clean"] = rc
            res[pid + "/" + k] = r
            if "--record" in sys.argv:
                # keep the outcome with the seeded change (history of verdicts, last one is `result`)
                mp = os.path.join(md, "meta.json")
                meta = json.load(open(mp))
                v = ("caught by ./check %s (quick) %s" % (pid, "as a broken correspondence only (no-failing-input-found)" if r.get("no_failing_input") else "with a failing input")
                     if r.get("check_exit") == 1 else "MISSED by ./check %s (quick)" % pid if r.get("check_exit") == 0 else "check error")
                hist = meta.get("history", [])
                first = hist[0].split(":")[0] if hist else None
                if not hist or not hist[-1].startswith(v):
                    hist.append(v)
                meta["history"] = hist
                meta["result"] = v if len(hist) == 1 else "first run: %s; after strengthening the check: %s" % (first, v)
                json.dump(meta, open(mp, "w"), indent=1)
            verdict = "caught" + (" (no failing input)" if r.get("no_failing_input") else "") if r.get("check_exit") == 1 else "MISSED" if r.get("check_exit") == 0 else "error"
            print("%s/%s: %s; suite: %s; demo %s/%s" % (pid, k, verdict, r.get("suite"), r.get("demo_changed"), r.get("demo_clean")), flush=True)
    os.makedirs(os.path.join(ROOT, "out"), exist_ok=True)
    with open(os.path.join(ROOT, "out", "seeded_results_seed%s%s.json" % (os.environ.get("VERIF_SEED", "0"), os.environ.get("SEEDED_TAG", ""))), "w") as f:
        json.dump(res, f, indent=1)
    missed = [k for k, r in res.items() if r.get("check_exit") != 1]
    print("%d seeded changes, %d not caught" % (len(res), len(missed)))
    return 1 if missed else 0


if __name__ == "__main__":
    sys.exit(main())
