"""
Engine E-modify: build a gtirb module from a JSON case, register edits on a
RewritingContext, run the *real* apply() while recording every call of the
real `insert()` / `delete()` (state before, operation, assembled patch, state
after), and replay each recorded operation on the Lean model.

A case is self-contained JSON (see `gen_case`), so a replay file needs nothing
else.
"""
import contextlib
import json

import gtirb

import irdump

INSN = {
    "nop": (b"\x90", None),
    "push": (b"\x50", None),
    "pop": (b"\x58", None),
    "ret": (b"\xc3", None),
    "syscall": (b"\x0f\x05", None),
}


def insn_bytes(ins):
    """(bytes, offset of the rel32/abs operand or None)"""
    k = ins[0]
    if k in INSN:
        return INSN[k]
    if k == "mov":
        return b"\xb8" + int(ins[1]).to_bytes(4, "little"), None
    if k == "jmp":
        return b"\xe9\x00\x00\x00\x00", 1
    if k == "jcc":
        return b"\x0f\x84\x00\x00\x00\x00", 2
    if k == "loop":  # loop sym: a conditional branch with an 8-bit displacement
        return b"\xe2\x00", 1
    if k == "call":
        return b"\xe8\x00\x00\x00\x00", 1
    if k == "lea":  # lea rax, [rip+sym]
        return b"\x48\x8d\x05\x00\x00\x00\x00", 3
    if k == "icallm":  # call *sym(%rip): the target is read from memory
        return b"\xff\x15\x00\x00\x00\x00", 2
    if k == "ijmpm":  # jmp *sym(%rip)
        return b"\xff\x25\x00\x00\x00\x00", 2
    raise ValueError(k)


def block_layout(b):
    """instruction boundaries of a code block description"""
    offs = [0]
    for ins in b["insns"]:
        offs.append(offs[-1] + len(insn_bytes(ins)[0]))
    return offs


class Built:
    pass


def build(case):
    from gtirb_test_helpers import add_code_block, add_data_block, add_proxy_block, add_section, add_symbol, add_text_section, create_test_module

    import gtirb_rewriting._auxdata as A

    ff = getattr(gtirb.Module.FileFormat, case.get("ff", "ELF"))
    isa = getattr(gtirb.Module.ISA, case.get("isa", "X64"))
    ir, m = create_test_module(ff, isa, binary_type=case.get("binary_type"))
    B = Built()
    B.ir, B.m, B.case = ir, m, case
    B.blocks = []
    B.sym = {}
    B.proxies = {}
    for name in case.get("externs", []):
        p = add_proxy_block(m)
        B.proxies[name] = p
        B.sym[name] = add_symbol(m, name, p)
    sections = [("text", None)] + [(n, n) for n in case.get("sections", [])]
    addr = case.get("base", 0x1000)
    B.sect_blocks = {}
    pending_exprs = []
    for key, sname in sections:
        descs = case.get(key if key == "text" else "sect:" + sname, [])
        if key == "text":
            s, bi = add_text_section(m, address=addr)
        else:
            s, bi = add_section(m, sname, address=addr)
        lst = []
        if key == "text" and case.get("lead"):
            # bytes at the start of the interval that no block covers
            bi.contents = bytes(bi.contents) + b"\xcc" * case["lead"]
            bi.size = len(bi.contents)
        for d in descs:
            if d["kind"] == "code":
                data = b""
                exprs = []
                for ins in d["insns"]:
                    bts, opoff = insn_bytes(ins)
                    if opoff is not None:
                        exprs.append((len(data) + opoff, ins[1], ins[2] if len(ins) > 2 else 0, len(bts) - opoff))
                    data += bts
                blk = add_code_block(bi, data)
                for off, sy, addend, width in exprs:
                    pending_exprs.append((bi, blk, off, sy, addend, width))
            elif d.get("uninit"):
                # a block in the uninitialized tail of the interval (as in .bss), possibly behind a gap no block covers
                bi.size += d.get("gap_before", 0)
                blk = gtirb.DataBlock(offset=bi.size, size=len(d["bytes"]), byte_interval=bi)
                bi.size += len(d["bytes"])
            else:
                data = bytes(d["bytes"])
                blk = add_data_block(bi, data)
                for off, sy, addend in d.get("symexprs", []):
                    pending_exprs.append((bi, blk, off, sy, addend, 8))
            for sd in d.get("syms", []):
                y = add_symbol(m, sd["name"], blk)
                y.at_end = bool(sd.get("at_end", False))
                B.sym[sd["name"]] = y
            lst.append(blk)
            B.blocks.append(blk)
            d["_idx"] = len(B.blocks) - 1
        B.sect_blocks[key] = lst
        if case.get("uninit_tail", {}).get(key):
            bi.size += case["uninit_tail"][key]
        addr += 0x1000
    # symbolic expressions
    sizes = A.symbolic_expression_sizes.get_or_insert(m)
    for bi, blk, off, sy, addend, size in pending_exprs:
        bi.symbolic_expressions[blk.offset + off] = gtirb.SymAddrConst(addend, B.sym[sy])
    if case.get("table_seed") is not None:
        # interval-keyed tables are not filled in offset order (they are not after an earlier rewrite either)
        import random as _random

        _random.Random(case["table_seed"]).shuffle(pending_exprs)
    for bi, blk, off, sy, addend, size in pending_exprs:
        sizes[gtirb.Offset(bi, blk.offset + off)] = size
    # functions
    flat = [d for key, sname in sections for d in case.get(key if key == "text" else "sect:" + sname, [])]
    funcs = {}
    for d in flat:
        if d["kind"] == "code" and d.get("func") is not None:
            funcs.setdefault(d["func"], []).append(d)
    B.func_uuid = {}
    if funcs or case.get("function_tables"):
        import uuid as _uuid

        fb = A.function_blocks.get_or_insert(m)
        fe = A.function_entries.get_or_insert(m)
        fn = A.function_names.get_or_insert(m)
        for f, ds in sorted(funcs.items()):
            u = _uuid.uuid4()
            B.func_uuid[f] = u
            fb[u] = {B.blocks[d["_idx"]] for d in ds}
            ents = [d for d in ds if d.get("entry")] or ds[:1]
            fe[u] = {B.blocks[d["_idx"]] for d in ents}
            nm = next((sd["name"] for d in ents for sd in d.get("syms", []) if not sd.get("at_end")), None)
            if nm is None:
                nm = "fun_%d" % f
                B.sym[nm] = add_symbol(m, nm, B.blocks[ents[0]["_idx"]])
            fn[u] = B.sym[nm]
        # two functions whose name symbols are distinct symbols of one name (static functions of two translation units)
        for f, g in case.get("dup_names", []):
            if f in B.func_uuid and g in B.func_uuid and f != g:
                ent = sorted(fe[B.func_uuid[f]], key=lambda b: b.offset)[0]
                fn[B.func_uuid[f]] = add_symbol(m, fn[B.func_uuid[g]].name, ent)
        # blocks that belong to a second function as well (a shared tail)
        for bidx, f in case.get("shared", []):
            fb[B.func_uuid[f]].add(B.blocks[bidx])
    # control flow
    build_cfg(B, flat)
    # other aux data
    al = None
    for d in flat:
        if d.get("align"):
            al = al or A.alignment.get_or_insert(m)
            al[B.blocks[d["_idx"]]] = d["align"]
        if d.get("comments"):
            t = A.comments.get_or_insert(m)
            for disp, text in d["comments"]:
                t[gtirb.Offset(B.blocks[d["_idx"]], disp)] = text
        if d.get("cfi"):
            from gtirb_rewriting._auxdata import NULL_UUID

            t = A.cfi_directives.get_or_insert(m)
            for disp, ds in d["cfi"]:
                t[gtirb.Offset(B.blocks[d["_idx"]], disp)] = [
                    (n, list(a), B.sym[y] if y else NULL_UUID) for n, a, y in ds
                ]
        if d.get("encoding") and d["kind"] == "data":
            A.encodings.get_or_insert(m)[B.blocks[d["_idx"]]] = d["encoding"]
    if case.get("entry") is not None:
        m.entry_point = B.blocks[case["entry"]]
    if case.get("init") is not None:
        A.elf_dynamic_init.set(m, B.blocks[case["init"]])
    if case.get("fini") is not None:
        A.elf_dynamic_fini.set(m, B.blocks[case["fini"]])
    if case.get("empty_alignment_table"):
        A.alignment.get_or_insert(m)        # the table exists, possibly without entries
    for name in case.get("absent_tables", []):
        # a module that does not carry the (empty) aux-data table at all: the rewrite has to create it when needed
        t = m.aux_data.get(name)
        if t is not None and not t.data and not (name == "alignment" and case.get("empty_alignment_table")):
            del m.aux_data[name]
    if case.get("no_addr"):
        # a module that has not been laid out: no byte interval has an address
        for bi in m.byte_intervals:
            bi.address = None
    if case.get("safeseh"):
        A.pe_safe_exception_handlers.set(m, {B.blocks[i] for i in case["safeseh"]})
    for name in case.get("empty_sections") or []:
        # a section that holds no byte interval (it has no address)
        gtirb.Section(name=name, flags={gtirb.Section.Flag.Readable}).module = m
    B.flat = flat
    return B


def build_cfg(B, flat):
    from gtirb_test_helpers import add_edge, add_proxy_block

    cfg = B.ir.cfg
    ET = gtirb.Edge.Type

    def target_of(name):
        y = B.sym[name]
        return y.referent

    n = len(flat)

    def next_code(i):
        d = flat[i]
        # physically next block in the same section
        if i + 1 < n and flat[i + 1].get("_sect", None) == d.get("_sect", None) and flat[i + 1]["kind"] == "code":
            return B.blocks[flat[i + 1]["_idx"]]
        return None

    # tag sections
    k = 0
    for key in ["text"] + ["sect:" + s for s in B.case.get("sections", [])]:
        for d in B.case.get(key, []):
            d["_sect"] = key
    call_sites = {}  # function -> list of return-site blocks
    for i, d in enumerate(flat):
        if d["kind"] != "code" or not d["insns"]:
            continue
        blk = B.blocks[d["_idx"]]
        last = d["insns"][-1]
        nxt = next_code(i)
        if last[0] == "jmp":
            t = target_of(last[1])
            if d.get("unlabelled"):
                cfg.add(gtirb.Edge(blk, t, None))      # an edge without a label is legal GTIRB: it is no fallthrough
            else:
                add_edge(cfg, blk, t, ET.Branch, direct=True)
        elif last[0] in ("jcc", "loop"):
            t = target_of(last[1])
            add_edge(cfg, blk, t, ET.Branch, conditional=True, direct=True)
            if nxt is not None:
                add_edge(cfg, blk, nxt, ET.Fallthrough)
        elif last[0] == "call":
            t = target_of(last[1])
            add_edge(cfg, blk, t, ET.Call, direct=True)
            if nxt is not None:
                add_edge(cfg, blk, nxt, ET.Fallthrough)
                # which function is called?
                for d2 in flat:
                    if d2["kind"] == "code" and B.blocks[d2["_idx"]] is t and d2.get("func") is not None:
                        call_sites.setdefault(d2["func"], []).append(nxt)
        elif last[0] == "icallm":
            add_edge(cfg, blk, add_proxy_block(B.m), ET.Call, direct=False)
            if nxt is not None:
                add_edge(cfg, blk, nxt, ET.Fallthrough)
        elif last[0] == "ijmpm":
            add_edge(cfg, blk, add_proxy_block(B.m), ET.Branch, direct=False)
        elif last[0] == "syscall":
            # the kernel is entered through a Syscall edge to a proxy; execution continues behind the instruction
            add_edge(cfg, blk, add_proxy_block(B.m), ET.Syscall)
            if nxt is not None:
                add_edge(cfg, blk, nxt, ET.Fallthrough)
        elif last[0] == "ret":
            pass
        else:
            if nxt is not None:
                add_edge(cfg, blk, nxt, ET.Fallthrough)
    for i, d in enumerate(flat):
        if d["kind"] == "code" and d["insns"] and d["insns"][-1][0] == "ret":
            blk = B.blocks[d["_idx"]]
            sites = call_sites.get(d.get("func"), []) if d.get("func") is not None else []
            if sites:
                for s in sites:
                    add_edge(cfg, blk, s, ET.Return)
            else:
                add_edge(cfg, blk, add_proxy_block(B.m), ET.Return)


# ---------------------------------------------------------------------------
# running the real code with recording
# ---------------------------------------------------------------------------
def order_issue(dump):
    """the block ordering the cache starts a rewrite with must be the physical one: in every chain, a block ends where
    the next begins or earlier, and a zero-sized block stands in front of the non-empty block at its address (judged on
    the state before the first operation, when every address is still the input's)"""
    ivs = {i["id"]: i for i in dump["intervals"]}
    blk = {b["id"]: b for b in dump["blocks"]}

    def addr(b):
        iv = ivs.get(b.get("bi"))
        return None if iv is None or iv["addr"] is None else iv["addr"] + b["off"]

    for sect, chains in dump.get("order", []):
        for ch in chains:
            for x, y in zip(ch, ch[1:]):
                bx, by = blk.get(x), blk.get(y)
                if bx is None or by is None:
                    continue
                ax, ay = addr(bx), addr(by)
                if ax is None or ay is None:
                    continue
                if ax > ay or (ax == ay and bx["size"] != 0 and by["size"] == 0):
                    return "the cache lists block %d (address %#x, %d bytes) in front of block %d (address %#x, %d bytes)" % (x, ax, bx["size"], y, ay, by["size"])
    return None


class Recorder:
    def __init__(self, module):
        self.module = module
        self.idm = irdump.IdMap()
        self.records = []
        self.on_op = None
        self.order_issue = None

    def close_iteration(self, dump):
        """the state at the end of the loop iteration of _apply_modifications that made the last recorded call (the
        loop may do more after insert()/delete() return): taken when the next call begins or the loop is left"""
        if self.records and "iter_after" not in self.records[-1] and "after" in self.records[-1]:
            self.records[-1]["iter_after"] = dump

    def wrap(self):
        import gtirb_rewriting.rewriting as R

        rec = self
        real_insert, real_delete = R.insert, R.delete

        def insert(cache, block, offset, replacement_length, code):
            before = irdump.dump_ir(rec.module, rec.idm, cache)
            rec.close_iteration(before)
            patch = irdump.dump_patch(code, rec.idm, rec.module)
            op = {"kind": "insert", "block": rec.idm.of(block), "offset": offset, "repl": replacement_length, "patch": patch}
            if not rec.records:
                rec.order_issue = order_issue(before)
            r = {"before": before, "do": op}
            rec.records.append(r)
            try:
                ret = real_insert(cache, block, offset, replacement_length, code)
            except BaseException as e:
                r["raised"] = type(e).__name__
                r["after"] = irdump.dump_ir(rec.module, rec.idm, cache)
                raise
            r["after"] = irdump.dump_ir(rec.module, rec.idm, cache)
            r["ret"] = rec.idm.of(ret)
            if rec.on_op:
                rec.on_op(cache, r)
            return ret

        def delete(cache, block, offset, length, retarget_to_proxy=False):
            before = irdump.dump_ir(rec.module, rec.idm, cache)
            rec.close_iteration(before)
            op = {"kind": "delete", "block": rec.idm.of(block), "offset": offset, "length": length, "proxy": bool(retarget_to_proxy)}
            if not rec.records:
                rec.order_issue = order_issue(before)
            r = {"before": before, "do": op}
            rec.records.append(r)
            try:
                ret = real_delete(cache, block, offset, length, retarget_to_proxy)
            except BaseException as e:
                r["raised"] = type(e).__name__
                r["after"] = irdump.dump_ir(rec.module, rec.idm, cache)
                raise
            r["after"] = irdump.dump_ir(rec.module, rec.idm, cache)
            r["ret"] = rec.idm.of(ret)
            if rec.on_op:
                rec.on_op(cache, r)
            return ret

        return contextlib.ExitStack(), (R, real_insert, real_delete, insert, delete)


@contextlib.contextmanager
def recording(rec):
    import gtirb_rewriting.rewriting as R

    _, (R, real_insert, real_delete, insert, delete) = rec.wrap()
    R.insert, R.delete = insert, delete
    real_loop = R.RewritingContext._apply_modifications

    def loop(self, modify_cache, *a, **k):
        try:
            return real_loop(self, modify_cache, *a, **k)
        finally:
            rec.close_iteration(irdump.dump_ir(rec.module, rec.idm, modify_cache))

    R.RewritingContext._apply_modifications = loop
    try:
        yield rec
    finally:
        R.insert, R.delete = real_insert, real_delete
        R.RewritingContext._apply_modifications = real_loop


def make_patch(asm, constraints=None, get_asm=None):
    from gtirb_rewriting import Constraints, Patch

    c = constraints or Constraints()

    class P(Patch):
        def __init__(self):
            super().__init__(c)

        def get_asm(self, ctx, *regs):
            if get_asm is not None:
                return get_asm(ctx, *regs)
            # the scratch registers the patch was given show in its bytes
            return asm + "".join("\nmovq %%%s, %%%s" % (format(r), format(r)) for r in getattr(ctx, "scratch_registers", []))

    return P()


def register_edits(B, ctx, edits, asm_hook=None):
    """asm_hook(asm) -> replacement for Patch.get_asm (fault injection, instrumentation)"""

    def mk(e):
        if "asm" not in e:
            return bytes(e["bytes"])
        cons = None
        if e.get("constraints"):
            from gtirb_rewriting import Constraints

            c = e["constraints"]
            cons = Constraints(clobbers_flags=bool(c.get("flags")), clobbers_registers=set(c.get("clobbers", [])),
                               scratch_registers=int(c.get("scratch", 0)), align_stack=bool(c.get("align")),
                               preserve_caller_saved_registers=bool(c.get("preserve")))
        return make_patch(e["asm"], cons, get_asm=asm_hook(e["asm"]) if asm_hook else None)

    done_groups, done_fns = set(), set()
    refused = sorted((r for r in (B.case.get("refused") or [])), key=lambda r: r.get("when", 0)) if getattr(B, "case", None) else []
    B.refusals = []

    def attempt_refused(upto):
        # registrations the interface must refuse (and forget): tried between the valid ones
        while refused and refused[0].get("when", 0) <= upto:
            r = refused.pop(0)
            blk_ = B.blocks[r["block"]]
            try:
                if r["op"] == "insert":
                    ctx.insert_at(blk_, r["off"], mk(r))
                elif r["op"] == "replace":
                    ctx.replace_at(blk_, r["off"], r["len"], mk(r))
                else:
                    ctx.delete_at(blk_, r["off"], r["len"], retarget_to_proxy=bool(r.get("proxy", False)))
                B.refusals.append((r, None))
            except Exception as ex:  # noqa: BLE001
                B.refusals.append((r, type(ex).__name__))

    # a delete_function group stands for the one call only while it is still whole (case surgery by a runner may
    # have taken members out or aimed other requests at the function's blocks): otherwise its members are
    # registered one by one
    flat = flat_of(B.case) if getattr(B, "case", None) else []
    whole_fn = set()
    for f in {e["fn"] for e in edits if e.get("fn") is not None}:
        members = {i for i, d in enumerate(flat) if d["kind"] == "code" and d.get("func") == f}
        got = [e["block"] for e in edits if e.get("fn") == f]
        others = [e for e in edits if e.get("fn") != f and e["block"] in members and e.get("all") is None]
        if sorted(got) == sorted(members) and not others:
            whole_fn.add(f)
    for k_, e in enumerate(edits):
        attempt_refused(k_)
        blk = B.blocks[e["block"]]
        if e.get("fn") is not None and e["fn"] in whole_fn:
            # the members of a delete_function call stand for that one call
            if e["fn"] not in done_fns:
                done_fns.add(e["fn"])
                fobj = next(f for f in ctx._functions if blk in f.get_all_blocks())
                ctx.delete_function(fobj)
            continue
        if e.get("all") is not None:
            # the members of a scope-wide registration stand for one register_insert call
            if e["all"] not in done_groups:
                from gtirb_rewriting import AllBlocksScope, BlockPosition

                done_groups.add(e["all"])
                ctx.register_insert(AllBlocksScope(BlockPosition.EXIT if e.get("exit") else BlockPosition.ENTRY), mk(e))
            continue
        if e["op"] == "insert":
            ctx.insert_at(blk, e["off"], mk(e))
        elif e["op"] == "replace":
            ctx.replace_at(blk, e["off"], e["len"], mk(e))
        elif e["op"] == "delete":
            ctx.delete_at(blk, e["off"], e["len"], retarget_to_proxy=bool(e.get("proxy", False)))
        else:
            raise ValueError(e["op"])
    attempt_refused(len(edits))
    # register_insert_function(name, patch)
    for f in (B.case.get("insert_functions") or []) if getattr(B, "case", None) else []:
        ctx.register_insert_function(f["name"], make_patch(f["asm"]))
    # retarget_symbol_uses(old, new), by name
    for old_name, new_name in (B.case.get("retargets") or []) if getattr(B, "case", None) else []:
        so = next(y for y in B.m.symbols if y.name == old_name)
        sn = next(y for y in B.m.symbols if y.name == new_name)
        ctx.retarget_symbol_uses(so, sn)
    # delete_symbol(sym, force), by name; a symbol may be asked for more than once
    for name, force in (B.case.get("symbol_deletions") or []) if getattr(B, "case", None) else []:
        ctx.delete_symbol(next(y for y in B.m.symbols if y.name == name), force=bool(force))


def run_case(case, record=True, on_op=None):
    """Build, register, apply. Returns (Built, Recorder, exception name or None)."""
    import gtirb_functions

    from gtirb_rewriting import RewritingContext

    B = build(case)
    funcs = gtirb_functions.Function.build_functions(B.m)
    ctx = RewritingContext(B.m, funcs, expensive_assertions=case.get("expensive_assertions", True))
    rec = Recorder(B.m)
    rec.on_op = on_op
    B.dump0 = irdump.dump_ir(B.m, rec.idm)
    err = None
    try:
        register_edits(B, ctx, case.get("edits", []))
        if record:
            with recording(rec):
                ctx.apply()
        else:
            ctx.apply()
    except Exception as e:  # noqa: BLE001
        err = type(e).__name__ + ": " + str(e)[:200]
    B.dump1 = irdump.dump_ir(B.m, rec.idm)
    return B, rec, err


# ---------------------------------------------------------------------------
# generation
# ---------------------------------------------------------------------------
_IMM = [0x1000]


def fresh_imm(rng):
    _IMM[0] += 1
    return 0x10000 + rng.randrange(1 << 20) * 16 + (_IMM[0] % 16)


def gen_code_block(rng, labels, externs, term=None):
    insns = []
    for _ in range(rng.randint(0, 3)):
        k = rng.choice(["mov", "mov", "nop", "push", "pop", "lea"])
        if k == "mov":
            insns.append(["mov", fresh_imm(rng)])
        elif k == "lea" and labels:
            # a data reference in code, some with an addend
            insns.append(["lea", rng.choice(labels + externs), rng.choice([0, 0, 4, 8, -4])])
        else:
            insns.append([k if k != "lea" else "nop"])
    term = term if term is not None else rng.choice([None, None, "jmp", "jcc", "call", "ret"])
    if term in ("jmp", "jcc"):
        insns.append([term, rng.choice(labels)])
    elif term == "call":
        insns.append(["call", rng.choice(labels + externs)])
    elif term == "ret":
        insns.append(["ret"])
    if not insns:
        insns.append(["nop"])
    return insns


def gen_case(rng, nblocks=None, with_data=True, with_funcs=True, nedits=None, cfg_domain=False):
    nblocks = nblocks or rng.randint(1, 7)
    externs = ["ext_a", "ext_b"]
    kinds = []
    for i in range(nblocks):
        kinds.append("data" if (with_data and rng.random() < 0.2 and i > 0) else "code")
    labels = ["L%d" % i for i in range(nblocks)]
    code_labels = [labels[i] for i in range(nblocks) if kinds[i] == "code"] or []
    text = []
    func = 0
    in_func = with_funcs and rng.random() < 0.8
    for i in range(nblocks):
        syms = [{"name": labels[i], "at_end": False}]
        if rng.random() < 0.15:
            syms.append({"name": "E%d" % i, "at_end": True})
        if rng.random() < 0.1:
            syms.append({"name": "X%d" % i, "at_end": False})
        if kinds[i] == "code":
            # code must not run off into data or the end of the section: C03 quantifies over
            # modules whose CFG is consistent with their code
            falls_off = i + 1 >= nblocks or kinds[i + 1] != "code"
            term = rng.choice(["jmp", "ret", "ret"]) if falls_off else None
            d = {"kind": "code", "insns": gen_code_block(rng, code_labels, externs, term), "syms": syms}
            if in_func:
                d["func"] = func
            if d["insns"][-1][0] in ("ret", "jmp") and rng.random() < 0.7:
                func += 1
                in_func = with_funcs and rng.random() < 0.8
            if rng.random() < 0.1:
                d["align"] = rng.choice([2, 4, 8, 16])
            if rng.random() < 0.15:
                offs = block_layout(d)
                d["comments"] = [[rng.choice(offs[:-1] or [0]), "c%d" % i]]
        else:
            nb = rng.randint(1, 8)
            d = {"kind": "data", "bytes": [rng.randrange(256) for _ in range(nb)], "syms": syms}
            if nb == 8 and code_labels and rng.random() < 0.5:
                d["symexprs"] = [[0, rng.choice(code_labels), rng.choice([0, 0, 8, 16])]]
            if rng.random() < 0.3:
                d["comments"] = sorted([k, "d%d_%d" % (i, k)] for k in set(rng.randrange(nb) for _ in range(rng.randint(1, 2))))
        text.append(d)
    # mark entries: first block of each function
    seen = set()
    for d in text:
        if d["kind"] == "code" and d.get("func") is not None and d["func"] not in seen:
            seen.add(d["func"])
            mine = [x for x in text if x["kind"] == "code" and x.get("func") == d["func"]]
            # now and then the entry is not the first block of its function in the layout
            (rng.choice(mine) if len(mine) > 1 and rng.random() < 0.15 else d)["entry"] = True
            if len(mine) > 1 and rng.random() < 0.1:
                rng.choice(mine)["entry"] = True        # a second entry block
    case = {"isa": "X64", "ff": "ELF", "text": text, "externs": externs}
    if with_data and rng.random() < 0.2:
        # a second section with data blocks (symbols, pointers into the code)
        ds = []
        for i in range(rng.randint(1, 3)):
            d = {"kind": "data", "bytes": [rng.randrange(256) for _ in range(rng.choice([4, 8, 8, 12]))], "syms": [{"name": "D%d" % i, "at_end": False}]}
            if len(d["bytes"]) >= 8 and code_labels and rng.random() < 0.6:
                d["symexprs"] = [[0, rng.choice(code_labels), rng.choice([0, 0, 4])]]
                d["bytes"][0:8] = [0] * 8
            ds.append(d)
        case["sections"] = [".data"]
        case["sect:.data"] = ds
    case["edits"] = gen_edits(rng, case, nedits)
    if rng.random() < 0.5:
        case["table_seed"] = rng.randrange(1 << 30)
    if rng.random() < 0.15:
        # aux-data tables the module does not carry at all (when it has nothing to put in them)
        names = ["symbolicExpressionSizes", "alignment", "comments", "padding", "encodings", "cfiDirectives"]
        case["absent_tables"] = [n for n in names if rng.random() < 0.6] or names
    if nedits is None and rng.random() < 0.12:
        # a call site replaced by code that calls the same function again; a ret replaced by a call of its own function
        untouched = [i for i, d in enumerate(text) if d["kind"] == "code" and d["insns"][-1][0] in ("call", "ret")
                     and not any(e["block"] == i and e.get("all") is None for e in case["edits"])]
        if untouched:
            i = rng.choice(untouched)
            d = text[i]
            offs = block_layout(d)
            last = d["insns"][-1]
            if last[0] == "call":
                asm = rng.choice(["pushq %%rax\ncall %s\npopq %%rax" % last[1], "call %s" % last[1], "nop\ncall %s" % last[1]])
            else:
                entry = next((y["name"] for x in text if x["kind"] == "code" and x.get("func") == d.get("func") and x.get("entry") and d.get("func") is not None
                              for y in x["syms"] if not y.get("at_end")), None)
                asm = "call %s\nret" % entry if entry else "nop\nret"
            case["edits"].append({"op": "replace", "block": i, "off": offs[-2], "len": offs[-1] - offs[-2], "asm": asm})
    if nedits is None and rng.random() < 0.12:
        # a replacement of exactly the same length: an instruction with a symbolic operand makes way for one
        # without, and the other way round
        cands = []
        for i, d in enumerate(text):
            if d["kind"] != "code" or any(e["block"] == i and e.get("all") is None for e in case["edits"]):
                continue
            offs = block_layout(d)
            for k, ins in enumerate(d["insns"]):
                if ins[0] == "lea":
                    cands.append((i, offs[k], 7, "movq $0, %rax"))
                elif ins[0] == "call":
                    cands.append((i, offs[k], 5, "movl $%d, %%eax" % fresh_imm(rng)))
                elif ins[0] == "mov" and k < len(d["insns"]) - 1 and code_labels:
                    cands.append((i, offs[k], 5, "movl $%d, %%ebx" % fresh_imm(rng)))
        if cands:
            i, off, ln, asm = rng.choice(cands)
            case["edits"].append({"op": "replace", "block": i, "off": off, "len": ln, "asm": asm})
    # module entry point, DT_INIT and DT_FINI on code blocks
    code_idx = [i for i, d in enumerate(text) if d["kind"] == "code"]
    for key, p in (("entry", 0.25), ("init", 0.2), ("fini", 0.2)):
        if code_idx and rng.random() < p:
            case[key] = rng.choice(code_idx)
    # now and then a PE module with registered exception handlers
    if code_idx and rng.random() < 0.12:
        case["ff"] = "PE"
        case.pop("init", None)
        case.pop("fini", None)
        case["safeseh"] = sorted(set(rng.choice(code_idx) for _ in range(rng.randint(1, 2))))
    if nedits is None and rng.random() < 0.1:
        # registrations the interface refuses - a partial range with retarget_to_proxy, an offset behind the block, an
        # offset inside an instruction - tried among the valid ones: a refused request must leave nothing behind
        refused = []
        for _ in range(rng.choice([1, 1, 2])):
            i = rng.randrange(len(text))
            d = text[i]
            offs = block_layout(d) if d["kind"] == "code" else list(range(len(d["bytes"]) + 1))
            kind = rng.choice(["partial-proxy", "partial-proxy", "beyond", "inside"])
            when = rng.randint(0, len(case["edits"]))
            if kind == "partial-proxy" and len(offs) > 2:
                a = rng.randrange(len(offs) - 1)
                b = rng.randrange(a + 1, len(offs))
                if a == 0 and b == len(offs) - 1:
                    b -= 1
                refused.append({"op": "delete", "block": i, "off": offs[a], "len": offs[b] - offs[a], "proxy": True, "when": when})
            elif kind == "beyond":
                if rng.random() < 0.5:
                    refused.append({"op": "insert", "block": i, "off": offs[-1] + 1, "asm": "nop" if d["kind"] == "code" else ".byte 1", "when": when})
                else:
                    refused.append({"op": "delete", "block": i, "off": offs[-1] + rng.choice([0, 1]), "len": rng.choice([1, 2]), "when": when})
            elif kind == "inside" and d["kind"] == "code":
                wide = [k for k in range(len(offs) - 1) if offs[k + 1] - offs[k] > 1]
                if wide:
                    k = rng.choice(wide)
                    refused.append({"op": "insert", "block": i, "off": offs[k] + 1, "asm": "nop", "when": when})
        if refused:
            case["refused"] = refused
    if cfg_domain:
        # C03: keep the module inside "CFG consistent with the code": drop requests that would
        # leave code running off into data / the end of the section
        # judged on the whole request set (a later insertion may supply the terminator an earlier request removed);
        # requests are dropped, last registered first, until the set is in the domain
        while case["edits"] and runs_off_end(case):
            groups = {e.get("all") for e in case["edits"] if e.get("all") is not None}
            victim = case["edits"][-1]
            case["edits"] = [e for e in case["edits"] if e is not victim and not (victim.get("all") is not None and e.get("all") == victim.get("all"))]
    return case


def add_retargets(rng, case, n=None, chains=False):
    """retarget_symbol_uses(old, new) requests on the labels of code blocks; without `chains` an old symbol is not the
    new symbol of another request; cycles never"""
    text = flat_of(case)
    labels = [s["name"] for d in text if d["kind"] == "code" for s in d["syms"] if not s.get("at_end")]
    news = labels + list(case.get("externs", []))
    out, used = [], set()
    for _ in range(n or rng.choice([1, 1, 2])):
        olds = [x for x in labels if x not in used]
        if not olds:
            break
        a = rng.choice(olds)
        cands = [x for x in news if x != a and x not in used]
        if chains:
            fwd = dict(out)

            def reaches(x, goal):
                seen = set()
                while x in fwd and x not in seen:
                    seen.add(x)
                    x = fwd[x]
                    if x == goal:
                        return True
                return False

            cands = [x for x in news if x != a and not reaches(x, a)]
        if not cands:
            break
        b = rng.choice(cands)
        used.add(a)
        if not chains:
            used.add(b)
        out.append([a, b])
    if out:
        case["retargets"] = out
    return case


def retarget_of_a_deleted_block(rng):
    """the block a call / jump / conditional jump leads to is deleted whole (with or without a proxy) and its label is
    retargeted to another function in the same context: while the batch runs, the label is held by the reference
    cache only"""
    kind = rng.choice(["call", "jmp", "jcc"])
    text = [{"kind": "code", "func": 0, "entry": True, "insns": [["nop"]] * rng.randint(0, 2) + [[kind, "old"]], "syms": [{"name": "main", "at_end": False}]}]
    if kind != "jmp":
        text.append({"kind": "code", "func": 0, "insns": [["nop"]] * rng.randint(0, 1) + [["ret"]], "syms": [{"name": "after", "at_end": False}]})
    text.append({"kind": "code", "func": 1, "entry": True, "insns": [["nop"]] * rng.randint(0, 2) + [["ret"]], "syms": [{"name": "old", "at_end": False}]})
    if rng.random() < 0.6:
        text.append({"kind": "code", "func": 2, "entry": True, "insns": [["nop"], ["ret"]], "syms": [{"name": "helper", "at_end": False}]})
    text.append({"kind": "code", "func": 3, "entry": True, "insns": [["nop"]] * rng.randint(0, 1) + [["ret"]], "syms": [{"name": "new", "at_end": False}]})
    i = next(k for k, d in enumerate(text) if d["syms"][0]["name"] == "old")
    e = {"op": "delete", "block": i, "off": 0, "len": block_size(text[i]), "proxy": rng.random() < 0.5}
    if e["proxy"] and rng.random() < 0.5:
        e["fn"] = 1
    edits = [e]
    if rng.random() < 0.4:
        edits.append({"op": "insert", "block": 0, "off": 0, "asm": "nop"})
    rng.shuffle(edits)
    return {"isa": "X64", "ff": "ELF", "text": text, "externs": ["ext_a"], "edits": edits, "retargets": [["old", rng.choice(["new", "new", "ext_a"])]]}


PATCHES = [
    lambda rng, L, X: "movl $%d, %%eax" % fresh_imm(rng),
    lambda rng, L, X: "nop",
    lambda rng, L, X: "movl $%d, %%eax\nmovl $%d, %%ebx" % (fresh_imm(rng), fresh_imm(rng)),
    lambda rng, L, X: "jmp .Lskip\nmovl $%d, %%eax\n.Lskip:\nnop" % fresh_imm(rng),
    lambda rng, L, X: "call %s" % rng.choice(L + X),
    lambda rng, L, X: "movl $%d, %%eax\ncall %s\nmovl $%d, %%eax" % (fresh_imm(rng), rng.choice(L + X), fresh_imm(rng)),
    lambda rng, L, X: "jne %s" % rng.choice(L),
    lambda rng, L, X: "cmpl $0, %%eax\njne .Lx\nmovl $%d, %%ecx\n.Lx:" % fresh_imm(rng),
    lambda rng, L, X: "jmp %s" % rng.choice(L),
    lambda rng, L, X: "ret",
    lambda rng, L, X: "leaq %s(%%rip), %%rax" % rng.choice(L),
    lambda rng, L, X: "leaq %s+%d(%%rip), %%rax" % (rng.choice(L), rng.choice([4, 8])),
    lambda rng, L, X: "addl $%d, %s(%%rip)" % (rng.randint(1, 99), rng.choice(L)),
    lambda rng, L, X: "movl $%d, %s+%d(%%rip)" % (fresh_imm(rng), rng.choice(L), rng.choice([4, 8])),
    lambda rng, L, X: "pushq %rax\n.cfi_adjust_cfa_offset 8\npopq %rax\n.cfi_adjust_cfa_offset -8",
    lambda rng, L, X: (lambda t: "call %s\ncall %s" % (t, t))(rng.choice(L + X)),
    lambda rng, L, X: (lambda t: "call %s\nnop\ncall %s\nnop" % (t, t))(rng.choice(L)),
    lambda rng, L, X: ".cfi_remember_state\n.Lretry:\n.cfi_undefined 0\nxorl %eax, %eax\ntestl %eax, %eax\njne .Lretry\n.cfi_restore_state",
    lambda rng, L, X: ".Lspin:\nnop\njne .Lspin",
    lambda rng, L, X: "movl $%d, %%eax\n.Ltail:" % fresh_imm(rng),
    lambda rng, L, X: ".Lspin:\nmovl $%d, %%eax\njne .Lspin\nnop" % fresh_imm(rng),
]
DATA_PATCHES = [
    lambda rng, L, X: ".byte %d, %d" % (rng.randrange(256), rng.randrange(256)),
    lambda rng, L, X: ".quad %s" % rng.choice(L),
    lambda rng, L, X: ".string \"hi\"",
    lambda rng, L, X: ".byte 7",
    lambda rng, L, X: ".byte %d\n.Ldtail:" % rng.randrange(256),
    lambda rng, L, X: ".Ldhead:\n.byte %d, %d" % (rng.randrange(256), rng.randrange(256)),
]


def gen_edits(rng, case, nedits=None):
    text = flat_of(case)
    labels = [s["name"] for d in text if d["kind"] == "code" for s in d["syms"] if not s.get("at_end")]
    ext = list(case.get("externs", []))
    auto = nedits is None
    nedits = nedits if nedits is not None else rng.choice([0, 1, 1, 2, 2, 3, 4])
    edits = []
    used = {}
    for _ in range(nedits):
        bi = rng.randrange(len(text))
        d = text[bi]
        if d["kind"] == "code":
            offs = block_layout(d)
        else:
            offs = list(range(len(d["bytes"]) + 1))
        size = offs[-1]
        lo = used.get(bi, 0)
        cand = [o for o in offs if o >= lo]
        if not cand:
            continue
        o = rng.choice(cand)
        kind = rng.choice(["insert", "insert", "insert", "replace", "delete", "delete"])
        vocab = PATCHES if d["kind"] == "code" else DATA_PATCHES
        if kind == "insert":
            e = {"op": "insert", "block": bi, "off": o, "asm": rng.choice(vocab)(rng, labels, ext)}
            end = o
        else:
            ends = [x for x in offs if x > o]
            if not ends:
                continue
            end = rng.choice(ends)
            if kind == "replace":
                e = {"op": "replace", "block": bi, "off": o, "len": end - o, "asm": rng.choice(vocab)(rng, labels, ext)}
            else:
                e = {"op": "delete", "block": bi, "off": o, "len": end - o}
                if o == 0 and end == size and rng.random() < 0.3:
                    e["proxy"] = True
        # a zero-length request inside / at the start of a later range would trip the overlap assert;
        # keep requests ordered and disjoint, allowing several insertions at one offset
        used[bi] = end
        edits.append(e)
    rng.shuffle(edits)
    # one registration through a scope: register_insert(AllBlocksScope(ENTRY), patch) - in the listing an insertion
    # at offset 0 of every code block, all with the registration order of that one call
    code = [i for i, d in enumerate(text) if d["kind"] == "code"]
    if code and auto and rng.random() < 0.1:
        asm = rng.choice(["nop", "movl $%d, %%eax" % fresh_imm(rng), "pushq %rax\n.cfi_adjust_cfa_offset 8\npopq %rax\n.cfi_adjust_cfa_offset -8"])
        if rng.random() < 0.5:
            group = [{"op": "insert", "block": i, "off": 0, "asm": asm, "all": 1} for i in code]
        else:
            # BlockPosition.EXIT: in front of the block's terminator, at the end when it has none
            group = []
            for i in code:
                offs = block_layout(text[i])
                term = text[i]["insns"] and text[i]["insns"][-1][0] in ("jmp", "jcc", "call", "ret")
                group.append({"op": "insert", "block": i, "off": offs[-2] if term else offs[-1], "asm": asm, "all": 1, "exit": True})
        # requests must not overlap: a range that covers a member's offset from the inside makes way
        at = {m["block"]: m["off"] for m in group}
        edits = [e for e in edits if not (e["block"] in at and e.get("len", 0) and e["off"] < at[e["block"]] < e["off"] + e["len"])]
        k = rng.randint(0, len(edits))
        edits[k:k] = group
    # one call of delete_function(F): in the listing the deletion of every block of F with retarget_to_proxy
    fns = sorted({d["func"] for d in text if d["kind"] == "code" and d.get("func") is not None})
    if fns and auto and rng.random() < 0.07:
        f = rng.choice(fns)
        members = [i for i, d in enumerate(text) if d["kind"] == "code" and d.get("func") == f]
        # (a member of a scope-wide registration strictly inside one of the blocks would overlap the deletion)
        inside = any(e.get("all") is not None and e["block"] in members and 0 < e["off"] < block_layout(text[e["block"]])[-1] for e in edits)
        if all(text[i]["insns"] for i in members) and not inside:
            edits = [e for e in edits if e["block"] not in members or e.get("all") is not None]
            group = [{"op": "delete", "block": i, "off": 0, "len": block_layout(text[i])[-1], "proxy": True, "fn": f} for i in members]
            k = rng.randint(0, len(edits))
            edits[k:k] = group
    return edits


# ---------------------------------------------------------------------------
# the edits as the listing specification sees them
# ---------------------------------------------------------------------------
def processing_order(B, case):
    """(registration index, edit) in the order apply() processes them: blocks by
    address, within a block by (offset, registration order)."""
    edits = list(enumerate(case.get("edits", [])))
    return sorted(edits, key=lambda ie: (B.blocks[ie[1]["block"]].address if False else ie[1]["block"], ie[1]["off"], ie[0]))


_asm_cache = {}


def asm_bytes(asm, module):
    """the bytes a patch text assembles to on its own (symbolic operands are zero): used to tell which request a
    recorded insertion belongs to"""
    key = (asm, module.isa, module.file_format)
    if key not in _asm_cache:
        from gtirb_rewriting.assembler import Assembler

        try:
            a = Assembler(Assembler.ModuleTarget(module, detached=True), allow_undef_symbols=True, temp_symbol_suffix="_x",
                          implicit_cfi_procedure=True)
            a.assemble(asm)
            _asm_cache[key] = list(a.finalize().text_section.data)
        except Exception:  # noqa: BLE001
            _asm_cache[key] = None
    return _asm_cache[key]


def listing_edits(B, rec, case):
    """Pair the registered edits with the recorded operations (patch bytes,
    labels, expressions). Returns None when they cannot be paired."""
    # original addresses decide the block order; B.blocks is in address order per section, sections in order
    order = sorted(enumerate(case.get("edits", [])),
                   key=lambda ie: (B.addr0[ie[1]["block"]], ie[1]["off"], ie[1].get("len", 0) != 0, ie[0]))
    recs = [r for r in rec.records]
    if len(order) != len(recs):
        return None
    # Which registered block does a recorded call belong to?  The first call for a block names the block itself, the
    # following ones the block the previous call returned.  (The order in which apply() visits the blocks is not
    # assumed here; the requests of one block are applied in (offset, insertion first, registration) order.)
    by_block = {}
    for idx, e in order:
        by_block.setdefault(B.id0[e["block"]], []).append((idx, e))
    paired, owner, prev_ret = [], None, None
    for r in recs:
        b = r["do"]["block"]
        if not (owner is not None and prev_ret is not None and b == prev_ret and by_block.get(owner)):
            owner = b
        if not by_block.get(owner):
            return None
        paired.append((by_block[owner].pop(0), r))
        prev_ret = r.get("ret")
    # the oracles expect the edits in listing order
    paired.sort(key=lambda pr: next(k for k, (i, _) in enumerate(order) if i == pr[0][0]))
    out = []
    for (idx, e), r in paired:
        kind = r["do"]["kind"]
        if (e["op"] == "delete") != (kind == "delete"):
            return None
        led = {"block": B.id0[e["block"]], "off": e["off"], "del": e.get("len", 0), "ins": [], "labels": [], "aligns": [],
               "proxy": bool(e.get("proxy", False)), "order": idx, "tail_code": True, "exprs": [], "expr_sizes": []}
        if kind == "insert":
            p = r["do"]["patch"]
            t = p["text"]
            led["ins"] = t["data"]
            if "asm" in e and not e.get("constraints"):
                own = asm_bytes(e["asm"], B.m)
                if own is not None and own != list(t["data"]):
                    led["_foreign_bytes"] = True      # this operation carries another request's patch
            boff = {b["id"]: b for b in t["blocks"]}
            for y in p["syms"]:
                if y["ref"] and y["ref"][0] == "b" and y["ref"][1] in boff:
                    b = boff[y["ref"][1]]
                    led["labels"].append([y["name"], b["off"] + (b["size"] if y["at_end"] else 0)])
            names = {y["id"]: y["name"] for y in r["after"]["syms"]}
            names.update({y["id"]: y["name"] for y in p["syms"]})
            for k, ex in t["symexprs"]:
                if ex["kind"] == 0:
                    led["exprs"].append([k, names.get(ex["sym1"], "<missing>"), ex["offset"], ex["attrs"]])
            led["expr_sizes"] = t["symexpr_sizes"]
            led["aligns"] = [[boff[b]["off"], a] for b, a in t["alignment"] if b in boff]
            nonempty = [b for b in t["blocks"] if b["size"]]
            led["tail_code"] = bool(nonempty[-1]["code"]) if nonempty else True
            # the patch's own CFI directives: offset inside the patch bytes, "name [args]"
            led["cfi"] = [[boff[b]["off"] + k, "%s %s" % (d[0], "[" + ", ".join(str(a) for a in d[1]) + "]")]
                          for b, k, ds in p.get("cfi", []) if b in boff for d in ds]
        # where the code applied it: offset of the block it edited inside its interval + the offset it used
        boffs = {b["id"]: b["off"] for b in r["before"]["blocks"]}
        led["_pos"] = boffs.get(r["do"]["block"], -1) + r["do"]["offset"]
        led["_base"] = boffs.get(led["block"])
        led["_rec"] = next(k for k, x in enumerate(recs) if x is r)   # the recorded insert/delete call that carried it out
        out.append(led)
    return out


def run_listing(case, pre=None):
    """Run a case on the real code; returns dict with before/after dumps, the
    listing edits and the outcome.  `pre(B)` runs on the built module before apply()."""
    import logging

    logging.disable(logging.CRITICAL)
    B = build(case)
    import gtirb_functions

    from gtirb_rewriting import RewritingContext

    funcs = gtirb_functions.Function.build_functions(B.m)
    ctx = RewritingContext(B.m, funcs, expensive_assertions=case.get("expensive_assertions", True))
    rec = Recorder(B.m)
    B.dump0 = irdump.dump_ir(B.m, rec.idm)
    B.id0 = [rec.idm.of(b) for b in B.blocks]
    B.addr0 = [(b.section.name != ".text", b.address or 0, b.size != 0) for b in B.blocks]
    err = None
    pre_result = pre(B, rec.idm) if pre is not None else None
    # which blocks can join_byte_intervals align at all?  Of the destination interval none, of every appended
    # interval the first block that has an alignment entry (recorded right before each join)
    import gtirb_rewriting.prepare as _prep

    alignable, real_join = set(), _prep.join_byte_intervals

    def join(partition, nop, alignment=None, *a, **k):
        # judged by the module's own table, not by the mapping prepare_for_rewriting hands over
        import gtirb_rewriting._auxdata as _A

        table = _A.alignment.get(B.m) or {}
        for iv in partition[1:]:
            al = sorted((b for b in iv.blocks if b in table), key=lambda b: (b.offset, b.size, not isinstance(b, gtirb.CodeBlock)))
            if al:
                alignable.add(rec.idm.of(al[0]))
        return real_join(partition, nop, alignment, *a, **k)

    _prep.join_byte_intervals = join
    try:
        register_edits(B, ctx, case.get("edits", []))
        with recording(rec):
            ctx.apply()
    except Exception as e:  # noqa: BLE001
        err = type(e).__name__ + ": " + str(e)[:160]
        import traceback

        tb = traceback.extract_tb(e.__traceback__)
        where = [f"{fr.filename.rsplit('/', 1)[-1]}:{fr.name}" for fr in tb if "gtirb_rewriting" in fr.filename]
        err_where = where[-1] if where else "?"
        err_line = tb[-1].line
    else:
        err_where = err_line = None
    finally:
        _prep.join_byte_intervals = real_join
    B.dump1 = irdump.dump_ir(B.m, rec.idm)
    out = {"B": B, "rec": rec, "err": err, "pre": pre_result, "err_where": err_where, "err_line": err_line, "before": B.dump0, "after": B.dump1,
           "alignable": alignable, "refusals": getattr(B, "refusals", [])}
    out["edits"] = listing_edits(B, rec, case) if err is None else None
    if case.get("lead"):
        out["before"] = strip_lead(out["before"], case["lead"])
        out["after"] = strip_lead(out["after"], case["lead"])
    return out


def strip_lead(dump, n):
    """The listing is made of blocks; bytes in front of the first block of .text that no block covers are left out
    of both dumps (they must still be there, untouched and uncovered, or the dump is handed on as it is)."""
    d = json.loads(json.dumps(dump))
    sid = next((s[0] for s in d["sections"] if s[1] == ".text"), None)
    ivs = [iv for iv in d["intervals"] if iv["sect"] == sid]
    if not ivs:
        return dump
    iv = min(ivs, key=lambda i: (i["addr"] if i["addr"] is not None else 1 << 62, i["id"]))
    mine = [b for b in d["blocks"] if b["bi"] == iv["id"]]
    if iv["bytes"][:n] != [0xCC] * n or any(b["off"] < n for b in mine) or any(k < n for k, _ in iv["symexprs"]):
        return dump
    iv["bytes"] = iv["bytes"][n:]
    iv["size"] -= n
    if iv["addr"] is not None:
        iv["addr"] += n
    for b in mine:
        b["off"] -= n
    iv["symexprs"] = [[k - n, v] for k, v in iv["symexprs"]]
    for name, es in d["aux"]["omaps"]:
        for e in es:
            if e[0] == ["i", iv["id"]]:
                e[1] -= n
    return d


def block_size(d):
    return block_layout(d)[-1] if d["kind"] == "code" else len(d["bytes"])


def flat_of(case):
    """all block descriptions in the order of B.blocks (the request's block index): .text first, then the other
    sections in the order of case["sections"]; each tagged with its section key"""
    out = []
    for key in ["text"] + ["sect:" + n for n in case.get("sections", [])]:
        for d in case.get(key, []):
            d["_sect"] = key
            out.append(d)
    return out


def _last_mnemonic(asm):
    lines = [l.strip() for l in (asm or "").splitlines() if l.strip() and not l.strip().endswith(":") and not l.strip().startswith(".")]
    return lines[-1].split()[0] if lines else None


def final_tail(case, bi):
    """mnemonic of the last instruction block `bi` holds once every request is applied ("EMPTY": no code left)"""
    d = flat_of(case)[bi]
    offs = block_layout(d)
    mine = [(i, e) for i, e in enumerate(case.get("edits", [])) if e["block"] == bi]
    pieces = []
    for k, ins in enumerate(d["insns"]):
        gone = any(e["op"] != "insert" and e["off"] <= offs[k] < e["off"] + e["len"] for _, e in mine)
        if not gone:
            pieces.append(((offs[k], 1, 0, 0), ins[0]))
    for i, e in mine:
        if e["op"] in ("insert", "replace"):
            mn = _last_mnemonic(e.get("asm"))
            if mn is not None:
                pieces.append(((e["off"], 0, e["op"] == "replace", i), mn))
    return max(pieces)[1] if pieces else "EMPTY"


def runs_off_end(case):
    """C03 is about modules whose CFG matches their code, before and after: a request set that leaves a block which
    is not followed by code without a final jmp/ret makes code run off into data or the end of the section - nothing
    the rewriter could connect it to.  Judged on the final state of each block, all requests applied."""
    text = flat_of(case)
    touched = {e["block"] for e in case.get("edits", [])}

    def followed_by_code(i):
        nxt = i + 1
        return nxt < len(text) and text[nxt]["kind"] == "code" and text[nxt]["_sect"] == text[i]["_sect"]

    for i in sorted(touched):
        d = text[i]
        if d["kind"] != "code" or not d["insns"] or followed_by_code(i):
            continue
        t = final_tail(case, i)
        while t == "EMPTY":
            # nothing is left of the block: whatever falls into it now falls into what follows it
            i -= 1
            if i < 0 or text[i]["kind"] != "code" or text[i]["_sect"] != d["_sect"] or not text[i]["insns"]:
                t = "ret"
                break
            t = final_tail(case, i)
        if t not in ("jmp", "ret"):
            return True
    return False


def predicted_rejections(case):
    """Classes of request sets that apply() is known to refuse, decided on the
    *input* alone (so an unexpected refusal is still reported).

    whole-delete-then-insert: a deletion removes the tail of a block (all of it,
        or all that earlier requests left of it) and another request inserts at the
        block's end (known finding: `delete` returns no block, AssertionError).
    label-at-end: a patch ending in a label or a call reaches the end of a block
        and what follows is not code (the label / the call's return site has nothing
        to stand on; documented limit of zero-sized blocks).
    branch-to-moved-label: a patch branches to / calls a label whose block is
        wholly deleted in the same batch; the label slides to the next block, and
        when that is a data block the assembler rightly refuses the branch.
    """
    text = flat_of(case)
    out = set()
    whole = set()
    for e in case.get("edits", []):
        if e["op"] == "delete" and e["off"] == 0 and e["len"] == block_size(text[e["block"]]):
            whole.add(e["block"])
    for e in case.get("edits", []):
        d = text[e["block"]]
        size = block_size(d)
        if e["op"] != "delete" and e["off"] == size and any(
                x["op"] == "delete" and x["block"] == e["block"] and x["off"] + x["len"] == size for x in case["edits"]):
            out.add("whole-delete-then-insert")
        asm = e.get("asm", "")
        last = asm.rstrip().splitlines()[-1].strip() if asm.strip() else ""
        if (last.endswith(":") or last.startswith("call")) and e["off"] + e.get("len", 0) == size:
            nxt = e["block"] + 1
            same_sect = nxt < len(text) and text[nxt].get("_sect") == d.get("_sect")
            if not same_sect or text[nxt]["kind"] != "code" or nxt in whole or any(
                    x["block"] == nxt and x["off"] == 0 and x.get("len", 0) for x in case["edits"]):
                out.add("label-at-end")
        for b in whole:
            for y in text[b]["syms"]:
                if asm and any(tok == y["name"] for tok in asm.replace(",", " ").replace("(", " ").split()):
                    out.add("branch-to-moved-label")
        # cfi-at-end: the end of a code block that nothing follows carries CFI directives (the procedure's
        # .cfi_endproc) and a patch that starts with data is inserted there: the empty block that keeps the
        # directives can neither join the data nor hand them to a code neighbour (recorded finding)
        first = next((l.strip() for l in asm.splitlines() if l.strip() and not l.strip().endswith(":")), "")
        if d["kind"] == "code" and e["op"] != "delete" and e["off"] + e.get("len", 0) == size and \
                first.split()[:1] and first.split()[0] in (".byte", ".long", ".quad", ".string", ".ascii", ".zero") and \
                any(k == size and ds for k, ds in (d.get("cfi") or [])):
            nxt = e["block"] + 1
            if not (nxt < len(text) and text[nxt].get("_sect") == d.get("_sect") and text[nxt]["kind"] == "code"):
                out.add("cfi-at-end")
    return out


def classify_error(o, pred=()):
    """Map an exception raised by apply() to one of the classes above (or None)."""
    err, where = o["err"] or "", o["err_where"] or ""
    if err.startswith("AssertionError") and where.endswith("_apply_modifications"):
        return "whole-delete-then-insert"
    if err.startswith("AssertionError") and where.endswith("_cleanup_modified_blocks"):
        if "cfi-at-end" in pred and "label-at-end" not in pred:
            return "cfi-at-end"
        return "label-at-end"
    if err.startswith("UnsupportedAssemblyError") and "cannot be data blocks" in err:
        return "branch-to-moved-label"
    return None


_CS = None


def decode_insns(dump, isa="X64"):
    """Instructions of every code block of a dump, found by capstone (independent of
    gtirb_rewriting): [[block id, [[offset, size, kind], ...]], ...] with kind
    0 other, 1 jmp, 2 jcc, 3 call, 4 ret, 5 indirect jmp, 6 indirect call."""
    global _CS
    import capstone

    if _CS is None:
        _CS = capstone.Cs(capstone.CS_ARCH_X86, capstone.CS_MODE_64)
        _CS.detail = True
    ivs = {i["id"]: i for i in dump["intervals"]}
    out = []
    for b in dump["blocks"]:
        if not b["code"] or b["bi"] is None:
            continue
        data = bytes(ivs[b["bi"]]["bytes"][b["off"]:b["off"] + b["size"]])
        lst = []
        for ins in _CS.disasm(data, 0):
            groups = {ins.group_name(g) for g in ins.groups}
            rel = "branch_relative" in groups
            if "ret" in groups:
                k = 4
            elif "call" in groups:
                k = 3 if rel else 6
            elif "jump" in groups:
                if ins.mnemonic == "jmp":
                    k = 1 if rel else 5
                else:
                    k = 2
            elif rel:
                k = 2           # loop/loope/loopne: conditional branches that capstone does not put in the jump group
            else:
                k = 0
            lst.append([ins.address, ins.size, k])
        out.append([b["id"], lst])
    return out


def nop_bytes(case):
    return {"X64": [0x90], "IA32": [0x90], "ARM64": [0x1F, 0x20, 0x03, 0xD5], "MIPS32": [0, 0, 0, 0]}[case.get("isa", "X64")]
