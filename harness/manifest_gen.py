"""Regenerates MANIFEST.json from the table below (kept valid at all times)."""
import json
import os

ROOT = os.path.dirname(os.path.dirname(os.path.abspath(__file__)))

LEVEL_NOTE = (
    "Trusted: Lean 4.33 kernel; axioms limited to propext/Classical.choice/Quot.sound (audited every run); "
    "harness/extract.py translator and the correspondence harness; hand-written spec files; "
    "see DESIGN.md#7-trusted-base and the per-property section for what is modelled rather than verified."
)

CLAIMED = {
    "C14": dict(
        engine="E-dwarf",
        text="Lean theorems (all operand values, both byte orders, any pointer size): LEB128/fixed-width round trips, "
        "table-generic decode∘encode = id for operations, nested expressions and CFI instructions, parse inverts "
        "concatenation, make_const_op validity+minimality; the class tables are regenerated from the live Python "
        "classes on every run and re-checked (decide +kernel) against hand-written DWARF v4 tables; the algorithmic "
        "part is tied by a differential run of the real code against the compiled Lean model and the spec encoder.",
        technique="Lean 4 proof (induction, table-generic round-trip theorems, decide +kernel over regenerated tables) + translator + differential correspondence",
        design="DESIGN.md#c14",
    ),
}

CLAIMED["C15"] = dict(
    engine="E-dwarf",
    text="Lean theorems, for every directive kind, state, operand list and symbol slot: the Python-dict model of "
    "evaluate_cfi_directives refines a specification with total rule tables written from DWARF v4 §6.4 "
    "(restore-to-initial, remember/restore stack, CFA rules, escaped expression instructions), procedure "
    "bracketing, typed errors (CFIStateError/ValueError only over the supported set), one row per location in "
    "stable address order; ABI parameters (return column, pointer size, byte order) regenerated from abi._ABIS; "
    "tied by a differential run on seeded well-formed and ill-formed directive sequences with copies serialised "
    "after the whole evaluation (aliasing).",
    technique="Lean 4 proof (refinement of a dict-based model to a total-function spec, case analysis per directive) + translator + differential correspondence",
    design="DESIGN.md#c15",
)

CLAIMED["C20"] = dict(
    engine="E-adt",
    text="Lean theorems by induction over arbitrary operation histories: the ReferenceCache forest (with path "
    "shortening, lazy partially-consumed get_references, retarget cycles, apply) refines 'assign Symbol.referent "
    "directly' (invariant + abstraction preserved by every operation, every result equal to the specification's, "
    "refusal only where specified); ReturnEdgeCache indices are scans of the edge set after every history; the "
    "return-cache context always restores the caller's CFG object with the final edges and reports modification; "
    "BlockOrdering's pointer structure represents a plain list of chains under insert/remove; OffsetMapping is a "
    "flat (element, displacement) dictionary; IdentitySet is a set of identities. Tied by exhaustive short and "
    "seeded long histories run on the real classes and on the compiled model. Not proved: the termination bound "
    "(fuel) of the two tree loops — the model reports MODEL-FUEL instead of diverging, never observed.",
    technique="Lean 4 proof (data-refinement: invariant + abstraction function/relation, induction over operation histories) + differential correspondence on histories",
    design="DESIGN.md#c20",
)

CLAIMED["C16"] = dict(
    engine="E-abi",
    text="Lean theorems over an abstract machine (registers, flags, sp, cell memory with overlap invalidation, "
    "write log; a wrapper read of a foreign cell is a machine error): each generator is a nest of elementary "
    "save/restore wrappers, each proved transparent, composed by induction over the register list — for every "
    "Constraints value, allocation, leaf flag, initial state of any sp alignment and every body respecting the "
    "frame condition: registers/flags/sp restored, no write at or above sp0 nor in the red zone, only own slots "
    "read, reported adjustment = real displacement, aligned body entry; allocation theorems for the scratch "
    "registers (as many as requested, distinct, never clobbered or read; taking the read registers out of the pool "
    "never fails). ABI tables regenerated from abi._ABIS and checked (decide) against hand-written platform facts. "
    "Tie: the real generators' text is parsed, compared with the Lean generator, and executed on the Lean "
    "machine with a hostile body.",
    technique="Lean 4 proof (wrapper-transparency lemmas + structural induction) + translator + differential correspondence + executable-spec oracle on the real output",
    design="DESIGN.md#c16",
)

CLAIMED["C17"] = dict(
    engine="E-abi",
    text="Lean theorems: argument i goes with convention register i for every argument list and register list; x86 "
    "(any convention with distinct registers, any adjustment, any argument list): on the abstract machine the "
    "generated sequence reaches the call with every register argument in its register, the stack arguments in "
    "order right above the shadow space, sp = entry - padding - args - shadow, and returns with sp restored for "
    "caller- and callee-cleanup; the stack pointer at the call is aligned (shadow space included); ARM64 "
    "_load_immediate delivers v mod 2^64 for every integer and _load_symbol the address. Kernel-checked negative "
    "witness for the x86 symbol-argument finding. Default conventions regenerated from abi._ABIS and compared "
    "(decide) with hand-written psABI tables. Tie: the real get_asm text is parsed, compared with the Lean "
    "generator and executed against the specification on the machine. Partial: the whole ARM64 sequence is "
    "checked by the executable specification only (its immediates/symbol loads and reservation are proved).",
    technique="Lean 4 proof (machine semantics, induction over argument lists, arithmetic lemmas) + translator + correspondence + executable-spec oracle on the real output",
    design="DESIGN.md#c17",
)

EMOD_TIE = (
    " Tie: generated modules and request sets run through the real RewritingContext.apply(); the Lean listing "
    "specification is evaluated on the real before/after IR (oracle), every recorded insert/delete is replayed on "
    "the Lean IR model and compared as a whole canonical IR (correspondence)."
)
EMOD_TECH = "Lean 4 proof (frame lemmas + induction over the operation structure / edit lists) + differential correspondence per operation + executable-spec oracle on the real output"

CLAIMED["C01"] = dict(
    engine="E-modify",
    text="Lean theorems for every IR, patch and edit list: IR.insert splices exactly the patch bytes over the replaced "
    "range of the block's interval and IR.delete removes exactly the requested range; no other byte of any interval "
    "changes through splitting, joining, removing, clean-up and all CFG / aux-data fix-ups (frame lemmas through "
    "the whole operation); the running-offset loop of _apply_modifications over sorted disjoint edits computes "
    "exactly the plain simultaneous splice (induction over the edit list, block placed anywhere in its interval); "
    "and the loop itself on the IR (IR.applyMods: each request by IR.insert / IR.delete on the block the previous "
    "one returned, at offset + total_insert_len - block_delta) is that splice for every list of resolved requests "
    "of a block: whatever block comes back from insert/delete lies in the same byte interval (invariant through "
    "split, join, remove, clean-up and the patch placement), so the corrected offset designates the listing "
    "position (theorem loop_is_listing; premises: block ids below the id counter - kept by every operation - and "
    "patch blocks that are new objects; both are evaluated on every recorded state); and apply()'s loop over all "
    "blocks with requests (IR.applyAll) is the listing edit of every one of them: the requests of one block never "
    "move, resize or re-home a non-empty block of another byte interval (Frame, through every operation and the "
    "whole loop), so each later request list finds its block and its bytes as they were, and every interval "
    "without requests is untouched (theorem all_blocks_are_listing_edits)."
    + EMOD_TIE + " Every iteration of the real loop (block handed over, offset passed, state at the end of the "
    "iteration) is compared with IR.applyMods, and the premises of the all-blocks theorem (each edited block in a "
    "byte interval of its own, inside its initialized bytes) are evaluated on what the loop saw. Partial: the "
    "alignment padding of join_byte_intervals and the re-joining of the per-block intervals (C10's theorems) are "
    "tied to this result by the oracle and the correspondence, not by a theorem.",
    technique=EMOD_TECH,
    design="DESIGN.md#c01",
)
CLAIMED["C02"] = dict(
    engine="E-modify",
    text="Lean theorems for every IR: split_block moves no symbol (at_end symbols follow the tail and designate the "
    "same interval offset) and leaves no end symbol on the head; join_blocks moves no symbol under the premise the "
    "callers establish by splitting first; remove_block sends references to the fresh proxy / next start / previous "
    "end exactly as documented and leaves no symbol on a removed block; over whole rewrites - insert (patches with "
    "any number of extra sections), delete, the loop of _apply_modifications and apply()'s loop over all blocks - "
    "no symbol is left referring to a block that is no longer part of the module (invariant: symbols refer to "
    "attached blocks, the block ordering lists attached blocks of the right section once per chain; premises "
    "evaluated on the recorded states of every run)." + EMOD_TIE + " Partial: that every symbol keeps its *position* "
    "over a whole insert/delete (needs the layout invariant 'order-adjacent = physically adjacent') is decided by "
    "the oracle on the real output, not by a theorem.",
    technique=EMOD_TECH,
    design="DESIGN.md#c02",
)
CLAIMED["C04"] = dict(
    engine="E-modify",
    text="Lean theorems for every table and IR: edit_byte_interval keeps exactly the entries outside the replaced range, "
    "shifts those behind it by the size change and leaves nothing inside the range or beyond the new end (symbolic "
    "expressions and interval-keyed tables); split_block / join_blocks re-key block-keyed entries without moving "
    "them (same interval, same offset) and the resulting tables are exactly the re-keyed ones; remove_block drops "
    "exactly the removed block's entries; over a whole delete() the symbolic expressions of the block's interval are "
    "exactly the shifted ones (in front: same offset, behind: moved down by the deleted length, inside: gone) and "
    "no other interval changes; over a whole insert() they are the shifted old ones with the patch's expressions "
    "set at block.offset + offset + k, and no other interval the module had changes." + EMOD_TIE + " Partial: patch expressions (assembler output) and "
    "join_byte_intervals' table moves are covered by the oracle only.",
    technique=EMOD_TECH,
    design="DESIGN.md#c04",
)
CLAIMED["C03"] = dict(
    engine="E-modify",
    text="Lean theorems for every IR: bulk update_edge over a snapshot is characterised by membership; after a split in "
    "the middle the block's out-edges leave from the tail and the head's only successor is the connecting "
    "fallthrough; joining a non-empty block that does not fall through with the dead empty block behind it adds no "
    "edge (no fallthrough after a jump or return); the empty tail behind a terminator gets at most the one "
    "fallthrough to the code that follows; after join_blocks no edge starts or ends at the absorbed block, after "
    "remove_block has removed a code block no edge ends at it and, if no return edge left it, none starts at it." + EMOD_TIE + " The oracle is the rule-by-rule control flow of the output "
    "bytes decoded by capstone. Partial: composition over whole insert/delete calls and return-edge maintenance "
    "are decided by oracle and correspondence only.",
    technique=EMOD_TECH,
    design="DESIGN.md#c03",
)
CLAIMED["C06"] = dict(
    engine="E-modify",
    text="Lean theorems for every IR: the side cache functions_by_block mirrors functionBlocks — the mirror relation is "
    "an invariant of add_function_block_aux (for a block in no function) and remove_function_block_aux, the only "
    "writers; a block split off inherits the function of its parent; a removed block is in no function by cache "
    "and by table; a function that lost its last block and entry disappears from all three tables; are_joinable "
    "never joins across functions nor into an entry block; and over whole calls: insert(), delete(), the loop of "
    "_apply_modifications over the requests of a block and apply()'s loop over all blocks keep functions_by_block "
    "the mirror of functionBlocks (Lemmas/IRMirror.lean: insert_keeps_cache_in_step, delete_keeps_cache_in_step, "
    "apply_keeps_cache_in_step), hence after apply()'s whole loop no block is listed by two functions "
    "(no_block_is_in_two_functions_after_apply) and entries are still a subset of blocks "
    "(entries_are_blocks_after_apply, Lemmas/IREntries.lean); code inserted into a block of function F belongs "
    "to F when insert() returns (inserted_code_belongs_to_the_function); the premises (fresh patch block ids, cache mirrors "
    "table, entries are blocks) are evaluated on the recorded states." + EMOD_TIE +
    " The function-table step of remove_block promotes the next block to an entry only inside the removed block's "
    "function, and with retarget_to_proxy no block inherits the entry (entry_promotion_only_within_the_function, "
    "removal_promotes_only_the_next_block_of_the_function). Partial: that data never belongs to a function is "
    "decided by oracle and correspondence.",
    technique=EMOD_TECH,
    design="DESIGN.md#c06",
)
CLAIMED["C05"] = dict(
    engine="E-modify",
    text="Lean theorems for every IR: where a block leaves the module (remove_block, join_blocks) it is purged from "
    "alignment, from the whole-block tables of its kind and from every offset-keyed table; it is in no function "
    "table and no symbol stays on it (C02/C06 theorems); on failure the return-cache context leaves ir.cfg = the "
    "caller's object with the live edges and the reference-cache context materialises every pending referent "
    "(C20 theorems for every body and history); over apply()'s whole loop every symbol referent that is a block is "
    "attached to a byte interval of the module (symbol_referents_are_part_of_the_module) and every symbolic expression "
    "names symbols of the module (expression_symbols_are_part_of_the_module; premises evaluated on recorded states). Oracle: a whole-IR validator written in Lean evaluated on the real "
    "module after apply() returns and, closure part, after the k-th patch callback raises for every k; gtirb's "
    "protobuf save/load round trip compared by canonical dump. Tie: per-operation correspondence of the Lean IR "
    "model. Partial: well-formedness of the whole output is decided by the oracle, the theorems cover the purge "
    "points and the failure paths.",
    technique="Lean 4 proof (frame/purge lemmas, C20 refinement theorems) + executable-spec validator on the real output incl. fault injection + differential correspondence",
    design="DESIGN.md#c05",
)
CLAIMED["C08"] = dict(
    engine="E-modify",
    text="Lean theorems: whatever _required_cfi_directives keeps of a removed block (any keep-rule for state "
    "directives), the kept stream opens and closes CFI procedures exactly as the block's whole stream did, from "
    "either evaluator state (induction over the directive groups with an invariant on the two accumulators); at "
    "a split point the directives divide in order right before the first .cfi_endproc; split_block / join_blocks "
    "change the CFI table to exactly splitCfi / joinCfi of it. Oracle: the real evaluate_cfi_directives (C15) "
    "before and after apply(), related through the listing's byte map by a Lean specification (coverage, state "
    "identity without deletions, procedures one to one and in order, inserted code covered with the state of the "
    "insertion point and its own directives). Tie: per-operation correspondence of the Lean IR model on modules "
    "carrying CFI tables. Partial: the state-identity statement over whole rewrites is decided by the oracle.",
    technique="Lean 4 proof (accumulator invariant by induction over directive groups) + executable-spec oracle over the real evaluator's output + differential correspondence",
    design="DESIGN.md#c08",
)
CLAIMED["C09"] = dict(
    engine="E-modify",
    text="Lean theorems: each rewrite cache refines the plain IR view for every history — ReferenceCache of direct "
    "assignment, ReturnEdgeCache of a scan of the edge set, BlockOrdering of the list of blocks (C20, restated), "
    "functions_by_block of functionBlocks (mirror invariant); the only state _apply_modifications carries between "
    "the modifications of a block is the running offset: a request list processed in one go equals a prefix "
    "followed by the rest (bytes and positions); functions_by_block agrees with functionBlocks after every insert/"
    "delete of a batch, for every request list and every block list (function_cache_agrees_at_every_step); the block "
    "ordering names only attached blocks of the right section, once per chain, and every symbol referent is a block "
    "of the module at every step (caches_name_module_blocks_at_every_step). Oracle: the real module after one apply() against the module "
    "obtained by applying the requests one at a time in fresh contexts (canonical dumps); after every recorded "
    "operation of the batch run the caches' answers against the IR; retarget_symbol_uses in the same context; what a "
    "batch refused at its last request leaves behind against the same requests one at a time. Partial: batch = sequential for whole modules "
    "is decided by the differential run, not by a theorem about the full model.",
    technique="Lean 4 proof (refinement theorems of the caches, induction over the request list) + differential run batch vs. one-at-a-time on the real code + cache-vs-IR comparison at every recorded step",
    design="DESIGN.md#c09",
)
CLAIMED["C10"] = dict(
    engine="E-intervals",
    text="Lean theorems for every byte interval: join_byte_intervals(split_byte_interval(interval)) restores a fully "
    "initialized interval exactly - address, size, bytes, blocks and table entries at their offsets - for every "
    "nop encoding (induction over the cut points, the full padding logic reduced to plain appending under the "
    "premises); one iteration of the cut loop is undone by appending; a cut keeps the bytes and the absolute "
    "address of every block it moves; the padding arithmetic reaches the boundary with less than one boundary of "
    "padding; the padding of the listing specification satisfies every alignment requested at a piece's first "
    "aligned offset and is shorter than the strictest of them (powers of two); and for join_byte_intervals itself with "
    "alignment demands, uninitialized tails and any nop encoding (join_adds_only_padding, "
    "join_places_every_interval_aligned): appending an interval adds exactly the fill of the uninitialized tail and "
    "the alignment padding - whole nops behind code, zeros behind data, shorter than the boundary -, the bytes "
    "already placed stay a prefix of the result, placed blocks stay, every appended interval sits in the result "
    "unchanged with its blocks moved by one displacement at which the block whose alignment is asked for lies on its "
    "boundary, by induction over the list of intervals. Tie: the real split/join on generated intervals (overlaps, gaps, zero-sized blocks, uninitialized "
    "tails, expressions and aux entries, alignment tables, nop sizes 1/2/4) against the compiled model and against "
    "the statement itself; empty apply() against the identity (also with sections that hold no byte interval); "
    "alignment after arbitrary rewrites, the padding bytes and block geometry against the listing specification, "
    "the decode mode of padding behind Thumb code; custom table lists (listed tables travel and come back, the others "
    "stay untouched). Partial: that the padding blocks cover the added bytes without overlapping other new blocks, the "
    "alignment of blocks other than the first aligned one of an interval (recorded finding) and the empty-apply "
    "identity are decided by correspondence and oracle.",
    technique="Lean 4 proof (induction over cut points, permutation reasoning) + differential correspondence of the real split/join with the compiled model + direct oracles",
    design="DESIGN.md#c10",
)
CLAIMED["C11"] = dict(
    engine="E-modify",
    text="Lean theorems: the bulk edge updates that iterate over a set (update_edge over a snapshot, bulk discard) have "
    "the same members for every ordering of the snapshot; the processing order of the requests of a block is a "
    "sort by (offset, insertion-before-replacement, registration index), every request is processed exactly once, "
    "and two keyings that order the requests the same way and never tie give the same processing order (sorting "
    "is permutation invariant). Oracle: the real code rewrites the same cases in several fresh interpreter "
    "processes with different PYTHONHASHSEED, allocation pattern (id-based hashes, set iteration order) and UUIDs; "
    "canonical dumps must be identical, also when requests of different locations are registered in another "
    "order (retarget requests included); byte intervals with blocks tying on their offset are split in every process; "
    "the command-line driver with several --run passes; modules with two symbols of one name. Partial: hash-order "
    "independence of the whole rewrite is decided by the multi-process run; modules with several sections are "
    "excluded (gtirb_layout dependency).",
    technique="Lean 4 proof (permutation invariance of the set-iterating folds, sort uniqueness) + multi-process differential run of the real code",
    design="DESIGN.md#c11",
)
CLAIMED["C07"] = dict(
    engine="E-modify",
    text="Lean theorems about a model of the resolution code (Model/Rewrite/Store.lean follows _ModificationStore.add / "
    "modifications_for_block / resolve_offsets and the scope classes of scopes.py): for every list of registrations, "
    "in any order, and every block the store hands out exactly the registrations whose scope designates the block, "
    "each as often as it was registered (store_hands_out_exactly_the_designated, store_count); resolve_offsets "
    "answers with a permutation of what it was given, each at the first potential offset of its scope (0, or the end "
    "of the non-terminator instructions for EXIT), in listing order - offset, insertions before the replacement or "
    "deletion that starts there, registration id - and pairwise non-overlapping (resolve_offsets_answer, "
    "scope_offset); it refuses a request list exactly when two requests overlap in that order "
    "(resolve_offsets_accepts_non_overlapping, resolve_offsets_refuses_overlap); with distinct registration ids "
    "neither what the store hands out nor what resolve_offsets answers depends on the order of the registrations "
    "(store_any_registration_order, resolve_offsets_any_order); and the offset the model resolves a position to is "
    "the one the scope specification prescribes when the instruction sizes it is given are what "
    "_nonterminator_instructions is defined to keep (store_offset_is_the_specifications; that premise is evaluated "
    "on the real helper for every block). Lean theorems about the scope "
    "specification (Spec/Scopes.lean): an invocation happens for exactly the (registration, block) pairs where the "
    "scope designates the block, at the offset its position prescribes, ordered by offset and registration. Tie: the "
    "real _ModificationStore and scope objects against the compiled model on every block of generated modules "
    "(scope registrations, explicit requests with replacement lengths that may overlap, scopes on data blocks, "
    "shuffled ids), what gtirb-functions and capstone report being the model's parameters. Oracle: the real answers "
    "judged directly (nothing dropped or doubled, listing order, no overlap accepted, no non-overlapping list "
    "refused); instrumented patches with a unique marker per invocation registered through every scope kind, "
    "position and function filter, in one context or two PassManager passes; the recorded InsertionContexts against "
    "the specification's invocation list, every marker exactly once in the output, the output bytes against the "
    "listing specification. Partial: the walk of apply() over the blocks and _invoke_patch are tied by the oracle "
    "only; pattern_match's regular expressions are modelled as prefix tests.",
    technique="Lean 4 proof (model of the modification store and scopes: permutation, sortedness, refusal iff overlap; properties of the executable specification) + differential correspondence of the real store with the model + executable-spec oracle on the real invocations and output bytes",
    design="DESIGN.md#c07",
)
CLAIMED["C19"] = dict(
    engine="E-symbols",
    text="Lean theorems for every module and every request: after a successful deletion no table mentions a deleted "
    "symbol (elfSymbolInfo, elfSymbolTabIdxInfo, elfSymbolVersions entries, functionNames, PE import/export lists, "
    "symbolForwarding keys and values, CFI directives, the symbol set); personality/LSDA directives get "
    "DW_EH_PE_omit; everything not asked for is untouched, in order; the call fails exactly when an unforced symbol "
    "is still used and with force exactly the expressions using a forced symbol are removed; version definitions "
    "and requirements are dropped exactly when no remaining symbol uses them, the base definition (flag bit) "
    "always stays. Tie: RewritingContext.delete_symbol + apply() on generated ELF and PE modules against the "
    "compiled model, plus a direct scan of the real result and a protobuf save.",
    technique="Lean 4 proof (table-by-table characterisation of the model) + differential correspondence + direct oracle on the real output",
    design="DESIGN.md#c19",
)
CLAIMED["C18"] = dict(
    engine="E-symbols",
    text="Lean theorems for every module, rule set and retarget map: CFI directives and symbolForwarding targets are "
    "mapped exactly through the map and nothing else in them changes; a SymAddrConst that mentioned a retargeted "
    "symbol mentions its image with the same addend, place and the attributes of the unique matching rule (kept "
    "when no rule matches), any other expression is untouched, expressions are neither lost nor created; "
    "_retarget_out_edges keeps every edge that does not leave the given block towards the old referent as a branch "
    "or call. Tie: RewritingContext.retarget_symbol_uses + apply() on generated PIE and non-PIE modules (control "
    "flow, code references, data words, CFI personality/LSDA, symbolForwarding, internal/external in every "
    "combination, chains, invalid requests) against the compiled model; the output CFG against the flat-CFG "
    "specification of C03 (return edges: recorded finding). The ABI's rule table is read from the live object.",
    technique="Lean 4 proof (characterisation of the model by induction over the expression list / edge fold) + differential correspondence + executable-spec oracle (flat CFG) on the real output",
    design="DESIGN.md#c18",
)
CLAIMED["C12"] = dict(
    engine="E-asm",
    text="Lean theorems for every target, chunk list and event stream: in every section of a successful result the "
    "blocks sit end to end from offset 0 to the end of the data and no block but the last is empty (invariant by "
    "induction over the events, then through _remove_empty_blocks / _convert_data_blocks / "
    "_remove_trailing_empty_block); a return, call or branch ends its block (the step ends with _split_block); the "
    "edges added are exactly the ones the kind demands (Return to a proxy allocated by the step and no fallthrough; "
    "one Branch/Call edge, conditional iff jcc, direct iff not indirect, to a proxy allocated by the step when "
    "indirect, followed by a Fallthrough to the fresh block exactly for call and jcc); the proxy of a return or an "
    "indirect transfer is fresh (invariant over all reachable states: no earlier edge and no symbol leads to the "
    "number the allocator hands out next); a label's block starts at "
    "the end of the data with a fallthrough edge from the current block. Tie: the real Assembler on generated texts "
    "for X64 (AT&T, Intel), IA32, ARM64, MIPS32, ELF and PE, trivially_unreachable on and off; its _Streamer entry "
    "points are wrapped to record the event stream, the model is run on it and the two Results compared. Oracle: "
    "capstone's decoding of the bytes against the tokens, the Lean specification asm_check over the text on the "
    "real Result, one expression per symbolic operand with symbol, addend, size and attributes.",
    technique="Lean 4 proof (invariant by induction over events and finalisation phases) + differential correspondence on the recorded event stream + executable-spec oracle and independent disassembler on the real output",
    design="DESIGN.md#c12",
)
CLAIMED["C13"] = dict(
    engine="E-asm",
    text="Lean theorems for every target, state and event list: lookup order (a label of the text first, then the "
    "module's symbol, which is used as it is); an unknown name is UndefSymbolError unless undefined symbols are "
    "allowed, then exactly one proxy-backed symbol is created and a second mention finds it; the pre-pass refuses a "
    "label whose name is a label, an undefined symbol or a module symbol already and otherwise adds exactly the "
    "chunk's labels in order; with the suffix _<id> copies of a temporary label with different patch ids get "
    "different names and different labels of one copy stay different; chunks_eq_whole: assembling c1 then c2 "
    "reaches exactly the states assembling c1 ++ c2 reaches, for every starting state, when c1 mentions no label "
    "c2 defines. Tie: the real Assembler on generated and malformed texts, whole and in 2-4 chunks, against the "
    "model and against itself (chunked vs whole); direct inspection of the Results (symbol identity, one symbol per "
    "name, error classes); the same patch inserted 1-6 times through RewritingContext.",
    technique="Lean 4 proof (frame lemma for the streamer + characterisation of the pre-pass) + differential correspondence + direct oracle on the real output and on real rewrites",
    design="DESIGN.md#c13",
)

ALL = ["C%02d" % i for i in range(1, 21)]

NOT_YET = "engine designed in DESIGN.md but its model/proofs are not built yet in this revision; not claimed"


def main():
    checks = []
    for pid in sorted(CLAIMED):
        c = CLAIMED[pid]
        checks.append(
            {
                "property_id": pid,
                "quick_cmd": "./check %s --tier quick" % pid,
                "thorough_cmd": "./check %s --tier thorough" % pid,
                "evidence_file": "evidence/%s.json" % pid,
                "replay_cmd_template": "./check %s --replay {path}" % pid,
                "engine": c["engine"],
                "level_claimed": {"category": "proof", "text": c["text"], "design_ref": c["design"]},
                "level_note": c.get("note", LEVEL_NOTE),
                "technique": c["technique"],
            }
        )
    na = [
        {"property_id": pid, "reason": NOT_YET}
        for pid in ALL
        if pid not in CLAIMED
    ]
    m = {
        "version": 1,
        "setup_cmd": "/venv/bin/python harness/extract.py && cd lean && lake build",
        "hooks": {
            "guard": "GTIRB_REWRITING_VERIF",
            "enable": "no source hooks: the harness instruments the real code in-process by wrapping module attributes (DESIGN.md §2.3); the guard name is reserved",
            "baseline_off_cmd": "cd /repo && /venv/bin/python -m pytest -ra -q -p no:cacheprovider --timeout=900 --continue-on-collection-errors",
            "source_commits": [],
            "add_only": True,
        },
        "engines": [
            {"name": "E-abi", "path": "lean/GtirbVerif/Model/Abi", "serves_properties": ["C16", "C17"], "kind_free_text": "abstract machine + Lean models of _allocate_patch_registers, the four prologue/epilogue generators and CallPatch; tables regenerated from abi._ABIS"},
            {"name": "E-adt", "path": "lean/GtirbVerif/Model/Adt", "serves_properties": ["C20", "C09"], "kind_free_text": "Lean models of ReferenceCache, ReturnEdgeCache, make_return_cache, BlockOrdering, OffsetMapping, IdentitySet with refinement proofs"},
            {"name": "E-modify", "path": "lean/GtirbVerif/Model/IR", "serves_properties": ["C01", "C02", "C03", "C04", "C05", "C06", "C07", "C08", "C09", "C11"], "kind_free_text": "abstract GTIRB IR + Lean models of edit_byte_interval, split_block, are_joinable/join_blocks, remove_block, insert, delete, _cleanup_modified_blocks, the offset loop of _apply_modifications; listing specification (Spec/Listing*.lean)"},
            {"name": "E-intervals", "path": "lean/GtirbVerif/Model/Intervals", "serves_properties": ["C10"], "kind_free_text": "Lean model of split_byte_interval / join_byte_intervals with the round-trip theorem"},
            {"name": "E-symbols", "path": "lean/GtirbVerif/Model/Symbols", "serves_properties": ["C19", "C18"], "kind_free_text": "Lean models of delete_symbols and retarget_symbol_uses"},
            {"name": "E-asm", "path": "lean/GtirbVerif/Model/Asm", "serves_properties": ["C12", "C13"], "kind_free_text": "Lean model of the assembler's streamer (_SymbolCreator, _Streamer, Assembler.finalize) over the event stream of LLVM's parser; result specification Spec/AsmCheck.lean"},
            {"name": "E-dwarf", "path": "lean/GtirbVerif/Model/Dwarf", "serves_properties": ["C14", "C15"], "kind_free_text": "Lean model of dwarf/_encoders,_encodable,expr,cfi,cfi_eval + regenerated tables"},
        ],
        "checks": checks,
        "not_applicable": na,
        "notes": "Every check: translator -> lake build -> axiom audit -> real code vs compiled Lean model vs spec. Exit 2 = infrastructure error (never a VIOLATION line).",
    }
    with open(os.path.join(ROOT, "MANIFEST.json"), "w") as f:
        json.dump(m, f, indent=1)
        f.write("\n")


if __name__ == "__main__":
    main()
