"""
Worker of the C11 check: reads JSON cases (one per line) from stdin, applies each with the real
code in *this* interpreter (its own PYTHONHASHSEED, its own allocation pattern, fresh UUIDs) and
prints one line per case: the canonical (UUID-free) dump of the result, or the error.
"""
import json
import os
import random
import sys

sys.path.insert(0, os.path.dirname(os.path.abspath(__file__)))
sys.path.insert(0, os.environ.get("VERIF_REPO", "/repo") + "/tests")


def main():
    import logging

    logging.disable(logging.CRITICAL)
    import emodify
    import irdump

    noise = int(os.environ.get("C11_NOISE", "0"))
    rng = random.Random(noise)
    keep = []
    for line in sys.stdin:
        line = line.strip()
        if not line:
            continue
        req = json.loads(line)
        # perturb the allocator so that id()-based hashes (set iteration order of gtirb nodes) differ
        keep.append([object() for _ in range(rng.randrange(1, 200) * (1 if noise else 0))])
        kind = req.get("kind", "rewrite")
        try:
            if kind == "rewrite":
                B, rec, err = emodify.run_case(req["case"], record=False)
                d = irdump.dump_ir(B.m, irdump.IdMap())
                d["order"], d["fbb"], d["next"] = [], [], 0
                # where gtirb_layout puts each *section* depends on the iteration order of module.sections (a set
                # of id-hashed nodes) - a property of that dependency, not of gtirb-rewriting: addresses are
                # compared relative to the start of their section
                base = {}
                for iv in d["intervals"]:
                    if iv["addr"] is not None:
                        base[iv["sect"]] = min(base.get(iv["sect"], iv["addr"]), iv["addr"])
                for iv in d["intervals"]:
                    if iv["addr"] is not None:
                        iv["addr"] -= base[iv["sect"]]
                c, _ = irdump.canon(d)
                out = {"err": err, "canon": c}
                if req.get("twice") and not req.get("_again"):
                    # the same rewrite once more in this very process: nothing may be carried over
                    req2 = dict(req, _again=True)
                    B2, rec2, err2 = emodify.run_case(req2["case"], record=False)
                    d2 = irdump.dump_ir(B2.m, irdump.IdMap())
                    d2["order"], d2["fbb"], d2["next"] = [], [], 0
                    base2 = {}
                    for iv in d2["intervals"]:
                        if iv["addr"] is not None:
                            base2[iv["sect"]] = min(base2.get(iv["sect"], iv["addr"]), iv["addr"])
                    for iv in d2["intervals"]:
                        if iv["addr"] is not None:
                            iv["addr"] -= base2[iv["sect"]]
                    c2, _ = irdump.canon(d2)
                    if (err2, c2) != (err, c):
                        out["again_differs"] = irdump.diff_paths(c, c2)[:3] if err2 == err else [err, err2]
            elif kind == "driver":
                # the command-line driver: `gtirb-rewriting --run=P1 --run=P2 ... in out`; the passes register their
                # insertions at the same place, in the order of the command line
                import tempfile

                import gtirb
                from gtirb_rewriting import AllFunctionsScope, BlockPosition, FunctionPosition, Pass
                from gtirb_rewriting.driver import _driver_core, _PassEntryPointAdaptor

                B = emodify.build(req["case"])

                def mk(asm):
                    class P(Pass):
                        def begin_module(self, module, functions, rewriting_ctx):
                            rewriting_ctx.register_insert(AllFunctionsScope(FunctionPosition.ENTRY, BlockPosition.ENTRY), emodify.make_patch(asm))

                    return P

                eps = [_PassEntryPointAdaptor(name, mk(asm)) for name, asm in req["available"]]
                with tempfile.TemporaryDirectory() as td:
                    B.ir.save_protobuf(td + "/in.gtirb")
                    _driver_core(eps, True, ["gtirb-rewriting"] + ["--run=" + n for n in req["run"]] + [td + "/in.gtirb", td + "/out.gtirb"])
                    ir2 = gtirb.IR.load_protobuf(td + "/out.gtirb")
                d = irdump.dump_ir(ir2.modules[0], irdump.IdMap())
                d["order"], d["fbb"], d["next"] = [], [], 0
                base = {}
                for iv in d["intervals"]:
                    if iv["addr"] is not None:
                        base[iv["sect"]] = min(base.get(iv["sect"], iv["addr"]), iv["addr"])
                for iv in d["intervals"]:
                    if iv["addr"] is not None:
                        iv["addr"] -= base[iv["sect"]]
                c, _ = irdump.canon(d)
                out = {"err": None, "canon": c}
            else:
                import props.c10 as c10

                m, bi, ids, tabs = c10.build_interval(req["iv"])
                from gtirb_rewriting.intervalutils import split_byte_interval

                parts = split_byte_interval(bi)
                fresh = [1000]
                out = {"parts": [c10.canon_iv(c10.dump_interval(p, ids, tabs, fresh)) for p in parts]}
        except Exception as e:  # noqa: BLE001
            out = {"crash": "%s: %s" % (type(e).__name__, str(e)[:200])}
        sys.stdout.write(json.dumps(out, sort_keys=True) + "\n")
        sys.stdout.flush()


if __name__ == "__main__":
    main()
