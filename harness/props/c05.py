"""
C05 — the output IR is closed, well-formed and serializable, even on failure.

Specification: Spec/WellFormed.lean `checkWellFormed` (whole-IR validator), evaluated by the
driver on the real module after apply() returned, and - closure part only - on what is left
behind when the k-th patch callback raises, for every k.  Protobuf round trip by the real
gtirb library.  Theorems: Props/C05.lean.
"""
import io
import json

import emodify
import irdump
import listing_engine as LE
from common import ask_driver

GEN = []
SOURCES = ["rewriting.py", "_modify/cache.py", "_modify/remove.py", "_modify/functions.py", "_modify/edit.py", "prepare.py",
           "_auxdata.py", "_modify/join.py"]
RULE = (
    "same generated modules and request sets as C01 (data blocks carry an `encodings` entry, code blocks in functions); "
    "(a) apply() returns: the whole-IR validator on the output and a protobuf save/load round trip compared by "
    "canonical dump; (b) for every k below the number of patch invocations of the case, the k-th get_asm callback "
    "raises: apply() must propagate that exception, ir.cfg must be the caller's CFG object, and what is left behind "
    "must pass the closure part of the validator and the round trip. Distinct by (module, request list, k)"
    "; code patches that carry aligned data ('jmp over; .align; .long; label'); a committed witness of a block shared by two functions"
)
ASSUMPTIONS = [
    "a block that a recorded whole-block delete() targeted may stay behind zero-sized: remove_block judges the documented conditions (symbols, CFI, incoming control flow, entry point) on the state at that moment - e.g. the return edge of a self-call that disappears with the block's own out-edges a moment later",
    "after a failed apply() only closure and serializability are demanded (the property's words); block geometry, addresses and zero-sized blocks are judged only when apply() returns",
    "zero-sized blocks: only original blocks whose every byte the request set deleted may remain zero-sized (the documented cases of doc/Deletion.md are all of that form), and a block a patch brought that is the target of a branch or call while no code follows it in its byte interval (the patch's own label at the end of the section: the same 'incoming edges, nowhere to redirect them' case, for a new block)",
    "the aux-data tables validated are the sanctioned ones the canonical dump covers: alignment, comments, padding, symbolicExpressionSizes, cfiDirectives, functionBlocks/Entries/Names, encodings, types, profile, SCCs, peSafeExceptionHandlers, elfDynamicInit/Fini, elfSymbolInfo, plus module.entry_point",
]
TRUSTED = ["harness/emodify.py, harness/irdump.py; gtirb's own protobuf serializer is the judge of serializability"]

SIG_JOIN_LEAVES_AUX = "join-blocks-leaves-type-tables-entry-of-absorbed-block"


class Boom(Exception):
    pass


def emptied_blocks(o):
    out = []
    for b in o["before"]["blocks"]:
        mine = [e for e in (o["edits"] or []) if e["block"] == b["id"]]
        if mine and sum(e["del"] for e in mine) == b["size"] and not any(e["ins"] for e in mine):
            out.append(b["id"])
    # ... and blocks created during the batch (the rest of a block behind an earlier request) that a later request of
    # the batch deleted whole: remove_block decides on the state at that moment whether the block can go
    for r in o["rec"].records:
        d = r["do"]
        if d["kind"] == "delete" and "after" in r:
            blk = next((b for b in r["before"]["blocks"] if b["id"] == d["block"]), None)
            if blk is not None and d["offset"] == 0 and d["length"] == blk["size"] and blk["size"]:
                out.append(d["block"])
    return out


def roundtrip(B):
    """save + load through gtirb's protobuf; returns None when the canonical dumps agree"""
    import gtirb

    buf = io.BytesIO()
    B.ir.save_protobuf_file(buf)
    buf.seek(0)
    ir2 = gtirb.IR.load_protobuf_file(buf)
    m2 = ir2.modules[0]
    d1, d2 = irdump.dump_ir(B.m, irdump.IdMap()), irdump.dump_ir(m2, irdump.IdMap())
    for d in (d1, d2):
        # views of the rewrite caches, not part of the IR
        d["order"], d["fbb"], d["next"] = [], [], 0
    c1, _ = irdump.canon(d1)
    c2, _ = irdump.canon(d2)
    if c1 != c2:
        return "round trip changed the IR at %s" % (irdump.diff_paths(c1, c2)[:3],)
    return None


def run_with_fault(case, k):
    """apply() with the k-th patch callback raising; returns (B, before dump, after dump, cfg kept, raised)"""
    import logging

    import gtirb_functions
    from gtirb_rewriting import RewritingContext

    logging.disable(logging.CRITICAL)
    B = emodify.build(json.loads(json.dumps(case)))
    funcs = gtirb_functions.Function.build_functions(B.m)
    ctx = RewritingContext(B.m, funcs)
    idm = irdump.IdMap()
    before = irdump.dump_ir(B.m, idm)
    cfg_obj = B.ir.cfg
    counter = {"n": 0}

    def hook(asm):
        def get_asm(*a):
            i = counter["n"]
            counter["n"] += 1
            if i == k:
                raise Boom("injected into patch callback %d" % k)
            return asm

        return get_asm

    emodify.register_edits(B, ctx, case.get("edits", []), asm_hook=hook)
    raised = None
    try:
        ctx.apply()
    except Boom:
        raised = "Boom"
    except Exception as e:  # noqa: BLE001
        raised = type(e).__name__ + ": " + str(e)[:100]
    after = irdump.dump_ir(B.m, idm)
    return B, before, after, (B.ir.cfg is cfg_obj), raised, counter["n"]


def check_case(ctx, case, pending):
    case = LE.strip_case(case)
    nedits = len(case.get("edits", []))
    # (a) normal run
    try:
        o = emodify.run_listing(json.loads(json.dumps(case)))
    except Exception as e:  # noqa: BLE001
        ctx.count("harness-error")
        ctx.notes.append("harness could not run a case: %r" % (e,))
        return
    ctx.case({"case": case, "k": None}, sample={"edits": case.get("edits", [])} if nedits else None, nontrivial=nedits > 0)
    if o["err"]:
        cls = emodify.classify_error(o)
        if cls is None or cls not in emodify.predicted_rejections(case):
            ctx.count("refused:UNEXPECTED")
        else:
            ctx.count("refused:" + cls)
            # a refused request set is a failed apply(): closure must still hold
            rt = None
            try:
                rt = roundtrip(o["B"])
            except Exception as e:  # noqa: BLE001
                rt = "save/load raised %s: %s" % (type(e).__name__, str(e)[:120])
            if rt:
                ctx.violation("C05:not-serializable-after-refusal", rt, case)
            pending.append((case, "refused", {"op": "wf_check", "before": o["before"], "after": o["after"], "emptied": [],
                                              "need_addr": False, "closure_only": True}, o))
        return
    ctx.count("applied")
    if getattr(o["rec"], "order_issue", None):
        ctx.violation("C05:cache-ordering-contradicts-the-layout", "the block ordering the rewrite starts with is not the physical one: %s; which "
                      "zero-sized blocks remain is decided with it" % o["rec"].order_issue, case)
    try:
        rt = roundtrip(o["B"])
    except Exception as e:  # noqa: BLE001
        rt = "save/load raised %s: %s" % (type(e).__name__, str(e)[:120])
    if rt:
        ctx.violation("C05:round-trip", rt, case)
    pending.append((case, None, {"op": "wf_check", "before": o["before"], "after": o["after"], "emptied": emptied_blocks(o),
                                 "need_addr": True, "closure_only": False}, o))
    # every recorded insert/delete of this run on the Lean model (the special modules and patches of this runner -
    # encodings, .bss, aligned data, added functions with cold parts - do not come up in the shared campaign)
    recs = [r for r in o["rec"].records if "after" in r and not r.get("raised")]
    # (bounded in the thorough tier: the shared campaign replays the same kind of operations by the tens of thousands;
    # the cases that only this runner produces - added functions, aligned data - are always replayed)
    done = getattr(ctx, "_c05_corr", 0)
    special = bool(case.get("insert_functions")) or any(".balign" in e.get("asm", "") or ".align" in e.get("asm", "") for e in case.get("edits", []))
    if recs and ctx.driver_ok and (special or done < 12000):
        ctx._c05_corr = done + len(recs)
        try:
            ans = ask_driver([{"op": "ir_op", "ir": r["before"], "do": r["do"]} for r in recs])
        except Exception as e:  # noqa: BLE001
            ctx.driver_ok = False
            ctx.notes.append("driver failure: %r" % (e,))
            ans = []
        for r, m in zip(recs, ans):
            ctx.count("corr:" + r["do"]["kind"])
            if "ir" not in m:
                ctx.mismatch("model refuses %s that the code performs: %s" % (r["do"]["kind"], m.get("err")), case)
                continue
            ca, _ = irdump.canon(r["after"])
            cm, _ = irdump.canon(m["ir"])
            if ca != cm:
                ctx.mismatch("IR after %s differs between code and model at %s" % (r["do"]["kind"], irdump.diff_paths(ca, cm)[:4]), case)
    # (b) fault injection into every patch callback
    npatches = sum(1 for e in case.get("edits", []) if e["op"] != "delete")
    for k in range(npatches):
        B, before, after, same_cfg, raised, calls = run_with_fault(case, k)
        ctx.case({"case": case, "k": k}, nontrivial=True)
        ctx.count("fault:k=%d" % min(k, 3))
        fcase = dict(case, fault=k)
        if raised != "Boom":
            if calls <= k:
                ctx.count("fault:not-reached")
                continue
            ctx.violation("C05:fault-not-propagated", "the exception raised by patch callback %d came out as %r" % (k, raised), fcase)
            continue
        if not same_cfg:
            ctx.violation("C05:cfg-object-replaced", "after a failing patch callback ir.cfg is not the caller's CFG object", fcase)
        try:
            rt = roundtrip(B)
        except Exception as e:  # noqa: BLE001
            rt = "save/load raised %s: %s" % (type(e).__name__, str(e)[:120])
        if rt:
            ctx.violation("C05:not-serializable-after-failure", rt, fcase)
        pending.append((fcase, k, {"op": "wf_check", "before": before, "after": after, "emptied": [], "need_addr": False,
                                   "closure_only": True}, None))


def classify(case, issue, o):
    # finding: join_blocks leaves the encodings/types/profile/SCCs entry of the absorbed block
    if issue["kind"] == "aux-key" and issue["name"] in ("encodings", "types", "profile", "SCCs"):
        return "C05:" + SIG_JOIN_LEAVES_AUX
    # finding: a block that two functions list is removed: only the function the cache knows it by forgets it
    if issue["kind"] == "aux-key" and issue["name"] in ("functionBlocks", "functionEntries") and shared_block_removed(case):
        return "C05:" + SIG_SHARED_BLOCK
    return "C05:" + issue["kind"]


SIG_SHARED_BLOCK = "block-listed-by-two-functions-stays-in-the-tables-of-one-when-it-is-removed"


def shared_block_removed(case):
    text = emodify.flat_of(case)
    shared = {i for i, _ in case.get("shared", [])}
    return any(e["op"] != "insert" and e["block"] in shared and e["off"] == 0 and e.get("len") == emodify.block_size(text[e["block"]])
               for e in case.get("edits", []))


def flush(ctx, pending):
    if not pending or not ctx.driver_ok:
        pending.clear()
        return
    try:
        ans = ask_driver([p[2] for p in pending])
    except Exception as e:  # noqa: BLE001
        ctx.driver_ok = False
        ctx.notes.append("driver failure: %r" % (e,))
        pending.clear()
        return
    for (case, k, _, o), a in zip(pending, ans):
        if "C05" not in a:
            ctx.mismatch("the validator could not be evaluated: %s" % (a.get("err"),), case)
            continue
        for issue in a["C05"]:
            ctx.count("issue:" + issue["kind"])
            where = "after apply() returned" if k is None else ("after the request set was refused" if k == "refused" else "after patch callback %d raised" % k)
            ctx.violation(classify(case, issue, o), "%s: %s" % (where, issue["msg"]), case)
    pending.clear()


def add_encodings(case, rng):
    for d in case["text"]:
        if d["kind"] == "data" and rng.random() < 0.5:
            d["encoding"] = "string"
    return case


def special_blocks(case, rng):
    """aim some whole-block deletions at blocks that a module-level table names (exception handlers, DT_INIT /
    DT_FINI, the entry point): those tables must follow or drop the block"""
    named = list(case.get("safeseh", [])) + [case[k] for k in ("init", "fini", "entry") if case.get(k) is not None]
    if not named or rng.random() < 0.3:
        return case
    touched = {e["block"] for e in case["edits"]}
    for i in named:
        if i in touched or rng.random() < 0.3:
            continue
        d = emodify.flat_of(case)[i]
        e = {"op": "delete", "block": i, "off": 0, "len": emodify.block_size(d)}
        if rng.random() < 0.3:
            e["proxy"] = True
        case["edits"].append(e)
        touched.add(i)
    return case


def aligned_data_patch(case, rng):
    """a code patch that carries aligned data ('jmp over / .align / .long / label'): the assembler turns the aligned
    block into a data block, and the alignment request has to name that block - not the code block it replaced"""
    code = [i for i, d in enumerate(case["text"]) if d["kind"] == "code"]
    free = [i for i in code if not any(e["block"] == i for e in case["edits"])]
    if not free:
        return case
    i = rng.choice(free)
    if rng.random() < 0.4:
        # an alignment request directly in front of a label (an aligned loop head): the empty aligned block the
        # assembler starts there is merged into the label's block
        off = rng.choice(emodify.block_layout(case["text"][i])[:-1] or [0])
        case["edits"].append({"op": "insert", "block": i, "off": off,
                              "asm": rng.choice(["testl %%eax, %%eax\n.balign %d\n.Lhead:\ndecl %%eax\njne .Lhead", "nop\n.balign %d\n.Lhead:\nhead2:\nnop\njne .Lhead",
                                                 ".balign %d\n.Lhead:\nnop\njne .Lhead"]) % rng.choice([2, 4, 8, 16])})
        return case
    case["edits"].append({"op": "insert", "block": i, "off": 0,
                          "asm": "jmp .Lover\n.align %d\n.long %d\n.Lover:\nnop" % (rng.choice([2, 4, 8]), rng.randrange(1 << 16))})
    return case


def added_function(case, rng):
    """register_insert_function in the same context: plain bodies, bodies that bring their own CFI procedure, bodies
    with a cold part in another executable section (its own procedure, an alignment request at its end)"""
    k = rng.randrange(1 << 16)
    body = rng.choice([
        "nop\nret",
        ".cfi_startproc\nnop\nret\n.cfi_endproc",
        ".cfi_startproc\nnop\nret\n.cfi_endproc\n.section .text.cold,\"ax\",@progbits\n.cfi_startproc\ncold_%d:\nnop\nret\n.cfi_endproc" % k,
        "nop\njne cold_%d\nret\n.section .text.cold,\"ax\",@progbits\ncold_%d:\nnop\nret" % (k, k),
        "nop\nret\n.section .text.cold,\"ax\",@progbits\ncold_%d:\nnop\nret\n.balign 16" % k,
        ".cfi_startproc\nnop\nret\n.cfi_endproc\n.section .text.cold,\"ax\",@progbits\n.cfi_startproc\ncold_%d:\nnop\njmp cold_%d\n.cfi_endproc" % (k, k),
    ])
    case["insert_functions"] = [{"name": "added_%d" % k, "asm": body}]
    return case


def bss_case(rng):
    """a data section whose interval is only partly initialized: blocks in the uninitialized tail, a gap no block
    covers, alignment on the block behind the gap - and a request that changes the size of the initialized part"""
    case = emodify.gen_case(rng, nblocks=rng.randint(1, 3), with_data=False, nedits=0)
    n0 = rng.choice([1, 2, 3, 4])
    ds = [{"kind": "data", "bytes": [rng.randrange(256) for _ in range(n0)], "syms": [{"name": "D0", "at_end": False}]}]
    for i in range(rng.randint(1, 2)):
        d = {"kind": "data", "bytes": [0] * rng.choice([2, 4, 8]), "uninit": True, "gap_before": rng.choice([0, 1, 2, 3]),
             "syms": [{"name": "U%d" % i, "at_end": False}]}
        if rng.random() < 0.7:
            d["align"] = rng.choice([2, 4, 8])
        ds.append(d)
    case["sections"] = [".data"]
    case["sect:.data"] = ds
    first = len(case["text"])
    k = rng.random()
    if k < 0.6:
        case["edits"] = [{"op": "insert", "block": first, "off": rng.randint(0, n0), "asm": ".byte %d" % rng.randrange(256)}]
    elif k < 0.8 and n0 > 1:
        case["edits"] = [{"op": "delete", "block": first, "off": 0, "len": 1}]
    else:
        case["edits"] = [{"op": "insert", "block": 0, "off": 0, "asm": "nop"}]
    return case


def check_fixed_width(ctx, g):
    """ISAs whose nop is four bytes (ARM64, MIPS32): alignment padding after code is made of whole nops and stays
    inside its byte interval; judged directly on the module (geometry, alignment, protobuf round trip)"""
    import io
    import logging

    import gtirb
    import gtirb_functions
    from gtirb_test_helpers import add_code_block, add_text_section, create_test_module

    import gtirb_rewriting._auxdata as A
    from gtirb_rewriting import RewritingContext

    logging.disable(logging.CRITICAL)
    ctx.case(g, sample=g if len(ctx.samples) < 5 else None, nontrivial=True)
    ctx.count("fixed-width:" + g["isa"])
    isa = getattr(gtirb.Module.ISA, g["isa"])
    ir, m = create_test_module(gtirb.Module.FileFormat.ELF, isa)
    m.byte_order = gtirb.Module.ByteOrder.Big if g["isa"] == "MIPS32" else gtirb.Module.ByteOrder.Little
    _, bi = add_text_section(m, address=0x1000)
    nop = b"\x1f\x20\x03\xd5" if g["isa"] == "ARM64" else b"\x00\x00\x00\x00"
    ret = b"\xc0\x03\x5f\xd6" if g["isa"] == "ARM64" else b"\x03\xe0\x00\x08" + b"\x00\x00\x00\x00"
    b1 = add_code_block(bi, nop * g["n1"] + ret)
    b2 = add_code_block(bi, nop * g["n2"] + ret)
    A.alignment.get_or_insert(m)[b2] = g["align"]
    rc = RewritingContext(m, gtirb_functions.Function.build_functions(m))
    rc.insert_at(b1, 4 * g["at"], emodify.make_patch("nop\n" * g["count"]))
    try:
        rc.apply()
    except Exception as e:  # noqa: BLE001
        ctx.violation("C05:fixed-width:raises", "%s: apply() raised %s: %s" % (g["isa"], type(e).__name__, str(e)[:100]), g)
        return
    for x in m.byte_intervals:
        if len(x.contents) > x.size:
            ctx.violation("C05:fixed-width:contents-exceed-interval", "%s: a byte interval of size %d holds %d bytes" % (g["isa"], x.size, len(x.contents)), g)
        for blk in x.blocks:
            if blk.offset + blk.size > x.size:
                ctx.violation("C05:fixed-width:block-bounds", "%s: block [%d, +%d) does not fit its byte interval (size %d)" % (g["isa"], blk.offset, blk.size, x.size), g)
    if b2.address is None or b2.address % g["align"]:
        ctx.violation("C05:fixed-width:alignment", "%s: the block with alignment %d is at %s" % (g["isa"], g["align"], b2.address), g)
    try:
        buf = io.BytesIO()
        ir.save_protobuf_file(buf)
        buf.seek(0)
        gtirb.IR.load_protobuf_file(buf)
    except Exception as e:  # noqa: BLE001
        ctx.violation("C05:fixed-width:round-trip", "%s: save/load raised %s: %s" % (g["isa"], type(e).__name__, str(e)[:100]), g)


def run(ctx):
    pending = []
    for k in range(ctx.budget(24, 300)):
        check_fixed_width(ctx, {"fixed_width": True, "isa": ["ARM64", "MIPS32"][k % 2], "n1": 1 + k % 3, "n2": 1 + (k // 2) % 2,
                                "align": [8, 16, 32][k % 3], "at": k % 2, "count": 1 + (k // 3) % 3})
    for _ in range(ctx.budget(60, 1500)):
        check_case(ctx, bss_case(ctx.rng), pending)
    import glob
    import os

    for f in sorted(glob.glob(os.path.join(os.path.dirname(os.path.dirname(os.path.dirname(os.path.abspath(__file__)))), "corpus", "c05", "*.json"))):
        ctx.count("corpus")
        check_case(ctx, json.load(open(f)), pending)
    for c in LE.load_corpus():
        ctx.count("corpus")
        check_case(ctx, c, pending)
    # modules that already hold a zero-sized block (left by an earlier rewrite) at the address of the block behind it
    from props import c02

    for c in c02.empty_block_cases():
        ctx.count("empty-block-in-the-input")
        check_case(ctx, c, pending)
    for _ in range(ctx.budget(500, 12000)):
        case = special_blocks(add_encodings(emodify.gen_case(ctx.rng), ctx.rng), ctx.rng)
        if ctx.rng.random() < 0.15:
            case = aligned_data_patch(case, ctx.rng)
        if ctx.rng.random() < 0.08:
            case = added_function(case, ctx.rng)
        check_case(ctx, case, pending)
        if len(pending) >= 300:
            flush(ctx, pending)
    flush(ctx, pending)


def replay(ctx, payload):
    pending = []
    case = payload.get("case", payload)
    if case.get("fixed_width"):
        check_fixed_width(ctx, case)
        return
    case = {k: v for k, v in case.items() if k != "fault"}
    check_case(ctx, case, pending)
    flush(ctx, pending)
