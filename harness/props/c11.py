"""
C11 — rewriting is deterministic.

The same cases are rewritten in several fresh interpreter processes that differ in
PYTHONHASHSEED, in their allocation pattern (so id()-based hashes and hence the iteration order
of sets of gtirb nodes differ) and in the UUIDs they draw; the canonical, UUID-free dumps must be
identical.  Registration-order independence: permuting the registration order of requests that
target different locations must not change the result.  Theorems: Props/C11.lean.
"""
import json
import os
import subprocess

import emodify
import listing_engine as LE

GEN = []
SOURCES = ["rewriting.py", "driver.py", "passes.py", "_modify/edit.py", "_modify/cache.py", "_modify/remove.py", "_modify/join.py", "prepare.py",
           "intervalutils.py", "assembler/assembler.py"]
RULE = (
    "generated modules and request sets as in C01 (one code section), each rewritten in N fresh python processes "
    "(quick: 3, thorough: 6) with different PYTHONHASHSEED values and different amounts of allocation noise before "
    "every case; the canonical dumps (bytes, block boundaries, symbols incl. temporary-label names, CFG, all aux "
    "tables) are compared across processes; additionally every case is run with its requests registered in a "
    "different order that keeps the relative order of requests at one (block, offset); byte intervals with blocks "
    "that tie on their offset are split in every process"
    "; every sixth case also registers 1-3 retarget_symbol_uses requests (chains included) and is repeated with them registered in another order"
    "; the command-line driver (_driver_core) is run on saved modules with 2-5 --run passes that all insert at the entry of every function"
    "; two symbols of one name on different blocks with a patch that names it"
    "; a used symbol asked to be deleted twice with different force flags, in both orders; an aligned block that is not first in its byte interval receiving a patch with an alignment directive"
    "; patches use the scratch registers they are given (so the allocation shows in the bytes); rewrites whose patches have prologues are repeated inside one worker process and must give the same module again"
)
ASSUMPTIONS = [
    "gtirb_layout.layout_module (a dependency, not part of this repository) iterates module.sections, a set of id-hashed nodes, so with several sections the start address each section gets depends on the allocation pattern; recorded as a finding of the dependency in DESIGN.md: addresses are compared relative to the start of their section, everything else exactly",
    "allocation noise changes id()-based hashes only statistically; a nondeterminism that needs a rarer hash collision pattern than N processes produce is not seen",
]
TRUSTED = ["harness/c11_worker.py, harness/emodify.py, harness/irdump.py (canonical form)"]

HERE = os.path.dirname(os.path.dirname(os.path.abspath(__file__)))


def run_workers(reqs, n):
    outs = []
    data = "\n".join(json.dumps(r) for r in reqs) + "\n"
    procs = []
    for i in range(n):
        env = dict(os.environ, PYTHONHASHSEED=str(i * 7919 + 1), C11_NOISE=str(i), PYTHONPATH=os.environ.get("VERIF_REPO", "/repo") + "/src:" + os.environ.get("VERIF_REPO", "/repo") + "/tests:" + HERE)
        procs.append(subprocess.Popen(["/venv/bin/python", os.path.join(HERE, "c11_worker.py")], stdin=subprocess.PIPE,
                                      stdout=subprocess.PIPE, stderr=subprocess.DEVNULL, text=True, env=env))
    for p in procs:
        out, _ = p.communicate(data, timeout=3000)
        outs.append([json.loads(x) for x in out.splitlines()])
    return outs


def deleted_twice(rng):
    """a symbol that is still used is asked to be deleted twice, once forced and once not (two passes that disagree):
    'not forced wins' whichever request comes first"""
    text = [{"kind": "code", "func": 0, "entry": True, "insns": [["lea", "victim", 0], ["nop"], ["ret"]], "syms": [{"name": "main", "at_end": False}]},
            {"kind": "code", "func": 1, "entry": True, "insns": [["nop"], ["ret"]], "syms": [{"name": "victim", "at_end": False}, {"name": "keeper", "at_end": False}]}]
    dels = [["victim", True], ["victim", False]]
    rng.shuffle(dels)
    edits = [{"op": "insert", "block": 0, "off": 0, "asm": "nop"}] if rng.random() < 0.5 else []
    return {"isa": "X64", "ff": "ELF", "text": text, "externs": ["ext_a"], "edits": edits, "symbol_deletions": dels}


def two_aligned(rng):
    """an aligned block that is not the first of its byte interval receives a patch that asks for an alignment of its own:
    two aligned blocks in one re-joined interval; which of them the padding serves may not depend on set order"""
    n0 = rng.randint(1, 5)
    text = [{"kind": "code", "func": 0, "entry": True, "insns": [["nop"]] * n0, "syms": [{"name": "main", "at_end": False}]},
            {"kind": "code", "func": 0, "insns": [["nop"]] * rng.randint(2, 4) + [["ret"]], "syms": [{"name": "second", "at_end": False}], "align": rng.choice([4, 8])}]
    edits = [{"op": "insert", "block": 1, "off": rng.randint(1, 2), "asm": "nop\n.p2align 4\nnop"}]
    return {"isa": "X64", "ff": "ELF", "text": text, "externs": [], "edits": edits}


def permuted(case, rng):
    """another registration order that keeps the order of requests sharing (block, offset)"""
    edits = list(case.get("edits", []))
    if len(case.get("symbol_deletions") or []) > 1:
        return dict(case, symbol_deletions=list(reversed(case["symbol_deletions"])))
    if len(case.get("retargets") or []) > 1:
        # retargets of different symbols: their registration order must not matter either
        rts = list(case["retargets"])
        rng.shuffle(rts)
        if rts == case["retargets"]:
            rts.reverse()
        return dict(case, retargets=rts)
    if len(edits) < 2 or any(e.get("all") is not None for e in edits):
        return None
    groups = {}
    for e in edits:
        groups.setdefault((e["block"], e["off"]), []).append(e)
    keys = list(groups)
    if len(keys) < 2:
        return None
    rng.shuffle(keys)
    # interleave: repeatedly take the next request of a random remaining group
    out = []
    pending = {k: list(v) for k, v in groups.items()}
    while pending:
        k = rng.choice(list(pending))
        out.append(pending[k].pop(0))
        if not pending[k]:
            del pending[k]
    if out == edits:
        return None
    return dict(case, edits=out)


def first_diff(a, b):
    import irdump

    return irdump.diff_paths(a, b)[:4]


def vary(case, rng, k):
    """things whose order could leak into the result: patches with prologues (register save order), modules that
    were never laid out (block order before layout), several call sites of one function (return-edge updates)"""
    asm_edits = [e for e in case["edits"] if "asm" in e and e["op"] in ("insert", "replace")]
    if k % 3 == 0:
        for e in asm_edits:
            e["constraints"] = {"preserve": rng.random() < 0.7, "scratch": rng.choice([0, 1, 2]), "flags": rng.random() < 0.5,
                                "clobbers": rng.sample(["rax", "rbx", "rcx", "rdx", "rsi", "rdi", "r8", "r12"], rng.randint(0, 3))}
    if k % 5 == 1 and not case.get("sections"):
        # (only with one section: where gtirb_layout puts each of several sections is the dependency's set-order
        # matter, and apply() visits the blocks in address order, so patch ids would follow it)
        case["no_addr"] = True
    if k % 6 == 5:
        # retarget_symbol_uses requests (chains A->B, B->C included) registered in the same context
        emodify.add_retargets(rng, case, n=rng.choice([1, 2, 2, 3]), chains=True)
    if k % 8 == 6:
        # two symbols of one name (file-local functions of different translation units) on different blocks, and a
        # patch that names it: which of the two the operand and the edge refer to must not depend on set order
        code = [i for i, d in enumerate(case["text"]) if d["kind"] == "code" and d["insns"]]
        if len(code) >= 2:
            i, j = rng.sample(code, 2)
            for x in (i, j):
                case["text"][x]["syms"].append({"name": "dup", "at_end": False})
            host = rng.choice(code)
            off = rng.choice(emodify.block_layout(case["text"][host])[:-1])
            if not any(e["block"] == host and e["off"] <= off < e["off"] + max(e.get("len", 0), 1) for e in case["edits"]):
                case["edits"].append({"op": "insert", "block": host, "off": off, "asm": rng.choice(["call dup", "leaq dup(%rip), %rax", "jne dup"])})
    if k % 7 == 2:
        return three_callers(rng)
    if k % 11 == 3:
        return empty_neighbour(rng)
    if k % 13 == 4:
        return shared_tail(rng)
    return case


def shared_tail(rng):
    """a leaf function and a function that makes a call share their last block; a patch with a prologue goes into
    the shared block: whose block it is (and so whether the red zone is stepped over) must not depend on UUIDs"""
    text = [
        {"kind": "code", "func": 0, "entry": True, "insns": [["nop"], ["jmp", "S"]], "syms": [{"name": "leaf", "at_end": False}]},
        {"kind": "code", "func": 1, "entry": True, "insns": [["nop"], ["call", "ext_a"]], "syms": [{"name": "caller", "at_end": False}]},
        {"kind": "code", "func": 1, "insns": [["nop"]], "syms": [{"name": "c2", "at_end": False}]},
        {"kind": "code", "func": rng.choice([0, 1]), "insns": [["nop"], ["ret"]], "syms": [{"name": "S", "at_end": False}]},
    ]
    other = 1 - text[3]["func"]
    e = {"op": "insert", "block": 3, "off": rng.choice([0, 1]), "asm": "movl $7, %eax",
         "constraints": {"flags": True, "clobbers": ["rax"], "scratch": rng.choice([0, 1]), "preserve": False}}
    return {"isa": "X64", "ff": "ELF", "text": text, "externs": ["ext_a"], "edits": [e], "shared": [[3, other]]}


def empty_neighbour(rng):
    """the module already holds a zero-sized code block (left behind by an earlier rewrite) at the address of the
    next block; the block behind it is edited or deleted"""
    text = [
        {"kind": "code", "func": 0, "entry": True, "insns": [["nop"], ["jmp", "c"]], "syms": [{"name": "f", "at_end": False}]},
        {"kind": "code", "func": 1, "entry": True, "insns": [], "syms": [{"name": "z", "at_end": False}]},
        {"kind": "code", "func": 1, "insns": [["nop"]] * rng.randint(1, 2) + [["jmp", "c"]], "syms": [{"name": "b", "at_end": False}]},
        {"kind": "code", "func": 2, "entry": True, "insns": [["nop"], ["ret"]], "syms": [{"name": "c", "at_end": False}]},
    ]
    size = emodify.block_size(text[2])
    e = rng.choice([{"op": "delete", "block": 2, "off": 0, "len": size}, {"op": "delete", "block": 2, "off": 0, "len": 1},
                    {"op": "insert", "block": 2, "off": 0, "asm": "nop"}, {"op": "delete", "block": 2, "off": 0, "len": size, "proxy": True}])
    return {"isa": "X64", "ff": "ELF", "text": text, "externs": ["ext_a"], "edits": [e]}


def three_callers(rng):
    """f is called from three places; one or two of the call sites are deleted"""
    text = [{"kind": "code", "func": 0, "entry": True, "insns": [["mov", 1], ["ret"]], "syms": [{"name": "f", "at_end": False}]}]
    for i in range(3):
        text.append({"kind": "code", "func": i + 1, "entry": True, "insns": [["nop"], ["call", "f"]], "syms": [{"name": "c%d" % i, "at_end": False}]})
        text.append({"kind": "code", "func": i + 1, "insns": [["mov", 100 + i], ["ret"]], "syms": [{"name": "r%d" % i, "at_end": False}]})
    edits = []
    for i in rng.sample(range(3), rng.randint(1, 2)):
        edits.append({"op": "delete", "block": 1 + 2 * i, "off": 0, "len": 6, "proxy": rng.random() < 0.3})
    if rng.random() < 0.5:
        edits.append({"op": "insert", "block": 0, "off": 0, "asm": "nop"})
    return {"isa": "X64", "ff": "ELF", "text": text, "externs": ["ext_a"], "edits": edits}


def retarget_chain(rng):
    """main1 calls fa, main2 calls fb; fa is retargeted to fb and fb to fc (a chain): each request names its own old
    symbol, so the order in which the two are registered must not matter"""
    text = [
        {"kind": "code", "func": 0, "entry": True, "insns": [["nop"]] * rng.randint(0, 1) + [[rng.choice(["call", "jcc"]), "fa"]], "syms": [{"name": "main1", "at_end": False}]},
        {"kind": "code", "func": 0, "insns": [[rng.choice(["call", "jcc"]), "fb"]], "syms": [{"name": "main2", "at_end": False}]},
        {"kind": "code", "func": 0, "insns": [["ret"]], "syms": [{"name": "main3", "at_end": False}]},
    ]
    for k, nm in enumerate(["fa", "fb", "fc"]):
        text.append({"kind": "code", "func": k + 1, "entry": True, "insns": [["nop"]] * rng.randint(0, 2) + [["ret"]], "syms": [{"name": nm, "at_end": False}]})
    edits = [{"op": "insert", "block": 2, "off": 0, "asm": "nop"}] if rng.random() < 0.3 else []
    rts = [["fa", "fb"], ["fb", "fc"]]
    if rng.random() < 0.3:
        rts.append(["fc", "ext_a"])
    rng.shuffle(rts)
    return {"isa": "X64", "ff": "ELF", "text": text, "externs": ["ext_a"], "edits": edits, "retargets": rts}


def run(ctx):
    import props.c10 as c10

    n = 6 if ctx.tier == "thorough" else 3
    cases = [LE.strip_case(c) for c in LE.load_corpus()]
    for _ in range(ctx.budget(8, 100)):
        cases.append(LE.strip_case(retarget_chain(ctx.rng)))
    for _ in range(ctx.budget(10, 100)):
        cases.append(LE.strip_case(empty_neighbour(ctx.rng)))
    for _ in range(ctx.budget(6, 60)):
        cases.append(LE.strip_case(three_callers(ctx.rng)))
        cases.append(LE.strip_case(shared_tail(ctx.rng)))
    for _ in range(ctx.budget(4, 40)):
        cases.append(LE.strip_case(deleted_twice(ctx.rng)))
    for _ in range(ctx.budget(12, 120)):
        cases.append(LE.strip_case(two_aligned(ctx.rng)))
    for k in range(ctx.budget(250, 5000)):
        cases.append(LE.strip_case(vary(emodify.gen_case(ctx.rng), ctx.rng, k)))
    reqs = []
    index = []
    for c in cases:
        # patches with prologues draw on per-process ABI objects: those rewrites are also repeated inside one process
        twice = any(e.get("constraints") for e in c.get("edits", []))
        reqs.append({"kind": "rewrite", "case": c, "twice": twice})
        index.append(("run", c))
        p = permuted(c, ctx.rng)
        if p is not None:
            reqs.append({"kind": "rewrite", "case": p})
            index.append(("perm", c))
    # intervals whose blocks tie on the offset
    for _ in range(ctx.budget(150, 2000)):
        iv = c10.gen_interval(ctx.rng)
        if len(iv["blocks"]) >= 1:
            b = ctx.rng.choice(iv["blocks"])
            iv["blocks"].append([99, b[1], 0, not b[3]])
            iv["blocks"].sort(key=lambda x: (x[1], x[0]))
        reqs.append({"kind": "split", "iv": iv})
        index.append(("split", iv))
    # the command-line driver with several --run passes that insert at one place
    avail = [["insert-nop", "nop"], ["insert-int3", "int3"], ["count-calls", "pushq %rax\npopq %rax"], ["trace-entry", "movl $7, %eax"],
             ["zz-last", "xorl %ecx, %ecx"]]
    for _ in range(ctx.budget(6, 60)):
        c = LE.strip_case(emodify.gen_case(ctx.rng, nedits=0, with_data=False))
        if not any(d.get("func") is not None for d in c["text"]):
            continue
        names = [a[0] for a in avail]
        ctx.rng.shuffle(names)
        r = {"kind": "driver", "case": c, "available": avail, "run": names[:ctx.rng.randint(2, 5)]}
        reqs.append(r)
        index.append(("driver", r))
    try:
        outs = run_workers(reqs, n)
    except Exception as e:  # noqa: BLE001
        ctx.notes.append("worker processes failed: %r" % (e,))
        raise
    if any(len(o) != len(reqs) for o in outs):
        raise RuntimeError("a worker answered %s lines for %d requests" % ([len(o) for o in outs], len(reqs)))
    last_run = None
    for i, (kind, payload) in enumerate(index):
        answers = [o[i] for o in outs]
        if kind == "split":
            ctx.case({"split": payload}, nontrivial=len(payload["blocks"]) > 1)
            ctx.count("split-ties")
            if any(a != answers[0] for a in answers):
                ctx.violation("C11:split-depends-on-set-order", "split_byte_interval gives different partitions in different processes: %s vs %s"
                              % (answers[0], next(a for a in answers if a != answers[0])), {"split": payload})
            continue
        if kind == "driver":
            ctx.case({"driver": payload}, nontrivial=True)
            ctx.count("driver-runs")
            crash = next((a["crash"] for a in answers if "crash" in a), None)
            if crash:
                ctx.notes.append("worker crashed on a driver case: " + crash)
                ctx.count("worker-crash")
            elif any(a != answers[0] for a in answers):
                other = next(a for a in answers if a != answers[0])
                ctx.violation("C11:driver-differs-between-processes", "the same command line (--run %s) gives different modules in different processes: %s"
                              % (" --run ".join(payload["run"]), first_diff(answers[0].get("canon"), other.get("canon"))), {"driver": payload})
            continue
        nedits = len(payload.get("edits", []))
        if kind == "run":
            ctx.case(payload, sample={"edits": payload.get("edits", [])} if nedits else None, nontrivial=nedits > 0)
            ctx.count("rewrite")
            last_run = answers[0]
        else:
            ctx.count("permuted-registration")
        crash = next((a["crash"] for a in answers if "crash" in a), None)
        if crash:
            ctx.notes.append("worker crashed on a case: " + crash)
            ctx.count("worker-crash")
            continue
        again = next((a["again_differs"] for a in answers if a.get("again_differs")), None)
        if again:
            ctx.violation("C11:second-run-in-one-process-differs", "the same rewrite of a freshly built module gives another result the second "
                          "time it runs in one process: %s" % (again,), payload)
            continue
        for a in answers[1:]:
            if a != answers[0]:
                what = first_diff(answers[0].get("canon"), a.get("canon")) if answers[0].get("err") == a.get("err") else (answers[0].get("err"), a.get("err"))
                ctx.violation("C11:differs-between-processes", "the same rewrite gives different modules in different processes: %s" % (what,), payload)
                break
        if kind == "perm" and last_run is not None and answers[0] != last_run:
            what = first_diff(last_run.get("canon"), answers[0].get("canon")) if last_run.get("err") == answers[0].get("err") else (last_run.get("err"), answers[0].get("err"))
            ctx.violation("C11:registration-order", "registering the requests of different locations in another order changes the result: %s" % (what,), payload)


def replay(ctx, payload):
    case = payload.get("case", payload)
    if "split" in case:
        outs = run_workers([{"kind": "split", "iv": case["split"]}], 6)
        if any(o[0] != outs[0][0] for o in outs):
            ctx.violation("C11:split-depends-on-set-order", "split_byte_interval gives different partitions in different processes", case)
        ctx.case(case)
        return
    if "driver" in case:
        outs = run_workers([case["driver"]], 6)
        ctx.case(case)
        if any(o[0] != outs[0][0] for o in outs):
            ctx.violation("C11:driver-differs-between-processes", "the same command line gives different modules in different processes", case)
        return
    outs = run_workers([{"kind": "rewrite", "case": case}], 6)
    ctx.case(case)
    if any(o[0] != outs[0][0] for o in outs):
        ctx.violation("C11:differs-between-processes", "the same rewrite gives different modules in different processes", case)
