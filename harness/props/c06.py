"""
C06 — function tables keep describing the same code.

Specification: Spec/FuncCheck.lean `checkFunctions` on the real before/after dumps.
Model: function steps of Model/IR/*.lean (fbb = ModifyCache.functions_by_block).
Theorems: Props/C06.lean.
"""
import listing_engine as LE

GEN = []
SOURCES = ["_modify/functions.py", "_modify/remove.py", "_modify/split.py", "_modify/join.py", "_modify/edit.py",
           "_modify/cache.py", "rewriting.py"]
RULE = (
    "same generated modules and request sets as C01, with zero to three functions (adjacent, interleaved with "
    "function-less code and data; entries on the first block of each function), whole-function and whole-block "
    "deletions with and without retarget_to_proxy, edits at function boundaries; per case functionBlocks, "
    "functionEntries and functionNames after apply() are compared, in section coordinates, with the attribution the "
    "listing gives every piece of code; the side cache functions_by_block is part of the per-operation correspondence; "
    "plus: 1-3 functions added with register_insert_function (single- and multi-block bodies, some called from "
    "patches inserted in the same rewrite) to modules with zero to three functions and with empty or absent "
    "function tables, judged directly on functionBlocks / functionEntries / functionNames"
    "; two or three insertions at one place of a function's block, the first ending in data"
)
ASSUMPTIONS = [
    "a block kept as a zero-sized block (nowhere to move its symbols or edges) keeps its function and entry role",
    "an entry deleted with retarget_to_proxy is not inherited by the next block (the function is being turned into an external one)",
    "register_insert_function is judged by a direct oracle on the three tables (and on the bytes of the new function's blocks); the Lean model covers its stub block only through the per-operation correspondence",
]
TRUSTED = ["harness/emodify.py, harness/irdump.py"]


FUNC_BODIES = [
    "nop\nret",
    "movl $5, %eax\nret",
    "cmpl $0, %eax\njne .Lx\nmovl $1, %eax\n.Lx:\nret",
    "pushq %rax\npopq %rax\nret",
    "call ext_a\nret",
]


def gen_insert_function(rng):
    import emodify

    case = emodify.gen_case(rng, nblocks=rng.randint(1, 4), with_funcs=rng.random() < 0.6, nedits=0)
    if rng.random() < 0.5:
        case["function_tables"] = True      # the tables exist even when the module has no function yet
    new = [{"name": "newfn%d" % i, "body": rng.randrange(len(FUNC_BODIES))} for i in range(rng.randint(1, 3))]
    callers = []
    code = [i for i, d in enumerate(case["text"]) if d["kind"] == "code"]
    if code and rng.random() < 0.5:
        callers.append({"block": rng.choice(code), "callee": rng.choice(new)["name"]})
    return {"insert_function": True, "case": case, "new": new, "callers": callers}


def check_insert_function(ctx, g):
    import json
    import logging

    import gtirb
    import gtirb_functions

    import emodify
    import gtirb_rewriting._auxdata as A
    from gtirb_rewriting import RewritingContext
    from gtirb_rewriting.assembler import Assembler

    logging.disable(logging.CRITICAL)
    case = LE.strip_case(g["case"])
    payload = dict(g, case=case)
    B = emodify.build(json.loads(json.dumps(case)))
    m = B.m
    ctx.case(payload, sample={"new": g["new"], "callers": g["callers"], "functions": len({d.get("func") for d in case["text"] if d.get("func") is not None})}
             if len(ctx.samples) < 6 else None, nontrivial=True)
    ctx.count("insert-function:%d" % len(g["new"]))
    ctx.count("tables:" + ("present" if A.function_names.get(m) is not None else "absent"))

    def tables():
        fb, fe, fn = A.function_blocks.get(m) or {}, A.function_entries.get(m) or {}, A.function_names.get(m) or {}
        return ({u: set(map(id, v)) for u, v in fb.items()}, {u: set(map(id, v)) for u, v in fe.items()}, {u: id(v) for u, v in fn.items()})

    before = tables()
    rc = RewritingContext(m, gtirb_functions.Function.build_functions(m))
    syms = {}
    for n in g["new"]:
        syms[n["name"]] = rc.register_insert_function(n["name"], emodify.make_patch(FUNC_BODIES[n["body"]]))
    for c in g["callers"]:
        rc.insert_at(B.blocks[c["block"]], 0, emodify.make_patch("call %s" % c["callee"]))
    try:
        rc.apply()
    except Exception as e:  # noqa: BLE001
        ctx.violation("C06:insert-function-raises", "apply() with register_insert_function raised %s: %s" % (type(e).__name__, str(e)[:120]), payload)
        return
    fb = A.function_blocks.get(m) or {}
    fe = A.function_entries.get(m) or {}
    fn = A.function_names.get(m) or {}
    owner = {}
    for u, blocks in fb.items():
        for b in blocks:
            if id(b) in owner:
                ctx.violation("C06:block-in-two-functions", "a block is in two functions after register_insert_function", payload)
            owner[id(b)] = u
    for n in g["new"]:
        y = syms[n["name"]]
        b = y.referent
        if not isinstance(b, gtirb.CodeBlock) or b.module is not m:
            ctx.violation("C06:new-function-symbol", "the symbol of %s does not refer to a code block of the module" % n["name"], payload)
            continue
        named = [u for u, s in fn.items() if s is y]
        entered = [u for u, bs in fe.items() if any(x is b for x in bs)]
        blocked = [u for u, bs in fb.items() if any(x is b for x in bs)]
        if len(named) != 1 or entered != named or blocked != named:
            ctx.violation("C06:new-function-tables", "%s: functionNames has it under %d ids, functionEntries under %d, functionBlocks under %d (all three must name the same single function)"
                          % (n["name"], len(named), len(entered), len(blocked)), payload)
            continue
        u = named[0]
        if len(fe[u]) != 1:
            ctx.violation("C06:new-function-entries", "%s has %d entry blocks" % (n["name"], len(fe[u])), payload)
        # the function's blocks hold exactly the body's bytes
        asm = Assembler(m, temp_symbol_suffix="_chk", allow_undef_symbols=True)
        asm.assemble(FUNC_BODIES[n["body"]])
        want = bytes(asm.finalize().text_section.data)
        got = b"".join(bytes(x.byte_interval.contents[x.offset:x.offset + x.size]) for x in sorted(fb[u], key=lambda x: x.address))
        if got != want:
            ctx.violation("C06:new-function-bytes", "%s: the blocks of the function hold %s, the body assembles to %s" % (n["name"], got.hex(), want.hex()), payload)
        if any(not isinstance(x, gtirb.CodeBlock) for x in fb[u]):
            ctx.violation("C06:data-in-function", "%s contains a data block" % n["name"], payload)
    # the functions that were there are unchanged
    after = tables()
    for k, name in enumerate(("functionBlocks", "functionEntries", "functionNames")):
        for u, v in before[k].items():
            if not g["callers"] and after[k].get(u) != v:
                ctx.violation("C06:old-function-changed", "%s of a function that was not touched changed" % name, payload)


def entry_at_the_end(rng):
    """a function whose entry block is laid out last, at the very end of .text, and is deleted as a whole: nothing may
    be promoted to entry (there is no next block)"""
    import emodify

    for _ in range(20):
        case = emodify.gen_case(rng, nblocks=rng.randint(2, 5), with_data=False)
        text = case["text"]
        last, prev = text[-1], text[-2]
        if last["kind"] == "code" and prev["kind"] == "code" and last.get("func") is not None and last.get("func") == prev.get("func"):
            for d in text:
                if d.get("func") == last["func"]:
                    d.pop("entry", None)
            last["entry"] = True
            i = len(text) - 1
            case["edits"] = [e for e in case["edits"] if e["block"] != i and e.get("all") is None]
            e = {"op": "delete", "block": i, "off": 0, "len": emodify.block_size(last)}
            if rng.random() < 0.25:
                e["proxy"] = True
            case["edits"].append(e)
            return case
    return None


def entry_before_foreign_code(rng):
    """an entry block is deleted as a whole while the code behind it belongs to another function or to none: nothing
    may be promoted"""
    import emodify

    for _ in range(20):
        case = emodify.gen_case(rng, nblocks=rng.randint(2, 6), with_data=rng.random() < 0.3)
        text = case["text"]
        cands = [i for i in range(len(text) - 1) if text[i]["kind"] == "code" and text[i].get("entry") and text[i + 1]["kind"] == "code"
                 and text[i + 1].get("func") != text[i].get("func")]
        if cands:
            i = rng.choice(cands)
            case["edits"] = [e for e in case["edits"] if e["block"] != i and e.get("all") is None]
            case["edits"].append({"op": "delete", "block": i, "off": 0, "len": emodify.block_size(text[i])})
            return case
    return None


def two_entries(rng):
    """a function with two entry blocks loses one of them: the other one stays an entry"""
    import emodify

    for _ in range(30):
        case = emodify.gen_case(rng, nblocks=rng.randint(3, 6), with_data=rng.random() < 0.3)
        text = case["text"]
        funcs = {}
        for i, d in enumerate(text):
            if d["kind"] == "code" and d.get("func") is not None:
                funcs.setdefault(d["func"], []).append(i)
        big = [f for f, idx in funcs.items() if len(idx) >= 3]
        if not big:
            continue
        idx = funcs[rng.choice(big)]
        for i in idx:
            text[i].pop("entry", None)
        a, b = sorted(rng.sample(idx, 2))
        text[a]["entry"] = True
        text[b]["entry"] = True
        victim = rng.choice([a, b])
        case["edits"] = [e for e in case["edits"] if e["block"] != victim and e.get("all") is None]
        case["edits"].append({"op": "delete", "block": victim, "off": 0, "len": emodify.block_size(text[victim])})
        return case
    return None


def data_tail_then_code(rng):
    """two insertions at one place of a function's block, the first of them ending in data: the second one goes
    into that data block, and its code still belongs to the function"""
    import emodify

    case = emodify.gen_case(rng, nblocks=rng.randint(2, 5), with_data=rng.random() < 0.3, nedits=0)
    code = [i for i, d in enumerate(case["text"]) if d["kind"] == "code" and d.get("func") is not None and d["insns"]]
    if not code:
        return None
    i = rng.choice(code)
    off = rng.choice(emodify.block_layout(case["text"][i]))
    first = rng.choice(["ret\n.byte %d" % rng.randrange(256), "jmp .Lgo\n.Lgo:\nret\n.byte 1, 2", "ret\n.long %d" % rng.randrange(1 << 20)])
    second = rng.choice(["nop\nnop", "movl $%d, %%eax" % rng.randrange(1 << 20), "nop\nret"])
    case["edits"] = [{"op": "insert", "block": i, "off": off, "asm": first}, {"op": "insert", "block": i, "off": off, "asm": second}]
    if rng.random() < 0.4:
        case["edits"].append({"op": "insert", "block": i, "off": off, "asm": "nop"})
    return case


def code_into_data(rng):
    """a code patch put into a data block that stands behind a function's code: the listing puts it into function-less
    data, so it belongs to no function"""
    import emodify

    case = emodify.gen_case(rng, nblocks=rng.randint(2, 6), with_data=True, nedits=0)
    text = case["text"]
    cands = [i for i, d in enumerate(text) if d["kind"] == "data" and i > 0 and text[i - 1]["kind"] == "code" and text[i - 1].get("func") is not None]
    if not cands:
        return None
    i = rng.choice(cands)
    off = rng.choice([0, 0, len(text[i]["bytes"]), rng.randrange(len(text[i]["bytes"]) + 1)])
    asm = rng.choice(["thunk%d:\nud2" % i, "nop\nret", "movl $%d, %%eax\nret" % rng.randrange(1 << 20), "jmp %s" % text[i - 1]["syms"][0]["name"]])
    case["edits"] = [{"op": "insert", "block": i, "off": off, "asm": asm}]
    if rng.random() < 0.4:
        # and something in the function in front of it, in the same pass
        offs = emodify.block_layout(text[i - 1])
        case["edits"].insert(rng.randrange(2), {"op": "insert", "block": i - 1, "off": rng.choice(offs[:-1] or [0]), "asm": "nop"})
    return case


def run(ctx):
    LE.run(ctx, "C06", 1500, 40000)
    camp = LE.Campaign(ctx, "C06")
    for _ in range(ctx.budget(60, 1500)):
        case = code_into_data(ctx.rng)
        if case is not None:
            ctx.count("code-into-data")
            camp.add(case)
    for _ in range(ctx.budget(60, 1500)):
        case = data_tail_then_code(ctx.rng)
        if case is not None:
            ctx.count("data-tail-then-code")
            camp.add(case)
    for _ in range(ctx.budget(80, 2000)):
        case = two_entries(ctx.rng)
        if case is not None:
            ctx.count("two-entries")
            camp.add(case)
    for _ in range(ctx.budget(80, 2000)):
        case = entry_before_foreign_code(ctx.rng)
        if case is not None:
            ctx.count("entry-before-foreign-code")
            camp.add(case)
    for _ in range(ctx.budget(80, 2000)):
        case = entry_at_the_end(ctx.rng)
        if case is not None:
            ctx.count("entry-at-the-end")
            camp.add(case)
    camp.flush()
    for _ in range(ctx.budget(150, 4000)):
        check_insert_function(ctx, gen_insert_function(ctx.rng))


def replay(ctx, payload):
    case = payload.get("case", payload)
    if isinstance(case, dict) and case.get("insert_function"):
        check_insert_function(ctx, case)
    elif payload.get("insert_function"):
        check_insert_function(ctx, payload)
    else:
        LE.replay(ctx, "C06", payload)
