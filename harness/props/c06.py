"""
C06 — function tables keep describing the same code.

Specification: Spec/FuncCheck.lean `checkFunctions` on the real before/after dumps.
Model: function steps of Model/IR/*.lean (fbb = ModifyCache.functions_by_block).
Theorems: Props/C06.lean.
"""
import listing_engine as LE

GEN = []
SOURCES = ["_modify/functions.py", "_modify/remove.py", "_modify/split.py", "_modify/join.py", "_modify/edit.py",
           "_modify/cache.py", "rewriting.py"]
RULE = (
    "same generated modules and request sets as C01, with zero to three functions (adjacent, interleaved with "
    "function-less code and data; entries on the first block of each function), whole-function and whole-block "
    "deletions with and without retarget_to_proxy, edits at function boundaries; per case functionBlocks, "
    "functionEntries and functionNames after apply() are compared, in section coordinates, with the attribution the "
    "listing gives every piece of code; the side cache functions_by_block is part of the per-operation correspondence"
)
ASSUMPTIONS = [
    "a block kept as a zero-sized block (nowhere to move its symbols or edges) keeps its function and entry role",
    "an entry deleted with retarget_to_proxy is not inherited by the next block (the function is being turned into an external one)",
    "register_insert_function is not exercised by the generator yet (its stub block is covered by the correspondence of _insert_function_stub only through apply() of C07 cases)",
]
TRUSTED = ["harness/emodify.py, harness/irdump.py"]


def run(ctx):
    LE.run(ctx, "C06", 1500, 40000)


def replay(ctx, payload):
    LE.replay(ctx, "C06", payload)
