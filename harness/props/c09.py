"""
C09 — rewrite caches are transparent: batch equals one-at-a-time.

(1) the module after one apply() of a request set vs. after applying the requests one at a
    time, each in its own RewritingContext (canonical dumps, temporary-label suffixes removed);
(2) after every recorded insert/delete of the batch run, the answers of the rewrite caches
    (neighbouring blocks, function of a block, return edges, referents) against the IR itself;
(3) a patch assembled in mid-rewrite must see the referents the cache reports.
Theorems: Props/C09.lean (the caches refine their scans of the IR - C20, C06 - and the only
state carried from one modification to the next is the running offset).
"""
import json
import re

import emodify
import irdump
import listing_engine as LE

GEN = []
SOURCES = ["_modify/cache.py", "_modify/edit.py", "rewriting.py", "assembler/assembler.py", "_adt/block_ordering.py",
           "_modify/functions.py", "_modify/edges.py"]
RULE = (
    "generated modules and request sets as in C01 but without alignment requirements (each apply() re-lays the "
    "section out, so padding would accumulate in the one-at-a-time run); requests that name, branch to or call labels "
    "of blocks that other requests of the set split, join or delete are frequent. Batch vs sequential: canonical "
    "dumps compared. Cache vs IR: after every recorded operation of the batch run, adjacent_blocks of every block "
    "against the blocks sorted by (interval address, offset), functions_by_block against functionBlocks, the three "
    "return-edge queries against a scan of ir.cfg, every referent against the module's blocks/proxies"
    "; chains of adjacent whole-block deletions whose first block carries several labels; a committed witness of a patch that switches sections"
    "; retarget_symbol_uses registered in the same context (one at a time: a context of its own, last); batches whose last request in address order "
    "names an undefined symbol: refused both ways before that request touches the module, the CFG, symbols, proxies and function tables left behind "
    "are compared"
)
ASSUMPTIONS = [
    "the one-at-a-time run applies the requests in apply()'s own order (block address, offset, insertions first, registration order); a request's original (block, offset) is translated to the block that now holds that byte (for an insertion at the end of a block: the block that now ends there); request sets in which a block is wholly deleted and also receives other requests, and sets whose ranges no longer lie in one block after earlier requests, are not compared",
    "temporary labels (.L*) are compared without their uniquifying suffix; proxies by their signature",
    "block boundaries may legitimately differ between the two runs where joinability depends on intermediate state; the comparison is on bytes, symbols (by position), expressions, CFG between positions, function membership by position - i.e. on the canonical dump after merging adjacent joinable blocks is NOT done: differences are reported and were not observed on the unchanged tree",
]
TRUSTED = ["harness/emodify.py, harness/irdump.py; reading private tables of the caches (read-only)"]

SIG_ASM_REFERENT = "assembler-reads-symbol-referent-while-reference-cache-holds-it"


SIG_DETACHED_PATCH_BLOCKS = "blocks-a-patch-puts-into-another-section-have-no-neighbours-in-the-block-ordering"


def norm_names(d):
    d = json.loads(json.dumps(d))
    for y in d["syms"]:
        if y["name"].startswith(".L"):
            y["name"] = re.sub(r"_\d+$", "", y["name"])
    d["order"], d["fbb"], d["next"] = [], [], 0
    return d


def run_sequential(case):
    """each request in its own context, in address order (the order apply() uses); the original
    (block, offset) of a request is translated to where that byte is now"""
    import logging

    import gtirb_functions
    from gtirb_rewriting import RewritingContext

    logging.disable(logging.CRITICAL)
    B = emodify.build(json.loads(json.dumps(case)))
    text = emodify.flat_of(case)
    sizes = [emodify.block_size(d) for d in text]
    starts = [b.address for b in B.blocks]
    sects = [b.section for b in B.blocks]
    base = {id(x): min(bi.address for bi in x.byte_intervals) for x in set(sects)}
    rel = [b.address - base[id(b.section)] for b in B.blocks]      # positions are kept relative to the section start
    edits = list(enumerate(case.get("edits", [])))
    order = sorted(edits, key=lambda ie: (ie[1]["block"], ie[1]["off"], ie[1].get("len", 0) != 0, ie[0]))
    shifts = {}
    err = None
    for _, e in order:
        funcs = gtirb_functions.Function.build_functions(B.m)
        ctx = RewritingContext(B.m, funcs)
        sect = sects[e["block"]]
        shift = shifts.get(id(sect), 0)
        base0 = min(bi.address for bi in sect.byte_intervals)
        total0 = sum(bi.size for bi in sect.byte_intervals)
        pos = base0 + rel[e["block"]] + e["off"] + shift
        blocks = sorted(sect.byte_blocks, key=lambda b: (b.address, b.size != 0))
        at_end = e["off"] == sizes[e["block"]] and e["op"] == "insert"
        target = None
        if at_end:
            cands = [x for x in blocks if x.size and x.address + x.size == pos]
            if cands:
                target, off = cands[-1], cands[-1].size
        if target is None:
            cands = [x for x in blocks if x.address <= pos < x.address + x.size]
            if cands:
                target, off = cands[0], pos - cands[0].address
        if target is None:
            return B, "cannot locate the request's position any more"
        try:
            if e["op"] == "insert":
                ctx.insert_at(target, off, emodify.make_patch(e["asm"]) if "asm" in e else bytes(e["bytes"]))
            elif e["op"] == "replace":
                if off + e["len"] > target.size:
                    return B, "replaced range no longer lies in one block"
                ctx.replace_at(target, off, e["len"], emodify.make_patch(e["asm"]) if "asm" in e else bytes(e["bytes"]))
            else:
                if off + e["len"] > target.size:
                    return B, "deleted range no longer lies in one block"
                ctx.delete_at(target, off, e["len"], retarget_to_proxy=bool(e.get("proxy")) and off == 0 and e["len"] == target.size)
            ctx.apply()
        except Exception as ex:  # noqa: BLE001
            err = "%s: %s" % (type(ex).__name__, str(ex)[:120])
            break
        shifts[id(sect)] = shift + sum(bi.size for bi in sect.byte_intervals) - total0
    if err is None and case.get("retargets"):
        # retarget_symbol_uses takes effect at the end of apply(): one at a time it is a context of its own, last
        try:
            ctx = RewritingContext(B.m, gtirb_functions.Function.build_functions(B.m))
            for a, b in case["retargets"]:
                ctx.retarget_symbol_uses(next(y for y in B.m.symbols if y.name == a), next(y for y in B.m.symbols if y.name == b))
            ctx.apply()
        except Exception as ex:  # noqa: BLE001
            err = "%s: %s" % (type(ex).__name__, str(ex)[:120])
    return B, err


def cache_vs_ir(cache, module):
    """problems found comparing the caches' answers with the IR (empty list = agree)"""
    import gtirb
    from gtirb_rewriting._auxdata import function_blocks

    out = []
    # neighbouring blocks
    for sect in module.sections:
        blocks = sorted(sect.byte_blocks, key=lambda b: (b.byte_interval.address or 0, b.offset, b.size != 0))
        # zero-sized blocks at one position have no IR-defined order: compare only strict positions
        pos = {id(b): (b.byte_interval.address or 0, b.offset) for b in blocks}
        if sect not in cache.block_ordering:
            continue
        for b in blocks:
            try:
                prev, nxt = cache.adjacent_blocks(b)
            except Exception as e:  # noqa: BLE001
                out.append("adjacent_blocks(%s) raised %s" % (b.uuid, type(e).__name__))
                continue
            end = (pos[id(b)][0], b.offset + b.size)
            if nxt is not None:
                if nxt.byte_interval is None:
                    out.append("adjacent_blocks: next block is not part of the module")
                elif pos.get(id(nxt), (None,)) < pos[id(b)]:
                    out.append("adjacent_blocks: next block lies before the block")
            if prev is not None:
                if prev.byte_interval is None:
                    out.append("adjacent_blocks: previous block is not part of the module")
                elif pos.get(id(prev), (None,)) > pos[id(b)]:
                    out.append("adjacent_blocks: previous block lies behind the block")
            # no block strictly between b and its next
            if nxt is not None and nxt.byte_interval is not None:
                between = [x for x in blocks if x is not b and x is not nxt and pos[id(b)] < pos[id(x)] < pos[id(nxt)]]
                if between:
                    out.append("adjacent_blocks skips %d block(s)" % len(between))
            if nxt is None:
                later = [x for x in blocks if pos[id(x)] > pos[id(b)]]
                if later:
                    out.append("adjacent_blocks reports no next block although %d follow" % len(later))
    # function of a block
    fb = function_blocks.get(module) or {}
    table = {}
    for u, bs in fb.items():
        for b in bs:
            table[id(b)] = u
    cached = {id(b): u for b, u in cache.functions_by_block.items()}
    if table != cached:
        out.append("functions_by_block differs from functionBlocks (%d vs %d entries)" % (len(cached), len(table)))
    # return edges
    cfg = module.ir.cfg
    rc = getattr(cache, "return_cache", None)
    if rc is not None:
        edges = list(cfg)
        for b in module.code_blocks:
            scan = {e for e in edges if e.source is b and e.label is not None and e.label.type == gtirb.Edge.Type.Return}
            got = set(rc.block_return_edges(b))
            if scan != got:
                out.append("block_return_edges differs from a scan of ir.cfg")
            if bool(scan) != bool(rc.any_return_edges(b)):
                out.append("any_return_edges differs from a scan of ir.cfg")
            pscan = {e for e in scan if isinstance(e.target, gtirb.ProxyBlock)}
            if pscan != set(rc.block_proxy_return_edges(b)):
                out.append("block_proxy_return_edges differs from a scan of ir.cfg")
    # referents
    for y in module.symbols:
        ref = y.referent
        if y in cache.reference_cache._referents:
            continue  # indirect: its abstract referent is in the dump and validated by C05/C02
        if isinstance(ref, gtirb.ByteBlock) and ref.byte_interval is None:
            out.append("symbol %s has a direct referent that left the module" % y.name)
    return out


def check_case(ctx, case):
    case = LE.strip_case(case)
    for d in case["text"]:
        d.pop("align", None)
    nedits = len(case.get("edits", []))
    text = emodify.flat_of(case)
    whole = {e["block"] for e in case.get("edits", []) if e["op"] == "delete" and e["off"] == 0 and e["len"] == emodify.block_size(text[e["block"]])}
    multi = any(sum(1 for x in case["edits"] if x["block"] == b) > 1 for b in whole)
    problems = []

    def on_op(cache, r):
        try:
            problems.extend(cache_vs_ir(cache, cache.module))
        except Exception as e:  # noqa: BLE001
            problems.append("cache check raised %s: %s" % (type(e).__name__, str(e)[:80]))

    try:
        import logging

        logging.disable(logging.CRITICAL)
        B, rec, err = emodify.run_case(json.loads(json.dumps(case)), record=True, on_op=on_op)
    except Exception as e:  # noqa: BLE001
        ctx.count("harness-error")
        ctx.notes.append("harness could not run a case: %r" % (e,))
        return
    ctx.case(case, sample={"edits": case.get("edits", [])} if nedits >= 2 else None, nontrivial=nedits >= 2)
    ctx.count("edits:%d" % min(nedits, 4))
    other_section = any(l.strip().split()[:1] in ([".data"], [".section"], [".rodata"], [".bss"])
                        for e in case.get("edits", []) for l in e.get("asm", "").splitlines())
    for p in sorted(set(problems)):
        ctx.count("cache-vs-ir")
        ctx.violation("C09:" + (SIG_DETACHED_PATCH_BLOCKS if other_section and "adjacent_blocks" in p else "cache-disagrees-with-ir"), p, case)
    if multi:
        ctx.count("skipped:whole-deletion-plus-other-requests")
        return
    if emodify.runs_off_end(case):
        ctx.count("skipped:code-runs-off-the-end")
        return
    B2, err2 = run_sequential(case)
    if err or err2:
        o = {"err": err, "err_where": ""}
        if err and not err2 and "cannot be data blocks" in err and "branch-to-moved-label" in emodify.predicted_rejections(case):
            ctx.count("finding:assembler-referent")
            ctx.violation("C09:" + SIG_ASM_REFERENT,
                          "one apply() refuses the set (%s) although the requests succeed one at a time: the assembler resolves the branch target through Symbol.referent, which is None while the ReferenceCache holds the reference" % err, case)
        elif bool(err) != bool(err2):
            cls_ok = set(emodify.predicted_rejections(case)) & {"whole-delete-then-insert", "label-at-end"}
            if cls_ok:
                ctx.count("refused-one-way:documented")
            else:
                ctx.violation("C09:refused-one-way", "batch: %s; one at a time: %s" % (err, err2), case)
        else:
            ctx.count("refused-both")
            if err.split(":")[0] == err2.split(":")[0] == "UndefSymbolError":
                # the same request is refused both ways before it touches the module (its patch does not assemble): the
                # requests in front of it were carried out, and the module left behind is the same either way
                ctx.count("compared-after-refusal")
                c1, _ = irdump.canon(norm_names(irdump.dump_ir(B.m, irdump.IdMap())))
                c2, _ = irdump.canon(norm_names(irdump.dump_ir(B2.m, irdump.IdMap())))
                # (a refused apply() leaves the byte intervals split, one per group of blocks: offsets inside
                # intervals are not comparable; edges, symbols, proxies and the function tables are)
                keep = lambda c: {"cfg": c.get("cfg"), "syms": c.get("syms"), "proxies": c.get("proxies"),  # noqa: E731
                                  "functions": c.get("functions")}
                c1, c2 = keep(c1), keep(c2)
                if c1 != c2:
                    ctx.violation("C09:" + (SIG_DETACHED_PATCH_BLOCKS if other_section else "refused-batch-differs-from-sequential"),
                                  "a batch refused at its last request (%s) leaves another module than the same requests one at a time: %s"
                                  % (err[:60], irdump.diff_paths(c1, c2)[:4]), case)
        return
    ctx.count("compared")
    c1, _ = irdump.canon(norm_names(irdump.dump_ir(B.m, irdump.IdMap())))
    c2, _ = irdump.canon(norm_names(irdump.dump_ir(B2.m, irdump.IdMap())))
    if c1 != c2:
        ctx.violation("C09:" + (SIG_DETACHED_PATCH_BLOCKS if other_section else "batch-differs-from-sequential"), "one apply() and one-at-a-time application differ at %s" % (irdump.diff_paths(c1, c2)[:4],), case)


def aim_at_cached_references(case, rng):
    """several requests in one block that carries an end-of-block label: the first one leaves the label held by the
    cache only (delete + re-join), the later ones split or edit the block again"""
    text = case["text"]
    cands = [i for i, d in enumerate(text) if d["kind"] == "code" and len(d["insns"]) >= 3]
    if not cands:
        return case
    i = rng.choice(cands)
    d = text[i]
    if not any(y.get("at_end") for y in d["syms"]):
        d["syms"].append({"name": "EE%d" % i, "at_end": True})
    offs = emodify.block_layout(d)
    k = rng.randrange(1, len(d["insns"]) - 1)
    mine = [{"op": "delete", "block": i, "off": offs[k], "len": offs[k + 1] - offs[k]}]
    tail = rng.choice([{"op": "insert", "block": i, "off": offs[-1], "bytes": [0xAA, 0xBB]},
                       {"op": "insert", "block": i, "off": offs[-1], "asm": ".byte 1, 2"},
                       {"op": "insert", "block": i, "off": offs[-1], "asm": "ret"},
                       {"op": "insert", "block": i, "off": offs[-1], "asm": "movl $7, %eax\nret"},
                       {"op": "insert", "block": i, "off": offs[-2], "asm": "nop"}])
    if tail["off"] > offs[k]:
        mine.append(tail)
    case["edits"] = [e for e in case["edits"] if e["block"] != i or e.get("all") is not None] + mine
    return case


def leftover_empty_block(rng):
    """a branch target in front of data is deleted (it has to stay as a zero-sized block), then the data behind it:
    one at a time the second step starts from a module that already holds a zero-sized block"""
    text = [
        {"kind": "code", "func": 0, "entry": True, "insns": [["nop"]] * rng.randint(0, 2) + [["jmp", "A"]], "syms": [{"name": "W", "at_end": False}]},
        {"kind": "code", "func": 0, "insns": [["nop"]] * rng.randint(1, 2) + [[rng.choice(["ret", "ret", "jmp"])] + ([] if True else [])], "syms": [{"name": "A", "at_end": False}]},
        {"kind": "data", "bytes": [rng.randrange(256) for _ in range(rng.choice([1, 4]))], "syms": [{"name": "D", "at_end": False}]},
        {"kind": "code", "func": 1, "entry": True, "insns": [["nop"]] * rng.randint(0, 1) + [["ret"]], "syms": [{"name": "C", "at_end": False}]},
    ]
    if text[1]["insns"][-1] == ["jmp"]:
        text[1]["insns"][-1] = ["jmp", "C"]
    if rng.random() < 0.4:
        text.append({"kind": "data", "bytes": [1, 2], "syms": [{"name": "T", "at_end": False}]})
    edits = [{"op": "delete", "block": 1, "off": 0, "len": emodify.block_size(text[1])},
             {"op": "delete", "block": 2, "off": 0, "len": len(text[2]["bytes"])}]
    if rng.random() < 0.3:
        edits.append({"op": "insert", "block": 3, "off": 0, "asm": "nop"})
    rng.shuffle(edits)
    return {"isa": "X64", "ff": "ELF", "text": text, "externs": ["ext_a"], "edits": edits}


def chain_of_whole_deletions(rng):
    """adjacent blocks deleted whole in one batch, the first carrying several labels: they all slide on through the
    reference cache (held indirectly) while the later blocks of the chain are judged and removed"""
    n = rng.randint(2, 4)
    text = []
    for i in range(n + 1):
        syms = [{"name": "L%d" % i, "at_end": False}]
        if i == 0 or rng.random() < 0.3:
            syms += [{"name": "A%d_%d" % (i, j), "at_end": rng.random() < 0.2} for j in range(rng.randint(1, 3))]
        if i > 0 and rng.random() < 0.5:
            syms = []
        kind = "code" if i < n or rng.random() < 0.7 else "data"
        d = ({"kind": "code", "func": 0, "insns": [["nop"]] * rng.randint(1, 2), "syms": syms} if kind == "code"
             else {"kind": "data", "bytes": [1, 2, 3, 4], "syms": syms})
        text.append(d)
    text[0]["entry"] = True
    if text[-1]["kind"] == "code":
        text[-1]["insns"].append(["ret"])
    edits = [{"op": "delete", "block": i, "off": 0, "len": emodify.block_size(text[i])} for i in range(n)]
    if rng.random() < 0.3:
        edits.pop(rng.randrange(1, n))            # a survivor inside the chain
    rng.shuffle(edits)
    return {"isa": "X64", "ff": "ELF", "text": text, "externs": ["ext_a"], "edits": edits}


def labels_between_patches(rng):
    """an earlier patch of the batch defines (global) labels that a later patch of the same block branches to; the
    labels sit at the end of the first patch, so they are retargeted through the cache when its empty block goes"""
    n = rng.randint(3, 5)
    text = [
        {"kind": "code", "func": 0, "entry": True, "insns": [["push"]] * n, "syms": [{"name": "X", "at_end": False}]},
        {"kind": "code", "func": 0, "insns": [["ret"]], "syms": [{"name": "Y", "at_end": False}]},
    ]
    k1 = rng.randint(0, n - 1)
    k2 = rng.randint(k1 + 1, n)
    first = rng.choice(["nop\nl1:\nl2:", "nop\nl1:", "l1:\nl2:\nnop", "nop\nl1:\nnop\nl2:"])
    second = "jne l1\njne l2" if "l2" in first else "jne l1"
    edits = [{"op": "insert", "block": 0, "off": k1, "asm": first}, {"op": "insert", "block": 0, "off": k2, "asm": second}]
    return {"isa": "X64", "ff": "ELF", "text": text, "externs": ["ext_a"], "edits": edits}


def refused_at_the_end(rng):
    """the request that comes last in address order names a symbol that does not exist: apply() carries out the
    others (calls and returns among them: the return-edge cache is in use) and is refused then"""
    case = emodify.gen_case(rng, nblocks=rng.randint(2, 6), with_data=False, cfg_domain=True)
    text = case["text"]
    code = [i for i, d in enumerate(text) if d["kind"] == "code" and d["insns"]]
    if not code:
        return None
    last = max(code)
    labels = [y["name"] for d in text if d["kind"] == "code" and d.get("func") is not None for y in d["syms"] if not y.get("at_end")]
    case["edits"] = [e for e in case["edits"] if e["block"] != last and e.get("all") is None and e.get("fn") is None]
    first = [i for i in code if i != last and not any(e["block"] == i for e in case["edits"])]
    if first and labels:
        case["edits"].append({"op": "insert", "block": rng.choice(first), "off": 0, "asm": "call %s" % rng.choice(labels)})
    offs = emodify.block_layout(text[last])
    case["edits"].append({"op": "insert", "block": last, "off": rng.choice(offs[:-1] or [0]), "asm": rng.choice(["call no_such_symbol", "jne no_such_symbol", "leaq no_such_symbol(%rip), %rax"])})
    rng.shuffle(case["edits"])
    return case


def run(ctx):
    for _ in range(ctx.budget(40, 800)):
        check_case(ctx, emodify.retarget_of_a_deleted_block(ctx.rng))
    for _ in range(ctx.budget(40, 800)):
        case = refused_at_the_end(ctx.rng)
        if case is not None:
            check_case(ctx, case)
    for _ in range(ctx.budget(30, 600)):
        check_case(ctx, leftover_empty_block(ctx.rng))
    for _ in range(ctx.budget(30, 600)):
        check_case(ctx, labels_between_patches(ctx.rng))
    for _ in range(ctx.budget(40, 800)):
        check_case(ctx, chain_of_whole_deletions(ctx.rng))
    import glob
    import os

    for f in sorted(glob.glob(os.path.join(os.path.dirname(os.path.dirname(os.path.dirname(os.path.abspath(__file__)))), "corpus", "c09", "*.json"))):
        ctx.count("corpus")
        check_case(ctx, json.load(open(f)))
    for c in LE.load_corpus():
        check_case(ctx, c)
    for n in range(ctx.budget(600, 15000)):
        case = emodify.gen_case(ctx.rng, cfg_domain=True)
        if n % 4 == 0:
            case = aim_at_cached_references(case, ctx.rng)
        if n % 7 == 3:
            emodify.add_retargets(ctx.rng, case)       # retarget_symbol_uses registered in the same context
        check_case(ctx, case)


def replay(ctx, payload):
    check_case(ctx, payload.get("case", payload))
