"""
C08 — rewriting preserves call-frame (unwind) information.

The CFI directives of the module are evaluated before and after apply() by the real
evaluate_cfi_directives (its agreement with DWARF is C15); Spec/CfiCheck.lean relates the two
evaluations through the listing's byte map.  Theorems: Props/C08.lean.
"""
import json

import emodify
import listing_engine as LE
from common import ask_driver

GEN = []
SOURCES = ["rewriting.py", "_modify/split.py", "_modify/join.py", "_modify/remove.py", "_modify/edit.py", "dwarf/cfi_eval.py",
           "assembler/assembler.py"]
RULE = (
    "generated modules as in C01 whose functions carry CFI procedures: .cfi_startproc at the first block, "
    ".cfi_endproc at the end of the last block (also both in one block), state directives (def_cfa_offset, "
    "adjust_cfa_offset, offset, remember/restore pairs) at block starts, instruction boundaries and block ends, some "
    "functions and all function-less code without CFI; request sets as in C01 with patches without CFI or with "
    "balanced CFI, at and around directive positions and procedure boundaries. Inputs whose CFI does not evaluate "
    "cleanly are discarded. Per case: evaluation after the rewrite must succeed; every surviving instruction is "
    "inside a procedure iff it was; without deletions its unwind state is unchanged; procedures map one to one and "
    "in order; code inserted inside a procedure (its very end included) is covered, starts with the state of the "
    "insertion point and keeps its own directives"
    "; balanced-CFI patches whose directives stand on empty blocks of the patch (behind a final jump, in front of a trailing label, between leading labels); a cold block with the procedure's .cfi_endproc between data, deleted with and without retarget_to_proxy; the first block of a procedure deleted whole; a multiset accounting of ordinary directives (after = before minus those attached behind deleted instructions) whenever no patch brings directives"
)
ASSUMPTIONS = [
    "unwind states are compared as canonical text of the evaluator's ProcedureState (return column, personality, LSDA, current and initial row, remember stack)",
    "an insertion exactly at a .cfi_startproc is not judged for coverage (the listing does not say on which side of the directive it goes); this includes a .cfi_startproc that is keyed to the end of the preceding block, a layout the library produces itself",
    "a patch that carries CFI directives and is inserted exactly at a .cfi_startproc shares the location of that directive, and the evaluator counts every directive at that location among the procedure's initial (CIE) instructions: for such request sets only the current row of each state is compared, not the initial row",
    "x86-64 ELF only; personality/LSDA symbols are not generated here (their travel is C04/C18/C19 material)",
]
TRUSTED = ["harness/emodify.py, harness/irdump.py; the real evaluate_cfi_directives as the meaning of a directive stream (C15)"]

SIG_END_OF_PROC = "patch-at-the-very-end-of-a-procedure-loses-its-own-directives"

_cfi_cache = {}


def patch_cfi(asm):
    """the CFI directives a patch text carries: [[offset in the patch bytes, 'name [args]'], ...]"""
    if ".cfi" not in asm:
        return []
    if asm not in _cfi_cache:
        import gtirb
        from gtirb_test_helpers import create_test_module
        from gtirb_rewriting.assembler import Assembler

        _, m = create_test_module(gtirb.Module.FileFormat.ELF, gtirb.Module.ISA.X64)
        a = Assembler(m, implicit_cfi_procedure=True, allow_undef_symbols=True)
        a.assemble(asm)
        r = a.finalize()
        out = []
        for off, ds in r.create_cfi_directives().items():
            for d in ds:
                out.append([off.element_id.offset + off.displacement, "%s %s" % (d[0], "[" + ", ".join(str(x) for x in d[1]) + "]")])
        _cfi_cache[asm] = sorted(out)
    return _cfi_cache[asm]


def state_text(st):
    import props.c15 as c15  # noqa: F401 - reuse the canonical serialiser

    return json.dumps(c15._state_json(st, {}), sort_keys=True)


def rows_of(m, idm=None):
    """[[section, position, procedure index, state text, block id, displacement, has endproc], ...]
    in evaluation order, or an error string"""
    import gtirb
    from gtirb_rewriting._auxdata_offsetmap import cfi_directives
    from gtirb_rewriting.dwarf.cfi_eval import evaluate_cfi_directives

    rows = []
    try:
        table = cfi_directives.get(m) or {}
        base = {s: min((bi.address for bi in s.byte_intervals if bi.address is not None), default=0) for s in m.sections}
        proc = -1
        # layout order: the evaluator sorts by address only and keeps the caller's order among equals, so a
        # zero-sized block must be handed over before the block that starts at the same address
        blocks = sorted(m.code_blocks, key=lambda b: (b.address if b.address is not None else -1, b.size != 0, b.offset))
        for blk, off, st in evaluate_cfi_directives(m, blocks):
            names = [d[0] for d in table.get(blk, {}).get(off, [])]
            proc += names.count(".cfi_startproc")
            rows.append([blk.section.name, blk.address - base[blk.section] + off, proc if st is not None else -1,
                         state_text(st) if st is not None else "", idm.of(blk) if idm is not None else 0, off,
                         ".cfi_endproc" in names, ".cfi_startproc" in names])
    except Exception as e:  # noqa: BLE001
        return "%s: %s" % (type(e).__name__, str(e)[:100])
    return rows


def decorate(case, rng):
    """give some functions CFI procedures"""
    text = case["text"]
    funcs = {}
    for i, d in enumerate(text):
        if d["kind"] == "code" and d.get("func") is not None:
            funcs.setdefault(d["func"], []).append(i)
    for f, idxs in funcs.items():
        if rng.random() < 0.25:
            continue
        # a procedure must be a run of adjacent code blocks
        run = [idxs[0]]
        for i in idxs[1:]:
            # adjacent code blocks, or code blocks of the function separated by data only (a jump table, padding)
            if all(text[j]["kind"] == "data" for j in range(run[-1] + 1, i)):
                run.append(i)
            else:
                break
        depth = 8
        saved = False
        for n, i in enumerate(run):
            d = text[i]
            offs = emodify.block_layout(d)
            cfi = {}
            if n == 0:
                cfi.setdefault(0, []).append([".cfi_startproc", [], None])
                cfi.setdefault(0, []).append([".cfi_def_cfa", [7, 8], None])
            for k, ins in enumerate(d["insns"]):
                end = offs[k + 1]
                if ins[0] == "push" and rng.random() < 0.7:
                    depth += 8
                    cfi.setdefault(end, []).append([".cfi_def_cfa_offset", [depth], None] if rng.random() < 0.5 else [".cfi_adjust_cfa_offset", [8], None])
                    if rng.random() < 0.3:
                        cfi.setdefault(end, []).append([".cfi_offset", [6, -depth], None])
                elif ins[0] == "pop" and depth > 8 and rng.random() < 0.7:
                    depth -= 8
                    cfi.setdefault(end, []).append([".cfi_adjust_cfa_offset", [-8], None])
                elif ins[0] == "mov" and rng.random() < 0.15:
                    if not saved:
                        cfi.setdefault(end, []).append([".cfi_remember_state", [], None])
                        saved = True
                    else:
                        cfi.setdefault(end, []).append([".cfi_restore_state", [], None])
                        saved = False
            if n == len(run) - 1:
                cfi.setdefault(offs[-1], []).append([".cfi_endproc", [], None])
            d["cfi"] = sorted([k, v] for k, v in cfi.items())
    # the opening directives of a procedure may hang on the end of the previous code block (the same address):
    # the library itself produces this layout when it deletes the first block of a procedure
    for i in range(1, len(text)):
        d, p = text[i], text[i - 1]
        if d["kind"] == "code" and p["kind"] == "code" and d.get("cfi") and d["cfi"][0][0] == 0 \
                and d["cfi"][0][1][0][0] == ".cfi_startproc" and rng.random() < 0.3:
            opening = d["cfi"].pop(0)[1]
            end = emodify.block_layout(p)[-1]
            pc = dict((k, v) for k, v in (p.get("cfi") or []))
            pc.setdefault(end, []).extend(opening)
            p["cfi"] = sorted([k, v] for k, v in pc.items())
            if not d["cfi"]:
                del d["cfi"]
    return case


def check_case(ctx, case, pending):
    case = LE.strip_case(case)
    try:
        o = emodify.run_listing(json.loads(json.dumps(case)), pre=lambda B, idm: rows_of(B.m, idm))
    except Exception as e:  # noqa: BLE001
        ctx.count("harness-error")
        ctx.notes.append("harness could not run a case: %r" % (e,))
        return
    rows_b = o["pre"]
    if isinstance(rows_b, str):
        ctx.count("input-cfi-not-clean")
        return
    nedits = len(case.get("edits", []))
    nproc = len({r[2] for r in rows_b if r[2] >= 0})
    ctx.case(case, sample={"edits": case.get("edits", []), "procedures": nproc} if nedits else None,
             nontrivial=nedits > 0 and nproc > 0)
    ctx.count("procedures:%d" % min(nproc, 3))
    if o["err"] or o["edits"] is None:
        ctx.count("refused")
        return
    ctx.count("applied")
    rows_a = rows_of(o["B"].m)
    if isinstance(rows_a, str):
        ctx.violation("C08:" + (SIG_STARTPROC_SLID if startproc_slid(case) else "evaluation-fails-after-rewrite"),
                      "the CFI directives evaluated cleanly before the rewrite, afterwards: %s" % rows_a, case)
        return
    # the patches' own directives as written (the recorded patch may already have lost them)
    by_order = {i: e for i, e in enumerate(case.get("edits", []))}
    for led in o["edits"]:
        e = by_order[led["order"]]
        led["cfi"] = patch_cfi(e.get("asm", "")) if e["op"] != "delete" else []
    # a patch with directives of its own inserted exactly at a .cfi_startproc shares that location: the evaluator
    # takes every directive at the location of .cfi_startproc for the procedure's initial instructions (the CIE's),
    # so the patch's first directives become part of the "initial" row; only the current row is compared then
    flat = emodify.flat_of(case)
    at_start = any(e["op"] != "delete" and ".cfi" in e.get("asm", "") and any(
        k == e["off"] and any(x[0] == ".cfi_startproc" for x in ds) for k, ds in (flat[e["block"]].get("cfi") or []))
        for e in case.get("edits", []))
    if at_start:
        ctx.count("patch-cfi-at-startproc")

        def drop_initial(rows):
            out = []
            for r in rows:
                r = list(r)
                if r[3]:
                    st = json.loads(r[3])
                    st.pop("initial", None)
                    r[3] = json.dumps(st, sort_keys=True)
                out.append(r)
            return out

        rows_b, rows_a = drop_initial(rows_b), drop_initial(rows_a)
    directive_accounting(ctx, case, o)
    recs = [r for r in o["rec"].records if "after" in r and not r.get("raised")]
    pending.append((case, o, {"op": "cfi_check", "before": o["before"], "after": o["after"], "edits": o["edits"],
                              "nop": emodify.nop_bytes(case), "rows_before": rows_b, "rows_after": rows_a,
                              "insns": emodify.decode_insns(o["before"])}, recs))


STRUCTURAL = (".cfi_startproc", ".cfi_endproc", ".cfi_remember_state", ".cfi_restore_state")


def directive_accounting(ctx, case, o):
    """'deleting code drops only the directives that describe the deleted instructions': when no patch brings
    directives of its own, the ordinary directives (not startproc/endproc/remember/restore, not the initial
    instructions that share their location with a .cfi_startproc) after the rewrite are exactly those of before
    minus the ones attached behind a deleted or replaced instruction - as multisets, wherever they now sit"""
    if any(".cfi" in e.get("asm", "") for e in case.get("edits", [])):
        return

    def ordinary(dump, drop=None):
        out = []
        for b, k, ds in dump["aux"]["cfi"]:
            initial = False
            for d in ds:
                if d[0] == ".cfi_startproc":
                    initial = True           # what follows at this location is the procedure's initial state: it stays
                elif d[0] == ".cfi_endproc":
                    initial = False
                elif d[0] not in STRUCTURAL and not (drop and not initial and drop(b, k)):
                    out.append(json.dumps([d[0], d[1]]))
        return sorted(out)

    ranges = {}
    for led in o["edits"]:
        if led["del"]:
            ranges.setdefault(led["block"], []).append((led["off"], led["off"] + led["del"]))
    # a procedure that lies wholly inside a deleted stretch (adjacent ranges, also of adjacent blocks, count as one)
    # goes as a whole - startproc, endproc and all: not accounted here
    ivs = {i["id"]: i for i in o["before"]["intervals"]}
    addr = {b_["id"]: (ivs[b_["bi"]]["sect"], (ivs[b_["bi"]]["addr"] or 0) + b_["off"]) for b_ in o["before"]["blocks"] if b_["bi"] in ivs}
    stretches = []
    for (sect, lo, hi) in sorted((addr[b][0], addr[b][1] + s_, addr[b][1] + e_) for b, rs in ranges.items() if b in addr for s_, e_ in rs):
        if stretches and stretches[-1][0] == sect and lo <= stretches[-1][2]:
            stretches[-1][2] = max(stretches[-1][2], hi)
        else:
            stretches.append([sect, lo, hi])
    marks = [(addr[b][0], addr[b][1] + k, d[0]) for b, k, ds in o["before"]["aux"]["cfi"] if b in addr for d in ds if d[0] in (".cfi_startproc", ".cfi_endproc")]
    for sect, lo, hi in stretches:
        starts = [p_ for s_, p_, n in marks if s_ == sect and n == ".cfi_startproc" and lo <= p_ <= hi]
        ends = [p_ for s_, p_, n in marks if s_ == sect and n == ".cfi_endproc" and lo <= p_ <= hi]
        if any(e_ >= s_ for s_ in starts for e_ in ends):
            ctx.count("directive-accounting:skipped-whole-procedure")
            return
    want = ordinary(o["before"], lambda b, k: any(s < k <= e for s, e in ranges.get(b, [])))
    got = ordinary(o["after"])
    ctx.count("directive-accounting")
    if want != got:
        extra = [x for x in got if got.count(x) > want.count(x)]
        lost = [x for x in want if want.count(x) > got.count(x)]
        ctx.violation("C08:directive-accounting",
                      "ordinary CFI directives after the rewrite are not those of before minus the ones that described deleted "
                      "instructions: %s" % ("; ".join(filter(None, ["survived although their instruction was deleted: %s" % sorted(set(extra)) if extra else "",
                                                                    "lost although their instruction is still there: %s" % sorted(set(lost)) if lost else ""]))), case)


SIG_STARTPROC_SLID = "startproc-at-a-block-end-slides-behind-a-patch-when-the-block-tail-is-deleted-in-the-same-batch"


def startproc_slid(case):
    """finding: the end of a block carries a .cfi_startproc (the procedure begins with the next block), one request
    deletes or replaces the block's tail and another inserts a patch with directives of its own at that end"""
    text = emodify.flat_of(case)
    for i, d in enumerate(text):
        if d["kind"] != "code":
            continue
        size = emodify.block_size(d)
        if not any(k == size and any(x[0] == ".cfi_startproc" for x in ds) for k, ds in (d.get("cfi") or [])):
            continue
        mine = [e for e in case.get("edits", []) if e["block"] == i]
        if any(e.get("len") and e["off"] + e["len"] == size for e in mine) and any(
                e["op"] != "delete" and e["off"] + e.get("len", 0) == size and ".cfi" in e.get("asm", "") for e in mine):
            return True
    return False


SIG_BOUNDARY_CALL = "procedure-boundary-at-a-block-end-slides-behind-the-entry-patch-of-the-next-block-after-a-patch-ending-in-an-internal-call"


def boundary_after_call(case, issue):
    """finding: the end of a block carries '.cfi_endproc .cfi_startproc' (one procedure ends, the next begins with the
    next block), a patch whose last instruction calls a function of the module is inserted at that end, and another
    patch is inserted at offset 0 of the next block"""
    if issue["kind"] not in ("patch-state", "patch-coverage", "patch-directive"):
        return False
    text = emodify.flat_of(case)
    internal = {y["name"] for d in text if d["kind"] == "code" for y in d["syms"] if not y.get("at_end")}
    for i, d in enumerate(text):
        if d["kind"] != "code" or i + 1 >= len(text) or text[i + 1]["kind"] != "code" or text[i + 1].get("_sect") != d.get("_sect"):
            continue
        size = emodify.block_size(d)
        if not any(k == size and {".cfi_endproc", ".cfi_startproc"} <= {x[0] for x in ds} for k, ds in (d.get("cfi") or [])):
            continue
        def last_call(asm):
            lines = [l.split() for l in (asm or "").splitlines() if l.strip() and not l.strip().startswith(".") and not l.strip().endswith(":")]
            return bool(lines) and lines[-1][0] == "call" and len(lines[-1]) == 2 and lines[-1][1] in internal
        at_end = any(e["block"] == i and e["op"] != "delete" and e["off"] + e.get("len", 0) == size and last_call(e.get("asm")) for e in case.get("edits", []))
        entry = any(e["block"] == i + 1 and e["op"] == "insert" and e["off"] == 0 for e in case.get("edits", []))
        if at_end and entry:
            return True
    return False


def end_of_procedure(case, o, issue):
    """finding: the patch sits exactly on a .cfi_endproc"""
    if issue["kind"] != "patch-directive":
        return False
    text = emodify.flat_of(case)
    for e in case.get("edits", []):
        d = text[e["block"]]
        if ".cfi" in e.get("asm", "") and any(k == e["off"] and any(x[0] == ".cfi_endproc" for x in ds) for k, ds in d.get("cfi", [])):
            return True
    return False


def flush(ctx, pending):
    if not pending or not ctx.driver_ok:
        pending.clear()
        return
    import irdump

    try:
        ans = ask_driver([p[2] for p in pending])
        corr = ask_driver([{"op": "ir_op", "ir": r["before"], "do": r["do"]} for p in pending for r in p[3]])
    except Exception as e:  # noqa: BLE001
        ctx.driver_ok = False
        ctx.notes.append("driver failure: %r" % (e,))
        pending.clear()
        return
    k = 0
    for case, o, _, recs in pending:
        for r in recs:
            m = corr[k]
            k += 1
            ctx.count("corr:" + r["do"]["kind"])
            if "ir" not in m:
                ctx.mismatch("model refuses %s that the code performs: %s" % (r["do"]["kind"], m.get("err")), case)
                continue
            ca, _ = irdump.canon(r["after"])
            cm, _ = irdump.canon(m["ir"])
            if ca != cm:
                ctx.mismatch("IR after %s differs between code and model at %s" % (r["do"]["kind"], irdump.diff_paths(ca, cm)[:4]), case)
    for (case, o, _, _), a in zip(pending, ans):
        if "C08" not in a:
            ctx.mismatch("the CFI specification could not be evaluated: %s" % (a.get("err"),), case)
            continue
        for issue in a["C08"]:
            ctx.count("issue:" + issue["kind"])
            for e in case.get("edits", []):
                if e.get("_tail"):
                    ctx.count("issue-with:" + e["_tail"])
            sig = "C08:" + (SIG_END_OF_PROC if end_of_procedure(case, o, issue) else SIG_STARTPROC_SLID if startproc_slid(case)
                            else SIG_BOUNDARY_CALL if boundary_after_call(case, issue) else issue["kind"])
            ctx.violation(sig, issue["msg"], case)
    pending.clear()


TAIL_PATCHES = [
    # the closing directive stands behind the patch's last instruction, a jump: it describes the code that follows
    ("tail", "pushq %%rax\n.cfi_adjust_cfa_offset 8\njmp %s\n.cfi_adjust_cfa_offset -8"),
    # ... the same with a label behind it
    ("tail-label", "testq %%rdi, %%rdi\nje .Lskip\npushq %%rax\n.cfi_adjust_cfa_offset 8\njmp %s\n.cfi_adjust_cfa_offset -8\n.Lskip:"),
    # ... with a label behind it that nothing refers to (the empty block that carries the directive is merged into
    # the label's block)
    ("tail-unreferenced-label", "pushq %%rax\n.cfi_adjust_cfa_offset 8\njmp %s\n.cfi_adjust_cfa_offset -8\n.Lend:"),
    ("tail-two-unreferenced-labels", "pushq %%rax\n.cfi_adjust_cfa_offset 8\njmp %s\n.cfi_adjust_cfa_offset -8\n.Lend:\n.Lend2:"),
    # an early exit: the state is restored behind a return, in front of a label nothing refers to
    ("early-exit", ".cfi_remember_state\ntestq %%rdi, %%rdi\njne .Lgo\n.cfi_def_cfa_offset 8\njmp %s\n.Lgo:\n.cfi_restore_state\n.Lafter:"),
    # directives between two labels at the head of the patch
    ("head-labels", ".cfi_remember_state\n.La:\n.cfi_def_cfa_offset 32\n.Lb:\nnop\n.cfi_restore_state"),
]


def tail_patch(case, rng):
    """a patch with balanced CFI whose directives stand on empty blocks of the assembled patch"""
    text = case["text"]
    inside = [i for i, d in enumerate(text) if d["kind"] == "code" and d.get("cfi") and d["insns"]
              and not any(e["block"] == i for e in case["edits"])]
    labels = [y["name"] for d in text if d["kind"] == "code" for y in d["syms"] if not y["at_end"]]
    if not inside or not labels:
        return case
    i = rng.choice(inside)
    offs = emodify.block_layout(text[i])
    kind, asm = TAIL_PATCHES[rng.randrange(len(TAIL_PATCHES))]
    case["edits"].append({"op": "insert", "block": i, "off": rng.choice(offs[1:-1] or offs[:1]),
                          "asm": asm % rng.choice(labels) if "%s" in asm else asm, "_tail": kind})
    return case


def cold_block(rng):
    """a procedure whose last block stands alone between data (a cold part behind a jump table): it is deleted whole,
    with or without retarget_to_proxy; the .cfi_endproc it carries has to survive somewhere"""
    n1 = rng.randint(1, 3)
    text = [
        {"kind": "code", "func": 0, "entry": True, "insns": [["push"]] * n1 + [["jmp", "cold"]], "syms": [{"name": "f", "at_end": False}],
         "cfi": [[0, [[".cfi_startproc", [], None], [".cfi_def_cfa", [7, 8], None]]]]},
        {"kind": "data", "bytes": [rng.randrange(256) for _ in range(rng.choice([4, 8]))], "syms": [{"name": "tbl", "at_end": False}]},
        {"kind": "code", "func": 0, "insns": [["nop"]] * rng.randint(1, 2) + [["ret"]], "syms": [{"name": "cold", "at_end": False}]},
        {"kind": "data", "bytes": [0] * rng.choice([1, 3]), "syms": []},
        {"kind": "code", "func": 1, "entry": True, "insns": [["nop"], ["ret"]], "syms": [{"name": "g", "at_end": False}],
         "cfi": [[0, [[".cfi_startproc", [], None], [".cfi_def_cfa", [7, 8], None]]], [2, [[".cfi_endproc", [], None]]]]},
    ]
    text[2]["cfi"] = [[emodify.block_size(text[2]), [[".cfi_endproc", [], None]]]]
    if rng.random() < 0.3:
        text.pop(3)
    edits = [{"op": "delete", "block": 2, "off": 0, "len": emodify.block_size(text[2]), "proxy": rng.random() < 0.6}]
    return {"isa": "X64", "ff": "ELF", "text": text, "externs": ["ext_a"], "edits": edits}


def first_block_deleted(rng):
    """the first block of a procedure carries, behind its .cfi_startproc group, directives that describe its own
    instructions; the block is deleted whole: those go with it, the startproc group moves on"""
    k = rng.randint(1, 2)
    b1 = {"kind": "code", "func": 0, "entry": True, "insns": [["push"]] * k + [["nop"]], "syms": [{"name": "f", "at_end": False}],
          "cfi": [[0, [[".cfi_startproc", [], None], [".cfi_def_cfa", [7, 8], None]]]] +
                 [[i + 1, [[rng.choice([".cfi_def_cfa_offset", ".cfi_adjust_cfa_offset"]), [8 * (i + 2)] if False else [8], None]]] for i in range(k)]}
    # offsets: push is one byte; normalise the directive names/args so that they evaluate (adjust by 8 per push)
    b1["cfi"] = [b1["cfi"][0]] + [[i + 1, [[".cfi_adjust_cfa_offset", [8], None]]] for i in range(k)]
    b2 = {"kind": "code", "func": 0, "insns": [["nop"], ["ret"]], "syms": [{"name": "f2", "at_end": False}],
          "cfi": [[2, [[".cfi_endproc", [], None]]]]}
    text = [b1, b2, {"kind": "code", "func": 1, "entry": True, "insns": [["ret"]], "syms": [{"name": "g", "at_end": False}]}]
    edits = [{"op": "delete", "block": 0, "off": 0, "len": emodify.block_size(b1)}]
    if rng.random() < 0.3:
        edits.append({"op": "insert", "block": 1, "off": 1, "asm": "nop"})
    return {"isa": "X64", "ff": "ELF", "text": text, "externs": ["ext_a"], "edits": edits}


def run(ctx):
    import glob
    import os

    pending = []
    # minimized past failures first
    for f in sorted(glob.glob(os.path.join(os.path.dirname(os.path.dirname(os.path.dirname(os.path.abspath(__file__)))), "corpus", "c08", "*.json"))):
        ctx.count("corpus")
        check_case(ctx, json.load(open(f)), pending)
    for _ in range(ctx.budget(30, 600)):
        ctx.count("cold-block")
        check_case(ctx, cold_block(ctx.rng), pending)
    for _ in range(ctx.budget(20, 400)):
        ctx.count("first-block-of-a-procedure-deleted")
        check_case(ctx, first_block_deleted(ctx.rng), pending)
    for _ in range(ctx.budget(1500, 40000)):
        case = decorate(emodify.gen_case(ctx.rng), ctx.rng)
        if ctx.rng.random() < 0.12:
            case = tail_patch(case, ctx.rng)
            for e in case["edits"]:
                if e.get("_tail"):
                    ctx.count("cfi-on-empty-patch-block:" + e["_tail"])
        check_case(ctx, case, pending)
        if len(pending) >= 300:
            flush(ctx, pending)
    flush(ctx, pending)


def replay(ctx, payload):
    pending = []
    check_case(ctx, payload.get("case", payload), pending)
    flush(ctx, pending)
