"""
C14 — DWARF expression/CFI encodings round-trip and match the standard.

Real code: gtirb_rewriting.dwarf.{_encoders,_encodable,expr,cfi} (+ leb128).
Model: lean/GtirbVerif/Model/Dwarf/*, tables regenerated into Gen/DwarfTables.
Spec: round trip (checked directly on the real objects), DWARF v4 tables
(Spec/DwarfStd.lean, via the driver's `std_enc` / `gas_enc`), ValueError on
out-of-range operands, make_const_op minimality.
"""
import io
import itertools

from common import ask_driver

GEN = ["dwarf"]
SOURCES = ["dwarf/_encoders.py", "dwarf/_encodable.py", "dwarf/expr.py", "dwarf/cfi.py", "dwarf/dwarf2.py"]
RULE = (
    "every concrete operation/instruction class x operand values at, just inside and just "
    "beyond every range boundary and powers of two +-1 (one field varied at a time, plus seeded "
    "random combinations, nested expressions), x {little,big} x ptr in {4,8}; all 256 first bytes "
    "with seeded tails (also truncated); make_const_op on all boundaries and seeded values; a case "
    "is distinct by (class, operands, byteorder, ptr) or (bytes, byteorder, ptr); all are non-trivial "
    "except exact duplicates"
    "; make_const_op on every power of two up to 2^65 and its neighbours, both signs"
)
ASSUMPTIONS = [
    "leb128 package and int.to_bytes/from_bytes are exercised through the real code; their Lean models are tied by the same correspondence",
    "DWARF v4 Figure 24/40 transcribed by hand into Spec/DwarfStd.lean",
]
TRUSTED = ["GNU as semantics of the operand-preserving CFI directives (Spec/DwarfStd.gasDirect)"]


def _exc_name(e):
    if isinstance(e, ValueError):
        return "ValueError"
    if isinstance(e, EOFError):
        return "EOFError"
    return "Other:" + type(e).__name__


def _interesting_ints(rng, n_random):
    vals = {0, 1, -1, 2, -2, 31, 32, 63, 64, -64, -65, 127, 128, -128, -129, 255, 256}
    for k in range(0, 66):        # every power of two: the LEB128 and fixed-width forms change length at different ones
        for d in (-1, 0, 1):
            vals.add(2**k + d)
            vals.add(-(2**k) + d)
    for _ in range(n_random):
        bits = rng.choice((3, 6, 7, 8, 13, 14, 15, 16, 20, 21, 27, 28, 31, 32, 40, 48, 56, 62, 63, 64, 65, 70))
        v = rng.getrandbits(bits)
        vals.add(v if rng.random() < 0.6 else -v)
    return sorted(vals)


def _field_values(enc, rng, pool):
    from gtirb_rewriting.dwarf import _encoders as E

    if isinstance(enc, E._AddToOpcodeEncoder):
        b = enc.upper_bound
        return [0, 1, b // 2, b - 1, b, -1, b + 5]
    if isinstance(enc, E._IntEncoder):
        bits = enc.byte_size * 8
        if enc.signed:
            return [0, 1, -1, 2 ** (bits - 1) - 1, 2 ** (bits - 1), -(2 ** (bits - 1)), -(2 ** (bits - 1)) - 1, 2**bits - 1] + rng.sample(pool, 4)
        return [0, 1, -1, 2**bits - 1, 2**bits, 2 ** (bits - 1), 2 ** (bits - 1) - 1] + rng.sample(pool, 4)
    if isinstance(enc, E._UIntPtrEncoder):
        return [0, 1, -1, 2**32 - 1, 2**32, 2**64 - 1, 2**64, 2**31] + rng.sample(pool, 4)
    return None  # LEB / expr: from the pool


def _obj_json(obj):
    from gtirb_rewriting.dwarf.expr import Operation
    import dataclasses

    args = []
    for f in dataclasses.fields(obj):
        v = getattr(obj, f.name)
        if isinstance(v, list):
            args.append({"expr": [_obj_json(o) for o in v]})
        else:
            args.append(v)
    return {"cls": type(obj).__name__, "args": args}


def _args_json(args):
    out = []
    for a in args:
        if isinstance(a, list):
            out.append({"expr": [_obj_json(o) for o in a]})
        else:
            out.append(a)
    return out


class Runner:
    def __init__(self, ctx):
        self.ctx = ctx
        self.reqs = []  # (request, callback)

    def ask(self, req, cb):
        self.reqs.append((req, cb))

    def flush(self):
        if not self.reqs:
            return
        if self.ctx.driver_ok:
            answers = ask_driver([r for r, _ in self.reqs])
            for (r, cb), a in zip(self.reqs, answers):
                if isinstance(a, dict) and str(a.get("err", "")).startswith("PROTOCOL"):
                    self.ctx.mismatch("driver protocol error: %s" % a["err"], r)
                else:
                    cb(a)
        self.reqs = []


def _families():
    from gtirb_rewriting.dwarf import cfi, dwarf2, expr
    from gtirb_rewriting.dwarf._encodable import _OpcodeEncodable

    fams = {}
    for key, enum, base in (("expr", dwarf2.ExpressionOperations, expr.Operation), ("cfi", dwarf2.CallFrameInstructions, cfi.Instruction)):
        st = _OpcodeEncodable._per_type_storage[enum]
        classes = []
        for b, c in sorted(st.opcodes.items()):
            if c not in classes:
                classes.append(c)
        fams[key] = (base, classes)
    return fams


def _random_expr(rng, ops_classes, pool, maxlen=3):
    from gtirb_rewriting.dwarf import cfi

    out = []
    # now and then an expression of 128 bytes or more: its length prefix is a multi-byte ULEB128
    n = rng.randint(70, 160) if rng.random() < 0.08 else rng.randint(0, maxlen)
    for _ in range(n):
        for _try in range(10):
            c = rng.choice(ops_classes)
            args = []
            for f, e in c._fields_and_encoders():
                vals = _field_values(e, rng, pool) or pool
                args.append(rng.choice(vals))
            try:
                out.append(c(*args))
                break
            except ValueError:
                continue
    return out


def check_object(R, fam, base, cls, args, bo, ptr, tail):
    """One (class, operands, byteorder, ptr) case through construct / encode /
    decode on the real code, the model and the spec."""
    ctx = R.ctx
    argsj = _args_json(args)
    case = {"fam": fam, "cls": cls.__name__, "args": argsj, "bo": bo, "ptr": ptr, "tail": tail}
    ctx.case(("obj", fam, cls.__name__, argsj, bo, ptr), sample=case)
    objj = {"cls": cls.__name__, "args": argsj}
    # construction
    try:
        obj = cls(*args)
        built = "ok"
    except Exception as e:  # noqa: BLE001
        obj = None
        built = _exc_name(e)
    ctx.count("construct:" + built)

    def cb_validate(a, built=built):
        m = "ok" if a.get("ok") else a.get("err")
        if m != built:
            ctx.mismatch("construction: impl %s, model %s" % (built, m), case)

    R.ask({"op": "validate", "fam": fam, "obj": objj}, cb_validate)
    if built not in ("ok", "ValueError"):
        ctx.violation("C14:construct-raises-" + built, "constructing %s%r raises %s (only ValueError is allowed for unrepresentable operands)" % (cls.__name__, tuple(argsj), built), case)
    if obj is None:
        return
    # encode
    try:
        enc = bytes(obj.encode(bo, ptr))
        encr = "ok"
    except Exception as e:  # noqa: BLE001
        enc = None
        encr = _exc_name(e)
    ctx.count("encode:" + encr)
    if encr not in ("ok", "ValueError"):
        ctx.violation("C14:encode-raises-" + encr, "%s%r.encode(%s,%d) raises %s" % (cls.__name__, tuple(argsj), bo, ptr, encr), case)

    def cb_enc(a):
        m = "ok" if "bytes" in a else a.get("err")
        if m != encr or (enc is not None and list(enc) != a.get("bytes")):
            ctx.mismatch("encode: impl %s %s, model %s" % (encr, list(enc) if enc else None, a), case)

    R.ask({"op": "enc", "fam": fam, "bo": bo, "ptr": ptr, "obj": objj}, cb_enc)

    def cb_std(a):
        # SPEC: the bytes the DWARF standard prescribes for this class/operands
        if a.get("err") == "NOT-IN-STANDARD-TABLE":
            ctx.mismatch("class %s is not in the hand-written standard table" % cls.__name__, case)
            return
        m = "ok" if "bytes" in a else a.get("err")
        if enc is not None and m == "ok" and list(enc) != a["bytes"]:
            ctx.violation("C14:bytes-differ-from-standard:" + cls.__name__, "%s%r encodes to %s, the standard prescribes %s" % (cls.__name__, tuple(argsj), list(enc), a["bytes"]), case)
        elif enc is not None and m == "ValueError":
            ctx.violation("C14:out-of-range-accepted:" + cls.__name__, "%s%r is outside the operand range but encodes to %s (silent truncation)" % (cls.__name__, tuple(argsj), list(enc)), case)
        elif enc is None and m == "ok" and encr == "ValueError":
            ctx.violation("C14:in-range-rejected:" + cls.__name__, "%s%r is representable (standard: %s) but is rejected" % (cls.__name__, tuple(argsj), a["bytes"]), case)

    R.ask({"op": "std_enc", "fam": fam, "bo": bo, "ptr": ptr, "obj": objj}, cb_std)
    if enc is None:
        return
    # decode (round trip, directly on the real code)
    data = enc + bytes(tail)
    try:
        back, n = base.decode(io.BytesIO(data), bo, ptr)
        if back != obj or type(back) is not type(obj) or n != len(enc):
            ctx.violation("C14:roundtrip:" + cls.__name__, "decode(encode(x)) = %s consumed %d; x = %s, %d bytes" % (repr(back)[:300], n, repr(obj)[:300], len(enc)), case)
        dec = {"obj": _obj_json(back), "k": n}
    except Exception as e:  # noqa: BLE001
        dec = {"err": _exc_name(e)}
        ctx.violation("C14:roundtrip-raises:" + cls.__name__, "decode(encode(%r)) raises %s" % (obj, _exc_name(e)), case)

    def cb_dec(a):
        if a != dec:
            ctx.mismatch("decode: impl %s, model %s" % (dec, a), case)

    R.ask({"op": "dec", "fam": fam, "bo": bo, "ptr": ptr, "bytes": list(data)}, cb_dec)
    # directive form
    if fam == "cfi":
        try:
            d, operands, _ = obj.gtirb_encoding(bo, ptr)
            gt = {"directive": d, "operands": list(operands)}
        except Exception as e:  # noqa: BLE001
            gt = {"err": _exc_name(e)}

        def cb_ops(a):
            if a != gt:
                ctx.mismatch("gtirb_encoding: impl %s, model %s" % (gt, a), case)

        R.ask({"op": "operands", "bo": bo, "ptr": ptr, "obj": objj}, cb_ops)
        if "err" not in gt:
            def cb_gas(a):
                if a.get("bytes") != list(enc):
                    ctx.violation("C14:directive-form:" + cls.__name__, "%s %s re-encodes (GNU as) to %s, encode() gives %s" % (gt["directive"], gt["operands"], a, list(enc)), case)

            R.ask({"op": "gas_enc", "bo": bo, "ptr": ptr, "directive": gt["directive"], "operands": gt["operands"]}, cb_gas)
        # an instruction object is mutable: rendered once with other operands, changed (fields assigned, expression
        # lists edited in place), rendered again - what is handed to GTIRB is the form of the operands it has *now*
        import copy
        import dataclasses

        try:
            # a fresh object with the same operands, never rendered so far
            other = cls(*copy.deepcopy(list(args))) if dataclasses.is_dataclass(obj) and "err" not in gt and dataclasses.fields(obj) else None
            for f in (dataclasses.fields(obj) if other is not None else []):
                copy.deepcopy(getattr(obj, f.name))
        except Exception:  # noqa: BLE001  (operations that cannot be copied)
            other = None
        if other is not None:
            for f in dataclasses.fields(other):
                v = getattr(other, f.name)
                if isinstance(v, bool):
                    continue
                if isinstance(v, int):
                    setattr(other, f.name, v + 1 if v % 2 == 0 else v - 1)
                elif isinstance(v, list):
                    if v:
                        v.pop()
                    else:
                        continue
            try:
                other.gtirb_encoding(bo, ptr)        # rendered in this configuration with the other operands
            except Exception:  # noqa: BLE001
                pass
            try:
                for f in dataclasses.fields(obj):
                    new = copy.deepcopy(getattr(obj, f.name))
                    old = getattr(other, f.name)
                    if isinstance(old, list) and isinstance(new, list):
                        old[:] = new                 # edited in place
                    else:
                        setattr(other, f.name, new)
                d2, ops2, _ = other.gtirb_encoding(bo, ptr)
                again = {"directive": d2, "operands": list(ops2)}
            except Exception as e:  # noqa: BLE001
                again = {"err": _exc_name(e)}
            ctx.count("rendered-again-after-a-change")
            if other == obj and again != gt:
                ctx.violation("C14:stale-rendering:" + cls.__name__, "%s rendered with other operands, changed to %r and rendered again gives %s; a fresh object with these operands gives %s"
                              % (cls.__name__, tuple(argsj), again, gt), case)


def check_decode_bytes(R, fam, base, data, bo, ptr):
    ctx = R.ctx
    case = {"fam": fam, "bytes": list(data), "bo": bo, "ptr": ptr}
    ctx.case(("dec", fam, list(data), bo, ptr), sample=case)
    try:
        back, n = base.decode(io.BytesIO(bytes(data)), bo, ptr)
        dec = {"obj": _obj_json(back), "k": n}
        ctx.count("decode:ok")
    except Exception as e:  # noqa: BLE001
        dec = {"err": _exc_name(e)}
        ctx.count("decode:" + dec["err"])
        if dec["err"].startswith("Other"):
            ctx.violation("C14:decode-raises-" + dec["err"], "decode of %s raises %s" % (list(data), dec["err"]), case)

    def cb(a):
        if a != dec:
            ctx.mismatch("decode(bytes): impl %s, model %s" % (dec, a), case)

    R.ask({"op": "dec", "fam": fam, "bo": bo, "ptr": ptr, "bytes": list(data)}, cb)


def check_leb_and_ints(R, pool):
    import leb128
    from gtirb_rewriting.dwarf import _encoders as E

    ctx = R.ctx
    for v in pool:
        if v >= 0:
            enc = list(E._ULEB128Encoder().encode(v, "little", 8))
            ctx.case(("uleb", v))
            R.ask({"op": "uleb_enc", "v": v}, lambda a, enc=enc, v=v: a.get("bytes") == enc or ctx.mismatch("uleb_enc %d: impl %s model %s" % (v, enc, a), {"v": v}))
        enc = list(E._SLEB128Encoder().encode(v, "little", 8))
        ctx.case(("sleb", v))
        R.ask({"op": "sleb_enc", "v": v}, lambda a, enc=enc, v=v: a.get("bytes") == enc or ctx.mismatch("sleb_enc %d: impl %s model %s" % (v, enc, a), {"v": v}))
    for n, signed in itertools.product((1, 2, 4, 8), (False, True)):
        e = E._IntEncoder(n, signed)
        for bo in ("little", "big"):
            for v in pool:
                ctx.case(("int", n, signed, bo, v))
                try:
                    e.validate(v, None)
                    ok = True
                except ValueError:
                    ok = False
                lo, hi = (-(2 ** (8 * n - 1)), 2 ** (8 * n - 1)) if signed else (0, 2 ** (8 * n))
                if ok != (lo <= v < hi):
                    ctx.violation("C14:int-validate-range", "_IntEncoder(%d, signed=%s).validate(%d) %s but the representable range is [%d, %d)" % (n, signed, v, "accepts" if ok else "rejects", lo, hi), {"n": n, "signed": signed, "bo": bo, "v": v})
                if ok:
                    try:
                        b = list(e.encode(v, bo, 8))
                        back, k = e.decode(io.BytesIO(bytes(b) + b"\x55"), bo, 8)
                        if back != v or k != n or len(b) != n:
                            ctx.violation("C14:int-roundtrip", "int codec %d/%s/%s: %d -> %s -> %d" % (n, signed, bo, v, b, back), {"n": n, "signed": signed, "bo": bo, "v": v})
                        res = {"bytes": b}
                    except Exception as ex:  # noqa: BLE001
                        res = {"err": _exc_name(ex)}
                        ctx.violation("C14:int-encode-raises", "int codec %d/%s/%s: validated value %d but encode raises %s" % (n, signed, bo, v, _exc_name(ex)), {"n": n, "signed": signed, "bo": bo, "v": v})
                else:
                    res = {"err": "OverflowError"}
                R.ask({"op": "int_enc", "n": n, "signed": signed, "bo": bo, "v": v}, lambda a, res=res, c=(n, signed, bo, v): a == res or ctx.mismatch("int_enc %s: impl %s model %s" % (c, res, a), {"case": c}))
            # short reads
            for ln in range(0, n + 1):
                data = [ctx.rng.randrange(256) for _ in range(ln)]
                try:
                    back, k = e.decode(io.BytesIO(bytes(data)), bo, 8)
                    res = {"v": back, "k": k}
                except Exception as ex:  # noqa: BLE001
                    res = {"err": _exc_name(ex)}
                R.ask({"op": "int_dec", "n": n, "signed": signed, "bo": bo, "bytes": data}, lambda a, res=res, c=(n, signed, bo, data): a == res or ctx.mismatch("int_dec %s: impl %s model %s" % (c, res, a), {"case": c}))


def check_make_const(R, pool):
    from gtirb_rewriting.dwarf import expr

    ctx = R.ctx
    consts = [c for c in (expr.OpLit, expr.OpConst1U, expr.OpConst1S, expr.OpConst2U, expr.OpConst2S, expr.OpConst4U, expr.OpConst4S, expr.OpConst8U, expr.OpConst8S, expr.OpConstU, expr.OpConstS)]
    for v in pool:
        case = {"make_const_op": v}
        ctx.case(("const", v), sample=case if abs(v) > 1000 else None)
        try:
            op = expr.make_const_op(v)
            res = {"cls": type(op).__name__}
        except Exception as e:  # noqa: BLE001
            op = None
            res = {"err": _exc_name(e)}
        in_dom = -(2**63) <= v < 2**64
        if op is None:
            if in_dom or res["err"] != "ValueError":
                ctx.violation("C14:make_const-fails", "make_const_op(%d) raises %s" % (v, res["err"]), case)
        else:
            if not in_dom:
                ctx.violation("C14:make_const-accepts-out-of-range", "make_const_op(%d) = %r" % (v, op), case)
            if op.value != v:
                ctx.violation("C14:make_const-wrong-value", "make_const_op(%d) = %r" % (v, op), case)
            try:
                mine = len(op.encode("little", 8))
                back, _ = expr.Operation.decode(io.BytesIO(bytes(op.encode("little", 8))), "little", 8)
                if back.value != v:
                    ctx.violation("C14:make_const-wrong-value", "make_const_op(%d) decodes to %r" % (v, back), case)
                res["size"] = mine
                for c in consts:
                    try:
                        alt = c(v)
                        ln = len(alt.encode("little", 8))
                    except ValueError:
                        continue
                    if ln < mine:
                        ctx.violation("C14:make_const-not-shortest", "make_const_op(%d) = %r (%d bytes) but %r takes %d" % (v, op, mine, alt, ln), case)
            except Exception as e:  # noqa: BLE001
                ctx.violation("C14:make_const-unencodable", "make_const_op(%d) = %r cannot be encoded: %s" % (v, op, e), case)

        def cb(a, res=res, case=case):
            if a != res:
                ctx.mismatch("make_const_op: impl %s, model %s" % (res, a), case)

        R.ask({"op": "make_const", "v": v}, cb)


def run(ctx):
    from gtirb_rewriting.dwarf import cfi as cfimod

    rng = ctx.rng
    R = Runner(ctx)
    fams = _families()
    pool = _interesting_ints(rng, ctx.budget(150, 3000))
    small_pool = [v for v in pool if abs(v) < 2**70]
    check_leb_and_ints(R, small_pool)
    check_make_const(R, sorted(set(pool + [-(2**63) - 1, -(2**63), 2**64 - 1, 2**64] + list(range(-130, 300)))))
    R.flush()
    op_classes = fams["expr"][1]
    for fam, (base, classes) in fams.items():
        for cls in classes:
            fes = list(cls._fields_and_encoders())
            cands = []
            for f, e in fes:
                if isinstance(e, cfimod._ExprEncoder):
                    cands.append([[], _random_expr(rng, op_classes, small_pool), _random_expr(rng, op_classes, small_pool, 6)])
                else:
                    cands.append(_field_values(e, rng, small_pool) or rng.sample(small_pool, min(len(small_pool), ctx.budget(24, 200))) + [0, -1, 127, 128])
            argsets = []
            if not fes:
                argsets.append(())
            else:
                base_args = [c[0] for c in cands]
                for i, c in enumerate(cands):
                    for v in c:
                        a = list(base_args)
                        a[i] = v
                        argsets.append(tuple(a))
                for _ in range(ctx.budget(10, 200)):
                    argsets.append(tuple(rng.choice(c) for c in cands))
            for args in argsets:
                for bo in ("little", "big"):
                    for ptr in (4, 8):
                        tail = [rng.randrange(256) for _ in range(rng.choice((0, 1, 3)))]
                        check_object(R, fam, base, cls, list(args), bo, ptr, tail)
            R.flush()
        # all 256 first bytes with random / truncated tails
        for b in range(256):
            for _ in range(ctx.budget(3, 40)):
                tail = [rng.randrange(256) for _ in range(rng.choice((0, 0, 1, 2, 5, 12)))]
                if rng.random() < 0.3:
                    tail = [x | 0x80 for x in tail]  # unterminated LEB
                check_decode_bytes(R, fam, base, [b] + tail, rng.choice(("little", "big")), rng.choice((4, 8)))
        R.flush()
    # parse_cfi_instructions inverts concatenation
    base, classes = fams["cfi"]
    expr_classes = [c for c in classes if any(isinstance(e, cfimod._ExprEncoder) for _, e in c._fields_and_encoders())]
    nparse = ctx.budget(150, 3000)
    for it in range(nparse):
        insts = []
        # every instruction class that carries a nested expression gets, in turn, one of 128 bytes or more (a
        # multi-byte length prefix), followed by further instructions
        force_long = expr_classes[it % len(expr_classes)] if expr_classes and it < 4 * len(expr_classes) else None
        for _k in range(rng.randint(2, 6) if force_long else rng.randint(0, 6)):
            for _try in range(20):
                c = force_long if (force_long and _k == 0) else rng.choice(classes)
                args = []
                for f, e in c._fields_and_encoders():
                    if isinstance(e, cfimod._ExprEncoder):
                        if force_long and _k == 0:
                            long_expr, nbytes = [], 0
                            while nbytes < 130:
                                for o in _random_expr(rng, op_classes, small_pool, 6):
                                    try:
                                        nbytes += len(bytes(o.encode("little", 4)))
                                        long_expr.append(o)
                                    except ValueError:
                                        pass        # an operand that does not fit a 4-byte pointer: leave it out
                            args.append(long_expr)
                            continue
                        args.append(_random_expr(rng, op_classes, small_pool))
                    else:
                        args.append(rng.choice(_field_values(e, rng, small_pool) or small_pool))
                try:
                    o = c(*args)
                    o.encode("little", 4)
                    insts.append(o)
                    break
                except ValueError:
                    continue
        bo = rng.choice(("little", "big"))
        ptr = rng.choice((4, 8))
        try:
            data = b"".join(bytes(i.encode(bo, ptr)) for i in insts)
        except ValueError:
            continue
        case = {"parse": [_obj_json(i) for i in insts], "bo": bo, "ptr": ptr}
        ctx.case(("parse", case["parse"], bo, ptr), sample=case if len(insts) > 2 else None)
        try:
            back = list(cfimod.parse_cfi_instructions(data, bo, ptr))
            res = {"objs": [_obj_json(i) for i in back]}
            if back != insts:
                ctx.violation("C14:parse-inverts-concat", "parse(concat(encode)) = %s, expected %s" % (repr(back)[:300], repr(insts)[:300]), case)
        except Exception as e:  # noqa: BLE001
            res = {"err": _exc_name(e)}
            ctx.violation("C14:parse-raises", "parse(concat(encode(%r))) raises %s" % (insts, res["err"]), case)

        def cb(a, res=res, case=case):
            if a != res:
                ctx.mismatch("parse: impl %s, model %s" % (res, a), case)

        R.ask({"op": "parse", "bo": bo, "ptr": ptr, "bytes": list(data)}, cb)
    R.flush()


def replay(ctx, payload):
    """Re-run one recorded case."""
    case = payload.get("case", payload)
    fams = _families()
    R = Runner(ctx)
    if "make_const_op" in case:
        check_make_const(R, [case["make_const_op"]])
    elif "cls" in case:
        base, classes = fams[case["fam"]]
        cls = next(c for c in classes if c.__name__ == case["cls"])
        args = [_args_from_json(a, fams) for a in case["args"]]
        check_object(R, case["fam"], base, cls, args, case["bo"], case["ptr"], case.get("tail", []))
    elif "bytes" in case:
        base, _ = fams[case["fam"]]
        check_decode_bytes(R, case["fam"], base, case["bytes"], case["bo"], case["ptr"])
    R.flush()


def _args_from_json(a, fams):
    if isinstance(a, dict):
        ops = []
        for o in a["expr"]:
            cls = next(c for c in fams["expr"][1] if c.__name__ == o["cls"])
            ops.append(cls(*o["args"]))
        return ops
    return a
