"""
C02 — symbols keep designating the same place in the edited listing.

Specification: Spec/ListingCheck.lean `checkLabels` on the real before/after dumps.
Model: Model/IR/*.lean (split / join / remove retargeting).  Theorems: Props/C02.lean.
"""
import listing_engine as LE

GEN = []
SOURCES = ["_modify/split.py", "_modify/join.py", "_modify/remove.py", "_modify/cache.py", "_modify/edit.py"]
RULE = (
    "same generated modules and request sets as C01 (start-of-block and end-of-block symbols, several per block, patch "
    "labels inside and at the end of patches, chains of adjacent whole-block deletions, deletion of the last block of a "
    "section, retarget_to_proxy); per case every symbol of the module and every label defined by a patch is located "
    "in the rewritten module and compared with the position the listing semantics gives it; no symbol may refer to a "
    "block or proxy that is not part of the module"
    "; modules that already hold a zero-sized labelled block at the address of the block behind it (left by an earlier rewrite): "
    "the empty block, the block behind it or the code in front of it deleted, code or data inserted behind it"
)
ASSUMPTIONS = [
    "a label that stands exactly on a boundary where the layout inserts alignment padding may be printed on either side of the padding",
    "labels standing on the start of a block that is deleted with retarget_to_proxy: labels of emptied predecessor blocks and trailing labels of patches may end on the position or on the fresh proxy (the request reads either way); an end-of-block label of a block that survives must stay (known finding when it does not)",
    "when a block whose deletion is requested with retarget_to_proxy also receives inserted code, each of its labels may stay on the inserted code or follow the request to the proxy",
]
TRUSTED = ["harness/emodify.py, harness/irdump.py (referents are read through the ReferenceCache's tables, read-only)"]


def empty_block_cases():
    """a module that already holds a zero-sized labelled block (what an earlier rewrite leaves behind for a jump target it
    could not remove) at the address of the block that follows it: deleting the empty block, the block behind it, or
    the block in front of it"""
    out = []
    for follow in ("code", "data"):
        for edit in ("empty", "behind", "front", "insert-behind"):
            nxt = ({"kind": "code", "insns": [["nop"], ["ret"]], "syms": [{"name": "b2", "at_end": False}], "func": 0} if follow == "code"
                   else {"kind": "data", "bytes": [1, 2, 3, 4], "syms": [{"name": "b2", "at_end": False}]})
            text = [{"kind": "code", "insns": [["nop"], ["jmp", "b1"]], "syms": [{"name": "main", "at_end": False}], "func": 0, "entry": True},
                    {"kind": "code", "insns": [], "syms": [{"name": "b1", "at_end": False}], "func": 0},
                    nxt,
                    {"kind": "code", "insns": [["ret"]], "syms": [{"name": "b3", "at_end": False}], "func": 0}]
            e = {"empty": {"op": "delete", "block": 1, "off": 0, "len": 0},
                 "behind": {"op": "delete", "block": 2, "off": 0, "len": 2 if follow == "code" else 4},
                 "front": {"op": "delete", "block": 0, "off": 0, "len": 1},
                 "insert-behind": {"op": "insert", "block": 2, "off": 0, "asm": "nop" if follow == "code" else ".byte 9"}}[edit]
            out.append({"isa": "X64", "ff": "ELF", "externs": [], "text": text, "edits": [e]})
    return out


def end_label_cases():
    """an end-of-block label of a function's last block; code is appended to the block, its tail is deleted or replaced,
    and the function behind it is deleted in the same batch (delete_function): the label stays at the end of its code"""
    out = []
    for kind in ("append", "deltail", "reptail"):
        text = [{"kind": "code", "insns": [["nop"], ["ret"]], "syms": [{"name": "f1", "at_end": False}, {"name": "f1_end", "at_end": True}], "func": 0, "entry": True},
                {"kind": "code", "insns": [["nop"], ["ret"]], "syms": [{"name": "f2", "at_end": False}], "func": 1, "entry": True},
                {"kind": "code", "insns": [["ret"]], "syms": [{"name": "f3", "at_end": False}], "func": 2, "entry": True}]
        e0 = {"append": {"op": "insert", "block": 0, "off": 2, "asm": "nop"}, "deltail": {"op": "delete", "block": 0, "off": 1, "len": 1},
              "reptail": {"op": "replace", "block": 0, "off": 1, "len": 1, "asm": "ret"}}[kind]
        out.append({"isa": "X64", "ff": "ELF", "externs": [], "text": text, "edits": [e0, {"op": "delete", "block": 1, "off": 0, "len": 2, "proxy": True, "fn": 1}]})
    return out


def run(ctx):
    camp = LE.Campaign(ctx, "C02")
    for case in end_label_cases():
        ctx.count("end-label-and-delete-function")
        camp.add(case)
    for case in empty_block_cases():
        ctx.count("empty-block-in-the-input")
        camp.add(case)
    camp.flush()
    LE.run(ctx, "C02", 1500, 40000)


def replay(ctx, payload):
    LE.replay(ctx, "C02", payload)
