"""
C02 — symbols keep designating the same place in the edited listing.

Specification: Spec/ListingCheck.lean `checkLabels` on the real before/after dumps.
Model: Model/IR/*.lean (split / join / remove retargeting).  Theorems: Props/C02.lean.
"""
import listing_engine as LE

GEN = []
SOURCES = ["_modify/split.py", "_modify/join.py", "_modify/remove.py", "_modify/cache.py", "_modify/edit.py"]
RULE = (
    "same generated modules and request sets as C01 (start-of-block and end-of-block symbols, several per block, patch "
    "labels inside and at the end of patches, chains of adjacent whole-block deletions, deletion of the last block of a "
    "section, retarget_to_proxy); per case every symbol of the module and every label defined by a patch is located "
    "in the rewritten module and compared with the position the listing semantics gives it; no symbol may refer to a "
    "block or proxy that is not part of the module"
)
ASSUMPTIONS = [
    "a label that stands exactly on a boundary where the layout inserts alignment padding may be printed on either side of the padding",
    "labels standing on the start of a block that is deleted with retarget_to_proxy: labels of emptied predecessor blocks and trailing labels of patches may end on the position or on the fresh proxy (the request reads either way); an end-of-block label of a block that survives must stay (known finding when it does not)",
    "when a block whose deletion is requested with retarget_to_proxy also receives inserted code, each of its labels may stay on the inserted code or follow the request to the proxy",
]
TRUSTED = ["harness/emodify.py, harness/irdump.py (referents are read through the ReferenceCache's tables, read-only)"]


def run(ctx):
    LE.run(ctx, "C02", 1500, 40000)


def replay(ctx, payload):
    LE.replay(ctx, "C02", payload)
