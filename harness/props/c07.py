"""
C07 — each registered insertion lands exactly once, exactly where asked.

Instrumented patches (a unique marker immediate per invocation, the InsertionContext recorded)
are registered through scopes on generated modules, in one or two passes of a PassManager.
Specification: Spec/Scopes.lean (which blocks a scope designates, at which offset, in which
order) + the listing specification of C01 for the place of every marker in the output bytes.
Theorems: Props/C07.lean.
"""
import json
import re

import emodify
import irdump
import listing_engine as LE
from common import ask_driver

GEN = []
SOURCES = ["scopes.py", "rewriting.py", "passes.py", "utils.py", "patch.py"]
RULE = (
    "generated modules as in C01 (0-3 named functions and function-less code, a module entry point in some) with 1-5 "
    "registrations drawn from AllBlocksScope(position, exclude_functions), SingleBlockScope(block, position), "
    "AllFunctionsScope(ENTRY|EXIT, position, functions) with literal names, regular expressions, MAIN_NAME and "
    "ENTRYPOINT_NAME, and explicit insert_at; positions ENTRY / EXIT / ANYWHERE; one RewritingContext or two passes "
    "of a PassManager. Per case: the recorded invocations (registration, original block, offset, function) against "
    "the specification's list, in order; every marker exactly once in the output and the output bytes against the "
    "listing specification with one insertion per invocation"
    "; jumps whose CFG edge carries no label; a first block that does not start its byte interval (1-5 uncovered bytes in front of it); "
    "register_insert_function in the same context (the added function's code is no block any scope designates: no invocation may name it; "
    "the byte-level placement of the markers is not judged in those cases)"
    "; the store on its own: the real _ModificationStore (add, modifications_for_block, resolve_offsets) with real scope objects on "
    "every block of a generated module - scope registrations, explicit requests with replacement lengths (replace_at / delete_at) "
    "that may overlap, position scopes on data blocks, ids in shuffled order - against the Lean model of the store "
    "(Model/Rewrite/Store.lean), and its answers judged directly: nothing dropped or doubled, order (offset, insertion first, id), "
    "nothing overlapping accepted, nothing non-overlapping refused"
)
ASSUMPTIONS = [
    "ANYWHERE resolves to the first potential offset (offset 0): the code documents 'always insert at the first potential offset' until bubbling exists; the property's 'on an instruction boundary not after the terminator' is checked on that choice",
    "regular expressions are drawn from the form `prefix.*` (fullmatch), which the specification evaluates as a prefix test",
    "exit blocks are those of gtirb_functions.Function.get_exit_blocks on the input module (a return edge, or a non-call edge leaving the function); the specification computes them from the input CFG",
]
TRUSTED = ["harness/emodify.py, harness/irdump.py; capstone for the instruction sizes handed to the specification",
           "the store model takes as parameters what other code reports about a block: gtirb-functions (function of the block, its name, entry and exit blocks), "
           "capstone and utils._nonterminator_instructions / _is_partial_disassembly (instruction sizes in front of the terminator); these are read from the real helpers in the correspondence run and judged independently by the scope specification in the apply() run"]

SIG_ZERO_SIZED = "scope-designates-a-zero-sized-code-block"


def gen_regs(rng, case):
    text = case["text"]
    code = [i for i, d in enumerate(text) if d["kind"] == "code"]
    fnames = sorted({fname_of(case, d["func"]) for d in text if d["kind"] == "code" and d.get("func") is not None})
    regs = []

    def pats():
        if rng.random() < 0.3:
            return None
        if rng.random() < 0.1:
            return []           # an empty filter: selects (excludes) no function at all
        out = []
        for _ in range(rng.randint(1, 2)):
            k = rng.random()
            if k < 0.5 and fnames:
                out.append({"lit": rng.choice(fnames)})
            elif k < 0.7 and fnames:
                out.append({"prefix": rng.choice(fnames)[:1]})
            elif k < 0.85:
                out.append({"main": True})
            else:
                out.append({"entrypoint": True})
        return out

    for _ in range(rng.randint(1, 5)):
        k = rng.random()
        pos = rng.choice(["entry", "exit", "anywhere"])
        if k < 0.3:
            regs.append({"kind": "all_blocks", "pos": pos, "exclude": pats()})
        elif k < 0.55 and code:
            regs.append({"kind": "single", "block": rng.choice(code), "pos": pos})
        elif k < 0.85:
            regs.append({"kind": "all_functions", "fpos": rng.choice(["entry", "exit"]), "pos": pos, "functions": pats()})
        elif code:
            b = rng.choice(code)
            regs.append({"kind": "at", "block": b, "off": rng.choice(emodify.block_layout(text[b]))})
    return regs


def fname_of(case, f):
    """the name the builder gives function f: the first start label of its first entry block"""
    for d in case["text"]:
        if d["kind"] == "code" and d.get("func") == f and d.get("entry"):
            for y in d["syms"]:
                if not y.get("at_end"):
                    return y["name"]
    for d in case["text"]:
        if d["kind"] == "code" and d.get("func") == f:
            for y in d["syms"]:
                if not y.get("at_end"):
                    return y["name"]
    return "fun_%d" % f


def rename_functions(case, rng):
    """give some functions telling names (main, fa, fb, ga, helper), consistently in every reference"""
    # some names are regular-expression look-alikes of each other: a literal filter "f.a" must not select "fxa"
    names = rng.choice([["main", "fa", "fb", "ga", "helper"], ["main", "f.a", "fxa", "g.b", "gyb"], ["f.a", "fxa", "f.", "fb", "main"]])
    names = list(names)
    rng.shuffle(names)
    ren = {}
    seen = set()
    for d in case["text"]:
        if d["kind"] == "code" and d.get("func") is not None and d.get("entry") and d["func"] not in seen:
            seen.add(d["func"])
            if rng.random() < 0.7:
                for y in d["syms"]:
                    if not y.get("at_end"):
                        ren[y["name"]] = names[len(ren) % len(names)]
                        break
    for d in emodify.flat_of(case):
        for y in d["syms"]:
            y["name"] = ren.get(y["name"], y["name"])
        for ins in d.get("insns", []):
            if len(ins) > 1 and isinstance(ins[1], str):
                ins[1] = ren.get(ins[1], ins[1])
        for e in d.get("symexprs", []):
            e[1] = ren.get(e[1], e[1])
    return case


def run_impl(case, regs, two_passes):
    import logging

    import gtirb
    import gtirb_functions
    from gtirb_rewriting import (AllBlocksScope, AllFunctionsScope, BlockPosition, Constraints, FunctionPosition, Pass,
                                 PassManager, Patch, RewritingContext, SingleBlockScope)
    from gtirb_rewriting.scopes import ENTRYPOINT_NAME, MAIN_NAME

    logging.disable(logging.CRITICAL)
    B = emodify.build(json.loads(json.dumps(case)))
    idm = irdump.IdMap()
    before = irdump.dump_ir(B.m, idm)
    funcs = gtirb_functions.Function.build_functions(B.m)
    fnames = [[idm.of(f.uuid), f.get_name()] for f in funcs]
    invocations = []
    counter = [0]
    POS = {"entry": BlockPosition.ENTRY, "exit": BlockPosition.EXIT, "anywhere": BlockPosition.ANYWHERE}

    def pat(p):
        if p is None:
            return None
        out = set()
        for x in p:
            if "lit" in x:
                out.add(x["lit"])
            elif "prefix" in x:
                out.add(re.compile(re.escape(x["prefix"]) + ".*"))
            elif "main" in x:
                out.add(MAIN_NAME)
            else:
                out.add(ENTRYPOINT_NAME)
        return out

    def mk_patch(ri):
        class P(Patch):
            def __init__(self):
                super().__init__(Constraints())

            def get_asm(self, ctx, *regs_):
                counter[0] += 1
                mark = 0x70000000 + counter[0]
                invocations.append({"reg": ri, "block": idm.of(ctx.block), "off": ctx.offset,
                                    "func": idm.of(ctx.function.uuid) if ctx.function is not None else None,
                                    "marker": mark, "module_ok": ctx.module is B.m})
                return "movl $%d, %%ebp" % mark

        return P()

    def register(ctx, ri, r):
        p = mk_patch(ri)
        if r["kind"] == "all_blocks":
            ctx.register_insert(AllBlocksScope(POS[r["pos"]], pat(r.get("exclude"))), p)
        elif r["kind"] == "single":
            ctx.register_insert(SingleBlockScope(B.blocks[r["block"]], POS[r["pos"]]), p)
        elif r["kind"] == "all_functions":
            fp = FunctionPosition.ENTRY if r["fpos"] == "entry" else FunctionPosition.EXIT
            ctx.register_insert(AllFunctionsScope(fp, POS[r["pos"]], pat(r.get("functions"))), p)
        else:
            ctx.insert_at(B.blocks[r["block"]], r["off"], p)

    err = None
    newfuncs = sorted(case.get("insert_functions") or [], key=lambda f: f["when"])

    def add_functions(ctx, lo, hi):
        # register_insert_function in the same context: the new function's code is no block of the module the scopes
        # were registered for
        for f in newfuncs:
            if lo <= f["when"] < hi:
                ctx.register_insert_function(f["name"], emodify.make_patch(f["asm"]))

    try:
        if not two_passes:
            ctx = RewritingContext(B.m, funcs)
            for ri, r in enumerate(regs):
                add_functions(ctx, ri, ri + 1)
                register(ctx, ri, r)
            add_functions(ctx, len(regs), 1 << 30)
            ctx.apply()
        else:
            half = (len(regs) + 1) // 2

            def mk_pass(lo, hi):
                class Q(Pass):
                    def begin_module(self, module, functions, rewriting_ctx):
                        for ri in range(lo, hi):
                            add_functions(rewriting_ctx, ri, ri + 1)
                            register(rewriting_ctx, ri, regs[ri])
                        if hi == len(regs):
                            add_functions(rewriting_ctx, len(regs), 1 << 30)

                return Q()

            pm = PassManager()
            pm.add(mk_pass(0, half))
            pm.add(mk_pass(half, len(regs)))
            pm.run(B.ir)
    except Exception as e:  # noqa: BLE001
        import traceback

        tb = traceback.extract_tb(e.__traceback__)
        err = "%s: %s @%s" % (type(e).__name__, str(e)[:100], tb[-1].name)
    after = irdump.dump_ir(B.m, idm)
    if case.get("lead"):
        # bytes in front of the first block that no block covers: not part of the listing
        before = emodify.strip_lead(before, case["lead"])
        after = emodify.strip_lead(after, case["lead"])
    # registrations as the specification sees them (block ids of the dump)
    sregs = []
    for r in regs:
        r2 = dict(r)
        if "block" in r2:
            r2["block"] = idm.of(B.blocks[r["block"]])
        sregs.append(r2)
    return B, before, after, fnames, invocations, sregs, err


def check_case(ctx, case, regs, two_passes, pending):
    case = LE.strip_case(dict(case, edits=[]))
    try:
        B, before, after, fnames, inv, sregs, err = run_impl(case, regs, two_passes)
    except Exception as e:  # noqa: BLE001
        ctx.count("harness-error")
        ctx.notes.append("harness could not run a case: %r" % (e,))
        return
    payload = {"case": case, "regs": regs, "two_passes": two_passes}
    ctx.case(payload, sample={"regs": regs, "blocks": len(case["text"])} if len(ctx.samples) < 4 else None, nontrivial=bool(regs))
    ctx.count("regs:%d" % len(regs))
    for r in regs:
        ctx.count("scope:" + r["kind"] + ":" + r.get("pos", "-"))
    ctx.count("two-passes" if two_passes else "one-context")
    has_funcs = any(d["kind"] == "code" and d.get("func") is not None for d in case["text"])
    if err and err.startswith("UnresolvableScopeError") and not has_funcs and any(r["kind"] == "all_functions" for r in regs):
        # documented: a function scope cannot be registered on a module without function information
        ctx.count("refused:no-function-information")
        return
    if not has_funcs and any(r["kind"] == "all_functions" for r in regs):
        ctx.violation("C07:function-scope-without-functions", "a function scope was accepted on a module without function information", payload)
        return
    if err:
        zero = any(d["kind"] == "code" and emodify.block_size(d) == 0 for d in case["text"])
        ctx.violation("C07:" + (SIG_ZERO_SIZED if zero and "AssertionError" in err else "apply-raises"), "apply() raised %s" % err, payload)
        return
    pending.append((payload, before, after, inv, {"op": "scope_check", "ir": before, "funcs": fnames,
                                                    "insns": [[b, [i[1] for i in lst]] for b, lst in emodify.decode_insns(before)],
                                                    "regs": sregs}))


def flush(ctx, pending):
    if not pending or not ctx.driver_ok:
        pending.clear()
        return
    try:
        ans = ask_driver([p[4] for p in pending])
    except Exception as e:  # noqa: BLE001
        ctx.driver_ok = False
        ctx.notes.append("driver failure: %r" % (e,))
        pending.clear()
        return
    second = []
    for (payload, before, after, inv, _), a in zip(pending, ans):
        if "invocations" not in a:
            ctx.mismatch("the scope specification could not be evaluated: %s" % (a.get("err"),), payload)
            continue
        want = [tuple(x) for x in a["invocations"]]
        got = [(v["reg"], v["block"], v["off"], v["func"]) for v in inv]
        if got != want:
            missing = [w for w in want if w not in got]
            extra = [g for g in got if g not in want]
            if missing or extra:
                ctx.violation("C07:wrong-invocations", "patch invocations (registration, block, offset, function): missing %s, unexpected %s" % (missing[:4], extra[:4]), payload)
            else:
                ctx.violation("C07:invocation-order", "invocations happen in the order %s, expected %s" % (got[:8], want[:8]), payload)
            continue
        if not all(v["module_ok"] for v in inv):
            ctx.violation("C07:context-module", "an InsertionContext names another module", payload)
        # every marker exactly once, at the place the listing gives it
        edits = []
        for k, v in enumerate(inv):
            data = [0xBD] + list(v["marker"].to_bytes(4, "little"))
            edits.append({"block": v["block"], "off": v["off"], "del": 0, "ins": data, "labels": [], "aligns": [], "proxy": False,
                          "order": k, "tail_code": True, "exprs": [], "expr_sizes": []})
        allbytes = bytes(x for i in after["intervals"] for x in i["bytes"])
        for v in inv:
            n = allbytes.count(bytes([0xBD]) + v["marker"].to_bytes(4, "little"))
            if n != 1:
                ctx.violation("C07:marker-count", "the patch of invocation %s appears %d times in the output" % ((v["reg"], v["block"], v["off"]), n), payload)
        if payload["case"].get("insert_functions"):
            ctx.count("marker-place-skipped:inserted-function")
            continue
        second.append((payload, {"op": "listing_check", "before": before, "after": after, "edits": edits, "nop": [0x90]}))
    if second:
        ans2 = ask_driver([s[1] for s in second])
        for (payload, _), a in zip(second, ans2):
            for issue in a.get("C01", []):
                ctx.violation("C07:marker-place", "a patch is not where its scope puts it: " + issue["msg"], payload)
    pending.clear()


# ---------------------------------------------------------------------------
# the store itself: real _ModificationStore / scopes.py against the Lean model (Model/Rewrite/Store.lean)
# ---------------------------------------------------------------------------
def gen_store_regs(rng, case):
    """registrations for the store run: the scope registrations of gen_regs plus explicit requests with replacement
    lengths (replace_at / delete_at) that may overlap, scopes on data blocks, ids handed out in shuffled order"""
    text = case["text"]
    regs = [dict(r) for r in gen_regs(rng, case)]
    for r in regs:
        if r["kind"] == "at":
            r["kind"], r["repl"] = "specific", 0
    allb = list(range(len(text)))
    for _ in range(rng.randint(0, 5)):
        b = rng.choice(allb)
        size = emodify.block_size(text[b])
        lay = emodify.block_layout(text[b]) if text[b]["kind"] == "code" else list(range(size + 1))
        off = rng.choice(lay) if lay else 0
        k = rng.random()
        if k < 0.35:
            repl = 0
        elif k < 0.8:
            ends = [x for x in lay if x >= off]
            repl = (rng.choice(ends) - off) if ends else 0
        else:
            repl = rng.randint(0, max(0, size - off))
        regs.append({"kind": "specific", "block": b, "off": off, "repl": repl})
    if rng.random() < 0.2:
        data = [i for i, d in enumerate(text) if d["kind"] != "code"]
        if data:
            regs.append({"kind": "single", "block": rng.choice(data), "pos": rng.choice(["entry", "exit", "anywhere"])})
    rng.shuffle(regs)
    ids = list(range(len(regs)))
    if rng.random() < 0.5:
        rng.shuffle(ids)
    return [dict(r, id=i) for r, i in zip(regs, ids)]


def store_case(ctx, case, regs, pending):
    """run the real store on every block of the module; queue the model's request"""
    import logging

    import gtirb
    import gtirb_functions
    from gtirb_capstone.instructions import GtirbInstructionDecoder
    from gtirb_rewriting import AllBlocksScope, AllFunctionsScope, BlockPosition, FunctionPosition, SingleBlockScope
    from gtirb_rewriting import rewriting as RW
    from gtirb_rewriting.scopes import ENTRYPOINT_NAME, MAIN_NAME, _SpecificLocationScope
    from gtirb_rewriting.utils import _is_partial_disassembly, _nonterminator_instructions

    logging.disable(logging.CRITICAL)
    case = LE.strip_case(dict(case, edits=[]))
    try:
        B = emodify.build(json.loads(json.dumps(case)))
        funcs = gtirb_functions.Function.build_functions(B.m)
    except Exception as e:  # noqa: BLE001
        ctx.count("harness-error")
        ctx.notes.append("harness could not build a store case: %r" % (e,))
        return
    POS = {"entry": BlockPosition.ENTRY, "exit": BlockPosition.EXIT, "anywhere": BlockPosition.ANYWHERE}

    def pat(p):
        if p is None:
            return None
        out = set()
        for x in p:
            if "lit" in x:
                out.add(x["lit"])
            elif "prefix" in x:
                out.add(re.compile(re.escape(x["prefix"]) + ".*"))
            elif "main" in x:
                out.add(MAIN_NAME)
            else:
                out.add(ENTRYPOINT_NAME)
        return out

    blocks = list(B.blocks)
    bid = {id(b): i for i, b in enumerate(blocks)}
    store = RW._ModificationStore()
    for r in regs:
        if r["kind"] == "all_blocks":
            sc = AllBlocksScope(POS[r["pos"]], pat(r.get("exclude")))
        elif r["kind"] == "single":
            sc = SingleBlockScope(blocks[r["block"]], POS[r["pos"]])
        elif r["kind"] == "all_functions":
            sc = AllFunctionsScope(FunctionPosition.ENTRY if r["fpos"] == "entry" else FunctionPosition.EXIT, POS[r["pos"]], pat(r.get("functions")))
        else:
            sc = _SpecificLocationScope(blocks[r["block"]], r["off"], r["repl"])
        if r["kind"] == "specific" and r["repl"] and r["id"] % 2:
            store.add(RW._Deletion(r["id"], sc, False))
        else:
            store.add(RW._InsertionOrReplacement(r["id"], sc, b""))
    decoder = GtirbInstructionDecoder(B.m.isa)
    envs, real = [], []
    for i, b in enumerate(blocks):
        if id(b) not in bid or b.byte_interval is None:
            continue
        func = None
        if isinstance(b, gtirb.CodeBlock):
            for f in funcs:
                if b in f.get_all_blocks():
                    func = f
        env = {"id": i, "code": isinstance(b, gtirb.CodeBlock), "func": None, "nonterm": [], "partial": False}
        if func is not None:
            env["func"] = {"name": func.get_name(), "has_entry": B.m.entry_point in func.get_entry_blocks(),
                           "is_entry": b in func.get_entry_blocks(), "is_exit": b in func.get_exit_blocks()}
        if isinstance(b, gtirb.CodeBlock):
            insns = tuple(decoder.get_instructions(b))
            env["nonterm"] = [x.size for x in _nonterminator_instructions(b, insns)]
            env["partial"] = bool(_is_partial_disassembly(b, insns))
            # the premise of store_offset_is_the_specifications, on the real helper: every instruction when all
            # out-edges are fallthroughs, all but the last otherwise
            allfall = all(e.label is not None and e.label.type == gtirb.Edge.Type.Fallthrough for e in b.outgoing_edges)
            want_nt = [x.size for x in insns] if allfall else [x.size for x in insns][:-1]
            ctx.count("premise:nonterminator-sizes")
            if env["nonterm"] != want_nt:
                ctx.mismatch("_nonterminator_instructions keeps the sizes %s of block %d, its definition gives %s (premise of store_offset_is_the_specifications)"
                             % (env["nonterm"], i, want_nt), {"store": True, "case": case, "regs": regs})
        out = {}
        try:
            mods = store.modifications_for_block(B.m, b, func)
            out["mods"] = [m.id for m in mods]
            try:
                res = store.resolve_offsets(b, decoder, mods)
                out["resolved"] = [[m.id, off] for m, off in res]
            except AssertionError as e:
                out["error"] = "overlap" if "overlap" in str(e) else "assert"
        except Exception as e:  # noqa: BLE001
            out["error"] = "other:" + type(e).__name__
        envs.append(env)
        real.append(out)
    sregs = [{"id": r["id"], "scope": {k: v for k, v in r.items() if k != "id"}} for r in regs]
    payload = {"store": True, "case": case, "regs": regs}
    ctx.case(payload, nontrivial=bool(regs))
    ctx.count("store-case")
    # direct judgement of the real answers against the statement (independent of the model):
    # nothing dropped or doubled, listing order, non-overlapping; a refusal only when requests do overlap
    by_id = {r["id"]: r for r in regs}
    for env, out in zip(envs, real):
        rl = lambda i: by_id[i].get("repl", 0)   # noqa: E731
        if "resolved" in out:
            ctx.count("store:resolved:%d" % min(len(out["resolved"]), 4))
            ids = [x[0] for x in out["resolved"]]
            if sorted(ids) != sorted(out["mods"]):
                ctx.violation("C07:store-drops-or-doubles", "resolve_offsets answered %s for the modifications %s" % (ids, out["mods"]), payload)
            keys = [(off, rl(i) != 0, i) for i, off in out["resolved"]]
            if keys != sorted(keys):
                ctx.violation("C07:store-order", "resolve_offsets order (offset, replaces, id): %s" % (keys,), payload)
            for (i1, o1), (i2, o2) in zip(out["resolved"], out["resolved"][1:]):
                if o1 + rl(i1) > o2:
                    ctx.violation("C07:store-accepts-overlap", "requests %d@%d+%d and %d@%d overlap and were accepted" % (i1, o1, rl(i1), i2, o2), payload)
        elif out.get("error") == "overlap":
            ctx.count("store:refused-overlap")
            # offsets by the statement: explicit ones as requested, ENTRY/ANYWHERE 0, EXIT behind the non-terminators
            def off_of(i):
                r = by_id[i]
                if r["kind"] == "specific":
                    return r["off"]
                return sum(env["nonterm"]) if r.get("pos") == "exit" else 0
            keys = sorted((off_of(i), rl(i) != 0, i) for i in out["mods"])
            if all(a[0] + rl(a[2]) <= b[0] for a, b in zip(keys, keys[1:])):
                ctx.violation("C07:store-refuses-valid", "non-overlapping requests %s refused as overlapping" % (keys,), payload)
        else:
            ctx.count("store:" + str(out.get("error")))
    pending.append((payload, real, {"op": "store_resolve", "regs": sregs, "envs": envs}))


def flush_store(ctx, pending):
    if not pending or not ctx.driver_ok:
        pending.clear()
        return
    try:
        ans = ask_driver([p[2] for p in pending])
    except Exception as e:  # noqa: BLE001
        ctx.driver_ok = False
        ctx.notes.append("driver failure: %r" % (e,))
        pending.clear()
        return
    for (payload, real, req), a in zip(pending, ans):
        if "blocks" not in a:
            ctx.mismatch("the store model could not be evaluated: %s" % (a.get("err"),), payload)
            continue
        for env, r, m in zip(req["envs"], real, a["blocks"]):
            if "error" in m:
                m = dict(m, error="overlap" if "overlap" in m["error"] else "assert")
            if r != m:
                ctx.mismatch("_ModificationStore on block %d: real %s, model %s" % (env["id"], r, m), payload)
                break
    pending.clear()


def run(ctx):
    pending = []
    # the recorded finding: a zero-sized code block designated by a scope
    zero_case = {"isa": "X64", "ff": "ELF", "externs": [], "edits": [], "text": [
        {"kind": "code", "insns": [["nop"], ["ret"]], "syms": [{"name": "main", "at_end": False}], "func": 0, "entry": True},
        {"kind": "code", "insns": [], "syms": [{"name": "Z", "at_end": False}], "func": 0},
        {"kind": "code", "insns": [["ret"]], "syms": [{"name": "L2", "at_end": False}], "func": 0}]}
    check_case(ctx, zero_case, [{"kind": "all_blocks", "pos": "entry", "exclude": None}], False, pending)
    # two functions of one name (distinct local symbols), the module entry point in the second: a filter by ENTRYPOINT_NAME
    # speaks of the function, not of its name
    for ent in (0, 2):
        dup_case = {"isa": "X64", "ff": "ELF", "externs": [], "edits": [], "entry": ent, "dup_names": [[1, 0]], "text": [
            {"kind": "code", "insns": [["nop"], ["ret"]], "syms": [{"name": "helper", "at_end": False}], "func": 0, "entry": True},
            {"kind": "code", "insns": [["nop"], ["nop"]], "syms": [{"name": "L1", "at_end": False}], "func": 0},
            {"kind": "code", "insns": [["nop"], ["ret"]], "syms": [{"name": "other", "at_end": False}], "func": 1, "entry": True},
            {"kind": "code", "insns": [["ret"]], "syms": [{"name": "third", "at_end": False}], "func": 2, "entry": True}]}
        check_case(ctx, dup_case, [{"kind": "all_functions", "fpos": "entry", "pos": "entry", "functions": [{"entrypoint": True}]},
                                   {"kind": "all_blocks", "pos": "entry", "exclude": [{"entrypoint": True}]},
                                   {"kind": "all_functions", "fpos": "exit", "pos": "exit", "functions": [{"lit": "helper"}]}], False, pending)
    for _ in range(ctx.budget(800, 20000)):
        case = rename_functions(emodify.gen_case(ctx.rng, nedits=0), ctx.rng)
        # some blocks end in a system call instead of a call: a terminator with a Syscall edge
        for d in case["text"]:
            if d["kind"] == "code" and d["insns"][-1][0] == "call" and ctx.rng.random() < 0.3:
                d["insns"][-1] = ["syscall"]
            # ... and some jumps have an edge without a label
            if d["kind"] == "code" and d["insns"][-1][0] == "jmp" and ctx.rng.random() < 0.3:
                d["unlabelled"] = True
        if ctx.rng.random() < 0.4:
            code = [i for i, d in enumerate(case["text"]) if d["kind"] == "code"]
            case["entry"] = ctx.rng.choice(code)
        fset = sorted({d["func"] for d in case["text"] if d["kind"] == "code" and d.get("func") is not None})
        if len(fset) >= 2 and ctx.rng.random() < 0.15:
            case["dup_names"] = [ctx.rng.sample(fset, 2)]     # two functions of one name
        regs = gen_regs(ctx.rng, case)
        if ctx.rng.random() < 0.15:
            case["lead"] = ctx.rng.randint(1, 5)        # the first block does not start its byte interval
            for d in case["text"]:
                d.pop("align", None)                    # (alignments that hold before the rewrite only)
        if ctx.rng.random() < 0.12:
            case["insert_functions"] = [{"name": "added_%d" % j, "asm": ctx.rng.choice(["nop\nret", "ret", "movl $1, %eax\nret"]),
                                         "when": ctx.rng.randint(0, len(regs))} for j in range(ctx.rng.randint(1, 2))]
        check_case(ctx, case, regs, ctx.rng.random() < 0.3, pending)
        if len(pending) >= 100:
            flush(ctx, pending)
        if len(ctx.violations) > 20:
            break           # enough failing inputs; a defect that makes every further rewrite slower would only stall the check
    flush(ctx, pending)
    # the store and the scope classes on their own, against the Lean model
    spending = []
    for _ in range(ctx.budget(600, 15000)):
        case = rename_functions(emodify.gen_case(ctx.rng, nedits=0), ctx.rng)
        for d in case["text"]:
            if d["kind"] == "code" and d["insns"][-1][0] == "call" and ctx.rng.random() < 0.3:
                d["insns"][-1] = ["syscall"]
        if ctx.rng.random() < 0.4:
            code = [i for i, d in enumerate(case["text"]) if d["kind"] == "code"]
            case["entry"] = ctx.rng.choice(code)
        store_case(ctx, case, gen_store_regs(ctx.rng, case), spending)
        if len(spending) >= 300:
            flush_store(ctx, spending)
    flush_store(ctx, spending)


def replay(ctx, payload):
    pending = []
    p = payload.get("case", payload)
    if p.get("store"):
        store_case(ctx, p["case"], p["regs"], pending)
        flush_store(ctx, pending)
        return
    check_case(ctx, p["case"], p["regs"], p.get("two_passes", False), pending)
    flush(ctx, pending)
