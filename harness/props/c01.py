"""
C01 — rewriting edits bytes exactly like editing the assembly listing.

Real code: RewritingContext.apply() (rewriting.py, _modify/*, prepare.py, intervalutils.py)
on generated modules and request sets.
Specification: Spec/Listing.lean (`spliceSpec`, `layoutPieces`) evaluated by the driver on
the real before/after dumps.  Model: Model/IR/*.lean, Model/IR/Batch.lean.
Theorems: Props/C01.lean.
"""
import emodify
import listing_engine as LE

GEN = []
SOURCES = ["rewriting.py", "_modify/edit.py", "_modify/split.py", "_modify/join.py", "_modify/remove.py",
           "prepare.py", "intervalutils.py"]
RULE = (
    "generated x86-64 ELF modules (1-7 blocks, code and data mixed, 0-3 functions or none, symbols at block starts and "
    "ends, alignment, comments, symbolic expressions) with 0-4 requests (insert / replace / delete, whole-block and "
    "retarget_to_proxy deletions, several requests at one offset, shuffled registration order) drawn from a fixed "
    "vocabulary of code and data patches; a committed corpus of past failures runs first. Distinct by (module, "
    "request list); non-trivial when at least one request is registered. Per case: the section bytes after apply() "
    "against the listing specification, every recorded insert/delete against the Lean IR model, the interval "
    "positions used by _apply_modifications against the running-offset model; plus modules whose .text interval "
    "begins with 1-5 bytes that no block covers (blocks that do not start at offset 0 of their interval) with one or "
    "two raw-byte requests, judged by a direct splice of the bytes; plus data intervals whose blocks overlap (nested "
    "and staggered views) with one insertion or deletion, judged the same way"
    "; every recorded iteration of the _apply_modifications loop (block handed over, offset passed, state at the end of the iteration) against IR.applyMods, with the premises of loop_is_listing (IdsBelow, new patch blocks) evaluated on the recorded state; ARM64 and MIPS32 modules with an aligned second block and a patch in the first, judged byte for byte (whole nops, exactly the padding the alignment demands); modules that lack aux-data tables altogether"
)
ASSUMPTIONS = [
    "x86-64 ELF only and one code section in the generated modules (the byte bookkeeping is ISA independent; the nop used for padding is the only ISA-specific byte, taken from ABI.nop())",
    "requests are registered through insert_at / replace_at / delete_at with explicit offsets on instruction boundaries (scopes that search for an offset are C07)",
    "a request set that apply() refuses counts as a violation unless the refusal is one of three classes recognised on the input alone: an insertion at the end of a block whose tail is deleted in the same batch (known finding), a patch that ends in a label or call at the end of a block that is not followed by code (documented zero-sized-block limit), a patch branching to a label of a block deleted in the same batch when that label now stands on a data block (the assembler rightly refuses)",
    "alignment: a block whose bytes are all deleted keeps its alignment request exactly when the rewritten module still records one for it (the code drops the entry when the block is removed and keeps it when the block stays as a zero-sized block); C01 allows padding demanded by alignment metadata",
]
TRUSTED = [
    "harness/emodify.py (module builder, recorder wrapping gtirb_rewriting.rewriting.insert/delete) and harness/irdump.py (IR -> canonical dump)",
    "the pairing of registered requests with recorded operations assumes the order documented in rewriting.py (blocks by address, then offset, insertions first, then registration order); a wrong pairing shows up as a correspondence mismatch, not as silence",
]


def gen_lead(rng):
    """a module whose .text interval starts with bytes that no block covers, one or two requests"""
    import emodify

    case = emodify.gen_case(rng, nblocks=rng.randint(1, 3), with_data=False, nedits=0)
    for d in case["text"]:
        d.pop("align", None)
    case["lead"] = rng.randint(1, 5)
    edits = []
    for i in rng.sample(range(len(case["text"])), rng.randint(1, min(2, len(case["text"])))):
        d = case["text"][i]
        offs = emodify.block_layout(d)
        o = rng.choice(offs[:-1]) if len(offs) > 1 else 0
        k = rng.random()
        if k < 0.5:
            edits.append({"op": "insert", "block": i, "off": o, "bytes": [0xD0 + len(edits), 0x90]})
        elif k < 0.75:
            end = rng.choice([x for x in offs if x > o])
            edits.append({"op": "delete", "block": i, "off": o, "len": end - o})
        else:
            end = rng.choice([x for x in offs if x > o])
            edits.append({"op": "replace", "block": i, "off": o, "len": end - o, "bytes": [0xE0 + len(edits)]})
    case["edits"] = edits
    return {"lead_case": True, "case": case}


def check_lead(ctx, g):
    """direct oracle for blocks that do not start at offset 0 of their byte interval: the section's bytes after the
    rewrite are the uncovered prefix followed by each block's bytes with its requests spliced in"""
    import json
    import logging

    import gtirb_functions

    import emodify
    from gtirb_rewriting import Patch, RewritingContext, patch_constraints

    logging.disable(logging.CRITICAL)
    case = LE.strip_case(g["case"])
    payload = dict(g, case=case)
    ctx.case(payload, sample=payload if len(ctx.samples) < 5 else None, nontrivial=True)
    ctx.count("lead:%d" % case["lead"])
    B = emodify.build(json.loads(json.dumps(case)))
    m = B.m
    bi0 = B.blocks[0].byte_interval
    before = bytes(bi0.contents)
    want = bytearray(before[:case["lead"]])
    for i, blk in enumerate(B.blocks):
        data = bytearray(before[blk.offset:blk.offset + blk.size])
        for e in sorted((e for e in case["edits"] if e["block"] == i), key=lambda e: -e["off"]):
            data[e["off"]:e["off"] + e.get("len", 0)] = bytes(e.get("bytes", []))
        want += data
    rc = RewritingContext(m, gtirb_functions.Function.build_functions(m))

    def raw(bs):
        @patch_constraints()
        def p(ic):
            return ".byte " + ", ".join(str(b) for b in bs)

        return Patch.from_function(p)

    for e in case["edits"]:
        blk = B.blocks[e["block"]]
        if e["op"] == "insert":
            rc.insert_at(blk, e["off"], raw(e["bytes"]))
        elif e["op"] == "replace":
            rc.replace_at(blk, e["off"], e["len"], raw(e["bytes"]))
        else:
            rc.delete_at(blk, e["off"], e["len"])
    try:
        rc.apply()
    except Exception as e:  # noqa: BLE001
        ctx.violation("C01:lead:raises", "apply() raised %s: %s on a module whose first block does not start its byte interval" % (type(e).__name__, str(e)[:100]), payload)
        return
    text = next(s for s in m.sections if s.name == ".text")
    got = b"".join(bytes(bi.contents) for bi in sorted(text.byte_intervals, key=lambda b: b.address))
    if got != bytes(want):
        ctx.violation("C01:lead:bytes", ".text holds %s, the listing gives %s (the first %d bytes are covered by no block)" % (got.hex(), bytes(want).hex(), case["lead"]), payload)


def gen_overlap(rng):
    """a data interval whose blocks overlap (views into one table: an outer block, blocks nested in it, a block that
    starts inside it), one request in one of them"""
    n = rng.choice([8, 12, 16])
    blocks = [[0, n]]
    a = rng.randint(1, n // 2 - 1)
    b = rng.randint(a + 1, n // 2 + 1)
    blocks.append([a, b - a])
    c = rng.randint(b, n - 2)
    blocks.append([c, rng.randint(1, n - c)])
    if rng.random() < 0.4:
        blocks.append([n, rng.choice([2, 4])])       # a block behind the outer one
    total = max(o + s for o, s in blocks)
    which = rng.randrange(len(blocks))
    off = rng.randint(0, blocks[which][1])
    if rng.random() < 0.7 or off == blocks[which][1]:
        edit = {"op": "insert", "block": which, "off": off, "bytes": [0xEE, 0xEF][: rng.randint(1, 2)]}
    else:
        edit = {"op": "delete", "block": which, "off": off, "len": rng.randint(1, blocks[which][1] - off)}
    return {"overlap_case": True, "blocks": blocks, "total": total, "edit": edit}


def check_overlap(ctx, g):
    import logging

    import gtirb
    import gtirb_functions
    from gtirb_test_helpers import add_code_block, add_section, add_text_section, create_test_module

    from gtirb_rewriting import RewritingContext

    logging.disable(logging.CRITICAL)
    ctx.case(g, sample=g if len(ctx.samples) < 6 else None, nontrivial=True)
    ctx.count("overlapping-blocks")
    ir, m = create_test_module(gtirb.Module.FileFormat.ELF, gtirb.Module.ISA.X64)
    _, tbi = add_text_section(m, address=0x1000)
    add_code_block(tbi, b"\xc3")
    _, bi = add_section(m, ".data", address=0x4000)
    content = bytes(0x41 + i for i in range(g["total"]))
    bi.contents = content
    bi.size = len(content)
    blocks = [gtirb.DataBlock(offset=o, size=s, byte_interval=bi) for o, s in g["blocks"]]
    e = g["edit"]
    pos = g["blocks"][e["block"]][0] + e["off"]
    want = content[:pos] + bytes(e.get("bytes", [])) + content[pos + e.get("len", 0):]
    rc = RewritingContext(m, gtirb_functions.Function.build_functions(m))
    if e["op"] == "insert":
        rc.insert_at(blocks[e["block"]], e["off"], bytes(e["bytes"]))
    else:
        rc.delete_at(blocks[e["block"]], e["off"], e["len"])
    try:
        rc.apply()
    except Exception as ex:  # noqa: BLE001
        ctx.violation("C01:overlap:raises", "apply() raised %s: %s on a data interval with overlapping blocks %s" % (type(ex).__name__, str(ex)[:100], g["blocks"]), g)
        return
    sect = next(s for s in m.sections if s.name == ".data")
    got = b"".join(bytes(x.contents) for x in sorted(sect.byte_intervals, key=lambda x: x.address))
    if got != want:
        ctx.violation("C01:overlap:bytes", ".data holds %r, the listing gives %r (blocks %s, request %s)" % (got, want, g["blocks"], e), g)


def check_fixed_width(ctx, g):
    """ISAs whose nop is four bytes (ARM64, MIPS32): the section bytes after a rewrite are the listing's bytes plus
    exactly the padding the alignment entry demands, made of whole nops (C01: 'the only other bytes that may appear
    are nop/zero padding demanded by alignment metadata ... for every supported ISA')"""
    import logging

    import gtirb
    import gtirb_functions
    from gtirb_test_helpers import add_code_block, add_text_section, create_test_module

    import gtirb_rewriting._auxdata as A
    from gtirb_rewriting import RewritingContext

    logging.disable(logging.CRITICAL)
    ctx.case(g, sample=g if len(ctx.samples) < 5 else None, nontrivial=True)
    ctx.count("fixed-width:" + g["isa"])
    isa = getattr(gtirb.Module.ISA, g["isa"])
    ir, m = create_test_module(gtirb.Module.FileFormat.ELF, isa)
    m.byte_order = gtirb.Module.ByteOrder.Big if g["isa"] == "MIPS32" else gtirb.Module.ByteOrder.Little
    sect, bi = add_text_section(m, address=0x1000)
    nop = b"\x1f\x20\x03\xd5" if g["isa"] == "ARM64" else b"\x00\x00\x00\x00"
    # distinguishable ordinary instructions: add x<i>, x<i>, #1 / addiu $t<i>, $t<i>, 1
    def insn(i):
        return ((0x91000400 | i | (i << 5)).to_bytes(4, "little") if g["isa"] == "ARM64"
                else (0x25080001 | (i << 21) | (i << 16)).to_bytes(4, "big"))
    ret = b"\xc0\x03\x5f\xd6" if g["isa"] == "ARM64" else b"\x03\xe0\x00\x08" + b"\x00\x00\x00\x00"
    c1 = b"".join(insn(i) for i in range(g["n1"]))
    c2 = b"".join(insn(8 + i) for i in range(g["n2"])) + ret
    b1 = add_code_block(bi, c1)
    b2 = add_code_block(bi, c2)
    ir.cfg.add(gtirb.Edge(b1, b2, gtirb.Edge.Label(gtirb.Edge.Type.Fallthrough)))
    A.alignment.get_or_insert(m)[b2] = g["align"]
    rc = RewritingContext(m, gtirb_functions.Function.build_functions(m))
    rc.insert_at(b1, 4 * g["at"], emodify.make_patch("nop\n" * g["count"]))
    try:
        rc.apply()
    except Exception as e:  # noqa: BLE001
        ctx.violation("C01:fixed-width:raises", "%s: apply() raised %s: %s" % (g["isa"], type(e).__name__, str(e)[:100]), g)
        return
    got = b"".join(bytes(i.contents) for i in sorted(sect.byte_intervals, key=lambda i: i.address or 0))
    edited = c1[:4 * g["at"]] + nop * g["count"] + c1[4 * g["at"]:]
    want = edited + nop * ((-len(edited) % g["align"]) // 4) + c2
    if got != want:
        ctx.violation("C01:fixed-width:bytes", "%s: section bytes %s, the listing with the padding demanded by alignment %d is %s"
                      % (g["isa"], got.hex(), g["align"], want.hex()), g)


class _ScopeCtx:
    """C01's requests may also be registered through scopes (register_insert): the scope run of C07 - where every scope puts
    its patch (Spec/Scopes.lean) and the listing check of the output bytes with one insertion per invocation - is run
    here as well; what it finds is a violation of C01's 'each patch spliced in where requested, nothing else changed'"""

    def __init__(self, ctx):
        self.__dict__["_c"] = ctx

    def __getattr__(self, k):
        return getattr(self._c, k)

    def __setattr__(self, k, v):
        setattr(self._c, k, v)

    def violation(self, sig, what, case):
        self._c.violation(sig.replace("C07:", "C01:scope:", 1), what, dict(case, scope_case=True) if isinstance(case, dict) else case)

    def mismatch(self, what, case):
        self._c.mismatch(what, dict(case, scope_case=True) if isinstance(case, dict) else case)


def run_scopes(ctx, n):
    from props import c07

    sc = _ScopeCtx(ctx)
    pending = []
    for _ in range(n):
        case = c07.rename_functions(emodify.gen_case(ctx.rng, nedits=0), ctx.rng)
        if ctx.rng.random() < 0.4:
            code = [i for i, d in enumerate(case["text"]) if d["kind"] == "code"]
            case["entry"] = ctx.rng.choice(code)
        regs = c07.gen_regs(ctx.rng, case)
        if any(d["kind"] == "code" and emodify.block_size(d) == 0 for d in case["text"]):
            continue            # the recorded C07 finding (a scope designating a zero-sized block) is C07's
        ctx.count("scope-registrations")
        c07.check_case(sc, case, regs, False, pending)
    c07.flush(sc, pending)


def run(ctx):
    LE.run(ctx, "C01", 1500, 40000)
    run_scopes(ctx, ctx.budget(150, 3000))
    for k in range(ctx.budget(24, 300)):
        check_fixed_width(ctx, {"fixed_width": True, "isa": ["ARM64", "MIPS32"][k % 2], "n1": 2 + k % 3, "n2": 1 + (k // 2) % 2,
                                "align": [8, 16, 32][k % 3], "at": k % 3, "count": 1 + (k // 3) % 3})
    for _ in range(ctx.budget(100, 2500)):
        check_overlap(ctx, gen_overlap(ctx.rng))
    for _ in range(ctx.budget(120, 3000)):
        check_lead(ctx, gen_lead(ctx.rng))


def replay(ctx, payload):
    case = payload.get("case", payload)
    if isinstance(case, dict) and case.get("scope_case"):
        from props import c07

        pending = []
        c07.check_case(_ScopeCtx(ctx), case["case"], case["regs"], case.get("two_passes", False), pending)
        c07.flush(_ScopeCtx(ctx), pending)
        return
    if isinstance(case, dict) and case.get("overlap_case"):
        check_overlap(ctx, case)
    elif isinstance(case, dict) and case.get("lead_case"):
        check_lead(ctx, case)
    elif isinstance(case, dict) and case.get("fixed_width"):
        check_fixed_width(ctx, case)
    else:
        LE.replay(ctx, "C01", payload)
