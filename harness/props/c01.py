"""
C01 — rewriting edits bytes exactly like editing the assembly listing.

Real code: RewritingContext.apply() (rewriting.py, _modify/*, prepare.py, intervalutils.py)
on generated modules and request sets.
Specification: Spec/Listing.lean (`spliceSpec`, `layoutPieces`) evaluated by the driver on
the real before/after dumps.  Model: Model/IR/*.lean, Model/IR/Batch.lean.
Theorems: Props/C01.lean.
"""
import listing_engine as LE

GEN = []
SOURCES = ["rewriting.py", "_modify/edit.py", "_modify/split.py", "_modify/join.py", "_modify/remove.py",
           "prepare.py", "intervalutils.py"]
RULE = (
    "generated x86-64 ELF modules (1-7 blocks, code and data mixed, 0-3 functions or none, symbols at block starts and "
    "ends, alignment, comments, symbolic expressions) with 0-4 requests (insert / replace / delete, whole-block and "
    "retarget_to_proxy deletions, several requests at one offset, shuffled registration order) drawn from a fixed "
    "vocabulary of code and data patches; a committed corpus of past failures runs first. Distinct by (module, "
    "request list); non-trivial when at least one request is registered. Per case: the section bytes after apply() "
    "against the listing specification, every recorded insert/delete against the Lean IR model, the interval "
    "positions used by _apply_modifications against the running-offset model"
)
ASSUMPTIONS = [
    "x86-64 ELF only and one code section in the generated modules (the byte bookkeeping is ISA independent; the nop used for padding is the only ISA-specific byte, taken from ABI.nop())",
    "requests are registered through insert_at / replace_at / delete_at with explicit offsets on instruction boundaries (scopes that search for an offset are C07)",
    "a request set that apply() refuses counts as a violation unless the refusal is one of three classes recognised on the input alone: an insertion at the end of a block whose tail is deleted in the same batch (known finding), a patch that ends in a label or call at the end of a block that is not followed by code (documented zero-sized-block limit), a patch branching to a label of a block deleted in the same batch when that label now stands on a data block (the assembler rightly refuses)",
    "alignment: a block whose bytes are all deleted keeps its alignment request exactly when the rewritten module still records one for it (the code drops the entry when the block is removed and keeps it when the block stays as a zero-sized block); C01 allows padding demanded by alignment metadata",
]
TRUSTED = [
    "harness/emodify.py (module builder, recorder wrapping gtirb_rewriting.rewriting.insert/delete) and harness/irdump.py (IR -> canonical dump)",
    "the pairing of registered requests with recorded operations assumes the order documented in rewriting.py (blocks by address, then offset, insertions first, then registration order); a wrong pairing shows up as a correspondence mismatch, not as silence",
]


def run(ctx):
    LE.run(ctx, "C01", 1500, 40000)


def replay(ctx, payload):
    LE.replay(ctx, "C01", payload)
