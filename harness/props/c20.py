"""
C20 — internal containers behave like their simple abstract models.

Real code: ReferenceCache, ReturnEdgeCache, make_return_cache (_modify/cache.py),
BlockOrdering/LinkedListNode, OffsetMapping, IdentitySet (_adt/*).
Models: lean/GtirbVerif/Model/Adt/*; specs: Spec/AdtSpec.lean.
One request to the driver = one whole operation history (self-contained replay).
"""
import itertools

from common import ask_driver

GEN = []
SOURCES = ["_modify/cache.py", "_adt/block_ordering.py", "_adt/linked_list.py", "_adt/offset_mapping.py", "_adt/identity_set.py"]
RULE = (
    "operation histories per container: ReferenceCache — every history of length <= 2 over 3 blocks x 3 symbols "
    "(all initial referent patterns sampled) plus seeded histories of length 5-40 including retarget cycles, "
    "self-retargets, partial consumption of get_references, apply; ReturnEdgeCache — seeded add/discard/clear/update "
    "histories over 4 nodes with all label kinds; make_return_cache — seeded bodies touching the cache, the stale CFG "
    "object and ir.cfg, raising or not; BlockOrdering — seeded insert/remove histories over 7 blocks; OffsetMapping — "
    "seeded histories over all Offset/element operations; IdentitySet — seeded add/discard. Distinct by (container, "
    "history); non-trivial when the history has >= 2 operations"
    "; BlockOrdering operations are also fed one-shot generators and lists that name a block twice"
)
ASSUMPTIONS = [
    "node.children / node.symbols of RefNode are Python sets: the yield order of get_references is unspecified, so partial consumption is compared as a set inclusion and abstract state only",
    "the abstract state of the real ReferenceCache is read from its private tables (read-only) after every operation; the public results (get_referent, get_references, referents after apply) are compared independently of that",
    "OffsetMapping stores sub-dicts by reference; the model is value based and the harness never keeps an alias to a dict it handed over (m[x][k]=v on the live sub-dict is modelled as an operation)",
]


# ---------------------------------------------------------------------------
# ReferenceCache
# ---------------------------------------------------------------------------
def _mk_rc_world(nsyms, nblocks, init):
    import gtirb
    from gtirb_test_helpers import add_code_block, add_text_section, create_test_module

    _, m = create_test_module(gtirb.Module.FileFormat.ELF, gtirb.Module.ISA.X64)
    _, bi = add_text_section(m, address=0x1000)
    blocks = [add_code_block(bi, b"\x90") for _ in range(nblocks)]
    syms = []
    for i in range(nsyms):
        r, ae = init[i]
        s = gtirb.Symbol("s%d" % i, payload=blocks[r] if r is not None else None, at_end=ae, module=m)
        syms.append(s)
    return m, blocks, syms


def _rc_abs(rc, blocks, syms):
    from gtirb_rewriting._modify.cache import RefNode

    bidx = {id(b): i for i, b in enumerate(blocks)}
    out = []
    for s in syms:
        if s in rc._referents:
            n = rc._referents[s]
            steps = 0
            while isinstance(n.parent, RefNode):
                n = n.parent
                steps += 1
                if steps > 10000:
                    raise RuntimeError("cycle in reference tree")
            b = n.parent
            out.append([bidx[id(b)], n is rc._references[b][1], False])
        else:
            r = s.referent
            out.append([bidx[id(r)] if r is not None else None, bool(s.at_end), True])
    return out


def run_rc_impl(case):
    from gtirb_rewriting._modify.cache import ReferenceCache

    m, blocks, syms = _mk_rc_world(case["nsyms"], case["nblocks"], case["init"])
    sidx = {id(s): i for i, s in enumerate(syms)}
    bidx = {id(b): i for i, b in enumerate(blocks)}
    rc = ReferenceCache()
    rows = []
    for op in case["ops"]:
        stop = False
        try:
            if op[0] == "retarget":
                rc.retarget_references(blocks[op[1]], blocks[op[2]] if op[2] is not None else None, op[3])
                obs = "ok"
            elif op[0] == "set":
                rc.set_referent(syms[op[1]], blocks[op[2]] if op[2] is not None else None, op[3])
                obs = "ok"
            elif op[0] == "getref":
                r = rc.get_referent(syms[op[1]])
                obs = bidx[id(r)] if r is not None else None
            elif op[0] == "getrefs":
                ys = []
                if op[2] > 0:
                    gen = rc.get_references(blocks[op[1]])
                    for _ in range(op[2]):
                        try:
                            ys.append(sidx[id(next(gen))])
                        except StopIteration:
                            break
                    del gen
                obs = ys
            else:
                rc.apply()
                obs = "ok"
        except AssertionError:
            obs = "AssertionError"
            stop = True
        except Exception as e:  # noqa: BLE001
            obs = "Other:" + type(e).__name__
            stop = True
        row = {"m": obs}
        if not stop:
            try:
                row["abs"] = _rc_abs(rc, blocks, syms)
            except Exception as e:  # noqa: BLE001
                row["abs"] = "unreadable:" + type(e).__name__
        rows.append(row)
        if stop:
            break
    # public end-of-history view: apply, then read the symbols themselves
    final = None
    if not rows or "abs" in rows[-1]:
        try:
            rc.apply()
            final = [[bidx[id(s.referent)] if s.referent is not None else None, bool(s.at_end)] for s in syms]
            if rc._referents or rc._references:
                final = "cache not empty after apply"
        except Exception as e:  # noqa: BLE001
            final = "Other:" + type(e).__name__
    return rows, final


class _Hung(BaseException):
    pass


def _with_deadline(seconds, fn, *a):
    """run fn(*a) on the real code under a wall-clock limit (a history on which the real container loops forever is a
    failing history, not a reason for the whole check to hang)"""
    import signal

    def on_alarm(signum, frame):
        raise _Hung()

    old = signal.signal(signal.SIGALRM, on_alarm)
    signal.setitimer(signal.ITIMER_REAL, seconds)
    try:
        return fn(*a)
    finally:
        signal.setitimer(signal.ITIMER_REAL, 0)
        signal.signal(signal.SIGALRM, old)


HUNG = [0]


def check_rc(ctx, case, pending):
    if HUNG[0] >= 3:
        return          # three histories that do not terminate are reported; no point in waiting for thousands more
    try:
        rows, final = _with_deadline(10, run_rc_impl, case)
    except _Hung:
        HUNG[0] += 1
        ctx.case(("rc", case["init"], case["ops"]), nontrivial=True)
        ctx.violation("C20:refcache:history-does-not-terminate", "the ReferenceCache does not finish the history %s within 10 s (the specification "
                      "answers every operation at once)" % (case["ops"][:8],), case)
        return
    ctx.case(("rc", case["init"], case["ops"]), sample=case if len(case["ops"]) > 3 else None, nontrivial=len(case["ops"]) >= 2)
    ctx.count("rc:histories")
    for op in case["ops"]:
        ctx.count("rc:op:" + op[0])
    req = {"op": "adt_refcache", "nsyms": case["nsyms"], "init": case["init"], "ops": case["ops"]}
    pending.append((req, ("rc", case, rows, final)))


def _judge_rc(ctx, case, rows, final, ans):
    mrows = ans["rows"]
    partial = False
    last_spec = [[r, ae] for r, ae in case["init"]]
    for i, (ir, mr) in enumerate(zip(rows, mrows)):
        op = case["ops"][i]
        sobs = mr["s"]
        what = "op %d %s" % (i, op)
        # --- implementation vs specification (assign directly) ---
        if op[0] == "getrefs":
            full = sorted(sobs)
            got = ir["m"]
            if isinstance(got, str):
                ctx.violation("C20:rc:exception", "%s raised %s" % (what, got), case)
                return
            if op[2] >= len(full):
                okk = sorted(got) == full
            else:
                okk = len(got) == op[2] and len(set(got)) == len(got) and set(got) <= set(full)
                partial = partial or True
            if not okk:
                ctx.violation("C20:rc:get_references", "%s yielded %s; symbols referring to the block: %s" % (what, got, full), case)
                return
        elif ir["m"] != sobs:
            ctx.violation("C20:rc:" + op[0], "%s: real code %r, assigning directly gives %r" % (what, ir["m"], sobs), case)
            return
        if mr.get("stop"):
            break
        spec = mr["spec"]
        last_spec = spec
        if isinstance(ir.get("abs"), str):
            ctx.mismatch("private tables unreadable: %s" % ir["abs"], case)
        elif "abs" in ir:
            iabs = [[a[0], a[1]] for a in ir["abs"]]
            if iabs != spec:
                ctx.violation("C20:rc:referents", "after %s the cache stands for %s, assigning directly gives %s" % (what, iabs, spec), case)
                return
            # --- implementation vs model ---
            mabs = mr["abs"]
            if [[a[0], a[1]] for a in mabs] != iabs:
                ctx.mismatch("model abstract state differs after %s" % what, case)
            elif not partial and [a[2] for a in mabs] != [a[2] for a in ir["abs"]]:
                ctx.mismatch("direct/indirect status differs after %s: impl %s model %s" % (what, ir["abs"], mabs), case)
        if op[0] != "getrefs" and ir["m"] != mr["m"]:
            ctx.mismatch("model result differs at %s: impl %r model %r" % (what, ir["m"], mr["m"]), case)
    if len(rows) != len(mrows):
        ctx.mismatch("history length: impl %d rows, model %d" % (len(rows), len(mrows)), case)
    if final is not None and final != last_spec:
        ctx.violation("C20:rc:after-apply", "after apply() the symbols are %s, assigning directly gives %s" % (final, last_spec), case)


def gen_rc_case(rng, nops, nsyms=3, nblocks=3):
    init = [[rng.choice([None] + list(range(nblocks))), rng.random() < 0.3] for _ in range(nsyms)]
    ops = []
    for _ in range(nops):
        c = rng.random()
        if c < 0.45:
            to = rng.choice(list(range(nblocks)) * 6 + [None])
            ops.append(["retarget", rng.randrange(nblocks), to, rng.random() < 0.4])
        elif c < 0.60:
            ops.append(["set", rng.randrange(nsyms), rng.choice([None] + list(range(nblocks))), rng.random() < 0.4])
        elif c < 0.78:
            ops.append(["getref", rng.randrange(nsyms)])
        elif c < 0.95:
            ops.append(["getrefs", rng.randrange(nblocks), rng.choice([0, 1, 1, 2, 99, 99])])
        else:
            ops.append(["apply"])
    return {"nsyms": nsyms, "nblocks": nblocks, "init": init, "ops": ops}


def rc_alphabet(nsyms, nblocks):
    ops = []
    for b in range(nblocks):
        for to in list(range(nblocks)) + [None]:
            for ae in (False, True):
                ops.append(["retarget", b, to, ae])
    for s in range(nsyms):
        for r in list(range(nblocks)) + [None]:
            for ae in (False, True):
                ops.append(["set", s, r, ae])
        ops.append(["getref", s])
    for b in range(nblocks):
        for k in (1, 99):
            ops.append(["getrefs", b, k])
    ops.append(["apply"])
    return ops


# ---------------------------------------------------------------------------
# ReturnEdgeCache, make_return_cache
# ---------------------------------------------------------------------------
def _edge_world():
    import gtirb

    blocks = [gtirb.CodeBlock() for _ in range(3)]
    proxies = [gtirb.ProxyBlock() for _ in range(2)]
    return blocks, proxies


def _mk_edge(world, e):
    import gtirb

    blocks, proxies = world

    def node(n):
        return blocks[n[1]] if n[0] == "b" else proxies[n[1]]

    lab = None
    if e[2] is not None:
        lab = gtirb.Edge.Label(gtirb.Edge.Type(e[2][0]), conditional=e[2][1], direct=e[2][2])
    return gtirb.Edge(node(e[0]), node(e[1]), lab)


def _edge_json(world, edge):
    blocks, proxies = world
    bi = {id(b): i for i, b in enumerate(blocks)}
    pi = {id(p): i for i, p in enumerate(proxies)}

    def node(n):
        return ["b", bi[id(n)]] if id(n) in bi else ["p", pi[id(n)]]

    lab = None if edge.label is None else [edge.label.type.value, bool(edge.label.conditional), bool(edge.label.direct)]
    return [node(edge.source), node(edge.target), lab]


def _rand_edge(rng):
    src = ["b", rng.randrange(3)] if rng.random() < 0.85 else ["p", rng.randrange(2)]
    dst = ["b", rng.randrange(3)] if rng.random() < 0.6 else ["p", rng.randrange(2)]
    t = rng.choice([None, 0, 1, 2, 3, 3, 3, 3, 4, 5])  # 3 = Return
    lab = None if t is None else [t, rng.random() < 0.3, rng.random() < 0.7]
    return [src, dst, lab]


def _rand_cfg_op(rng, pool):
    c = rng.random()
    if c < 0.5:
        return ["add", rng.choice(pool)]
    if c < 0.85:
        return ["discard", rng.choice(pool)]
    if c < 0.9:
        return ["clear"]
    return ["update", [rng.choice(pool) for _ in range(rng.randint(0, 4))]]


NODES = [["b", 0], ["b", 1], ["b", 2], ["p", 0], ["p", 1]]


def _skey(e):
    return repr(e)


def check_retcache(ctx, rng, pending):
    import gtirb

    from gtirb_rewriting._modify.cache import ReturnEdgeCache

    world = _edge_world()
    pool = [_rand_edge(rng) for _ in range(8)]
    init = [rng.choice(pool) for _ in range(rng.randint(0, 4))]
    ops = [_rand_cfg_op(rng, pool) for _ in range(rng.randint(1, 14))]
    case = {"container": "ReturnEdgeCache", "init": init, "ops": ops}
    ctx.case(("retcache", init, ops), sample=case if len(ops) > 5 else None, nontrivial=len(ops) >= 2)
    ctx.count("retcache:histories")
    blocks, proxies = world

    def node(n):
        return blocks[n[1]] if n[0] == "b" else proxies[n[1]]

    def obs(c):
        q = []
        for n in NODES:
            nn = node(n)
            scan = [e for e in c if e.label is not None and e.label.type == gtirb.Edge.Type.Return and e.source is nn]
            q.append({
                "any": c.any_return_edges(nn),
                "ret": sorted((_edge_json(world, e) for e in c.block_return_edges(nn)), key=_skey),
                "pret": sorted((_edge_json(world, e) for e in c.block_proxy_return_edges(nn)), key=_skey),
                "scan": sorted((_edge_json(world, e) for e in scan), key=_skey),
                "pscan": sorted((_edge_json(world, e) for e in scan if isinstance(e.target, gtirb.ProxyBlock)), key=_skey),
            })
        return {"edges": sorted((_edge_json(world, e) for e in c), key=_skey), "q": q}

    rows = []
    try:
        c = ReturnEdgeCache(_mk_edge(world, e) for e in init)
        plain = gtirb.CFG(_mk_edge(world, e) for e in init)
        rows.append((obs(c), sorted((_edge_json(world, e) for e in plain), key=_skey)))
        for op in ops:
            for tgt in (c, plain):
                if op[0] == "add":
                    tgt.add(_mk_edge(world, op[1]))
                elif op[0] == "discard":
                    tgt.discard(_mk_edge(world, op[1]))
                elif op[0] == "clear":
                    tgt.clear()
                else:
                    tgt.update(_mk_edge(world, e) for e in op[1])
            rows.append((obs(c), sorted((_edge_json(world, e) for e in plain), key=_skey)))
    except Exception as e:  # noqa: BLE001
        ctx.violation("C20:retcache:exception", "ReturnEdgeCache history raised %s" % type(e).__name__, case)
        return
    # implementation vs specification: the cache equals a scan of a plain CFG
    for i, (o, plain_edges) in enumerate(rows):
        if o["edges"] != plain_edges:
            ctx.violation("C20:retcache:edges", "after op %d the cache holds %s, a plain CFG holds %s" % (i, o["edges"], plain_edges), case)
            return
        for n, q in zip(NODES, o["q"]):
            if q["ret"] != q["scan"] or q["pret"] != q["pscan"] or q["any"] != bool(q["scan"]):
                ctx.violation("C20:retcache:index", "after op %d node %s: cached %s/%s any=%s, scan %s/%s" % (i, n, q["ret"], q["pret"], q["any"], q["scan"], q["pscan"]), case)
                return
    req = {"op": "adt_retcache", "nodes": NODES, "init": init, "ops": ops}
    pending.append((req, ("retcache", case, rows, None)))


def _judge_retcache(ctx, case, rows, ans):
    for i, ((o, _), mr) in enumerate(zip(rows, ans["rows"])):
        if sorted(mr["edges"], key=_skey) != o["edges"]:
            ctx.mismatch("ReturnEdgeCache edges differ after op %d" % i, case)
            return
        for q, mq in zip(o["q"], mr["q"]):
            if q["any"] != mq["any"] or q["ret"] != sorted(mq["ret"], key=_skey) or q["pret"] != sorted(mq["pret"], key=_skey):
                ctx.mismatch("ReturnEdgeCache index differs after op %d" % i, case)
                return


def check_retctx(ctx, rng, pending):
    import gtirb

    from gtirb_rewriting._modify.cache import CFGModifiedError, ReturnEdgeCache, make_return_cache

    world = _edge_world()
    pool = [_rand_edge(rng) for _ in range(6)]
    e0 = [rng.choice(pool) for _ in range(rng.randint(0, 4))]
    ops = []
    for _ in range(rng.randint(0, 8)):
        c = rng.random()
        if c < 0.6:
            ops.append(["cache", _rand_cfg_op(rng, pool)])
        elif c < 0.8:
            ops.append(["old", _rand_cfg_op(rng, pool)])
        elif c < 0.9:
            ops.append(["replace"])
        else:
            ops.append(["restore"])
    raises = rng.random() < 0.3
    case = {"container": "make_return_cache", "e0": e0, "ops": ops, "raises": raises}
    ctx.case(("retctx", e0, ops, raises), sample=case if len(ops) > 3 else None, nontrivial=len(ops) >= 1)
    ctx.count("retctx:histories")
    ir = gtirb.IR()
    old = ir.cfg
    for e in e0:
        old.add(_mk_edge(world, e))
    hashes = []
    seen = []
    for e in pool:
        if e not in seen:
            seen.append(e)
            hashes.append([e, hash(_mk_edge(world, e)) & (2**64 - 1)])

    class Boom(Exception):
        pass

    def apply(tgt, op):
        if op[0] == "add":
            tgt.add(_mk_edge(world, op[1]))
        elif op[0] == "discard":
            tgt.discard(_mk_edge(world, op[1]))
        elif op[0] == "clear":
            tgt.clear()
        else:
            tgt.update(_mk_edge(world, e) for e in op[1])

    raised = None
    spec_cache = gtirb.CFG(_mk_edge(world, e) for e in e0)  # what the body did through the cache, on a plain CFG
    spec_old = gtirb.CFG(_mk_edge(world, e) for e in e0)
    replaced = False
    try:
        with make_return_cache(ir) as cache:
            for op in ops:
                if op[0] == "cache":
                    apply(cache, op[1])
                    apply(spec_cache, op[1])
                elif op[0] == "old":
                    apply(old, op[1])
                    apply(spec_old, op[1])
                elif op[0] == "replace":
                    ir.cfg = gtirb.CFG()
                    replaced = True
                else:
                    ir.cfg = cache
                    replaced = False
            if raises:
                raise Boom()
    except Boom:
        raised = "BodyRaised"
    except CFGModifiedError:
        raised = "CFGModifiedError"
    except Exception as e:  # noqa: BLE001
        raised = "Other:" + type(e).__name__
    res = {"irCfgIsOld": ir.cfg is old, "oldEdges": sorted((_edge_json(world, e) for e in ir.cfg), key=_skey), "raised": raised}
    # implementation vs specification
    want_edges = sorted((_edge_json(world, e) for e in spec_cache), key=_skey)
    if not res["irCfgIsOld"] or isinstance(ir.cfg, ReturnEdgeCache):
        ctx.violation("C20:retctx:cfg-object", "after the context ir.cfg is not the caller's CFG object", case)
    elif res["oldEdges"] != want_edges:
        ctx.violation("C20:retctx:edges", "after the context the caller's CFG holds %s, the body left %s" % (res["oldEdges"], want_edges), case)
    else:
        def wh(cfg):
            h = 0
            for e in cfg:
                h ^= hash(e)
            return h
        modified = wh(spec_old) != wh(gtirb.CFG(_mk_edge(world, e) for e in e0))
        want = "BodyRaised" if raises else ("CFGModifiedError" if (modified or replaced) else None)
        if raised != want:
            ctx.violation("C20:retctx:report", "context raised %s, expected %s (old object modified=%s, ir.cfg replaced=%s)" % (raised, want, modified, replaced), case)
    req = {"op": "adt_retctx", "e0": e0, "ops": ops, "raises": raises, "hashes": hashes}
    pending.append((req, ("retctx", case, res, None)))


# ---------------------------------------------------------------------------
# BlockOrdering
# ---------------------------------------------------------------------------
def check_bord(ctx, rng, pending):
    from gtirb_rewriting._adt import BlockOrdering

    import gtirb

    N = 7
    blocks = [gtirb.CodeBlock() for _ in range(N)]
    idx = {id(b): i for i, b in enumerate(blocks)}
    ops = []
    for _ in range(rng.randint(1, 12)):
        c = rng.random()
        k = rng.randint(0, 3)
        bs = rng.sample(range(N), k)
        if bs and rng.random() < 0.12:
            bs.insert(rng.randint(1, len(bs)), rng.choice(bs))     # one block listed twice in a single call
        if c < 0.3:
            ops.append(["addDetached", bs])
        elif c < 0.65:
            ops.append(["insertAfter", rng.randrange(N), bs])
        else:
            ops.append(["remove", rng.randrange(N)])
    case = {"container": "BlockOrdering", "ops": ops}
    ctx.case(("bord", ops), sample=case if len(ops) > 4 else None, nontrivial=len(ops) >= 2)
    ctx.count("bord:histories")
    o = BlockOrdering()
    chains = []  # the plain-list specification, maintained here independently
    rows = []
    for op in ops:
        try:
            # the API takes any iterable: a list, or a one-shot generator
            gen = rng.random() < 0.3
            if op[0] == "addDetached":
                o.add_detached_blocks((blocks[i] for i in op[1]) if gen else [blocks[i] for i in op[1]])
            elif op[0] == "insertAfter":
                o.insert_blocks_after(blocks[op[1]], (blocks[i] for i in op[2]) if gen else [blocks[i] for i in op[2]])
            else:
                o.remove_block(blocks[op[1]])
            r = "ok"
        except KeyError:
            r = "KeyError"
        except ValueError:
            r = "ValueError"
        except Exception as e:  # noqa: BLE001
            r = "Other:" + type(e).__name__
        # spec on plain lists
        members = [x for ch in chains for x in ch]
        if op[0] == "addDetached":
            sr = "ValueError" if any(b in members for b in op[1]) or len(set(op[1])) != len(op[1]) else "ok"
            if sr == "ok" and op[1]:
                chains.append(list(op[1]))
        elif op[0] == "insertAfter":
            if any(b in members for b in op[2]) or len(set(op[2])) != len(op[2]):
                sr = "ValueError"
            elif op[1] not in members:
                sr = "KeyError"
            else:
                sr = "ok"
                for ch in chains:
                    if op[1] in ch:
                        i = ch.index(op[1])
                        ch[i + 1:i + 1] = op[2]
        else:
            if op[1] not in members:
                sr = "KeyError"
            else:
                sr = "ok"
                for ch in chains:
                    if op[1] in ch:
                        ch.remove(op[1])
                chains[:] = [ch for ch in chains if ch]
        adj = []
        for b in blocks:
            try:
                p, n = o.adjacent_blocks(b)
                adj.append([idx[id(p)] if p is not None else None, idx[id(n)] if n is not None else None])
            except KeyError:
                adj.append("KeyError")
            except Exception as e:  # noqa: BLE001
                adj.append("Other:" + type(e).__name__)
        sadj = []
        for i in range(N):
            found = "KeyError"
            for ch in chains:
                if i in ch:
                    j = ch.index(i)
                    found = [ch[j - 1] if j > 0 else None, ch[j + 1] if j + 1 < len(ch) else None]
            sadj.append(found)
        rows.append({"r": r, "adj": adj})
        if r != sr or adj != sadj:
            ctx.violation("C20:bord", "after %s: result %s neighbours %s; a plain list gives %s %s" % (op, r, adj, sr, sadj), case)
            return
    pending.append(({"op": "adt_bord", "n": N, "ops": ops}, ("bord", case, rows, None)))


# ---------------------------------------------------------------------------
# OffsetMapping
# ---------------------------------------------------------------------------
OMAP_FIXED = [
    # a per-element dictionary the caller keeps stays the mapping's dictionary after it ran empty and was filled again
    [["setO", 0, 0, 1], ["view", 0], ["delO", 0, 0], ["setO", 0, 1, 2], ["viewSet", 0, 2, 3], ["getE", 0], ["keys"]],
    [["setE", 1, []], ["view", 1], ["setO", 1, 1, 2], ["viewSet", 1, 2, 3], ["getE", 1], ["keys"], ["len"]],
    [["setO", 2, 0, 1], ["view", 2], ["popO", 2, 0], ["setdefaultO", 2, 1, 4], ["viewSet", 2, 0, 3], ["getE", 2], ["len"]],
]


def check_omap(ctx, rng, pending, fixed=None):
    import gtirb

    from gtirb_rewriting._adt import OffsetMapping

    E = 3
    elems = [gtirb.CodeBlock() for _ in range(E)]
    eidx = {id(e): i for i, e in enumerate(elems)}
    ops = [list(o) for o in fixed] if fixed is not None else []
    for _ in range(rng.randint(1, 16) if fixed is None else 0):
        e, d, v = rng.randrange(E), rng.randrange(3), rng.randrange(5)
        k = rng.choice(["setO", "setO", "getO", "getE", "setE", "delO", "delE", "containsO", "containsE", "len", "bool", "keys", "nodeKeys", "subSet", "popO", "setdefaultO", "view", "viewSet", "viewSet"])
        if k in ("setO", "subSet", "setdefaultO", "viewSet"):
            ops.append([k, e, d, v])
        elif k == "view":
            ops.append([k, e])
        elif k in ("getO", "delO", "containsO", "popO"):
            ops.append([k, e, d])
        elif k in ("getE", "delE", "containsE"):
            ops.append([k, e])
        elif k == "setE":
            ops.append([k, e, [[rng.randrange(3), rng.randrange(5)] for _ in range(rng.randint(0, 2))]])
        else:
            ops.append([k])
    case = {"container": "OffsetMapping", "ops": ops}
    ctx.case(("omap", ops), sample=case if len(ops) > 5 else None, nontrivial=len(ops) >= 2)
    ctx.count("omap:histories")
    m = OffsetMapping()
    spec = {}  # dict of dicts, the specification
    views, sviews = {}, {}     # per-element dictionaries obtained earlier and kept by the caller
    rows = []
    for op in ops:
        k = op[0]
        def both(f):
            res = []
            for tgt, mk in ((m, lambda e, d: gtirb.Offset(elems[e], d)), (None, None)):
                pass
            return res
        try:
            if k == "setO":
                m[gtirb.Offset(elems[op[1]], op[2])] = op[3]; r = "ok"
            elif k == "getO":
                r = m[gtirb.Offset(elems[op[1]], op[2])]
            elif k == "getE":
                r = sorted([a, b] for a, b in m[elems[op[1]]].items())
            elif k == "setE":
                m[elems[op[1]]] = {a: b for a, b in op[2]}; r = "ok"
            elif k == "delO":
                del m[gtirb.Offset(elems[op[1]], op[2])]; r = "ok"
            elif k == "delE":
                del m[elems[op[1]]]; r = "ok"
            elif k == "containsO":
                r = gtirb.Offset(elems[op[1]], op[2]) in m
            elif k == "containsE":
                r = elems[op[1]] in m
            elif k == "len":
                r = len(m)
            elif k == "bool":
                r = bool(m)
            elif k == "keys":
                r = sorted([eidx[id(o.element_id)], o.displacement] for o in m)
            elif k == "nodeKeys":
                r = sorted(eidx[id(e)] for e in m.node_keys())
            elif k == "subSet":
                m[elems[op[1]]][op[2]] = op[3]; r = "ok"
            elif k == "popO":
                r = m.pop(gtirb.Offset(elems[op[1]], op[2]))
            elif k == "view":
                views[op[1]] = m[elems[op[1]]]; r = "ok"
            elif k == "viewSet":
                if op[1] in views:
                    views[op[1]][op[2]] = op[3]
                r = "ok"
            else:
                r = m.setdefault(gtirb.Offset(elems[op[1]], op[2]), op[3])
        except KeyError:
            r = "KeyError"
        except Exception as e:  # noqa: BLE001
            r = "Other:" + type(e).__name__
        # specification: a plain dict of dicts
        try:
            if k == "setO":
                spec.setdefault(op[1], {})[op[2]] = op[3]; sr = "ok"
            elif k == "getO":
                sr = spec[op[1]][op[2]]
            elif k == "getE":
                sr = sorted([a, b] for a, b in spec[op[1]].items())
            elif k == "setE":
                spec[op[1]] = {a: b for a, b in op[2]}; sr = "ok"
            elif k == "delO":
                del spec[op[1]][op[2]]; sr = "ok"
            elif k == "delE":
                del spec[op[1]]; sr = "ok"
            elif k == "containsO":
                sr = op[1] in spec and op[2] in spec[op[1]]
            elif k == "containsE":
                sr = op[1] in spec
            elif k == "len":
                sr = sum(len(v) for v in spec.values())
            elif k == "bool":
                sr = any(len(v) for v in spec.values())
            elif k == "keys":
                sr = sorted([e, d] for e, v in spec.items() for d in v)
            elif k == "nodeKeys":
                sr = sorted(spec)
            elif k == "subSet":
                spec[op[1]][op[2]] = op[3]; sr = "ok"
            elif k == "popO":
                sr = spec[op[1]].pop(op[2])
            elif k == "view":
                sviews[op[1]] = spec[op[1]]; sr = "ok"
            elif k == "viewSet":
                if op[1] in sviews:
                    sviews[op[1]][op[2]] = op[3]
                sr = "ok"
            else:
                sr = spec.setdefault(op[1], {}).setdefault(op[2], op[3])
        except KeyError:
            sr = "KeyError"
        rows.append(r)
        if r != sr:
            ctx.violation("C20:omap:" + k, "%s gives %r, a dictionary of dictionaries gives %r" % (op, r, sr), case)
            return
    if any(o[0] in ("view", "viewSet") for o in ops):
        ctx.count("omap:histories-with-kept-views")      # judged against the dict of dicts only (the Lean model has no aliasing)
    else:
        pending.append(({"op": "adt_omap", "ops": ops}, ("omap", case, rows, None)))


def check_idset(ctx, rng, pending):
    from gtirb_rewriting._adt import IdentitySet

    objs = [[i] for i in range(5)]  # equal-looking but distinct lists: unhashable, compared by identity
    objs[1] = objs[0][:]  # equal value, different identity
    ops = [[rng.choice(["add", "add", "discard"]), rng.randrange(5)] for _ in range(rng.randint(1, 12))]
    case = {"container": "IdentitySet", "ops": ops}
    ctx.case(("idset", ops), nontrivial=len(ops) >= 2)
    ctx.count("idset:histories")
    s = IdentitySet()
    spec = set()
    rows = []
    for op in ops:
        if op[0] == "add":
            s.add(objs[op[1]]); spec.add(op[1])
        else:
            s.discard(objs[op[1]]); spec.discard(op[1])
        ids = sorted(i for i, o in enumerate(objs) if o in s)
        it = sorted(next(i for i, o in enumerate(objs) if o is x) for x in s)
        rows.append({"ids": ids, "len": len(s)})
        if ids != sorted(spec) or it != ids or len(s) != len(spec):
            ctx.violation("C20:idset", "after %s members %s iter %s len %d; a set of identities gives %s" % (op, ids, it, len(s), sorted(spec)), case)
            return
    pending.append(({"op": "adt_idset", "ops": ops}, ("idset", case, rows, None)))


# ---------------------------------------------------------------------------
def flush(ctx, pending):
    if not pending:
        return
    if not ctx.driver_ok:
        pending.clear()
        return
    answers = ask_driver([p[0] for p in pending])
    for (req, (kind, case, rows, final)), a in zip(pending, answers):
        if "err" in a:
            ctx.mismatch("driver: %s" % a["err"], case)
            continue
        if kind == "rc":
            _judge_rc(ctx, case, rows, final, a)
        elif kind == "retcache":
            _judge_retcache(ctx, case, rows, a)
        elif kind == "retctx":
            m = {"irCfgIsOld": a["irCfgIsOld"], "oldEdges": sorted(a["oldEdges"], key=_skey), "raised": a["raised"]}
            if m != rows:
                ctx.mismatch("make_return_cache: impl %s model %s" % (rows, m), case)
        elif kind == "bord":
            for i, (r, mr) in enumerate(zip(rows, a["rows"])):
                if r["r"] != mr["r"] or r["adj"] != mr["st"]["adj"]:
                    ctx.mismatch("BlockOrdering op %d: impl %s model %s" % (i, r, mr), case)
                    break
                if mr["st"]["adj"] != mr["st"]["sadj"]:
                    ctx.mismatch("BlockOrdering model differs from its own chain spec at op %d" % i, case)
                    break
        elif kind == "omap":
            mrows = a["rows"]
            for i, (r, mr) in enumerate(zip(rows, mrows)):
                if isinstance(r, list) and isinstance(mr, list):
                    mr = sorted(mr)
                if r != mr:
                    ctx.mismatch("OffsetMapping op %d %s: impl %r model %r" % (i, case["ops"][i], r, mr), case)
                    break
        elif kind == "idset":
            for i, (r, mr) in enumerate(zip(rows, a["rows"])):
                if r["ids"] != sorted(mr["ids"]) or r["len"] != mr["len"]:
                    ctx.mismatch("IdentitySet op %d: impl %s model %s" % (i, r, mr), case)
                    break
    pending.clear()


CORPUS_RC = [
    # cycle of retargets A->B, B->A, then read through every interface
    {"nsyms": 3, "nblocks": 3, "init": [[0, False], [1, True], [0, True]], "ops": [["retarget", 0, 1, False], ["retarget", 1, 0, True], ["getref", 0], ["getrefs", 0, 1], ["getref", 2], ["apply"]]},
    # self retarget, retarget of an unreferenced block to None, set then retarget
    {"nsyms": 3, "nblocks": 3, "init": [[0, False], [None, False], [2, False]], "ops": [["retarget", 0, 0, True], ["retarget", 1, None, False], ["set", 1, 0, False], ["retarget", 0, 2, False], ["getrefs", 2, 99], ["getref", 1]]},
    # long chain then path shortening
    {"nsyms": 3, "nblocks": 3, "init": [[0, False], [0, True], [1, False]], "ops": [["retarget", 0, 1, False], ["retarget", 1, 2, True], ["retarget", 2, 0, False], ["retarget", 0, 1, True], ["getref", 0], ["getref", 1], ["getref", 2]]},
]


def run(ctx):
    rng = ctx.rng
    pending = []
    for c in CORPUS_RC:
        check_rc(ctx, c, pending)
    # exhaustive short histories
    alpha = rc_alphabet(3, 3)
    inits = [[[0, False], [1, True], [0, True]], [[0, False], [0, False], [None, False]], [[2, True], [1, False], [0, False]]]
    maxlen = 2
    for init in inits[: (3 if ctx.tier == "thorough" else 2)]:
        for L in range(1, maxlen + 1):
            for ops in itertools.product(alpha, repeat=L):
                check_rc(ctx, {"nsyms": 3, "nblocks": 3, "init": init, "ops": [list(o) for o in ops]}, pending)
                if len(pending) >= 2000:
                    flush(ctx, pending)
    flush(ctx, pending)
    for _ in range(ctx.budget(1500, 60000)):
        n = rng.choice([3, 5, 8, 12, 20, 40])
        check_rc(ctx, gen_rc_case(rng, n, nsyms=rng.choice([3, 4, 6]), nblocks=rng.choice([2, 3, 4])), pending)
        if len(pending) >= 2000:
            flush(ctx, pending)
    flush(ctx, pending)
    for f in OMAP_FIXED:
        check_omap(ctx, rng, pending, fixed=f)
    for _ in range(ctx.budget(600, 20000)):
        check_retcache(ctx, rng, pending)
        check_retctx(ctx, rng, pending)
        check_bord(ctx, rng, pending)
        check_omap(ctx, rng, pending)
        check_idset(ctx, rng, pending)
        if len(pending) >= 2000:
            flush(ctx, pending)
    flush(ctx, pending)


def replay(ctx, payload):
    case = payload.get("case", payload)
    pending = []
    if "nsyms" in case:
        check_rc(ctx, case, pending)
    else:
        ctx.notes.append("replay of non-ReferenceCache histories re-runs the seeded stream")
        run(ctx)
    flush(ctx, pending)
