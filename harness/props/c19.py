"""
C19 — delete_symbol removes every trace of the symbol, and only that.

Real code: RewritingContext.delete_symbol(...) + apply() (-> _modify/delete_symbols.py) on
generated ELF and PE modules whose symbols occur in any subset of the tables and expressions.
Model: lean/GtirbVerif/Model/Symbols/Delete.lean.  Theorems: Props/C19.lean.
"""
import io
import json

from common import ask_driver

GEN = []
SOURCES = ["_modify/delete_symbols.py", "rewriting.py", "_auxdata.py"]
RULE = (
    "generated modules (ELF and PE, x86-64) with 2-7 symbols, each occurring in a random subset of: symbolic "
    "expressions (SymAddrConst and SymAddrAddr), elfSymbolInfo, elfSymbolTabIdxInfo, elfSymbolVersions (shared and "
    "unshared version ids, several libraries, base definitions with flags 1 and 3), functionNames, "
    "peImportedSymbols / peExportedSymbols, symbolForwarding as key and as value, CFI directives (personality, "
    "LSDA and others); 1-3 symbols deleted at once with random force flags, some requested twice with different "
    "flags. Per case: the module after apply() against the Lean model, a direct scan for any mention of a deleted "
    "symbol, untouched symbols/entries, and a protobuf round trip"
    "; version entries with the hidden flag"
    "; in a quarter of the cases the same context also retargets the uses of a symbol it deletes to a symbol it keeps "
    "(retarget_symbol_uses + delete_symbol): the deletion is judged on the module in which those uses name the new symbol"
)
ASSUMPTIONS = [
    "when the call fails the reported symbol may be any unforced symbol that is still used (iteration order of intervals and expressions is unspecified): the model and the code must agree on failing and the reported symbol must be such a symbol",
    "a failed call is compared on the fact of failing only; what it leaves behind is judged by C05's closure check",
]
TRUSTED = ["the harness's module builder and its extraction of the tables into the model's shape"]


def gen_case(rng):
    nsyms = rng.randint(2, 7)
    ff = rng.choice(["ELF", "ELF", "PE"])
    syms = list(range(1, nsyms + 1))

    def some(p=0.5):
        return [s for s in syms if rng.random() < p]

    exprs = []
    for k in range(rng.randint(0, 6)):
        # two byte intervals; the same offsets occur in both
        iv = 0 if rng.random() < 0.6 else 1
        off = 8 * rng.randrange(4) if rng.random() < 0.5 else 8 * k
        if any(e[0] == iv and e[1] == off for e in exprs):
            continue
        if rng.random() < 0.75:
            exprs.append([iv, off, [rng.choice(syms)]])
        else:
            exprs.append([iv, off, [rng.choice(syms), rng.choice(syms)]])
    # version ids are just numbers: in most modules the base definition has id 1, in some the ids start elsewhere and
    # 0 / 1 are ordinary (non-base) definitions or requirements
    shift = rng.choice([0, 0, 0, -1, -2, 5])
    base_id = 1 if shift >= 0 else 7
    ver_ids = [i + shift for i in [2, 3, 4, 5, 6]]
    entries = [[s, rng.choice(ver_ids)] for s in some(0.6)] if ff == "ELF" else []
    defs = [[base_id, rng.choice([1, 3])]] + [[i, rng.choice([0, 0, 2])] for i in ver_ids if rng.random() < 0.4]
    reqs = []
    left = [i for i in ver_ids if i not in [d[0] for d in defs]]
    for lib in ["libc.so.6", "libm.so.6", "libx.so"]:
        ids = [i for i in left if rng.random() < 0.5]
        left = [i for i in left if i not in ids]
        if ids or rng.random() < 0.2:
            reqs.append([lib, ids])
    cfi = []
    for k in range(rng.randint(0, 4)):
        name = rng.choice([".cfi_personality", ".cfi_lsda", ".cfi_offset", ".cfi_def_cfa_offset"])
        args = [155] if name in (".cfi_personality", ".cfi_lsda") else ([6, -16] if name == ".cfi_offset" else [16])
        cfi.append([k, name, args, rng.choice(syms) if rng.random() < 0.6 else None])
    fwd = []
    for _ in range(rng.randint(0, 3)):
        a, b = rng.choice(syms), rng.choice(syms)
        if a != b and a not in [x[0] for x in fwd]:
            fwd.append([a, b])
    mod = {"ff": ff, "syms": syms, "exprs": exprs,
           "elfSymInfo": some() if ff == "ELF" else [], "elfTabIdx": some(0.4) if ff == "ELF" else [],
           "verDefs": defs if ff == "ELF" and rng.random() < 0.8 else [], "verReqs": reqs if ff == "ELF" else [],
           "verEntries": entries,
           "funcNames": [[100 + i, s] for i, s in enumerate(some(0.4))],
           "peImports": some(0.4) if ff == "PE" else [], "peExports": some(0.4) if ff == "PE" else [],
           "forwarding": fwd, "cfi": cfi}
    if not mod["verDefs"]:
        mod["verReqs"], mod["verEntries"] = [], []
    # the 'hidden' flag of an entry (foo@VERS_1 rather than foo@@VERS_1) does not make its version any less used
    mod["verHidden"] = [s_ for s_, _ in mod["verEntries"] if rng.random() < 0.4]
    req = []
    for s in rng.sample(syms, rng.randint(1, min(3, nsyms))):
        req.append([s, rng.random() < 0.6])
        if rng.random() < 0.15:
            req.append([s, rng.random() < 0.5])
    case = {"mod": mod, "req": req}
    # the same context may retarget the uses of a symbol it deletes: "at the end of rewriting" nothing names it any more
    asked = {s for s, _ in req}
    cand = [s for s in asked if not any(len(e[2]) == 2 and s in e[2] for e in exprs)]
    others = [s for s in syms if s not in asked]
    if cand and others and rng.random() < 0.25:
        case["retarget"] = [[rng.choice(cand), rng.choice(others)]]
    return case


def after_retarget(mod, pairs):
    """the module as it is when the deletions are carried out: every use of a retargeted symbol names the new one"""
    rm = dict(pairs)
    out = dict(mod)
    out["exprs"] = [[iv, off, [rm.get(x, x) for x in ss]] for iv, off, ss in mod["exprs"]]
    out["cfi"] = [[k, n, a, rm.get(y, y) if y is not None else None] for k, n, a, y in mod["cfi"]]
    out["forwarding"] = [[a, rm.get(b, b)] for a, b in mod["forwarding"]]
    return out


def build(mod):
    import uuid

    import gtirb
    from gtirb_test_helpers import add_code_block, add_data_block, add_text_section, create_test_module

    import gtirb_rewriting._auxdata as A

    ff = getattr(gtirb.Module.FileFormat, mod["ff"])
    ir, m = create_test_module(ff, gtirb.Module.ISA.X64)
    _, bi = add_text_section(m, address=0x1000)
    code = add_code_block(bi, b"\x90" * 8)
    data = add_data_block(bi, b"\x00" * 64)
    # a second byte interval in the same section, holding expressions at the same offsets
    bi2 = gtirb.ByteInterval(contents=b"\x00" * (data.offset + 64), address=0x3000, section=bi.section)
    gtirb.DataBlock(offset=0, size=data.offset + 64, byte_interval=bi2)
    S = {s: gtirb.Symbol("s%d" % s, payload=code, module=m) for s in mod["syms"]}
    for iv, off, ss in mod["exprs"]:
        tgt = bi if iv == 0 else bi2
        if len(ss) == 1:
            tgt.symbolic_expressions[data.offset + off] = gtirb.SymAddrConst(0, S[ss[0]])
        else:
            tgt.symbolic_expressions[data.offset + off] = gtirb.SymAddrAddr(1, 0, S[ss[0]], S[ss[1]])
    if mod["ff"] == "ELF":
        t = A.elf_symbol_info.get_or_insert(m)
        for s in mod["elfSymInfo"]:
            t[S[s]] = (0, "FUNC", "GLOBAL", "DEFAULT", 0)
        if mod["elfTabIdx"]:
            t = A.elf_symbol_tab_idx_info.get_or_insert(m)
            for s in mod["elfTabIdx"]:
                t[S[s]] = [(".symtab", s)]
        if mod["verDefs"]:
            A.elf_symbol_versions.set(m, ({i: (["V%d" % i], fl) for i, fl in mod["verDefs"]},
                                          {lib: {i: "R%d" % i for i in ids} for lib, ids in mod["verReqs"]},
                                          {S[s]: (i, s in mod.get("verHidden", [])) for s, i in mod["verEntries"]}))
    else:
        if mod["peImports"]:
            A.pe_imported_symbols.set(m, [S[s] for s in mod["peImports"]])
        if mod["peExports"]:
            A.pe_exported_symbols.set(m, [S[s] for s in mod["peExports"]])
    F = {}
    if mod["funcNames"]:
        t = A.function_names.get_or_insert(m)
        for f, s in mod["funcNames"]:
            F[f] = uuid.uuid4()
            t[F[f]] = S[s]
            A.function_blocks.get_or_insert(m)[F[f]] = {code}
            A.function_entries.get_or_insert(m)[F[f]] = {code}
    if mod["forwarding"]:
        t = A.symbol_forwarding.get_or_insert(m)
        for a, b in mod["forwarding"]:
            t[S[a]] = S[b]
    if mod["cfi"]:
        t = A.cfi_directives.get_or_insert(m)
        t[gtirb.Offset(code, 0)] = [(n, list(a), S[s] if s is not None else A.NULL_UUID) for _, n, a, s in mod["cfi"]]
    return ir, m, S, F, code, data


def extract(mod0, m, S, F, code, data):
    """the module after the call, in the model's shape"""
    import gtirb

    import gtirb_rewriting._auxdata as A

    inv = {id(y): s for s, y in S.items()}
    finv = {u: f for f, u in F.items()}

    def sid(y):
        return inv.get(id(y), -1)

    bi = code.byte_interval
    exprs = []
    for iv, tgt in enumerate([bi] + [x for x in bi.section.byte_intervals if x is not bi]):
        for off, e in sorted(tgt.symbolic_expressions.items()):
            exprs.append([iv, off - data.offset, [sid(y) for y in e.symbols]])
    vers = A.elf_symbol_versions.get(m)
    defs, reqs, entries = vers if vers else ({}, {}, {})
    cfi_t = A.cfi_directives.get(m) or {}
    cfi = []
    for k, (n, a, y) in enumerate(cfi_t.get(gtirb.Offset(code, 0), [])):
        cfi.append([k, n, [int(x) for x in a], sid(y) if isinstance(y, gtirb.Symbol) else None])
    order = {s: i for i, s in enumerate(mod0["syms"])}
    return {
        "syms": sorted((sid(y) for y in m.symbols), key=lambda s: order.get(s, 99)),
        "exprs": exprs,
        "elfSymInfo": sorted((sid(y) for y in (A.elf_symbol_info.get(m) or {})), key=lambda s: order.get(s, 99)),
        "elfTabIdx": sorted((sid(y) for y in (A.elf_symbol_tab_idx_info.get(m) or {})), key=lambda s: order.get(s, 99)),
        "verDefs": sorted([i, fl] for i, (_, fl) in defs.items()),
        "verReqs": sorted([lib, sorted(ids)] for lib, ids in reqs.items()),
        "verEntries": sorted([sid(y), i] for y, (i, _) in entries.items()),
        "funcNames": sorted([finv.get(u, -1), sid(y)] for u, y in (A.function_names.get(m) or {}).items()),
        "peImports": [sid(y) for y in (A.pe_imported_symbols.get(m) or [])],
        "peExports": [sid(y) for y in (A.pe_exported_symbols.get(m) or [])],
        "forwarding": sorted([sid(a), sid(b)] for a, b in (A.symbol_forwarding.get(m) or {}).items()),
        "cfi": cfi,
    }


def canon(d):
    d = json.loads(json.dumps(d))
    for k in ("syms", "elfSymInfo", "elfTabIdx", "verDefs", "verEntries", "funcNames", "forwarding", "exprs"):
        d[k] = sorted(d[k])
    d["verReqs"] = sorted([lib, sorted(ids)] for lib, ids in d["verReqs"])
    d.pop("ff", None)
    return d


def effective_request(req):
    """delete_symbol called twice: not forced wins"""
    out = {}
    for s, f in req:
        out[s] = f and out.get(s, True)
    return sorted(out.items())


def check_case(ctx, case, pending):
    import logging

    import gtirb_functions
    from gtirb_rewriting import RewritingContext
    from gtirb_rewriting._modify.delete_symbols import SymbolUsesRemainingError

    logging.disable(logging.CRITICAL)
    mod, req = case["mod"], case["req"]
    ir, m, S, F, code, data = build(mod)
    ctx.case(case, sample=case if len(ctx.samples) < 3 else None, nontrivial=True)
    ctx.count(mod["ff"])
    rc = RewritingContext(m, gtirb_functions.Function.build_functions(m))
    for s, f in req:
        rc.delete_symbol(S[s], force=f)
    if case.get("retarget"):
        ctx.count("with-retarget")
        for a, b in case["retarget"]:
            rc.retarget_symbol_uses(S[a], S[b])
        mod = after_retarget(mod, case["retarget"])
    eff = effective_request(req)
    used_unforced = {s for s, f in eff if not f and any(s in e[2] for e in mod["exprs"])}
    err = None
    try:
        rc.apply()
    except SymbolUsesRemainingError as e:
        err = ("uses", next((s for s, y in S.items() if y is e.symbol), -1))
    except Exception as e:  # noqa: BLE001
        ctx.violation("C19:raises", "apply() raised %s: %s" % (type(e).__name__, str(e)[:120]), case)
        return
    after = extract(mod, m, S, F, code, data)
    if err:
        ctx.count("refused:uses-remaining")
        if not used_unforced:
            ctx.violation("C19:spurious-refusal", "SymbolUsesRemainingError although no unforced symbol is used", case)
        elif err[1] not in used_unforced:
            ctx.violation("C19:wrong-symbol-reported", "SymbolUsesRemainingError names symbol %s, which is not an unforced symbol in use" % err[1], case)
    else:
        ctx.count("deleted")
        if used_unforced:
            ctx.violation("C19:unforced-use-not-refused", "symbols %s are still used and were not forced, yet the call succeeded" % sorted(used_unforced), case)
        deleted = {s for s, _ in eff}
        # direct scan: no trace
        flat = json.dumps({k: v for k, v in after.items() if k not in ("verDefs", "verReqs")})
        for s in deleted:
            if s in after["syms"] or any(s in e[2] for e in after["exprs"]) or s in after["elfSymInfo"] or s in after["elfTabIdx"] \
                    or any(s == x[0] for x in after["verEntries"]) or any(s == x[1] for x in after["funcNames"]) \
                    or s in after["peImports"] or s in after["peExports"] or any(s in x for x in after["forwarding"]) \
                    or any(x[3] == s for x in after["cfi"]):
                ctx.violation("C19:trace-left", "deleted symbol %d is still mentioned after apply()" % s, case)
        for x, y in zip(mod["cfi"], after["cfi"]):
            if x[3] in deleted and x[1] in (".cfi_personality", ".cfi_lsda") and y[2] != [255]:
                ctx.violation("C19:pointer-encoding", "%s that named a deleted symbol keeps encoding %s" % (x[1], y[2]), case)
        # version garbage collection: exactly the unused go, the base definition always stays
        keep = {i for s, i in mod["verEntries"] if s not in deleted}
        after_defs = {i for i, _ in after["verDefs"]}
        for i, fl in mod["verDefs"]:
            if (fl & 1) and i not in after_defs:
                ctx.violation("C19:base-definition-dropped", "the base version definition %d (flags %d) was dropped" % (i, fl), case)
            elif i in keep and i not in after_defs:
                ctx.violation("C19:used-version-dropped", "version definition %d is still used but was dropped" % i, case)
            elif i not in keep and not (fl & 1) and i in after_defs:
                ctx.violation("C19:unused-version-kept", "version definition %d is no longer used but was kept" % i, case)
        after_reqs = {lib: set(ids) for lib, ids in after["verReqs"]}
        for lib, ids in mod["verReqs"]:
            want = {i for i in ids if i in keep}
            if ids and not want:
                if lib in after_reqs:
                    ctx.violation("C19:unused-library-kept", "library %s has no used version left but was kept" % lib, case)
            elif after_reqs.get(lib) != want:
                ctx.violation("C19:required-versions", "library %s keeps versions %s, the used ones are %s" % (lib, sorted(after_reqs.get(lib, [])), sorted(want)), case)
        # exactly the expressions that use a deleted symbol are gone, the others are where they were
        want_exprs = sorted(e for e in mod["exprs"] if not any(x in deleted for x in e[2]))
        if sorted(after["exprs"]) != want_exprs:
            ctx.violation("C19:expressions", "expressions after the deletion %s, expected exactly those that use no deleted symbol %s" % (sorted(after["exprs"])[:6], want_exprs[:6]), case)
        # only that
        for s in mod["syms"]:
            if s not in deleted and s not in after["syms"]:
                ctx.violation("C19:collateral", "symbol %d was not asked for but is gone" % s, case)
        # serializable
        try:
            buf = io.BytesIO()
            ir.save_protobuf_file(buf)
        except Exception as e:  # noqa: BLE001
            ctx.violation("C19:not-serializable", "the module no longer serializes: %s" % (str(e)[:100],), case)
    pending.append((case, after, err, {"op": "delete_symbols", "mod": mod, "req": [[s, f] for s, f in eff]}))


def flush(ctx, pending):
    if not pending or not ctx.driver_ok:
        pending.clear()
        return
    try:
        ans = ask_driver([p[3] for p in pending])
    except Exception as e:  # noqa: BLE001
        ctx.driver_ok = False
        ctx.notes.append("driver failure: %r" % (e,))
        pending.clear()
        return
    for (case, after, err, _), a in zip(pending, ans):
        ctx.count("corr")
        if err:
            if a.get("err") != "SymbolUsesRemainingError":
                ctx.mismatch("the code refuses (uses remaining), the model gives %s" % (json.dumps(a)[:200],), case)
        elif "mod" not in a:
            ctx.mismatch("the code deletes, the model refuses: %s" % (a,), case)
        elif canon(a["mod"]) != canon(after):
            import irdump

            ctx.mismatch("module after delete_symbols differs between code and model at %s" % (irdump.diff_paths(canon(after), canon(a["mod"]))[:4],), case)
    pending.clear()


def run(ctx):
    pending = []
    for _ in range(ctx.budget(1500, 40000)):
        check_case(ctx, gen_case(ctx.rng), pending)
        if len(pending) >= 500:
            flush(ctx, pending)
    flush(ctx, pending)


def replay(ctx, payload):
    pending = []
    check_case(ctx, payload.get("case", payload), pending)
    flush(ctx, pending)
