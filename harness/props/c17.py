"""
C17 — CallPatch follows the calling convention and is stack-neutral.

Real code: gtirb_rewriting.patches.calls.CallPatch.get_asm (x86 Intel syntax,
ARM64). The emitted text is parsed into the abstract call-sequence
instructions of lean/GtirbVerif/Model/Abi/Call.lean, compared with the Lean
generator (correspondence) and executed on the Lean machine against the
specification (registers / stack slots / alignment at the call, neutrality).
"""
import re

from common import ask_driver

GEN = ["abi_full"]
SOURCES = ["patches/calls.py", "abi.py", "utils.py"]
RULE = (
    "0..16 arguments of a seeded mix of integers (0, +-1, boundaries 2^15/16/31/32/63/64 +-1, random), symbols and "
    "callables x default and seeded custom CallingConventionDesc (register list prefixes/permutations, alignment "
    "in {4,8,16,32}, shadow space in {0,8,16,32,40}, caller/callee cleanup) x every prologue stack adjustment in "
    "0..64 step 4/8 and None x {x86-64 ELF, x86-64 PE, IA32 PE, ARM64 ELF}; distinct by (ABI, convention, "
    "arguments, adjustment); non-trivial when there is at least one argument"
)
ASSUMPTIONS = [
    "text -> abstract instruction by the harness parser; operand ranges of `mov`/`push` immediates as LLVM accepts them (probed: x86-64 `push` takes a sign-extended imm32)",
    "custom stack alignments are powers of two (align_address uses a mask)",
    "callable arguments are invoked by the real code with the real InsertionContext; the harness checks that the context they receive is the one handed to get_asm",
]

ABIS = {
    "_X86_64_ELF": ("X64", "ELF", 8),
    "_X86_64_PE": ("X64", "PE", 8),
    "_IA32_PE": ("IA32", "PE", 4),
    "_ARM64_ELF": ("ARM64", "ELF", 8),
}

INTS = [0, 1, -1, 5, -5, 0x7FFF, 0x8000, 0xFFFF, 0x10000, -0xFFFF, -0x10000, 2**31 - 1, 2**31, -(2**31), -(2**31) - 1,
        2**32 - 1, 2**32, 2**63 - 1, 2**63, -(2**63), 2**64 - 1, 0xDEADBEEFFEEDFACE, 0x1234_0000_5678, 0xFFFF_0000]


def parse_x86(text):
    out = []
    for line in text.splitlines():
        t = " ".join(line.strip().split())
        if not t:
            continue
        m = re.fullmatch(r"sub [er]sp, (\d+)", t)
        if m:
            out.append(["subSp", int(m.group(1))]); continue
        m = re.fullmatch(r"add [er]sp, (\d+)", t)
        if m:
            out.append(["addSp", int(m.group(1))]); continue
        m = re.fullmatch(r"mov (\w+), (-?\d+)", t)
        if m:
            out.append(["movImm", m.group(1), int(m.group(2))]); continue
        m = re.fullmatch(r"mov (\w+), ([A-Za-z_.$][\w.$]*)(?:\[rip\])?", t)
        if m:
            out.append(["movSym", m.group(1), m.group(2)]); continue
        m = re.fullmatch(r"push (-?\d+)", t)
        if m:
            out.append(["pushImm", int(m.group(1))]); continue
        m = re.fullmatch(r"push ([A-Za-z_.$][\w.$]*)(?:\[rip\])?", t)
        if m:
            out.append(["pushSym", m.group(1)]); continue
        m = re.fullmatch(r"call ([\w.$]+)", t)
        if m:
            out.append(["call", m.group(1)]); continue
        out.append(["UNPARSED", t])
    return out


def parse_arm64(text):
    out = []
    for line in text.splitlines():
        t = " ".join(line.strip().split())
        if not t:
            continue
        m = re.fullmatch(r"sub sp, sp, #(\d+)", t)
        if m:
            out.append(["subSp", int(m.group(1))]); continue
        m = re.fullmatch(r"add sp, sp, #(\d+)", t)
        if m:
            out.append(["addSp", int(m.group(1))]); continue
        m = re.fullmatch(r"mov (\w+), #(-?0x-?[0-9a-fA-F]+)", t)
        if m:
            try:
                v = int(m.group(2), 16)
            except ValueError:
                v = None
            if v is None or "0x-" in m.group(2):
                out.append(["UNPARSED", t]); continue
            out.append(["movSmall", m.group(1), v]); continue
        m = re.fullmatch(r"movz (\w+), #0x([0-9a-fA-F]+)", t)
        if m:
            out.append(["movz", m.group(1), int(m.group(2), 16)]); continue
        m = re.fullmatch(r"movn (\w+), #0x([0-9a-fA-F]+)", t)
        if m:
            out.append(["movn", m.group(1), int(m.group(2), 16)]); continue
        m = re.fullmatch(r"movk (\w+), #0x([0-9a-fA-F]+), lsl #(\d+)", t)
        if m:
            out.append(["movk", m.group(1), int(m.group(2), 16), int(m.group(3))]); continue
        m = re.fullmatch(r"adrp (\w+), ([\w.$]+)", t)
        if m:
            out.append(["adrp", m.group(1), m.group(2)]); continue
        m = re.fullmatch(r"add (\w+), (\w+), #:lo12:([\w.$]+)", t)
        if m and m.group(1) == m.group(2):
            out.append(["addLo12", m.group(1), m.group(3)]); continue
        m = re.fullmatch(r"str (\w+), \[sp, #(\d+)\]", t)
        if m:
            out.append(["strSlot", m.group(1), int(m.group(2))]); continue
        m = re.fullmatch(r"bl ([\w.$]+)", t)
        if m:
            out.append(["bl", m.group(1)]); continue
        out.append(["UNPARSED", t])
    return out


def _mk_module(isa, ff):
    import gtirb
    from gtirb_test_helpers import add_proxy_block, add_symbol, create_test_module

    _, m = create_test_module(getattr(gtirb.Module.FileFormat, ff), getattr(gtirb.Module.ISA, isa))
    callee = add_symbol(m, "callee", add_proxy_block(m))
    syms = [add_symbol(m, "datasym%d" % i, add_proxy_block(m)) for i in range(3)]
    return m, callee, syms


def run_impl(case):
    import gtirb

    from gtirb_rewriting.abi import ABI, CallingConventionDesc
    from gtirb_rewriting.patch import InsertionContext
    from gtirb_rewriting.patches import CallPatch

    isa, ff, W = ABIS[case["abi"]]
    m, callee, syms = _mk_module(isa, ff)
    ctx_seen = []
    args = []
    for a in case["args"]:
        if isinstance(a, dict) and "sym" in a:
            val = syms[a["idx"]]
        else:
            val = a["v"] if isinstance(a, dict) else a
        if isinstance(a, dict) and a.get("callable"):
            args.append(lambda ic, val=val: (ctx_seen.append(ic), val)[1])
        else:
            args.append(val)
    conv = None
    if case["conv"] is not None:
        c = case["conv"]
        conv = CallingConventionDesc(registers=tuple(c["regs"]), stack_alignment=c["align"], caller_cleanup=c["caller_cleanup"], shadow_space=c["shadow"])
    # the arguments are documented as an Iterable: some cases hand them over as a one-shot iterator or a generator
    if case.get("oneshot") == "iter":
        args = iter(args)
    elif case.get("oneshot") == "gen":
        args = (a for a in list(args))
    elif case.get("oneshot") == "tuple":
        args = tuple(args)
    try:
        patch = CallPatch(callee, args, conv)
    except Exception as e:  # noqa: BLE001
        return {"ctor_err": type(e).__name__}
    func = None
    block = gtirb.CodeBlock(size=4)
    ic = InsertionContext(m, func, block, 0, stack_adjustment=case["adj"])
    try:
        text = patch.get_asm(ic)
    except Exception as e:  # noqa: BLE001
        return {"asm_err": type(e).__name__}
    out = {"text": text, "callable_ctx_ok": all(x is ic for x in ctx_seen), "ncallable_calls": len(ctx_seen)}
    # the same patch object at a second insertion point: the callables see the second context
    n1 = len(ctx_seen)
    ic2 = InsertionContext(m, func, gtirb.CodeBlock(size=8), 4, stack_adjustment=case["adj"])
    try:
        text2 = patch.get_asm(ic2)
        out["second"] = {"same_text": text2 == text, "calls": len(ctx_seen) - n1, "ctx_ok": all(x is ic2 for x in ctx_seen[n1:])}
    except Exception as e:  # noqa: BLE001
        out["second"] = {"err": type(e).__name__}
    out["instrs"] = parse_arm64(text) if isa == "ARM64" else parse_x86(text)
    return out


def model_args(case):
    out = []
    for a in case["args"]:
        if isinstance(a, dict) and "sym" in a:
            out.append({"sym": "datasym%d" % a["idx"]})
        elif isinstance(a, dict):
            out.append(a["v"])
        else:
            out.append(a)
    return out


def effective_conv(case):
    from gtirb_rewriting import abi as A

    if case["conv"] is not None:
        return case["conv"]
    obj = next(o for o in A._ABIS.values() if type(o).__name__ == case["abi"])
    cc = obj.calling_convention()
    return {"regs": list(cc.registers), "align": cc.stack_alignment, "caller_cleanup": cc.caller_cleanup, "shadow": cc.shadow_space}


def gen_case(rng, abiname):
    isa, ff, W = ABIS[abiname]
    n = rng.choice([0, 1, 2, 3, 4, 5, 6, 7, 8, 9, 11, 16])
    args = []
    for _ in range(n):
        c = rng.random()
        if c < 0.55:
            v = rng.choice(INTS) if rng.random() < 0.7 else rng.randint(-(2**63), 2**64 - 1)
            if isa == "IA32" and not -(2**31) <= v < 2**32:
                v = v % 2**32  # a 32-bit target passes 32-bit integers
            args.append(v)
        elif c < 0.8:
            args.append({"sym": True, "idx": rng.randrange(3)})
        elif c < 0.9:
            v = rng.choice(INTS)
            if isa == "IA32" and not -(2**31) <= v < 2**32:
                v = v % 2**32
            args.append({"v": v, "callable": True})
        else:
            args.append({"sym": True, "idx": rng.randrange(3), "callable": True})
    conv = None
    if rng.random() < 0.5:
        base = effective_conv({"abi": abiname, "conv": None})
        regs = list(base["regs"])
        if isa != "ARM64":
            pool = ["RDI", "RSI", "RDX", "RCX", "R8", "R9", "RAX", "R10"] if isa == "X64" else ["EAX", "ECX", "EDX"]
            regs = rng.sample(pool, rng.randint(0, len(pool)))
            conv = {"regs": regs, "align": rng.choice([W, 8, 16, 16, 32]) if isa == "X64" else rng.choice([4, 8, 16]),
                    "caller_cleanup": rng.random() < 0.7, "shadow": rng.choice([0, 0, 8, 16, 32, 40])}
        else:
            pool = ["x%d" % i for i in range(8)]
            conv = {"regs": pool[: rng.randint(0, 8)], "align": 16, "caller_cleanup": True, "shadow": 0}
    adj = rng.choice([None, 0, 4, 8, 12, 16, 24, 32, 40, 48, 56, 64, 128, 136])
    if adj is not None and adj % W:
        adj += W - adj % W
    if adj is not None and isa == "ARM64" and adj % 16:
        adj += 16 - adj % 16  # the ARM64 prologue only ever moves sp by multiples of 16
    return {"abi": abiname, "args": args, "conv": conv, "adj": adj, "oneshot": rng.choice([None, None, None, "tuple", "iter", "gen"])}


CORPUS = [
    # finding #8 (fixed): shadow space that is not a multiple of the alignment
    {"abi": "_X86_64_ELF", "args": [1], "conv": {"regs": ["RDI"], "align": 16, "caller_cleanup": True, "shadow": 8}, "adj": 0},
    # finding #10 (fixed): small negative integer on ARM64
    {"abi": "_ARM64_ELF", "args": [-5], "conv": None, "adj": 0},
    # finding #9 (known): symbol argument on x86
    {"abi": "_X86_64_ELF", "args": [{"sym": True, "idx": 0}], "conv": None, "adj": 0},
    # finding #11 (known): 7th integer argument outside imm32 on x86-64
    {"abi": "_X86_64_ELF", "args": [1, 2, 3, 4, 5, 6, 2**32], "conv": None, "adj": 0},
    {"abi": "_X86_64_PE", "args": [1, 2, 3, 4, 5, 6], "conv": None, "adj": 8},
    {"abi": "_IA32_PE", "args": [1, {"sym": True, "idx": 1}, -1], "conv": {"regs": [], "align": 4, "caller_cleanup": False, "shadow": 0}, "adj": 4},
    {"abi": "_ARM64_ELF", "args": list(range(1, 12)), "conv": None, "adj": 16},
]


def check_case(ctx, case, pending):
    impl = run_impl(case)
    isa, ff, W = ABIS[case["abi"]]
    conv = effective_conv(case)
    margs = model_args(case)
    ctx.case(("c17", case["abi"], repr(case["conv"]), repr(margs), case["adj"]), sample=case if case["args"] else None, nontrivial=bool(case["args"]))
    ctx.count("abi:" + case["abi"])
    if "ctor_err" in impl:
        ctx.count("ctor:" + impl["ctor_err"])
        return
    if "asm_err" in impl:
        ctx.violation("C17:get_asm-raises:" + impl["asm_err"], "get_asm raised %s" % impl["asm_err"], case)
        return
    if not impl["callable_ctx_ok"]:
        ctx.violation("C17:callable-context", "an argument callable did not receive the insertion context", case)
    sec = impl.get("second") or {}
    if sec.get("err"):
        ctx.violation("C17:second-insertion-raises", "the same CallPatch at a second insertion point raised %s" % sec["err"], case)
    elif sec and (sec["calls"] != impl["ncallable_calls"] or not sec["ctx_ok"] or not sec["same_text"]):
        ctx.violation("C17:callable-context-second-insertion", "the same CallPatch at a second insertion point: %d callable invocations (first: %d), second context passed: %s, same text: %s"
                      % (sec["calls"], impl["ncallable_calls"], sec["ctx_ok"], sec["same_text"]), case)
    ncall = sum(1 for a in case["args"] if isinstance(a, dict) and a.get("callable"))
    if impl["ncallable_calls"] != ncall:
        ctx.violation("C17:callable-count", "%d callables, %d invocations" % (ncall, impl["ncallable_calls"]), case)
    unp = [i for i in impl["instrs"] if i[0] == "UNPARSED"]
    if unp:
        # text the assembler cannot accept either (e.g. `#0x-5`) is a violation; other text is a disagreement
        if any("0x-" in u[1] for u in unp):
            ctx.violation("C17:malformed-immediate", "emitted operand %s is not valid assembly" % unp[0][1], case)
        else:
            ctx.mismatch("call sequence outside the modelled vocabulary: %s" % unp[:2], case)
        return
    sps = [0x7FFF0000, 0x7FFF0000 + conv["align"] * 3]
    req = {"op": "call_check", "isa": isa, "W": W, "conv": conv, "f": "callee", "args": margs, "adj": case["adj"], "instrs": impl["instrs"], "sps": sps}
    pending.append((req, ("check", case, impl)))
    req2 = {"op": "call_gen", "isa": isa, "W": W, "conv": conv, "f": "callee", "args": margs, "adj": case["adj"]}
    pending.append((req2, ("gen", case, impl)))


def flush(ctx, pending):
    if not pending or not ctx.driver_ok:
        pending.clear()
        return
    answers = ask_driver([p[0] for p in pending])
    for (req, (kind, case, impl)), a in zip(pending, answers):
        if "err" in a:
            ctx.mismatch("driver: %s" % a["err"], case)
            continue
        if kind == "gen":
            if a["instrs"] != impl["instrs"]:
                ctx.mismatch("generated call sequence differs: impl %s model %s" % (impl["instrs"], a["instrs"]), case)
            continue
        for f in a["fails"]:
            isa = ABIS[case["abi"]][0]
            if "the symbol's address" in f and isa in ("X64", "IA32"):
                sig = "C17:x86-symbol-argument-is-loaded-not-its-address"
            elif "assembler rejects an operand of `push`" in f and isa == "X64":
                sig = "C17:x64-stack-integer-outside-imm32"
            else:
                sig = "C17:%s:%s" % (case["abi"], re.sub(r"-?\d+", "N", f))
            ctx.violation(sig, "%s conv=%s args=%s adj=%s: %s" % (case["abi"], case["conv"], model_args(case), case["adj"], f), case)
    pending.clear()


def run(ctx):
    rng = ctx.rng
    pending = []
    for c in CORPUS:
        check_case(ctx, c, pending)
    for abiname in ABIS:
        for _ in range(ctx.budget(400, 12000)):
            check_case(ctx, gen_case(rng, abiname), pending)
            if len(pending) >= 1500:
                flush(ctx, pending)
    flush(ctx, pending)


def replay(ctx, payload):
    pending = []
    check_case(ctx, payload.get("case", payload), pending)
    flush(ctx, pending)
