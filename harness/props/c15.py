"""
C15 — CFI evaluation implements the DWARF rules and fails cleanly.

Real code: gtirb_rewriting.dwarf.cfi_eval.evaluate_cfi_directives.
Model: lean/GtirbVerif/Model/Dwarf/CfiEval.lean; spec: Spec/CfiSpec.lean
(the model is proved to refine it, so the model's rows *are* the rows the
DWARF rules define).
"""
import uuid
from copy import copy

from common import ask_driver
from props.c14 import _obj_json

GEN = ["dwarf", "abi_basic"]
SOURCES = ["dwarf/cfi_eval.py", "dwarf/cfi.py", "abi.py"]
RULE = (
    "seeded directive sequences: 1-3 well-formed procedures (CFA rules, register rules, remember/restore, "
    "restore-to-initial, escaped expression instructions, personality/LSDA/return column) plus a malformed "
    "stream obtained by one mutation (dropped/duplicated startproc or endproc, a stray endproc outside every procedure, unbalanced restore_state, offset "
    "change under an expression CFA, missing symbol, wrong arity, unknown directive, truncated escape), "
    "distributed over 1-4 blocks and offsets, blocks handed over in shuffled order and the table's keys inserted in "
    "shuffled order (insertion order is not address order), per ABI; distinct by "
    "(abi, placed directive list); a case is non-trivial when it has at least 3 directives"
)
ASSUMPTIONS = [
    "Python object aliasing is not expressible in the (immutable) Lean model: independence of copies is checked by serialising the real copies both at yield time and after the whole evaluation",
    "pointer encodings are bytes (0..255)",
]

ELF_ABIS = [("X64", "ELF", "_X86_64_ELF"), ("ARM64", "ELF", "_ARM64_ELF"), ("MIPS32", "ELF", "_MIPS32_ELF")]
PE_ABIS = [("X64", "PE", "_X86_64_PE"), ("IA32", "PE", "_IA32_PE")]


def _exc_name(e):
    from gtirb_rewriting.dwarf.cfi_eval import CFIStateError

    if isinstance(e, CFIStateError):
        return "CFIStateError"
    if isinstance(e, NotImplementedError):
        return "NotImplementedError"
    if isinstance(e, EOFError):
        return "EOFError"
    if isinstance(e, ValueError):
        return "ValueError"
    return "Other:" + type(e).__name__


def _rule_json(r):
    from gtirb_rewriting.dwarf import cfi_eval as E

    if isinstance(r, E.RegisterUndefined):
        return ["undefined"]
    if isinstance(r, E.RegisterSameValue):
        return ["same"]
    if isinstance(r, E.RegisterOffset):
        return ["offset", r.offset]
    if isinstance(r, E.RegValOffset):
        return ["valoffset", r.offset]
    if isinstance(r, E.RegisterInRegister):
        return ["inreg", r.register]
    if isinstance(r, E.RegisterAtExpression):
        return ["at", [_obj_json(o) for o in r.expression]]
    if isinstance(r, E.RegisterIsExpression):
        return ["is", [_obj_json(o) for o in r.expression]]
    return ["?", repr(r)]


def _cfa_json(c):
    from gtirb_rewriting.dwarf import cfi_eval as E

    if c is None:
        return None
    if isinstance(c, E.CFARegisterOffset):
        return ["regoff", c.register, c.offset]
    if isinstance(c, E.CFAExpression):
        return ["expr", [_obj_json(o) for o in c.expression]]
    return ["?", repr(c)]


def _row_json(r):
    return {"regs": sorted([[k, _rule_json(v)] for k, v in r.registers.items()], key=lambda p: p[0]), "cfa": _cfa_json(r.cfa)}


def _state_json(st, symidx):
    if st is None:
        return None

    def ptr(p):
        return None if p is None else [int(p.encoding), symidx.get(id(p.symbol), -1)]

    return {
        "retcol": st.return_column,
        "personality": ptr(st.personality),
        "lsda": ptr(st.lsda),
        "current": _row_json(st.current),
        "initial": _row_json(st.initial),
        "stack": [_row_json(r) for r in st.save_stack],
    }


def _canon_model_state(s):
    if s is None:
        return None
    for key in ("current", "initial"):
        s[key]["regs"] = sorted(s[key]["regs"], key=lambda p: p[0])
    for r in s["stack"]:
        r["regs"] = sorted(r["regs"], key=lambda p: p[0])
    return s


# --------------------------------------------------------------------------
# generation
# --------------------------------------------------------------------------
def _uleb(v):
    out = []
    while True:
        b = v & 0x7F
        v >>= 7
        out.append(b | (0x80 if v else 0))
        if not v:
            return out


def _sleb(v):
    out = []
    while True:
        b = v & 0x7F
        v >>= 7
        done = (v == 0 and not b & 0x40) or (v == -1 and b & 0x40)
        out.append(b | (0 if done else 0x80))
        if done:
            return out


def _escape_bytes(rng, bo, ptr, kind):
    """the bytes of escaped CFA instructions, encoded here from the DWARF tables (not with the encoders under test)"""

    def fixed(v, n, signed=False):
        return list(int(v).to_bytes(n, bo, signed=signed))

    def ex():
        out = []
        for _ in range(rng.randint(1, 3)):
            k = rng.randrange(8)
            if k == 0:
                out += [0x70 + rng.randrange(32)] + _sleb(rng.choice([rng.randint(-300, 300), -8, -16, -64, -65, 63, 64, -1]))   # DW_OP_breg<n>
            elif k == 1:
                out += [0x0A] + fixed(rng.randrange(65536), 2)                  # DW_OP_const2u
            elif k == 2:
                out += [0x0D] + fixed(rng.randint(-2**31, 2**31 - 1), 4, True)  # DW_OP_const4s
            elif k == 3:
                out += [0x23] + _uleb(rng.randrange(1000))                      # DW_OP_plus_uconst
            elif k == 4:
                out += [0x06]                                                   # DW_OP_deref
            elif k == 5:
                out += [0x30 + rng.randrange(32)]                               # DW_OP_lit<n>
            elif k == 6:
                out += [0x03] + fixed(rng.randrange(2**32), ptr)                # DW_OP_addr
            else:
                out += [0x22]                                                   # DW_OP_plus
        return out

    def block(e):
        return _uleb(len(e)) + e

    if kind == "cfa":
        return [0x0F] + block(ex())                                             # DW_CFA_def_cfa_expression
    if kind == "at":
        return [0x10] + _uleb(rng.randrange(40)) + block(ex())                  # DW_CFA_expression
    if kind == "is":
        return [0x16] + _uleb(rng.randrange(40)) + block(ex())                  # DW_CFA_val_expression
    if kind == "nop":
        return [0x00, 0x00]
    if kind == "multi":
        return [0x00] + [0x10] + _uleb(rng.randrange(40)) + block(ex()) + [0x0F] + block(ex())
    return [0x13] + _sleb(rng.randint(-5, 5))                                   # DW_CFA_def_cfa_offset_sf: not supported


def _gen_procedure(rng, nsyms, bo, ptr):
    """A well-formed procedure as a flat list of (name, args, symref)."""
    NULL = "null"
    ds = [(".cfi_startproc", [], NULL)]
    # optional prologue directives that land with startproc
    regs = list(range(0, 34))
    depth = 0
    cfa_regoff = False
    offs = {}
    n = rng.randint(1, 14)
    for _ in range(n):
        c = rng.random()
        r = rng.choice(regs)
        if c < 0.12:
            ds.append((".cfi_def_cfa", [r, rng.choice([0, 8, 16, 32])], NULL))
            cfa_regoff = True
        elif c < 0.20 and cfa_regoff:
            ds.append((".cfi_def_cfa_offset", [rng.choice([8, 16, 24, 48])], NULL))
        elif c < 0.27 and cfa_regoff:
            ds.append((".cfi_adjust_cfa_offset", [rng.choice([-8, 8, 16])], NULL))
        elif c < 0.33 and cfa_regoff:
            ds.append((".cfi_def_cfa_register", [r], NULL))
        elif c < 0.45:
            o = rng.choice([-8, -16, -24, -32])
            ds.append((".cfi_offset", [r, o], NULL))
            offs[r] = True
        elif c < 0.50 and offs:
            rr = rng.choice(sorted(offs))
            ds.append((".cfi_rel_offset", [rr, rng.choice([4, 8])], NULL))
        elif c < 0.55:
            ds.append((".cfi_val_offset", [r, rng.choice([-8, 0, 8])], NULL))
            offs.pop(r, None)
        elif c < 0.60:
            ds.append((".cfi_undefined", [r], NULL))
            offs.pop(r, None)
        elif c < 0.65:
            ds.append((".cfi_same_value", [r], NULL))
            offs.pop(r, None)
        elif c < 0.70:
            ds.append((".cfi_register", [r, rng.choice(regs)], NULL))
            offs.pop(r, None)
        elif c < 0.80:
            ds.append((".cfi_restore", [r], NULL))
            offs = {}  # conservative: rel_offset only right after offset
        elif c < 0.86:
            ds.append((".cfi_remember_state", [], NULL))
            depth += 1
        elif c < 0.92 and depth:
            ds.append((".cfi_restore_state", [], NULL))
            depth -= 1
            offs = {}
            cfa_regoff = False
        elif c < 0.97:
            kind = rng.choice(["cfa", "at", "is", "nop", "multi"])
            ds.append((".cfi_escape", _escape_bytes(rng, bo, ptr, kind), NULL))
            if kind in ("cfa", "multi"):
                cfa_regoff = False
            offs = {}
        else:
            which = rng.choice([".cfi_personality", ".cfi_lsda", ".cfi_return_column"])
            if which == ".cfi_return_column":
                ds.append((which, [rng.randrange(40)], NULL))
            else:
                enc = rng.choice([0x00, 0x1B, 0x9B, 0xFF, 0x10])
                ds.append((which, [enc], {"sym": rng.randrange(nsyms)} if enc != 0xFF or rng.random() < 0.5 else NULL))
    ds.append((".cfi_endproc", [], NULL))
    return ds


def _mutate(rng, ds, bo, ptr):
    """One ill-forming mutation; returns (new list, label)."""
    ds = list(ds)
    k = rng.randrange(13)
    starts = [i for i, d in enumerate(ds) if d[0] == ".cfi_startproc"]
    ends = [i for i, d in enumerate(ds) if d[0] == ".cfi_endproc"]
    pos = rng.randrange(len(ds) + 1)
    if k == 0 and starts:
        del ds[rng.choice(starts)]
        return ds, "drop-startproc"
    if k == 1:
        ds.insert(pos, (".cfi_startproc", [], "null"))
        return ds, "extra-startproc"
    if k == 2 and ends:
        del ds[rng.choice(ends)]
        return ds, "drop-endproc"
    if k == 3:
        ds.insert(pos, (".cfi_restore_state", [], "null"))
        return ds, "extra-restore_state"
    if k == 4:
        ds.insert(pos, (".cfi_escape", _escape_bytes(rng, bo, ptr, "cfa"), "null"))
        ds.insert(pos + 1, (rng.choice([".cfi_def_cfa_offset", ".cfi_adjust_cfa_offset", ".cfi_def_cfa_register"]), [8], "null"))
        return ds, "offset-under-expression-cfa"
    if k == 5:
        ds.insert(pos, (rng.choice([".cfi_personality", ".cfi_lsda"]), [0x1B], rng.choice(["null", "other"])))
        return ds, "missing-symbol"
    if k == 6:
        i = rng.randrange(len(ds))
        name, args, sym = ds[i]
        args = list(args) + [1] if rng.random() < 0.5 or not args else list(args)[:-1]
        ds[i] = (name, args, sym)
        return ds, "wrong-arity"
    if k == 7:
        ds.insert(pos, (".cfi_bogus", [], "null"))
        return ds, "unknown-directive"
    if k == 8:
        b = _escape_bytes(rng, bo, ptr, rng.choice(["cfa", "at"]))
        ds.insert(pos, (".cfi_escape", b[: rng.randrange(1, len(b))], "null"))
        return ds, "truncated-escape"
    if k == 9:
        ds.insert(pos, (".cfi_escape", _escape_bytes(rng, bo, ptr, "unsupported"), "null"))
        return ds, "unsupported-escaped-instruction"
    if k == 10:
        ds.insert(pos, (".cfi_rel_offset", [rng.randrange(34), 8], "null"))
        return ds, "rel_offset-without-offset-rule"
    if k == 12:
        # a second .cfi_endproc: right behind an existing one (outside every procedure), at the very end, or anywhere
        where = rng.choice([pos, len(ds)] + [i + 1 for i in ends])
        ds.insert(where, (".cfi_endproc", [], "null"))
        return ds, "extra-endproc"
    ds.insert(pos, (".cfi_escape", [300], "null"))
    return ds, "escape-not-a-byte"


def _place(rng, ds, nblocks):
    """Distribute a flat directive list over increasing (block, offset)
    locations. Returns [(block, offset, [directives])]."""
    locs = []
    cur = []
    b, off = 0, 0
    for d in ds:
        cur.append(d)
        if rng.random() < 0.45:
            locs.append((b, off, cur))
            cur = []
            # advance
            if rng.random() < 0.35 and b < nblocks - 1:
                b += 1
                off = rng.choice([0, 0, 1])
            else:
                off += rng.randint(1, 3)
    if cur:
        locs.append((b, off, cur))
    if rng.random() < 0.1:
        locs.append((min(b + 1, nblocks - 1), off + 5, []))  # location with an empty list
    return locs


def make_case(rng, deep=False):
    abis = ELF_ABIS if rng.random() < 0.93 else PE_ABIS
    isa, ff, abiname = rng.choice(abis)
    bo = "big" if isa == "MIPS32" else "little"
    ptr = 8 if isa in ("X64", "ARM64") else 4
    nsyms = 3
    nblocks = rng.randint(1, 4)
    ds = []
    for _ in range(rng.randint(1, 3)):
        ds += _gen_procedure(rng, nsyms, bo, ptr)
    label = "well-formed"
    if rng.random() < 0.4:
        ds, label = _mutate(rng, ds, bo, ptr)
    locs = _place(rng, ds, nblocks)
    order = list(range(nblocks))
    rng.shuffle(order)
    # block addresses: sequential with gaps; occasionally a zero-sized block sharing an address
    sizes = [rng.choice([4, 8, 12]) for _ in range(nblocks)]
    return {"isa": isa, "ff": ff, "abi": abiname, "nblocks": nblocks, "sizes": sizes, "locs": [[b, o, [list(d) for d in dl]] for b, o, dl in locs], "order": order, "label": label, "n": len(ds),
            "key_seed": rng.randrange(1 << 30) if rng.random() < 0.7 else None}


# --------------------------------------------------------------------------
# execution
# --------------------------------------------------------------------------
def run_impl(case):
    import gtirb
    from gtirb_test_helpers import add_code_block, add_text_section, create_test_module

    from gtirb_rewriting._auxdata import NULL_UUID
    from gtirb_rewriting.dwarf.cfi_eval import evaluate_cfi_directives

    ff = getattr(gtirb.Module.FileFormat, case["ff"])
    isa = getattr(gtirb.Module.ISA, case["isa"])
    _, m = create_test_module(ff, isa)
    _, bi = add_text_section(m, address=0x1000)
    blocks = []
    for sz in case["sizes"]:
        blocks.append(add_code_block(bi, b"\x00" * sz))
        if len(blocks) > 1:
            pass
    syms = [gtirb.Symbol("cfisym%d" % i, module=m) for i in range(3)]
    symidx = {id(s): i for i, s in enumerate(syms)}
    table = m.aux_data["cfiDirectives"].data
    other = uuid.UUID(int=0x1234)
    # the table's insertion order is not the address order: keys are created in a shuffled order first
    keys = []
    for b, off, _ in case["locs"]:
        if (b, off) not in keys:
            keys.append((b, off))
    if case.get("key_seed") is not None:
        import random as _random

        _random.Random(case["key_seed"]).shuffle(keys)
    for b, off in keys:
        table[gtirb.Offset(blocks[b], off)] = []
    for b, off, dl in case["locs"]:
        key = gtirb.Offset(blocks[b], off)
        lst = table.setdefault(key, [])
        for name, args, sym in dl:
            if isinstance(sym, dict):
                s = syms[sym["sym"]]
            elif sym == "other":
                s = other
            else:
                s = NULL_UUID
            lst.append((name, list(args), s))
    bidx = {id(b): i for i, b in enumerate(blocks)}
    rows_now = []
    copies = []
    err = None
    try:
        for b, off, st in evaluate_cfi_directives(m, [blocks[i] for i in case["order"]]):
            c = copy(st) if st is not None else None
            copies.append((bidx[id(b)], off, c))
            rows_now.append({"block": bidx[id(b)], "offset": off, "state": _state_json(c, symidx)})
    except Exception as e:  # noqa: BLE001
        err = _exc_name(e)
    rows_after = [{"block": b, "offset": off, "state": _state_json(c, symidx)} for b, off, c in copies]
    addrs = [b.address for b in blocks]
    return rows_now, rows_after, err, addrs


def model_request(case, addrs):
    blocks = []
    for i in range(case["nblocks"]):
        m = {}
        for b, off, dl in case["locs"]:
            if b == i:
                m.setdefault(off, []).extend([[n, a, s] for n, a, s in dl])
        blocks.append({"idx": i, "address": addrs[i], "dirs": [[o, m[o]] for o in m] if m else None})
    # evaluation receives the blocks in the shuffled order
    return {"op": "cfi_eval", "abi": case["abi"], "blocks": [blocks[i] for i in case["order"]]}


def check_case(ctx, case, pending):
    rows_now, rows_after, err, addrs = run_impl(case)
    key = (case["abi"], case["locs"], case["order"])
    ctx.case(key, sample={k: case[k] for k in ("abi", "label", "locs", "order")}, nontrivial=case.get("n", 3) >= 3)
    ctx.count("kind:" + case.get("label", "replay"))
    ctx.count("impl:" + (err or "ok"))
    if rows_now != rows_after:
        ctx.violation("C15:copy-not-independent", "a copy of a yielded state changed during later evaluation", case)
    if err and err.startswith("Other"):
        ctx.violation("C15:untyped-error:" + err, "evaluate_cfi_directives raised %s (only CFIStateError/ValueError are allowed)" % err, case)
    pending.append((model_request(case, addrs), case, rows_after, err))


def flush(ctx, pending):
    if not pending or not ctx.driver_ok:
        pending.clear()
        return
    answers = ask_driver([p[0] for p in pending])
    for (req, case, rows, err), a in zip(pending, answers):
        if "rows" not in a:
            ctx.mismatch("driver: %s" % a, case)
            continue
        mrows = [{"block": r["block"], "offset": r["offset"], "state": _canon_model_state(r["state"])} for r in a["rows"]]
        merr = a["err"]
        typed = ("CFIStateError", "ValueError")
        if mrows != rows:
            # the model is proved to refine the DWARF specification: a different row is a wrong state
            n = next((i for i, (x, y) in enumerate(zip(mrows, rows)) if x != y), min(len(mrows), len(rows)))
            ctx.violation("C15:wrong-state", "row %d differs from the state the DWARF rules define: impl %s, spec %s" % (n, rows[n] if n < len(rows) else None, mrows[n] if n < len(mrows) else None), case)
        elif (merr is None) != (err is None):
            ctx.violation("C15:error-vs-state", "impl %s, spec %s" % (err or "completes", merr or "completes"), case)
        elif merr in typed and err not in typed:
            ctx.violation("C15:untyped-error", "ill-formed sequence reported as %s (spec: %s)" % (err, merr), case)
        elif merr != err:
            ctx.mismatch("error kind: impl %s, model %s" % (err, merr), case)
    pending.clear()


CORPUS = [
    # finding #1 (fixed): .cfi_restore of a register with no current and no initial rule
    {"isa": "X64", "ff": "ELF", "abi": "_X86_64_ELF", "nblocks": 1, "sizes": [4], "locs": [[0, 0, [[".cfi_startproc", [], "null"], [".cfi_restore", [3], "null"], [".cfi_endproc", [], "null"]]]], "order": [0], "label": "corpus:restore-without-rule", "n": 3},
    # finding #18 (fixed): big-endian escaped operand on MIPS32
    {"isa": "MIPS32", "ff": "ELF", "abi": "_MIPS32_ELF", "nblocks": 1, "sizes": [4], "locs": [[0, 0, [[".cfi_startproc", [], "null"], [".cfi_escape", [0x0F, 3, 0x0A, 1, 2], "null"]]]], "order": [0], "label": "corpus:mips-big-endian-escape", "n": 3},
    # restore to an initial rule, remember/restore nesting
    {"isa": "ARM64", "ff": "ELF", "abi": "_ARM64_ELF", "nblocks": 2, "sizes": [4, 4], "locs": [[0, 0, [[".cfi_startproc", [], "null"], [".cfi_def_cfa", [31, 0], "null"], [".cfi_offset", [30, -8], "null"]]], [0, 2, [[".cfi_remember_state", [], "null"], [".cfi_undefined", [30], "null"], [".cfi_remember_state", [], "null"], [".cfi_restore", [30], "null"]]], [1, 0, [[".cfi_restore_state", [], "null"], [".cfi_restore_state", [], "null"], [".cfi_endproc", [], "null"]]]], "order": [1, 0], "label": "corpus:nesting", "n": 9},
]


def check_escape_operands(ctx, rng):
    """an escaped DW_CFA_def_cfa_expression whose bytes are written out here from the DWARF standard's encodings: the
    expression the evaluator reports has to hold the operand values the bytes stand for (independent of the
    encoder/decoder tables of the code under test, which the model is regenerated from)"""
    import gtirb
    from gtirb_test_helpers import add_code_block, add_text_section, create_test_module

    from gtirb_rewriting._auxdata import NULL_UUID
    from gtirb_rewriting.dwarf.cfi_eval import evaluate_cfi_directives

    want, data = [], []
    for _ in range(rng.randint(1, 3)):
        k = rng.randrange(6)
        if k == 0:
            r, off = rng.randrange(32), rng.choice([rng.randint(-300, 300), -8, -16, -64, -65, 63, 64, -1, 0])
            want.append({"cls": "OpBReg", "args": [r, off]})
            data += [0x70 + r] + _sleb(off)
        elif k == 1:
            v = rng.randrange(65536)
            want.append({"cls": "OpConst2U", "args": [v]})
            data += [0x0A] + list(v.to_bytes(2, "little"))
        elif k == 2:
            v = rng.choice([rng.randint(-2**31, 2**31 - 1), -1, -128])
            want.append({"cls": "OpConst4S", "args": [v]})
            data += [0x0D] + list(v.to_bytes(4, "little", signed=True))
        elif k == 3:
            v = rng.choice([rng.randrange(1000), 127, 128, 16383, 16384])
            want.append({"cls": "OpPlusUConst", "args": [v]})
            data += [0x23] + _uleb(v)
        elif k == 4:
            v = rng.randrange(32)
            want.append({"cls": "OpLit", "args": [v]})
            data += [0x30 + v]
        else:
            v = rng.choice([rng.randint(-2**20, 2**20), -64, -65, 63, 64])
            want.append({"cls": "OpConstS", "args": [v]})
            data += [0x11] + _sleb(v)
    esc = [0x0F] + _uleb(len(data)) + data
    case = {"escape_operands": esc, "want": want}
    ctx.case(("escape-operands", tuple(esc)), sample=case if len(ctx.samples) < 6 else None, nontrivial=True)
    ctx.count("escape-operands")
    _, m = create_test_module(gtirb.Module.FileFormat.ELF, gtirb.Module.ISA.X64)
    _, bi = add_text_section(m, address=0x1000)
    b = add_code_block(bi, b"\x90\xc3")
    m.aux_data["cfiDirectives"].data[gtirb.Offset(b, 0)] = [(".cfi_startproc", [], NULL_UUID), (".cfi_escape", esc, NULL_UUID)]
    m.aux_data["cfiDirectives"].data[gtirb.Offset(b, 2)] = [(".cfi_endproc", [], NULL_UUID)]
    try:
        states = [st for _, _, st in evaluate_cfi_directives(m, [b]) if st is not None]
        got = [_obj_json(o) for o in states[0].current.cfa.expression]
    except Exception as e:  # noqa: BLE001
        ctx.violation("C15:escape-operands:raises", "a well-formed escaped DW_CFA_def_cfa_expression %s raises %s: %s" % (esc, type(e).__name__, str(e)[:80]), case)
        return
    if got != want:
        ctx.violation("C15:escape-operands", "escaped expression %s evaluates to %s, the bytes stand for %s" % (esc, got, want), case)


def run(ctx):
    pending = []
    for _ in range(ctx.budget(150, 3000)):
        check_escape_operands(ctx, ctx.rng)
    for case in CORPUS:
        check_case(ctx, case, pending)
    n = ctx.budget(1500, 40000)
    for i in range(n):
        check_case(ctx, make_case(ctx.rng), pending)
        if len(pending) >= 500:
            flush(ctx, pending)
    flush(ctx, pending)


def replay(ctx, payload):
    pending = []
    c = payload.get("case", payload)
    if isinstance(c, dict) and "escape_operands" in c:
        import random

        return check_escape_operands(ctx, random.Random(0))
    check_case(ctx, payload.get("case", payload), pending)
    flush(ctx, pending)
