"""
C12 — assembler output: bytes, blocks and CFG match the assembly text.

Real code: gtirb_rewriting.assembler.Assembler (assemble + finalize) on generated texts.
Model: lean/GtirbVerif/Model/Asm/Streamer.lean (the streamer and finalize over the event stream
LLVM's parser delivers).  Specification: lean/GtirbVerif/Spec/AsmCheck.lean (over the text).
Theorems: Props/C12.lean.
"""
import json

import asm_engine as AE
from common import ask_driver

GEN = []
SOURCES = ["assembler/assembler.py", "assembler/_mc_utils.py", "assembler/_create_gtirb.py"]
RULE = (
    "generated token sequences (ordinary instructions, jmp/jcc/call/ret, register- and memory-indirect transfers, "
    "symbolic operands with addends and GOT/LO12/HI/LO variants, labels (global and temporary), .byte/.long/.quad/"
    ".string/.ascii/.zero/.p2align/.uleb128/.sleb128, section switches, CFI procedures) rendered for x86-64 (AT&T and "
    "Intel, ELF DYN/EXEC and PE), IA32 (ELF and PE), ARM64 and MIPS32 (noreorder), with trivially_unreachable on "
    "and off and undefined symbols allowed or not; targets are own labels, undefined names and the target module's "
    "code, proxy and data symbols. Per case: (T) the Result against the Lean model run on the recorded event stream; "
    "(O) capstone's decoding of the bytes against the tokens, the Lean specification asm_check over the text "
    "(tiling, at most one empty block and only last, terminators end blocks with exactly the demanded edges, fresh "
    "proxies, labels on the block at their position, code/data classification) and one expression per symbolic "
    "operand with symbol, addend, size (x86) and attributes"
    "; a corpus of texts that once tripped the assembler ('.zero 0' behind an unreachable label, empty strings) on every configuration"
)
ASSUMPTIONS = [
    "a text the assembler refuses with an AssemblerError (undefined symbol, unsupported expression, a LEB128 value in a block that stays code, ...) is outside 'supported assembly text'; any other exception is a violation",
    "the first block of an executable section counts as reachable unless trivially_unreachable is set, so it stays code even when it holds only data",
    "symbolic-expression sizes are compared with the operand width capstone reports on x86 only; on ARM64 and MIPS32 the field is a sub-word bit field and no width is demanded",
    "MIPS32 texts are written with .set noreorder and explicit delay-slot nops, so that the instructions written are exactly the instructions emitted",
    "alignment values are compared between code and model only; the property does not state what alignment a block gets",
]
TRUSTED = [
    "capstone as the independent disassembler (instruction sizes, mnemonics, x86 operand offsets and widths)",
    "the recorder that wraps _Streamer's entry points to capture the event stream (harness/asm_engine.py)",
    "LLVM's parser and encoder (mcasm): the model starts at the event stream; the byte-level oracle covers it only through capstone",
]

SIG_MIPS_B = "mips-b-pseudo-is-a-conditional-branch"
SIG_EMPTY_STR = "empty-ascii-directive-before-a-label-drops-the-fallthrough-edge"


def gen_tokens(rng, cfg, size, allow_undef=True):
    fam = AE.family(cfg)
    pe = AE.CONFIGS[cfg]["ff"] == "PE"
    tp = AE.temp_prefix(cfg)
    nlabels = rng.randint(1, max(1, size // 3))
    labels = ["f%d" % i for i in range(nlabels)]
    for i in range(rng.randint(0, 2)):
        labels.append("%st%d" % (tp, i))
    rng.shuffle(labels)
    to_define = list(labels)
    externs = ["ext0", "ext1"] if allow_undef else []
    # (the module also has a code symbol whose name looks like a temporary label, as ddisasm's own labels do)
    cfg_targets = labels + externs + ["modfn", "modproxy", tp + "mod"]
    ref_targets = cfg_targets + ["moddata"]
    toks = []
    if fam == "mips":
        toks.append({"t": "raw", "text": ".set noreorder"})
    sect = ".text"
    in_proc = False
    can_cfi = not pe and fam in ("x64", "ia32", "arm64")

    def delay():
        if fam == "mips":
            toks.append({"t": "op", "kind": "nop"})

    n = 0
    while n < size:
        n += 1
        r = rng.random()
        if r < 0.07:
            if in_proc:
                toks.append({"t": "cfi", "text": ".cfi_endproc"})
                in_proc = False
            sect = rng.choice([".text", ".text", ".data", ".rodata"])
            toks.append({"t": "section", "name": sect})
            continue
        if to_define and r < 0.27:
            toks.append({"t": "label", "name": to_define.pop()})
            continue
        code_here = sect == ".text" or rng.random() < 0.05
        if code_here and rng.random() < (0.75 if sect == ".text" else 1.0):
            k = rng.random()
            if k < 0.30:
                kind = rng.choice(["nop", "movi", "push", "add"])
                tok = {"t": "op", "kind": kind}
                if kind == "movi":
                    tok["imm"] = rng.randint(1, 0x7FF)
                toks.append(tok)
            elif k < 0.42:
                toks.append({"t": "jmp", "to": rng.choice(cfg_targets)})
                delay()
            elif k < 0.54:
                toks.append({"t": "jcc", "to": rng.choice(cfg_targets)})
                delay()
            elif k < 0.66:
                toks.append({"t": "call", "to": rng.choice(cfg_targets)})
                delay()
            elif k < 0.74:
                if fam == "mips":
                    toks.append({"t": "ijmp"})
                    delay()
                else:
                    toks.append({"t": "ret"})
            elif k < 0.80:
                toks.append({"t": "ijmp"})
                delay()
            elif k < 0.86:
                toks.append({"t": "icall"})
                delay()
            elif k < 0.89 and fam in ("x64", "ia32"):
                tok = {"t": rng.choice(["icallm", "ijmpm"]), "to": rng.choice(ref_targets)}
                if fam == "x64" and not pe and rng.random() < 0.4:
                    tok["got"] = True
                toks.append(tok)
            elif k < 0.91 and fam == "mips":
                toks.append({"t": "b", "to": rng.choice(labels)})
                delay()
            elif can_cfi and k < 0.94 and sect == ".text":
                if not in_proc:
                    toks.append({"t": "cfi", "text": ".cfi_startproc"})
                    in_proc = True
                elif rng.random() < 0.5:
                    toks.append({"t": "cfi", "text": ".cfi_def_cfa_offset %d" % rng.choice([16, 24, 32])})
                else:
                    toks.append({"t": "cfi", "text": ".cfi_endproc"})
                    in_proc = False
            else:
                tok = {"t": "ref", "to": rng.choice(ref_targets)}
                v = rng.random()
                if v < 0.12 and fam == "x64":
                    tok["imm"] = rng.randint(1, 100)
                    tok["addend"] = rng.choice([0, 4, 8])
                elif v < 0.12 and fam == "arm64":
                    tok["lit"] = True
                    tok["addend"] = rng.choice([0, 8, 16])
                elif v < 0.3 and fam in ("x64", "ia32", "arm64"):
                    tok["addend"] = rng.choice([4, 8, 16])
                elif v < 0.45 and fam in ("x64", "arm64") and not pe:
                    tok["got"] = True
                    if fam == "x64" and rng.random() < 0.5:
                        # the thread-local and other ELF relocation variants, written like @GOTPCREL
                        tok["variant"] = rng.choice(["GOTTPOFF", "GOTNTPOFF", "TPOFF", "NTPOFF", "DTPOFF", "TLSGD"])
                elif v < 0.6 and fam in ("arm64", "mips"):
                    tok["lo12"] = True
                    if rng.random() < 0.5:
                        tok["addend"] = rng.choice([4, 8])
                elif v < 0.7 and fam == "mips":
                    tok["addend"] = rng.choice([4, 8])      # %hi(sym+n)
                toks.append(tok)
        else:
            k = rng.random()
            if k < 0.30:
                toks.append({"t": "byte", "vals": [rng.randint(0, 255) for _ in range(rng.randint(1, 4))]})
            elif k < 0.40:
                toks.append({"t": "long", "val": rng.randint(0, 1000)})
            elif k < 0.48:
                toks.append({"t": "quad", "val": rng.randint(0, 1000)})
            elif k < 0.60:
                tok = {"t": "quadsym", "to": rng.choice(ref_targets)}
                if rng.random() < 0.3:
                    tok["addend"] = rng.choice([1, 4, 8])
                toks.append(tok)
            elif k < 0.70:
                toks.append({"t": "string", "s": rng.choice(["", "a", "hi", "xyz", "\x00", "\x00"])})
            elif k < 0.78:
                toks.append({"t": "ascii", "s": rng.choice(["", "a", "ab", "q", "\x00", "\x00", "a\x00"])})
            elif k < 0.86:
                toks.append({"t": "zero", "n": rng.choice([0, 1, 1, 2, 3, 4, 6])})
            elif k < 0.95:
                toks.append({"t": "align", "a": rng.choice([2, 4, 8, 16])})
            elif len(labels) >= 2:
                a, b = rng.sample(labels, 2)
                toks.append({"t": "leb", "signed": rng.random() < 0.5, "a": a, "b": b})
    if in_proc:
        toks.append({"t": "cfi", "text": ".cfi_endproc"})
    for name in to_define:
        toks.append({"t": "label", "name": name})
    return toks


def gen_case(rng, size=None):
    cfg = rng.choice(list(AE.CONFIGS))
    size = size or rng.choice([3, 5, 8, 12, 20, 30])
    allow_undef = rng.random() < 0.85
    return {"cfg": cfg, "tokens": gen_tokens(rng, cfg, size, allow_undef), "allow_undef": allow_undef, "triv": rng.random() < 0.4}


ASSEMBLER_ERRORS = ("AsmSyntaxError", "UndefSymbolError", "UnsupportedAssemblyError", "MultipleDefinitionsError", "AssemblerError")


def known_sig(case, issue, sreq):
    """recorded deviations: MIPS `b label` is encoded as beq $0,$0 and classified conditional; an empty
    .ascii directive splits the block without a fallthrough edge"""
    if AE.family(case["cfg"]) == "mips" and any(t["t"] == "b" for t in case["tokens"]):
        if issue[0] in ("conditional-flag-wrong", "fallthrough-edge-where-execution-does-not-continue", "fallthrough-edge-missing-or-wrong"):
            return SIG_MIPS_B
    if issue[0] == "fallthrough-edge-missing-or-wrong" and sreq is not None:
        sect = sreq["sects"][issue[1]]
        end = next((b[0] + b[1] for b in sect["blocks"] if b[0] == issue[2]), None)
        p = 0
        for it in sect["items"]:
            if it[0] == "data" and it[1] == 0 and it[2] and p == end:
                return SIG_EMPTY_STR
            p += it[1] if it[0] in ("data", "insn") else 0
    return None


def check_case(ctx, case, pending):
    cfg, tokens = case["cfg"], case["tokens"]
    ctx.case(case, sample=case if len(ctx.samples) < 3 else None, nontrivial=len(tokens) > 3)
    ctx.count("cfg:" + cfg)
    ctx.count("tokens:%d" % (10 * (len(tokens) // 10)))
    try:
        text = AE.render(tokens, cfg)
    except ValueError:
        ctx.count("unrenderable")
        return
    real = AE.run_real(cfg, [text], allow_undef=case["allow_undef"], triv=case["triv"])
    real["triv"] = case["triv"]
    req = AE.model_request(cfg, real, case["allow_undef"], case["triv"])
    if real["err_class"]:
        if real["err_class"] in ASSEMBLER_ERRORS:
            ctx.count("refused:" + real["err_class"] + ":" + " ".join(real["err"].split()[:6]))
        else:
            ctx.violation("C12:crash:" + real["err_class"], "the assembler raised %s (%s) instead of a result or an AssemblerError; text:\n%s"
                          % (real["err_class"], real["err"][:100], text), case)
        if req is not None and real["err_class"] != "AsmSyntaxError":
            pending.append((case, real, None, req))
        return
    ctx.count("assembled")
    for tok in tokens:
        ctx.count("tok:" + (tok["kind"] if tok["t"] == "op" else tok["t"]))
    sreq, problems, operands = AE.describe(tokens, cfg, real)
    for what, sect, pos in problems:
        ctx.violation("C12:bytes:" + what, "the bytes do not decode to the text at %s+%d: %s; text:\n%s" % (sect, pos, what, text), case)
    ctx.count("operands", len(operands))
    for what, o in AE.check_operands(real, operands, cfg):
        ctx.violation("C12:operand:" + what.split(":")[0], "symbolic operand: %s at %s+%s; text:\n%s" % (what, o.get("sect"), o.get("pos"), text), case)
    pending.append((case, real, sreq, req))


def flush(ctx, pending):
    if not pending or not ctx.driver_ok:
        pending.clear()
        return
    reqs, slots = [], []
    for i, (case, real, sreq, req) in enumerate(pending):
        if sreq is not None:
            reqs.append(sreq)
            slots.append((i, "spec"))
        if req is not None:
            reqs.append(req)
            slots.append((i, "model"))
    try:
        ans = ask_driver(reqs)
    except Exception as e:  # noqa: BLE001
        ctx.driver_ok = False
        ctx.notes.append("driver failure: %r" % (e,))
        pending.clear()
        return
    for (i, what), a in zip(slots, ans):
        case, real, sreq, req = pending[i]
        text = AE.render(case["tokens"], case["cfg"])
        if what == "spec":
            ctx.count("spec")
            if "issues" not in a:
                ctx.mismatch("asm_check failed: %s" % (json.dumps(a)[:200],), case)
                continue
            for issue in a["issues"]:
                sig = known_sig(case, issue, sreq)
                if sig:
                    ctx.violation(sig, "%s: %s" % (sig, issue[0]), case)
                else:
                    ctx.violation("C12:" + issue[0], "%s in section %d at offset %d; text:\n%s" % (issue[0], issue[1], issue[2], text), case)
        else:
            ctx.count("corr")
            if real["err_class"]:
                cls = (a.get("err") or "").split(":")[0]
                if cls != real["err_class"]:
                    ctx.mismatch("the code raises %s (%s), the model gives %s; text:\n%s" % (real["err_class"], real["err"][:80], json.dumps(a)[:160], text), case)
            elif "err" in a:
                ctx.mismatch("the code assembles, the model raises %s; text:\n%s" % (a["err"], text), case)
            else:
                import irdump

                r, m = AE.canon_result(real), AE.canon_model(a)
                if r != m:
                    ctx.mismatch("Result differs between code and model at %s; text:\n%s" % (irdump.diff_paths(r, m)[:4], text), case)
    pending.clear()


# texts that once tripped the assembler (each runs first, on every configuration family that can render it)
CORPUS = [
    # a zero-sized fill behind a trailing label nothing reaches (fixed d0ba9e3)
    [{"t": "ret"}, {"t": "label", "name": "T0"}, {"t": "zero", "n": 0}],
    [{"t": "op", "kind": "nop"}, {"t": "zero", "n": 0}, {"t": "label", "name": "T0"}, {"t": "zero", "n": 0}, {"t": "op", "kind": "nop"}],
    # an empty string directive (fixed 39c6e81)
    [{"t": "op", "kind": "nop"}, {"t": "ascii", "s": ""}, {"t": "label", "name": "T0"}, {"t": "ret"}],
]


def run(ctx):
    pending = []
    for toks in CORPUS:
        for cfg in AE.CONFIGS:
            ctx.count("corpus")
            check_case(ctx, {"cfg": cfg, "tokens": json.loads(json.dumps(toks)), "allow_undef": True, "triv": False}, pending)
    for _ in range(ctx.budget(1200, 30000)):
        check_case(ctx, gen_case(ctx.rng), pending)
        if len(pending) >= 400:
            flush(ctx, pending)
    flush(ctx, pending)


def replay(ctx, payload):
    pending = []
    check_case(ctx, payload.get("case", payload), pending)
    flush(ctx, pending)
