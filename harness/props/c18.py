"""
C18 — retarget_symbol_uses is complete and precise.

Real code: RewritingContext.retarget_symbol_uses(A, B) (+ apply()) on generated modules.
Model: lean/GtirbVerif/Model/Symbols/Retarget.lean.  Theorems: Props/C18.lean.
Return edges: the flat-CFG specification of C03 on the output.
"""
import json

import emodify
import irdump
import listing_engine as LE
from common import ask_driver

GEN = []
SOURCES = ["_modify/retarget.py", "rewriting.py", "abi.py", "_modify/edges.py"]
RULE = (
    "generated x86-64 ELF modules (PIE and non-PIE) as in C01 with uses of symbols in control-flow operands (jmp, jcc, "
    "call), data references in code (lea), data words (.quad), CFI personality/LSDA directives and symbolForwarding; "
    "internal symbols (code and data labels) and external ones (proxies) with the attributes the ABI's rules give "
    "external uses; 1-3 retargets at once in every internal/external combination including chains A->B, B->C, and "
    "invalid requests (foreign module, no referent, the same symbol twice, control flow into data). Per case the "
    "module after apply() against the Lean model (expressions with symbol, addend, attributes; CFI; symbolForwarding; "
    "the edge set), and the output CFG against the flat-CFG specification"
    "; ARM64 (fixed-width instructions: the expression sits at the first byte of its instruction): a block of 0-3 ordinary instructions and `adr` "
    "references followed by `bl A` / `b A` / `b.ne A` / `cbz x0, A`, not first in its byte interval, B internal or external, PIE or not, judged "
    "directly: exactly that instruction's edge moves, every expression naming A names B with its addend, the transfer's operand keeps its attributes"
    "; transfers through memory ('call *A(%rip)', 'jmp *A(%rip)') with data words, code labels and externals as A; a refusal 'control flow into a data block' is judged against the edges that would really move; retargeting combined with delete_symbol of the old symbol"
)
ASSUMPTIONS = [
    "how an operand is used (control flow / code reference / data) and which block holds it are determined by the harness with capstone and the block geometry and handed to the model",
    "SymAddrAddr expressions mentioning a retargeted symbol are refused by the code (NotImplementedError); the model refuses too",
    "the x86-64 ELF rule table is read from the live ABI object on every run and handed to the model (correspondence); the oracle judges attributes with the psABI's table written down in the runner (spec_rules), so a changed table in abi.py shows as wrong attributes on a concrete input",
]
TRUSTED = ["harness/emodify.py, harness/irdump.py, capstone"]

SIG_RETURN_EDGES = "retargeting-a-call-target-leaves-the-return-edges-of-both-functions"


def rules_of(m):
    from gtirb_rewriting.abi import ABI, _SymExprAttributeRule

    acc = {_SymExprAttributeRule.AccessType.CONTROL_FLOW: 0, _SymExprAttributeRule.AccessType.CODE_REF: 1,
           _SymExprAttributeRule.AccessType.DATA: 2}
    out = []
    for r in ABI.get(m)._sym_expr_rules(m):
        out.append({"internal": sorted(irdump.ATTRS[a] for a in r.internal_attrs),
                    "external": sorted(irdump.ATTRS[a] for a in r.external_attrs),
                    "access": sorted(acc[a] for a in r.access_types)})
    return out


def spec_rules(pie, elf=True):
    """the x86-64 ELF conversion table as the psABI has it, written down here independently of abi.py (access 0 = control
    flow, 1 = reference from code, 2 = data): position-independent code reaches an external through the PLT when it
    transfers control and through the GOT, pc-relative, when it references it; position-dependent code reaches it through
    the PLT from code; a data word carries no such attribute"""
    import gtirb

    at = gtirb.SymbolicExpression.Attribute
    if not elf:
        return []           # PE: imports are reached through the import table, no attribute stands for that
    if pie:
        return [{"internal": [], "external": sorted([irdump.ATTRS[at.GOT], irdump.ATTRS[at.PCREL]]), "access": [1]},
                {"internal": [], "external": [irdump.ATTRS[at.PLT]], "access": [0]}]
    return [{"internal": [], "external": [irdump.ATTRS[at.PLT]], "access": [0, 1]}]


def model_input(dump, fwd, insns):
    ivs = {i["id"]: i for i in dump["intervals"]}
    blocks = dump["blocks"]
    ins = dict(insns)
    refs = []
    code = {b["id"]: b["code"] for b in blocks}
    for y in dump["syms"]:
        if y["ref"] is None:
            refs.append([y["id"], None])
        elif y["ref"][0] == "p":
            refs.append([y["id"], ["p", y["ref"][1]]])
        else:
            refs.append([y["id"], ["c" if code.get(y["ref"][1]) else "d", y["ref"][1]]])
    exprs = []
    for iv in dump["intervals"]:
        for off, e in iv["symexprs"]:
            cover = [b for b in blocks if b["bi"] == iv["id"] and b["size"] and b["off"] <= off < b["off"] + b["size"]]
            access, cfgb = 2, None
            if len(cover) == 1 and cover[0]["code"]:
                b = cover[0]
                cfgb = b["id"]
                access = 1
                for o, sz, kind in ins.get(b["id"], []):
                    if b["off"] + o <= off < b["off"] + o + sz:
                        access = 0 if kind in (1, 2, 3, 5, 6) else 1
            exprs.append({"interval": iv["id"], "off": off, "addraddr": e["kind"] == 1,
                          "syms": [e["sym1"]] + ([e["sym2"]] if e["kind"] == 1 else []), "addend": e["offset"],
                          "attrs": e["attrs"], "access": access, "blocks": len(cover), "cfg_block": cfgb})
    cfi = []
    k = 0
    for b, disp, ds in dump["aux"]["cfi"]:
        for n, a, y in ds:
            cfi.append([k, y])
            k += 1
    cfg = []
    for s, t, l in dump["cfg"]:
        lab = l or [99, False, False]
        cfg.append([s[1], t[0] == "p", t[1], lab[0], (2 if lab[1] else 0) + (1 if lab[2] else 0)])
    return {"refs": refs, "exprs": exprs, "cfi": cfi, "forwarding": fwd, "cfg": cfg}


def observed(dump, fwd):
    exprs = []
    for iv in dump["intervals"]:
        for off, e in iv["symexprs"]:
            exprs.append({"interval": iv["id"], "off": off, "addraddr": e["kind"] == 1,
                          "syms": [e["sym1"]] + ([e["sym2"]] if e["kind"] == 1 else []), "addend": e["offset"], "attrs": e["attrs"]})
    cfi = []
    k = 0
    for b, disp, ds in dump["aux"]["cfi"]:
        for n, a, y in ds:
            cfi.append([k, y])
            k += 1
    cfg = []
    for s, t, l in dump["cfg"]:
        lab = l or [99, False, False]
        cfg.append([s[1], t[0] == "p", t[1], lab[0], (2 if lab[1] else 0) + (1 if lab[2] else 0)])
    return {"exprs": sorted(exprs, key=lambda e: (e["interval"], e["off"])), "cfi": cfi, "forwarding": sorted(fwd), "cfg": sorted(cfg)}


def gen(rng):
    case = emodify.gen_case(rng, nedits=0)
    for d in case["text"]:
        d.pop("align", None)
    case["binary_type"] = rng.choice([["DYN"], ["EXEC"]])
    if rng.random() < 0.3:
        case["base"] = 0        # relocatable modules start at address 0
    text = case["text"]
    names = [y["name"] for d in text for y in d["syms"] if not y.get("at_end")] + list(case["externs"])
    # CFI with personality / LSDA symbols on some function entries
    for d in text:
        if d["kind"] == "code" and d.get("entry") and rng.random() < 0.5:
            size = emodify.block_size(d)
            d["cfi"] = [[0, [[".cfi_startproc", [], None], [".cfi_personality", [155], rng.choice(names)]] +
                         ([[".cfi_lsda", [27], rng.choice(names)]] if rng.random() < 0.4 else [])],
                        [size, [[".cfi_endproc", [], None]]]]
    # transfers through memory: `call *A(%rip)` / `jmp *A(%rip)`, A a data word (a function-pointer slot, a jump
    # table), a code label or an external - control-flow operands none of whose edges leads to A's referent
    for d in text:
        if d["kind"] == "code" and d["insns"][-1][0] in ("jmp", "call") and rng.random() < 0.2:
            d["insns"][-1] = ["icallm" if d["insns"][-1][0] == "call" else "ijmpm", rng.choice(names), 0]
    # `loop A`: a conditional branch that the disassembler's instruction groups do not list among the jumps
    for d in text:
        if d["kind"] == "code" and d["insns"][-1][0] == "jcc" and rng.random() < 0.25:
            d["insns"][-1] = ["loop", d["insns"][-1][1]]
    fwd = []
    for _ in range(rng.randint(0, 2)):
        a, b = rng.choice(names), rng.choice(names)
        if a != b and a not in [x[0] for x in fwd]:
            fwd.append([a, b])
    code_names = [y["name"] for d in text if d["kind"] == "code" for y in d["syms"] if not y.get("at_end")]
    req = []
    pool = list(names)
    for _ in range(rng.randint(1, 3)):
        a = rng.choice(pool)
        b = rng.choice(names)
        if a != b:
            req.append([a, b])
    if rng.random() < 0.15 and req:
        req.append(list(req[0]))            # the same symbol twice
    special = None
    k = rng.random()
    if k < 0.05:
        special = "foreign"
    elif k < 0.10:
        special = "no-referent"
    # GOT-style transfers: the edge of a call/jump is labelled indirect although it leads to the symbol's block
    indirect = [i for i, d in enumerate(text) if d["kind"] == "code" and d["insns"][-1][0] in ("jmp", "jcc", "loop", "call") and rng.random() < 0.15]
    return {"case": case, "forwarding": fwd, "req": req, "special": special, "indirect": indirect,
            "odd_attrs": rng.randrange(1 << 30) if rng.random() < 0.3 else None}


def check_case(ctx, g, pending):
    import logging

    import gtirb
    import gtirb_functions
    from gtirb_rewriting import RewritingContext
    from gtirb_rewriting._modify.edit import AmbiguousIRError

    import gtirb_rewriting._auxdata as A

    logging.disable(logging.CRITICAL)
    case = LE.strip_case(g["case"])
    payload = dict(g, case=case)
    B = emodify.build(json.loads(json.dumps(case)))
    m = B.m
    # externals carry the attributes the ABI's rules give them
    from gtirb_rewriting.abi import ABI, _SymExprAttributeRule

    idm = irdump.IdMap()
    if g["forwarding"]:
        t = A.symbol_forwarding.get_or_insert(m)
        for a, b in g["forwarding"]:
            t[B.sym[a]] = B.sym[b]
    for i in g.get("indirect", []):
        blk = B.blocks[i]
        for ed in list(blk.outgoing_edges):
            if ed.label and ed.label.type in (gtirb.Edge.Type.Branch, gtirb.Edge.Type.Call):
                B.ir.cfg.discard(ed)
                B.ir.cfg.add(ed._replace(label=gtirb.Edge.Label(type=ed.label.type, conditional=ed.label.conditional, direct=False)))
    if g.get("indirect"):
        ctx.count("indirect-flagged-edges")
    pre = irdump.dump_ir(m, idm)
    insns = emodify.decode_insns(pre)
    rules = rules_of(m)
    srules = spec_rules(case.get("binary_type") == ["DYN"], case.get("ff", "ELF") == "ELF")
    if sorted(json.dumps(r, sort_keys=True) for r in rules) != sorted(json.dumps(r, sort_keys=True) for r in srules):
        ctx.count("live-rule-table-differs-from-the-psABI-table")
    # give external uses the external attributes of the matching rule (the psABI's, not the code's)
    mi = model_input(pre, [], insns)
    inv_attr = {v: k for k, v in irdump.ATTRS.items()}
    ivobj = {idm.of(bi): bi for bi in m.byte_intervals}
    refs = dict((r[0], r[1]) for r in mi["refs"])
    for e in mi["exprs"]:
        if not e["addraddr"] and refs.get(e["syms"][0]) and refs[e["syms"][0]][0] == "p":
            r = [x for x in srules if e["access"] in x["access"]]
            if r:
                ex = ivobj[e["interval"]].symbolic_expressions[e["off"]]
                ivobj[e["interval"]].symbolic_expressions[e["off"]] = gtirb.SymAddrConst(ex.offset, ex.symbol, {inv_attr[a] for a in r[0]["external"]})
    if g.get("odd_attrs") is not None:
        # uses of defined symbols that carry attributes no ABI rule describes (GOT-relative access to a local
        # symbol, a TLS offset): retargeting must leave such attributes alone
        import random as _random

        r2 = _random.Random(g["odd_attrs"])
        Attr = gtirb.SymbolicExpression.Attribute
        for e in mi["exprs"]:
            if not e["addraddr"] and refs.get(e["syms"][0]) and refs[e["syms"][0]][0] in ("c", "d") and r2.random() < 0.4:
                ex = ivobj[e["interval"]].symbolic_expressions[e["off"]]
                ivobj[e["interval"]].symbolic_expressions[e["off"]] = gtirb.SymAddrConst(
                    ex.offset, ex.symbol, r2.choice([{Attr.GOT, Attr.PCREL}, {Attr.TPOFF}, {Attr.PLT}]))
        ctx.count("odd-attributes")
    before = irdump.dump_ir(m, idm)
    fwd0 = sorted([idm.of(a), idm.of(b)] for a, b in (A.symbol_forwarding.get(m) or {}).items())
    ctx.case(payload, sample={"req": g["req"], "pie": case["binary_type"]} if len(ctx.samples) < 4 else None, nontrivial=True)
    ctx.count("pie" if case["binary_type"] == ["DYN"] else "non-pie")
    rc = RewritingContext(m, gtirb_functions.Function.build_functions(m))
    reg_err = None
    eff = {}
    for a, b in g["req"]:
        try:
            rc.retarget_symbol_uses(B.sym[a], B.sym[b])
            eff[a] = b
        except ValueError as e:
            if a in eff:
                ctx.count("refused:twice")
            else:
                reg_err = str(e)
    if g["special"] == "foreign":
        _, m2 = __import__("gtirb_test_helpers").create_test_module(gtirb.Module.FileFormat.ELF, gtirb.Module.ISA.X64)
        other = gtirb.Symbol("foreign", module=m2)
        try:
            rc.retarget_symbol_uses(other, next(iter(B.sym.values())))
            ctx.violation("C18:foreign-accepted", "a symbol of another module was accepted as old symbol", payload)
        except ValueError:
            ctx.count("refused:foreign")
        try:
            rc.retarget_symbol_uses(next(iter(B.sym.values())), other)
            ctx.violation("C18:foreign-accepted", "a symbol of another module was accepted as new symbol", payload)
        except ValueError:
            ctx.count("refused:foreign")
    if g["special"] == "no-referent":
        nr = gtirb.Symbol("noref", module=m)
        try:
            rc.retarget_symbol_uses(B.sym[g["req"][0][0]] if g["req"] and g["req"][0][0] not in eff else next(iter(B.sym.values())), nr)
            ctx.violation("C18:no-referent-accepted", "a new symbol without referent was accepted", payload)
        except ValueError:
            ctx.count("refused:no-referent")
    if reg_err:
        ctx.violation("C18:registration-refused", "a valid retarget request was refused: %s" % reg_err, payload)
        return
    err = None
    try:
        rc.apply()
    except AmbiguousIRError as e:
        err = "AmbiguousIRError: " + str(e)
    except NotImplementedError:
        err = "NotImplementedError"
    except ValueError as e:
        err = "ValueError: " + str(e)[:40]
    except AssertionError as e:
        err = "AssertionError: " + str(e)[:60]
        ctx.violation("C18:assertion", "apply() died with a bare AssertionError on registered (validated) retargets: %r" % (str(e)[:80],), payload)
    except Exception as e:  # noqa: BLE001
        ctx.violation("C18:raises", "apply() raised %s: %s" % (type(e).__name__, str(e)[:120]), payload)
        return
    after = irdump.dump_ir(m, idm)
    fwd1 = sorted([idm.of(a), idm.of(b)] for a, b in (A.symbol_forwarding.get(m) or {}).items())
    ctx.count("refused:" + err.split(":")[0] if err else "applied")
    mapping = sorted([idm.of(B.sym[a]), idm.of(B.sym[b])] for a, b in eff.items())
    reqs = [{"op": "retarget", "mod": model_input(before, fwd0, emodify.decode_insns(before)), "rules": rules, "spec_rules": srules, "map": mapping}]
    if not err:
        reqs.append({"op": "cfg_check", "ir": after, "insns": emodify.decode_insns(after), "nop": [0x90],
                     "old_proxies": after["proxies"], "proxy_deletion": False})
        reqs.append({"op": "cfg_check", "ir": before, "insns": emodify.decode_insns(before), "nop": [0x90],
                     "old_proxies": before["proxies"], "proxy_deletion": False})
    pending.append((payload, err, observed(after, fwd1), reqs, eff, case))


def flush(ctx, pending):
    if not pending or not ctx.driver_ok:
        pending.clear()
        return
    try:
        ans = ask_driver([r for p in pending for r in p[3]])
    except Exception as e:  # noqa: BLE001
        ctx.driver_ok = False
        ctx.notes.append("driver failure: %r" % (e,))
        pending.clear()
        return
    k = 0
    for payload, err, obs, reqs, eff, case in pending:
        a = ans[k]
        rest = ans[k + 1:k + len(reqs)]
        k += len(reqs)
        ctx.count("corr")
        if err:
            if a.get("err", "").split(":")[0] != err.split(":")[0]:
                ctx.mismatch("the code refuses with %s, the model gives %s" % (err, json.dumps(a)[:160]), payload)
            if err.startswith("AmbiguousIRError") and "data block" in err:
                # 'retargeting control flow into data' is an invalid request only if an edge would really move: a
                # branch/call edge of the instruction's block leads to the old symbol's referent and the new one is data
                bm, rmap = reqs[0]["mod"], dict(reqs[0]["map"])
                node = {y: ((r[0] == "p", r[1]) if r else None) for y, r in bm["refs"]}
                kind_of = {y: (r[0] if r else None) for y, r in bm["refs"]}
                moves = any(o["access"] == 0 and not o["addraddr"] and o["cfg_block"] is not None and o["syms"][0] in rmap
                            and kind_of.get(rmap[o["syms"][0]]) == "d" and node.get(o["syms"][0]) is not None
                            and any(e[0] == o["cfg_block"] and (e[1], e[2]) == node[o["syms"][0]] and e[3] in (0, 1) for e in bm["cfg"])
                            for o in bm["exprs"])
                if not moves:
                    ctx.violation("C18:valid-request-refused", "apply() refuses with %s although no branch or call edge would move into a data block "
                                  "(the operands that name the symbol are memory operands of indirect transfers)" % err, payload)
            continue
        if "mod" not in a:
            ctx.mismatch("the code retargets, the model refuses: %s" % (a,), payload)
            continue
        # the statement itself, on the real result
        bm = reqs[0]["mod"]
        rmap = dict(reqs[0]["map"])
        want_cfi = [[i, rmap.get(y, y) if y is not None else None] for i, y in bm["cfi"]]
        if obs["cfi"] != want_cfi:
            ctx.violation("C18:cfi", "CFI directive symbols after retargeting: %s, expected %s" % (obs["cfi"], want_cfi), payload)
        want_fwd = sorted([k_, rmap.get(v, v)] for k_, v in bm["forwarding"])
        if obs["forwarding"] != want_fwd:
            ctx.violation("C18:symbol-forwarding", "symbolForwarding after retargeting: %s, expected %s" % (obs["forwarding"], want_fwd), payload)
        bex = {(e["interval"], e["off"]): e for e in bm["exprs"]}
        for e in obs["exprs"]:
            o = bex.get((e["interval"], e["off"]))
            if o is None:
                ctx.violation("C18:expression-created", "an expression appeared at %s+%d" % (e["interval"], e["off"]), payload)
                continue
            want_syms = [rmap.get(y, y) for y in o["syms"]]
            if e["syms"] != want_syms or e["addend"] != o["addend"]:
                ctx.violation("C18:expression", "expression at +%d: symbols %s addend %d, expected symbols %s addend %d"
                              % (e["off"], e["syms"], e["addend"], want_syms, o["addend"]), payload)
            if not any(y in rmap for y in o["syms"]) and e["attrs"] != o["attrs"]:
                ctx.violation("C18:expression-attrs", "an expression that mentions no retargeted symbol changed its attributes", payload)
        # attributes of a retargeted expression: converted by the one ABI rule that matches the old expression
        kind = {y: (r[0] if r else None) for y, r in bm["refs"]}
        for e in obs["exprs"]:
            o = bex.get((e["interval"], e["off"]))
            if o is None or o["addraddr"] or o["syms"][0] not in rmap:
                continue
            old_def = kind.get(o["syms"][0]) in ("c", "d")
            new_def = kind.get(rmap[o["syms"][0]]) in ("c", "d")
            match = [r for r in reqs[0].get("spec_rules", reqs[0]["rules"]) if o["access"] in r["access"] and sorted(o["attrs"]) == sorted(r["internal" if old_def else "external"])]
            want = sorted(o["attrs"]) if not match else sorted(match[0]["internal" if new_def else "external"])
            if len(match) <= 1 and sorted(e["attrs"]) != want:
                ctx.violation("C18:expression-attributes", "expression at +%d (old symbol %s, new symbol %s): attributes %s, the ABI rule gives %s"
                              % (e["off"], "defined" if old_def else "external", "defined" if new_def else "external", sorted(e["attrs"]), want), payload)
        # edges: every branch/call edge of a block whose transfer names a retargeted symbol leads to the new referent
        node = {y: ((r[0] == "p", r[1]) if r else None) for y, r in bm["refs"]}
        for o in bm["exprs"]:
            if o["access"] != 0 or o["addraddr"] or o["cfg_block"] is None or o["syms"][0] not in rmap:
                continue
            old_n, new_n = node.get(o["syms"][0]), node.get(rmap[o["syms"][0]])
            if old_n is None or new_n is None or old_n == new_n:
                continue
            outs = [c for c in obs["cfg"] if c[0] == o["cfg_block"] and c[3] in (0, 1)]
            had = [c for c in bm["cfg"] if c[0] == o["cfg_block"] and c[3] in (0, 1) and (c[1], c[2]) == old_n]
            if had and any((c[1], c[2]) == old_n for c in outs):
                ctx.violation("C18:edge-still-leads-to-the-old-referent", "block %d names the retargeted symbol in its transfer but keeps an edge to the old referent %s (edges %s)"
                              % (o["cfg_block"], old_n, outs), payload)
            if had and not any((c[1], c[2]) == new_n for c in outs):
                ctx.violation("C18:edge-to-the-new-referent-missing", "block %d names the retargeted symbol in its transfer but has no edge to the new referent %s (edges %s)"
                              % (o["cfg_block"], new_n, outs), payload)
        if len(obs["exprs"]) != len(bm["exprs"]):
            ctx.violation("C18:expression-lost", "%d expressions before, %d after" % (len(bm["exprs"]), len(obs["exprs"])), payload)
        mm = a["mod"]
        mine = {"exprs": sorted(mm["exprs"], key=lambda e: (e["interval"], e["off"])), "cfi": mm["cfi"],
                "forwarding": sorted(mm["forwarding"]), "cfg": sorted(mm["cfg"])}
        if mine != obs:
            ctx.mismatch("module after retargeting differs between code and model at %s" % (irdump.diff_paths(obs, mine)[:4],), payload)
        # return edges follow the calls: the flat-CFG rules on the output (only when the input obeys them)
        post, pre = rest[0], rest[1]
        if not pre.get("C03"):
            for issue in post.get("C03", []):
                ctx.count("issue:" + issue["kind"])
                if issue["kind"].startswith("return"):
                    ctx.violation("C18:" + SIG_RETURN_EDGES, issue["msg"], payload)
                else:
                    ctx.violation("C18:cfg:" + issue["kind"], issue["msg"], payload)
    pending.clear()


def gen_with_deletion(rng):
    text = [
        {"kind": "code", "func": 0, "entry": True, "insns": [["nop"], ["call", "A"]], "syms": [{"name": "main", "at_end": False}]},
        {"kind": "code", "func": 0, "insns": [["ret"]], "syms": [{"name": "m2", "at_end": False}]},
        {"kind": "code", "func": 1, "entry": True, "insns": [["nop"]] * rng.randint(1, 2), "syms": [{"name": "A", "at_end": False}]},
        {"kind": "code", "func": 1, "insns": [["ret"]], "syms": [{"name": "A2", "at_end": False}]},
        {"kind": "code", "func": 2, "entry": True, "insns": [["nop"]] * rng.randint(1, 2), "syms": [{"name": "B", "at_end": False}]},
        {"kind": "code", "func": 2, "insns": [["ret"]], "syms": [{"name": "B2", "at_end": False}]},
    ]
    which = rng.choice([2, 4, 2, 4, None])
    edits = [] if which is None else [{"op": "delete", "block": which, "off": 0, "len": len(text[which]["insns"])}]
    if rng.random() < 0.3:
        edits.append({"op": "insert", "block": 1, "off": 0, "asm": "nop"})
    return {"with_deletion": True, "case": {"isa": "X64", "ff": "ELF", "text": text, "externs": ["ext_a"], "edits": edits, "binary_type": rng.choice([["DYN"], ["EXEC"]])},
            # "at the end of rewriting" nothing refers to A any more: it may be deleted in the same context
            "delete_symbol": rng.choice([None, None, False, True])}


def check_with_deletion(ctx, g):
    """retargeting and block deletions in one apply(): the call whose operand was A names B afterwards and its edge
    leads to the block B designates then"""
    import logging

    import gtirb
    import gtirb_functions
    from gtirb_rewriting import RewritingContext

    logging.disable(logging.CRITICAL)
    case = LE.strip_case(g["case"])
    payload = dict(g, case=case)
    ctx.case(payload, sample=payload if len(ctx.samples) < 5 else None, nontrivial=True)
    ctx.count("retarget-with-deletion")
    B = emodify.build(json.loads(json.dumps(case)))
    m = B.m
    rc = RewritingContext(m, gtirb_functions.Function.build_functions(m))
    emodify.register_edits(B, rc, case["edits"])
    rc.retarget_symbol_uses(B.sym["A"], B.sym["B"])
    if g.get("delete_symbol") is not None:
        ctx.count("retarget-with-symbol-deletion")
        rc.delete_symbol(B.sym["A"], force=bool(g["delete_symbol"]))
    try:
        rc.apply()
    except Exception as e:  # noqa: BLE001
        ctx.violation("C18:with-deletion:raises", "retarget A->B together with %s raised %s: %s" % (case["edits"], type(e).__name__, str(e)[:100]), payload)
        return
    main = B.sym["main"].referent
    newref = B.sym["B"].referent
    calls = [e for e in m.ir.cfg if e.label and e.label.type == gtirb.Edge.Type.Call and isinstance(e.source, gtirb.CodeBlock) and e.source.address is not None
             and main.address <= e.source.address < main.address + 16 and e.source.section is main.section and e.source.address < B.sym["m2"].referent.address]
    ops = [ex.symbol.name for bi in m.byte_intervals for off, ex in bi.symbolic_expressions.items()
           if isinstance(ex, gtirb.SymAddrConst) and bi.address is not None and main.address <= bi.address + off < B.sym["m2"].referent.address]
    if g.get("delete_symbol") is not None and any(y.name == "A" for y in m.symbols):
        ctx.violation("C18:with-deletion:symbol", "retarget A->B and delete_symbol(A) in one context: A is still in the module", payload)
    if ops != ["B"]:
        ctx.violation("C18:with-deletion:operand", "after retargeting A->B (with %s) the call's operand names %s" % (case["edits"], ops), payload)
    if len(calls) != 1 or calls[0].target is not newref:
        ctx.violation("C18:with-deletion:edge", "after retargeting A->B (with %s) the call edge leads to %s, B designates the block at %s"
                      % (case["edits"], [getattr(e.target, "address", None) for e in calls], getattr(newref, "address", None)), payload)


# ---------------------------------------------------------------------------
# fixed-width ISA (ARM64): the symbolic expression sits at the first byte of its instruction
# ---------------------------------------------------------------------------
A64 = {"mov": "e00301aa", "nop": "1f2003d5", "ret": "c0035fd6", "bl": "00000094", "b": "00000014", "b.ne": "01000054",
       "cbz": "000000b4", "adr": "01000010"}


def gen_fixed_width(rng):
    """a block of 0-3 ordinary instructions, possibly an `adr x1, <sym>` among them, then one transfer whose operand is A"""
    prefix = [rng.choice(["mov", "nop", "adr"]) for _ in range(rng.randint(0, 3))]
    return {"fixed_width": True, "prefix": prefix, "adr_syms": [rng.choice(["A", "other"]) for x in prefix if x == "adr"],
            "insn": rng.choice(["bl", "b", "b.ne", "cbz"]), "extern": rng.random() < 0.5, "pie": rng.random() < 0.5,
            "lead": rng.choice([0, 0, 1, 2])}


def check_fixed_width(ctx, g):
    import gtirb
    from gtirb_test_helpers import add_code_block, add_edge, add_proxy_block, add_symbol, add_text_section, create_test_module
    from gtirb_rewriting import RewritingContext

    ctx.case(g, nontrivial=True)
    ctx.count("fixed-width:" + g["insn"])
    ET = gtirb.EdgeType
    ir, m = create_test_module(gtirb.Module.FileFormat.ELF, gtirb.Module.ISA.ARM64, binary_type=["DYN"] if g["pie"] else ["EXEC"])
    _, bi = add_text_section(m, address=0x1000)
    sa, sb, so = add_symbol(m, "A"), add_symbol(m, "B"), add_symbol(m, "other")
    for _ in range(g["lead"]):
        add_code_block(bi, bytes.fromhex(A64["nop"]))          # the user block is not first in its interval
    body, exprs, adr = b"", {}, list(g["adr_syms"])
    for x in g["prefix"]:
        if x == "adr":
            exprs[(len(body), 4)] = gtirb.SymAddrConst(0, sa if adr.pop(0) == "A" else so)
        body += bytes.fromhex(A64[x])
    toff = len(body)
    exprs[(toff, 4)] = gtirb.SymAddrConst(0, sa)
    user = add_code_block(bi, body + bytes.fromhex(A64[g["insn"]]), exprs)
    after = add_code_block(bi, bytes.fromhex(A64["ret"]))
    by = add_code_block(bi, bytes.fromhex(A64["mov"] + A64["bl"]), {(4, 4): gtirb.SymAddrConst(0, so)})
    by_after = add_code_block(bi, bytes.fromhex(A64["ret"]))
    blk_a = add_code_block(bi, bytes.fromhex(A64["ret"]))
    blk_o = add_code_block(bi, bytes.fromhex(A64["ret"]))
    sa.referent, so.referent = blk_a, blk_o
    new_ref = add_proxy_block(m) if g["extern"] else add_code_block(bi, bytes.fromhex(A64["ret"]))
    sb.referent = new_ref
    kind = ET.Call if g["insn"] == "bl" else ET.Branch
    cond = g["insn"] in ("b.ne", "cbz")
    add_edge(ir.cfg, user, blk_a, kind, conditional=cond)
    if g["insn"] != "b":
        add_edge(ir.cfg, user, after, ET.Fallthrough)
    add_edge(ir.cfg, by, blk_o, ET.Call)
    add_edge(ir.cfg, by, by_after, ET.Fallthrough)

    def edges():
        return sorted((id(e.source), id(e.target), e.label.type.name, bool(e.label.conditional), bool(e.label.direct)) for e in ir.cfg)

    before = edges()
    before_exprs = {k: (v.symbol.name, v.offset, sorted(a.name for a in v.attributes)) for k, v in bi.symbolic_expressions.items()}
    try:
        c = RewritingContext(m, [])
        c.retarget_symbol_uses(sa, sb)
        c.apply()
    except Exception as e:  # noqa: BLE001
        ctx.violation("C18:fixed-width-raises", "ARM64 retarget of a %s operand raised %s: %s" % (g["insn"], type(e).__name__, str(e)[:120]), g)
        return
    # exactly the edge of the instruction whose operand was A moves to B's referent
    want = sorted((s_, id(new_ref) if (t == id(blk_a) and s_ == id(user) and ty == kind.name) else t, ty, cd, dr) for s_, t, ty, cd, dr in before)
    got = edges()
    if got != want:
        ctx.violation("C18:fixed-width-edges", "ARM64 `%s A` at offset %d of its block (B %s): the edges after the retarget are not the old ones with that "
                      "instruction's edge moved to B" % (g["insn"], toff, "external" if g["extern"] else "internal"), g)
    # every expression that named A names B, same addend; the transfer's operand keeps its attributes (ARM64 has no rule for control flow)
    for k, (name, add, attrs) in before_exprs.items():
        e = bi.symbolic_expressions.get(k)
        if e is None or not isinstance(e, gtirb.SymAddrConst):
            ctx.violation("C18:fixed-width-expr", "the expression at %d disappeared" % k, g)
            continue
        wname = "B" if name == "A" else name
        if e.symbol.name != wname or e.offset != add:
            ctx.violation("C18:fixed-width-expr", "the expression at %d is %s+%d, expected %s+%d" % (k, e.symbol.name, e.offset, wname, add), g)
        nattrs = sorted(a.name for a in e.attributes)
        if k == user.offset + toff and nattrs != attrs:
            ctx.violation("C18:fixed-width-attrs", "the operand of `%s` got the attributes %s (a control-flow operand has none to convert on ARM64)" % (g["insn"], nattrs), g)
        if name != "A" and nattrs != attrs:
            ctx.violation("C18:fixed-width-attrs", "an expression that does not mention A changed its attributes to %s" % (nattrs,), g)


def run(ctx):
    for _ in range(ctx.budget(40, 800)):
        check_with_deletion(ctx, gen_with_deletion(ctx.rng))
    for _ in range(ctx.budget(150, 3000)):
        check_fixed_width(ctx, gen_fixed_width(ctx.rng))
    pending = []
    for _ in range(ctx.budget(1000, 25000)):
        check_case(ctx, gen(ctx.rng), pending)
        if len(pending) >= 200:
            flush(ctx, pending)
    flush(ctx, pending)


def replay(ctx, payload):
    inner = payload.get("case", payload)
    if isinstance(inner, dict) and inner.get("fixed_width"):
        check_fixed_width(ctx, inner)
        return
    if isinstance(inner, dict) and inner.get("with_deletion"):
        check_with_deletion(ctx, inner)
        return
    if payload.get("with_deletion"):
        check_with_deletion(ctx, payload)
        return
    pending = []
    check_case(ctx, payload.get("case", payload) if "req" in payload.get("case", {}) else payload, pending)
    flush(ctx, pending)
